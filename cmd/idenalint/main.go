// idenalint decides structural necessary conditions of the idena-go properties C01..C20
// on /repo's current source (see /verif/DESIGN.md). No code of the repository is run.
package main

import (
	"encoding/json"
	"flag"
	"fmt"
	"os"
	"path/filepath"
	"runtime/debug"
	"sort"
	"strconv"
	"strings"

	"idenaverif/internal/engine"
	"idenaverif/internal/props"
)

func verifDir() string {
	if d := os.Getenv("VERIF_DIR"); d != "" {
		return d
	}
	exe, err := os.Executable()
	if err == nil {
		d := filepath.Dir(filepath.Dir(exe))
		if _, err := os.Stat(filepath.Join(d, "properties.jsonl")); err == nil {
			return d
		}
	}
	wd, _ := os.Getwd()
	return wd
}

func main() {
	prop := flag.String("prop", "", "property id (C01..C20) or 'all'")
	tier := flag.String("tier", "", "quick|thorough (default: $VERIF_TIER or quick)")
	replay := flag.String("replay", "", "violation file to re-evaluate")
	dump := flag.String("dump", "", "debug: print SSA of pkg:Func (e.g. rpc:Server.readRequest)")
	mutant := flag.String("mutant", "", "internal: JSON file {file,old,new} applied as an overlay")
	flag.Parse()
	if *tier == "" {
		*tier = os.Getenv("VERIF_TIER")
	}
	if *tier != "thorough" {
		*tier = "quick"
	}
	seed, _ := strconv.ParseInt(os.Getenv("VERIF_SEED"), 10, 64)
	vdir := verifDir()

	onlyKey := ""
	if *replay != "" {
		b, err := os.ReadFile(*replay)
		if err != nil {
			b, err = os.ReadFile(filepath.Join(vdir, *replay))
		}
		if err != nil {
			fmt.Println("cannot read replay file:", err)
			os.Exit(2)
		}
		var v struct{ Property, Key string }
		if err := json.Unmarshal(b, &v); err != nil {
			fmt.Println("bad replay file:", err)
			os.Exit(2)
		}
		*prop, onlyKey = v.Property, v.Key
	}

	var overlay map[string][]byte
	if *mutant != "" {
		var err error
		overlay, err = props.MutantOverlay(*mutant)
		if err != nil {
			fmt.Println("MUTANT-SKIP:", err)
			os.Exit(3)
		}
	}

	if *dump != "" {
		p, err := engine.Load(engine.LoadOpts{Overlay: overlay})
		if err != nil {
			fmt.Println(err)
			os.Exit(2)
		}
		if *dump == "model" {
			props.DumpStateModel(p)
			return
		}
		parts := strings.SplitN(*dump, ":", 2)
		f, err := p.Func(parts[0], parts[1])
		if err != nil {
			fmt.Println(err)
			os.Exit(2)
		}
		f.WriteTo(os.Stdout)
		for _, a := range engine.Anon(f) {
			a.WriteTo(os.Stdout)
		}
		return
	}

	ids := []string{*prop}
	if *prop == "all" {
		ids = nil
		for id := range props.Registry {
			ids = append(ids, id)
		}
		sort.Strings(ids)
	}
	for _, id := range ids {
		if _, ok := props.Registry[id]; !ok {
			fmt.Printf("unknown property %q\n", id)
			os.Exit(2)
		}
	}
	p, err := engine.Load(engine.LoadOpts{Overlay: overlay})
	if err != nil {
		fmt.Printf("CHECKER-ERROR load failed: %v\n", err)
		os.Exit(2)
	}
	exit := 0
	for _, id := range ids {
		r := engine.NewReport(id, *tier, seed)
		r.Extra["load_s"] = p.LoadSecs
		r.Extra["packages_loaded"] = p.AllPkgs
		r.Extra["repo_packages"] = len(p.Repo)
		func() {
			defer func() {
				if e := recover(); e != nil {
					r.Errorf("analyser panic: %v\n%s", e, debug.Stack())
				}
			}()
			props.Registry[id](p, r)
			if *tier == "thorough" && *mutant == "" && onlyKey == "" {
				props.RunWitnesses(id, r, vdir)
			}
		}()
		code := 0
		if *mutant != "" {
			// mutant mode: print violated keys only, never touch evidence
			code = r.FinishMutant()
		} else {
			code = r.Finish(vdir, onlyKey)
		}
		if code > exit {
			exit = code
		}
	}
	os.Exit(exit)
}
