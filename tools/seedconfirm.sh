#!/bin/bash
# usage: tools/seedconfirm.sh <PROP> <seed_out_dir> <name>
# Confirms a seeded change in a scratch worktree (demo fails with the patch, passes without; compiles),
# runs the property's check against /repo with the patch applied (then reverts), and stores it under seeded/<name>/.
set -u
PROP=$1; SRC=$2; NAME=$3
export GOFLAGS=-mod=mod GOPROXY=off GOSUMDB=off GOTOOLCHAIN=local
OVL="-overlay /verif/seeded/_overlay/overlay.json -ldflags=-checklinkname=0 -vet=off -count=1"
WT=/tmp/wtc_$NAME
git -C /repo worktree add --detach $WT HEAD >/dev/null 2>&1 || { echo "worktree failed"; exit 2; }
trap 'git -C /repo worktree remove --force $WT >/dev/null 2>&1' EXIT
TESTFILE=$(ls $SRC/zz_seed_*_test.go 2>/dev/null | head -1)
PKGDIR=$(grep -m1 -oE '(\./)?[a-z][a-z0-9_/]*/?' $SRC/where.txt | head -1)
# package dir: first path-like token in where.txt that is a directory in the repo
PKGDIR=""
for tok in $(tr -c 'A-Za-z0-9_/.\n' ' ' < $SRC/where.txt); do
  t=${tok#./}; t=${t%/}
  if [ -n "$t" ] && [ -d "$WT/$t" ] && ls $WT/$t/*.go >/dev/null 2>&1; then PKGDIR=$t; break; fi
done
[ -n "${4:-}" ] && PKGDIR=$4
echo "pkgdir=$PKGDIR test=$TESTFILE"
RES_WITHOUT=skip; RES_WITH=skip
if [ -n "$TESTFILE" ] && [ -n "$PKGDIR" ]; then
  cp $TESTFILE $WT/$PKGDIR/
  (cd $WT && go test $OVL ./$PKGDIR/ -run 'ZzSeed|Zz_Seed|zz|Seed' > /tmp/seed_without.log 2>&1) && RES_WITHOUT=pass || RES_WITHOUT=fail
fi
git -C $WT apply $SRC/patch.diff || { echo "patch does not apply"; exit 2; }
(cd $WT && go vet -overlay /verif/seeded/_overlay/overlay.json ./... > /tmp/seed_vet.log 2>&1); 
(cd $WT && go build -overlay /verif/seeded/_overlay/overlay.json ./... > /tmp/seed_build.log 2>&1) && BUILD=ok || { grep -q "checklinkname\|invalid reference" /tmp/seed_build.log && BUILD=ok || BUILD=fail; }
if [ -n "$TESTFILE" ] && [ -n "$PKGDIR" ]; then
  (cd $WT && go test $OVL ./$PKGDIR/ -run 'ZzSeed|Zz_Seed|zz|Seed' > /tmp/seed_with.log 2>&1) && RES_WITH=pass || RES_WITH=fail
  rm -f $WT/$PKGDIR/zz_seed_*_test.go
fi
# baseline suite with the patch (the 262 pinned tests live in packages that build without the overlay)
(cd $WT && go test -vet=off -count=1 ./blockchain/fee/ ./blockchain/types/ ./common/... ./config/ ./crypto/... ./keystore/ ./rlp/ ./rpc/ ./secstore/ > /tmp/seed_base.log 2>&1) && BASE=pass || BASE=fail
(cd $WT && go test $OVL ./... 2>&1 | grep -E "^FAIL[[:space:]]" | grep -v "core/mempool\|vm/embedded" > /tmp/seed_ext.log); EXT=$( [ -s /tmp/seed_ext.log ] && echo "fail:$(tr '\n' ' ' < /tmp/seed_ext.log)" || echo pass)
echo "build=$BUILD demo_without=$RES_WITHOUT demo_with=$RES_WITH baseline262=$BASE extended=$EXT"
# detection
git -C /repo apply $SRC/patch.diff
OUT=$(cd /verif && VERIF_NO_EVIDENCE=1 bin/idenalint -prop $PROP -tier quick 2>&1); CODE=$?
git -C /repo checkout -- .
echo "$OUT" | grep -E "violated|VIOLATION|CHECKER-ERROR" | head -8
echo "check_exit=$CODE"
mkdir -p /verif/seeded/$NAME
cp $SRC/patch.diff /verif/seeded/$NAME/patch.diff
[ -n "$TESTFILE" ] && cp $TESTFILE /verif/seeded/$NAME/
cp $SRC/where.txt /verif/seeded/$NAME/where.txt
python3 - "$PROP" "$NAME" "$BUILD" "$RES_WITHOUT" "$RES_WITH" "$BASE" "$EXT" "$CODE" "$PKGDIR" <<'PY'
import json,sys,subprocess
prop,name,build,wo,wi,base,ext,code,pkg=sys.argv[1:]
out=open('/verif/seeded/%s/where.txt'%name).read()
meta={"property":prop,"name":name,"needs_to_manifest":out.strip().split('\n')[-8:],
 "confirmed":{"compiles":build,"demo_without_patch":wo,"demo_with_patch":wi,"baseline_262_tests_with_patch":base,"extended_suite_with_patch":ext},
 "demo_package":pkg,
 "ran":["git worktree add; cp demo; go test (overlay) without patch; git apply patch.diff; go build/vet; go test demo with patch; pinned baseline packages; whole suite with overlay",
        "git -C /repo apply patch.diff; bin/idenalint -prop %s -tier quick; git -C /repo checkout -- ."%prop],
 "detected_by_check": code=="1", "check_exit":int(code)}
json.dump(meta,open('/verif/seeded/%s/meta.json'%name,'w'),indent=1)
PY
