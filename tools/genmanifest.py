#!/usr/bin/env python3
"""Generates /verif/MANIFEST.json from tools/claims.json (one entry per claimed property)
and properties.jsonl (every unclaimed property goes to not_applicable with its reason)."""
import json, os, sys
here = os.path.dirname(os.path.dirname(os.path.abspath(__file__)))
claims = json.load(open(os.path.join(here, "tools", "claims.json")))
props = [json.loads(l) for l in open(os.path.join(here, "properties.jsonl")) if l.strip()]
ENV = "env -u GOWORK GOFLAGS=-mod=mod GOPROXY=off GOSUMDB=off GOTOOLCHAIN=local"
checks, na = [], []
for p in props:
    pid = p["id"]
    c = claims.get(pid)
    if not c or not c.get("claimed"):
        na.append({"property_id": pid, "reason": (c or {}).get("reason", "no sound structural rule built for this property yet; see DESIGN.md section 4")})
        continue
    checks.append({
        "property_id": pid,
        "quick_cmd": f"bin/idenalint -prop {pid} -tier quick",
        "thorough_cmd": f"bin/idenalint -prop {pid} -tier thorough",
        "evidence_file": f"evidence/{pid}.json",
        "replay_cmd_template": "bin/idenalint -replay {path}",
        "engine": "idenalint",
        "level_claimed": {"category": "other", "text": c["text"], "design_ref": c.get("design_ref", "DESIGN.md section 3 / " + pid)},
        "level_note": c["note"],
        "technique": c["technique"],
    })
m = {
    "version": 1,
    "setup_cmd": f"cd /verif && {ENV} go build -o bin/idenalint ./cmd/idenalint",
    "hooks": {
        "guard": "verif",
        "enable": "none needed: the analyser reads /repo's source (go/packages from source, go/ssa); no instrumentation exists in /repo",
        "baseline_off_cmd": "cd /repo && go test -vet=off -count=1 -timeout 25m ./...",
        "source_commits": [],
        "add_only": True,
    },
    "engines": [{
        "name": "idenalint",
        "path": "cmd/idenalint",
        "serves_properties": [c["property_id"] for c in checks],
        "kind_free_text": "repository-specific static analyser over the type-checked program: go/packages (from source) + go/ssa + CHA/VTA call graph; must-pass-through by edge cuts, guard dominance, who-may-call/who-may-write, writer/reader agreement, effect/idiom analysis of unordered iteration, locksets. Runs no code of the repository.",
    }],
    "checks": checks,
    "not_applicable": na,
    "notes": "All verdicts are static (level 'other'): each check decides named structural necessary conditions of its property on /repo's current source and says in level_note which behavioural clauses it does not decide. Exit 0 held / 1 VIOLATION / 2 checker could not run (load failure, anchor moved, floor not reached). Known findings: known_findings.json.",
}
json.dump(m, open(os.path.join(here, "MANIFEST.json"), "w"), indent=1)
print("claimed:", [c["property_id"] for c in checks], "n/a:", len(na))
