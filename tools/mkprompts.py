#!/usr/bin/env python3
"""usage: tools/mkprompts.py <round> [props...]
Writes /tmp/wt/prompt_r<round>_<id>.txt for the seeding sub-agents: property text (from
properties.jsonl), the task, and the list of sites earlier rounds already used (from the hunk
headers of seeded/<id>-seed*/patch.diff plus any /tmp/wt/r*/<id>/seed_out/*/patch.diff)."""
import json, sys, re, glob, os
rnd = sys.argv[1]
only = set(sys.argv[2:])
tmpl = open('/tmp/wt/prompt_r3_C10.txt').read()
head, rest = tmpl.split('---\n', 1)
_, tail = rest.split('\n---\n', 1)
pre, post = tail.split('Favour changes that a careful reviewer could plausibly approve:\n', 1)
post = post[post.index('For each change also write a demonstration'):]
for line in open('/verif/properties.jsonl'):
    p = json.loads(line)
    pid = p['id']
    if only and pid not in only:
        continue
    files = p['anchors']['files']
    text = "%s\n\n%s\n\nQuantified: %s\n\nWhere it lives (files): %s\n" % (p['title'], p['statement'], p['quantifier']['text'], ', '.join(files))
    sites = []
    for pd in sorted(glob.glob('/verif/seeded/%s-seed*/patch.diff' % pid)) + sorted(glob.glob('/tmp/wt/r*/%s/seed_out/*/patch.diff' % pid)):
        cur = None
        for l in open(pd):
            if l.startswith('+++ b/'):
                cur = l[6:].strip()
            m = re.match(r'@@ [^@]*@@ (.*)', l)
            if m and cur:
                s = '- %s: %s' % (cur, m.group(1).replace('func ', '').rstrip(' {')[:75])
                if s not in sites:
                    sites.append(s)
    wt = '/tmp/wt/r%s/%s' % (rnd, pid)
    out = (head + '---\n' + text + '---\n' + pre + 'Favour changes that a careful reviewer could plausibly approve:\n' + '\n'.join(sites) + '\n' + post)
    out = out.replace('Favour changes that a careful reviewer could plausibly approve:', 'Read the property statement clause by clause and prefer clauses and mechanisms that none of the sites below belongs to (including helper packages the listed files call into, configuration-dependent branches such as consensus-version switches, start-up/restore paths, and the less travelled transaction or message types). Favour changes that a careful reviewer could plausibly approve:')
    out = out.replace('/tmp/wt/r3/C10', wt)
    open('/tmp/wt/prompt_r%s_%s.txt' % (rnd, pid), 'w').write(out)
    print(pid, len(sites), 'used sites')
