#!/bin/bash
# usage: tools/benignrun.sh <dir with NN.diff> [out.md]
# Applies each behaviour-preserving patch to /repo, runs every property's quick check in one process,
# reverts. Any violation or checker error is a false alarm (or an over-tight floor/anchor) to triage.
export GOFLAGS=-mod=mod GOPROXY=off GOSUMDB=off GOTOOLCHAIN=local; unset GOWORK
DIR=$1; OUT=${2:-/tmp/benign_result.md}
# BENIGN_REPO / BENIGN_BIN: run against a scratch worktree with a development binary instead
R=${BENIGN_REPO:-/repo}; BIN=${BENIGN_BIN:-bin/idenalint}
[ "$R" != /repo ] && export VERIF_REPO=$R
cd /verif
[ -n "$(git -C $R status --porcelain)" ] && { echo "$R not clean"; exit 2; }
echo "| patch | applies | exit | alarms |" > $OUT; echo "|---|---|---|---|" >> $OUT
for d in $(ls $DIR/*.diff | sort); do
  n=$(basename $d .diff)
  if ! git -C $R apply --whitespace=nowarn $d 2>/dev/null; then echo "| $n | no | - | - |" >> $OUT; continue; fi
  res=$(VERIF_NO_EVIDENCE=1 $BIN -prop all -tier quick 2>&1); ex=$?
  al=$(echo "$res" | grep -E "^\s+violated |CHECKER-ERROR" | cut -c1-230 | tr '\n' ';' | sed 's/|/\\|/g')
  echo "| $n | yes | $ex | ${al:-—} |" >> $OUT
  git -C $R checkout -- . ; git -C $R clean -fdq -- . 2>/dev/null
done
git -C $R status --short
grep -v "| 0 | — |" $OUT
