#!/bin/bash
# Re-runs every stored seeded change against the current checker and writes seeded/MATRIX.md.
# Usage: tools/seedmatrix.sh   (applies each patch to /repo, runs the property's quick check, reverts)
export GOFLAGS=-mod=mod GOPROXY=off GOSUMDB=off GOTOOLCHAIN=local; unset GOWORK
cd /verif
out=seeded/MATRIX.md
echo "| seeded change | property | applies | check exit | reported by |" > $out
echo "|---|---|---|---|---|" >> $out
if [ -n "$(git -C /repo status --porcelain)" ]; then echo "/repo not clean"; exit 2; fi
for d in seeded/C*/; do
  n=$(basename $d); prop=${n%%-*}
  [ -f $d/patch.diff ] || continue
  if git -C /repo apply --whitespace=nowarn /verif/$d/patch.diff 2>/dev/null; then ap=yes; else
    if git -C /repo apply --3way --whitespace=nowarn /verif/$d/patch.diff 2>/dev/null; then ap="yes (3way)"; else ap=no; fi
  fi
  if [ "$ap" = no ]; then echo "| $n | $prop | no | - | - |" >> $out; git -C /repo checkout -- . ; git -C /repo reset -q; continue; fi
  res=$(VERIF_NO_EVIDENCE=1 bin/idenalint -prop $prop -tier quick 2>&1); ex=$?
  keys=$(echo "$res" | grep -E "^\s+violated " | sed -E 's/^\s+violated ([^ ]+\|[^|]*\|[^@]*) at .*/\1/' | cut -c1-110 | sort -u | head -4 | tr '\n' ';' | sed 's/|/\\|/g')
  echo "| $n | $prop | $ap | $ex | ${keys:-—} |" >> $out
  git -C /repo reset -q; git -C /repo checkout -- .
done
git -C /repo status --short
cat $out
