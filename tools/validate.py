#!/usr/bin/env python3
import json, jsonschema, glob, sys
m=json.load(open('/verif/MANIFEST.json')); jsonschema.validate(m, json.load(open('/root/.vp/MANIFEST.schema.json')))
es=json.load(open('/root/.vp/EVIDENCE.schema.json'))
for c in m['checks']:
    e=json.load(open('/verif/'+c['evidence_file'])); jsonschema.validate(e, es)
    assert e['property_id']==c['property_id']
print("manifest + %d evidence files valid"%len(m['checks']))
