package props

import (
	"fmt"
	"go/token"
	"go/types"
	"os"
	"sort"
	"strings"

	"golang.org/x/tools/go/ssa"

	"idenaverif/internal/engine"
)

func init() { register("C14", C14) }

// C14 — the mempool stays coherent under any submission, block and rebuild order.
// Decided: the concurrency-shape clause (guarded-by, lock order, nothing blocking under the pool lock,
// release on all paths) and three structural conditions of the list invariants. Not decided: the
// list invariants themselves (nonce continuity, retention), which are over runtime histories.
func C14(p *engine.Prog, r *engine.Report) {
	r.Explanation = "Lock discipline of the transaction pool, decided by must-hold locksets over the SSA CFG with callee summaries and entry locksets from all call sites: (R1) every field of TxPool, txMap, sortedTxs, shortHashTxMap, txKeeper and NonceCache that is written after construction/start-up has one lock held (write mode at writes) at every access; (R2) no lock is acquired again while held and the acquired-while-holding graph over the pool's locks is acyclic; (R3) no event publication, channel send or file I/O while pool.mutex / txMap locks / the nonce-cache lock are held; (R4) every function that takes one of these locks releases it on every return path (acquire wrappers excepted), and TxPool.add's flag-based deferred unlock mirrors the lock exactly; plus structural necessary conditions of the list invariants: (R5) TxPool.Remove removes the transaction from every index independently of the others (no removal is control-dependent on another container's lookup) and ResetTo removes every transaction of the applied block; (R6) in the block builder every increase of blockGas is dominated by the cap test on blockGas plus that same amount (what is checked is what is charged); (R7) the lazy caches of the read-only state the pool validates against: a getter of StateDB/IdentityStateDB that publishes a loaded object through a setter storing field F under the state lock reads F under that lock (sibling agreement of the eight lazy getters). Not decided: nonce continuity and retention of accepted transactions (value-level), absence of panics."
	r.Assumptions = []string{"lock identity is per struct type and field (instances conflated)", "function values registered with Subscribe/AfterFunc or started with go run with no lock held; closures passed to ordinary calls run synchronously under the creator's locks", "TxPool.Initialize / txKeeper loading run during Node start-up before the pool is shared"}
	la := lockAnalysis(p)

	owners := map[string]bool{"TxPool": true, "txMap": true, "sortedTxs": true, "shortHashTxMap": true, "txKeeper": true, "NonceCache": true, "AsyncTxPool": true}
	ownerPkgs := []string{"core/mempool", "core/state"}
	roots := func(f *ssa.Function) bool {
		n := engine.FuncName(f)
		switch {
		case strings.HasSuffix(n, "node.Node.StartWithHeight"), f.Parent() == nil && strings.HasPrefix(f.Name(), "New") && f.Signature.Recv() == nil, f.Name() == "init":
			return true
		case f.Parent() == nil && f.Signature.Recv() == nil && strings.HasPrefix(f.Name(), "new"):
			return true
		}
		return false
	}
	initPhase := initPhaseFuncs(p, la, roots)
	acc := fieldAccesses(p, la, owners, initPhase)
	// sortedTxs has no lock of its own: its instances live in TxPool.executableTxs and are reached under
	// pool.mutex — the guarded-by rule checks exactly that (the lock held is TxPool.mutex).
	nf := guardedBy(p, r, "C14-R1", acc, nil)
	r.Floor("C14-R1", 6, "fields written after construction")
	_ = nf

	var fns []*ssa.Function
	for _, pk := range ownerPkgs {
		for _, f := range funcsOfPkg(p, pk) {
			if f.Blocks != nil && f.Synthetic == "" && !strings.Contains(p.Pos(f.Pos()), "_test.go") {
				if pk == "core/state" && !strings.Contains(p.Pos(f.Pos()), "nonce_cache") {
					continue
				}
				fns = append(fns, f)
				r.Fn(engine.FuncName(f))
			}
		}
	}
	track := func(id string) bool {
		for o := range owners {
			if strings.HasPrefix(id, o+".") {
				return true
			}
		}
		return false
	}
	lockOrder(p, la, r, "C14-R2", fns, track, map[string]string{"txMap.mutex": "distinct instances (pool.all vs per-sender pending sets)"})
	r.Floor("C14-R2", 2, "re-entrancy, cycles")
	noBlockingUnderLock(p, la, r, "C14-R3", fns, func(id string) bool { return track(id) && !strings.HasPrefix(id, "txKeeper.") }, nil)
	r.Floor("C14-R3", 1, "blocking under lock")
	n4 := releasedOnAllPaths(p, la, r, "C14-R4", fns, track)
	if add := mustFunc(p, r, "core/mempool", "TxPool.add"); add != nil {
		flagIdiom(p, la, r, "C14-R4", add)
	}
	_ = n4
	r.Floor("C14-R4", 15, "functions that lock + flag idiom")

	c14R5(p, r)
	c14R6(p, r)
	c14R7(p, r, la)
	if os.Getenv("VERIF_C14_STATEDB") != "" {
		acc2 := fieldAccesses(p, la, map[string]bool{"StateDB": true, "IdentityStateDB": true, "AppState": true}, initPhase)
		guardedBy(p, r, "C14-probe", acc2, nil)
	}
}

// c14R5: index agreement of Remove / ResetTo.
func c14R5(p *engine.Prog, r *engine.Report) {
	rm := mustFunc(p, r, "core/mempool", "TxPool.Remove")
	rt := mustFunc(p, r, "core/mempool", "TxPool.ResetTo")
	if rm == nil || rt == nil {
		return
	}
	// containers the pool indexes a transaction in: fields of TxPool whose element type has a Remove
	// method, found from the Remove calls themselves
	type rem struct {
		c     *ssa.Call
		field string
	}
	var rems []rem
	fieldOfRecv := func(v ssa.Value) string {
		sl := engine.BackSlice(v, engine.DefaultSlice)
		var fs []string
		for x := range sl {
			if o, f, ok := engine.FieldOf(x); ok && o == "TxPool" {
				fs = append(fs, f)
			}
		}
		sort.Strings(fs)
		if len(fs) > 0 {
			return fs[0]
		}
		return ""
	}
	for _, c := range engine.Calls(rm) {
		cc, ok := c.(*ssa.Call)
		if !ok || !engine.CallNameIs(cc, "Remove") || len(cc.Call.Args) == 0 || cc.Call.IsInvoke() {
			continue
		}
		if f := fieldOfRecv(cc.Call.Args[0]); f != "" {
			rems = append(rems, rem{cc, f})
		}
	}
	seen := map[string]bool{}
	for _, x := range rems {
		seen[x.field] = true
		// controlling branches
		var foreign []string
		for _, iff := range engine.Ifs(rm) {
			for s := 0; s < 2; s++ {
				cut := map[engine.Edge]bool{{From: iff.Block(), Succ: 1 - s}: true}
				// if cutting the other edge keeps it reachable but cutting this one does not, the
				// branch controls the call
				if engine.ReachAvoiding(rm, rm.Blocks[0], map[engine.Edge]bool{{From: iff.Block(), Succ: s}: true}, nil)[x.c.Block()] {
					continue
				}
				_ = cut
				sl := engine.BackSlice(iff.Cond, engine.DefaultSlice)
				for v := range sl {
					if o, f, ok := engine.FieldOf(v); ok && o == "TxPool" && f != x.field && f != "mutex" {
						foreign = append(foreign, fmt.Sprintf("%s (branch at %s)", f, p.InstrPos(iff)))
					}
				}
			}
		}
		sort.Strings(foreign)
		r.Check(len(foreign) == 0, "C14-R5", "TxPool.Remove|removal from "+x.field+" does not depend on another index", p.InstrPos(x.c), "controlled only by its own lookup", "the removal from "+x.field+" only happens depending on the content of "+strings.Join(foreign, ", ")+": a transaction can stay in one index after it left the others")
	}
	for _, want := range []string{"all", "shortHashAll", "executableTxs", "pendingTxs"} {
		if !seen[want] {
			r.Bad("C14-R5", "TxPool.Remove|removal from "+want+" does not depend on another index", p.Pos(rm.Pos()), "TxPool.Remove does not remove from "+want)
		}
	}
	// ResetTo removes every transaction of the block: a Remove call in a loop ranging over
	// block.Body.Transactions, not guarded inside the loop
	ok := false
	for _, c := range callsTo(rt, "core/mempool.TxPool.Remove") {
		hdr := engine.LoopHeaderOf(c.Block())
		if hdr == nil {
			continue
		}
		arg := c.Common().Args[1]
		sl := engine.BackSlice(arg, engine.DefaultSlice)
		fromBlock := false
		for v := range sl {
			if o, f, isF := engine.FieldOf(v); isF && o == "Body" && f == "Transactions" {
				fromBlock = true
			}
		}
		if !fromBlock {
			continue
		}
		// unconditional inside the loop: every back edge passes the call
		ok = true
		for _, pr := range hdr.Preds {
			if !engine.ReachAvoiding(rt, hdr, nil, nil)[pr] || pr == rt.Blocks[0] {
				continue
			}
			// pr is a latch if hdr dominates it
			if hdr.Dominates(pr) && !engine.MustPassInstr(rt, pr.Instrs[len(pr.Instrs)-1], []ssa.Instruction{c}) {
				ok = false
			}
		}
	}
	r.Check(ok, "C14-R5", "TxPool.ResetTo|every transaction of the applied block is removed", p.Pos(rt.Pos()), "Remove(tx) for each tx of block.Body.Transactions, unconditionally", "some transaction of an applied block can stay in the pool")
	r.Floor("C14-R5", 5, "4 indexes + ResetTo")
}

// c14R6: what is checked against the cap is what is charged.
func c14R6(p *engine.Prog, r *engine.Report) {
	n := 0
	for _, f := range funcsOfPkg(p, "core/mempool") {
		for _, st := range storesToField([]*ssa.Function{f}, "buildingContext", "blockGas") {
			// fresh object in the constructor
			if a, isA := engine.Origin(st.Addr.(*ssa.FieldAddr).X).(*ssa.Alloc); isA && a.Parent() == f {
				continue
			}
			n++
			key := engine.RelName(f) + "|blockGas grows only by the amount tested against the cap"
			add, isAdd := st.Val.(*ssa.BinOp)
			if !isAdd || add.Op != token.ADD {
				r.Bad("C14-R6", key, p.InstrPos(st), "blockGas is not increased by addition")
				continue
			}
			amount := add.Y
			if _, isLoad := loadOfField(add.Y, "buildingContext", "blockGas"); isLoad {
				amount = add.X
			}
			// the cap tests: conditions comparing (blockGas + X') with maxBlockGas
			var guards []engine.Guard
			var testedDesc []string
			for _, iff := range engine.Ifs(f) {
				cmp, isCmp := iff.Cond.(*ssa.BinOp)
				if !isCmp || (cmp.Op != token.GTR && cmp.Op != token.LEQ && cmp.Op != token.LSS && cmp.Op != token.GEQ) {
					continue
				}
				lhs, rhs := cmp.X, cmp.Y
				op := cmp.Op
				if _, isCap := loadOfField(engine.Unwrap(lhs), "buildingContext", "maxBlockGas"); isCap {
					lhs, rhs = rhs, lhs
					switch op {
					case token.GTR:
						op = token.LSS
					case token.LSS:
						op = token.GTR
					case token.GEQ:
						op = token.LEQ
					case token.LEQ:
						op = token.GEQ
					}
				}
				if _, isCap := loadOfField(engine.Unwrap(rhs), "buildingContext", "maxBlockGas"); !isCap {
					continue
				}
				sum, isSum := engine.Unwrap(lhs).(*ssa.BinOp)
				if !isSum || sum.Op != token.ADD {
					continue
				}
				tested := sum.Y
				if _, isLoad := loadOfField(sum.Y, "buildingContext", "blockGas"); isLoad {
					tested = sum.X
				} else if _, isLoad := loadOfField(sum.X, "buildingContext", "blockGas"); !isLoad {
					continue
				}
				testedDesc = append(testedDesc, engine.PathOf(tested))
				if !sameAmount(amount, tested, 0) {
					continue
				}
				// pass edge: sum <= cap
				passTrue := op == token.LEQ || op == token.LSS
				if op == token.LSS || op == token.GEQ {
					// strictness differs from the validator's `>` — still a cap test, stricter or laxer by one
					if op == token.GEQ {
						passTrue = false
					}
				}
				guards = append(guards, engine.Guard{If: iff, PassTrue: passTrue, Note: "blockGas+amount <= maxBlockGas"})
			}
			ok := len(guards) > 0 && engine.OnlyThroughPass(f, st.Block(), guards)
			if !ok && len(guards) > 0 {
				// the charge may sit behind a loop flag that is set only after the test passed
				for _, b := range f.Blocks {
					for _, ins := range b.Instrs {
						if ph, isPhi := ins.(*ssa.Phi); isPhi && isBoolType(ph.Type()) && engine.OnlyThroughPassFlag(f, st.Block(), guards, ph) {
							ok = true
						}
					}
				}
			}
			r.Check(ok, "C14-R6", key, p.InstrPos(st), "charged "+engine.PathOf(amount)+" behind the cap test on the same amount", "blockGas is increased by "+engine.PathOf(amount)+" but the cap test covers {"+strings.Join(testedDesc, ", ")+"}: the offered list can exceed the block gas cap")
		}
	}
	// exact next-nonce gate: a transaction is offered only if its nonce is the sender's running nonce + 1
	for _, name := range []string{"buildingContext.addTxsToBlock", "buildingContext.addNextPriorityTxToBlock"} {
		f := mustFunc(p, r, "core/mempool", name)
		if f == nil {
			continue
		}
		g := guardsWhere(f, func(cond ssa.Value) (bool, bool, string) {
			x, y, isEq, ok := eqCond(cond)
			if !ok {
				return false, false, ""
			}
			for _, pr := range [][2]ssa.Value{{x, y}, {y, x}} {
				add, isAdd := engine.Unwrap(pr[0]).(*ssa.BinOp)
				if !isAdd || add.Op != token.ADD {
					continue
				}
				if k, isK := engine.ConstInt(add.Y); !isK || k != 1 {
					continue
				}
				if _, fld, okF := engine.FieldOf(engine.Origin(pr[1])); !okF || fld != "AccountNonce" {
					continue
				}
				// the running nonce: from curNoncesPerSender (possibly advanced by earlier accepted transactions)
				run := false
				for v := range engine.BackSlice(add.X, engine.DefaultSlice) {
					if _, fld, okF := engine.FieldOf(v); okF && fld == "curNoncesPerSender" {
						run = true
					}
				}
				if run {
					return true, isEq, "running nonce + 1 == tx.AccountNonce"
				}
			}
			return false, false, ""
		})
		n := 0
		ok := len(g) > 0
		for _, b := range f.Blocks {
			for _, ins := range b.Instrs {
				st, isSt := ins.(*ssa.Store)
				if !isSt {
					continue
				}
				if _, fld, okF := engine.FieldOf(st.Addr); okF && fld == "blockTxs" {
					n++
					if !engine.OnlyThroughPass(f, b, g) {
						// the priority run is charged behind the loop flag (see R6)
						okFlag := false
						for _, bb := range f.Blocks {
							for _, i2 := range bb.Instrs {
								if ph, isPhi := i2.(*ssa.Phi); isPhi && isBoolType(ph.Type()) && engine.OnlyThroughPassFlag(f, b, g, ph) {
									okFlag = true
								}
							}
						}
						if !okFlag {
							ok = false
						}
					}
				}
			}
		}
		r.Check(ok && n > 0, "C14-R6", engine.RelName(f)+"|offered only with nonce == running nonce + 1", p.Pos(f.Pos()), "exact equality gate before blockTxs grows", "a transaction can be offered although its nonce is not the sender's running nonce + 1 (an inequality or no gate at all): after a skipped transaction its successors are still offered — the list has a nonce hole and the block built from it is invalid")
	}
	r.Floor("C14-R6", 4, "two builder loops")
	_ = n
}

// sameAmount: the two values denote the same quantity — same value, pure calls of the same function on
// the same arguments, or a loop-carried accumulator one of whose incoming values is the other.
func sameAmount(a, b ssa.Value, depth int) bool {
	if depth > 4 {
		return false
	}
	a, b = engine.Unwrap(a), engine.Unwrap(b)
	if a == b || engine.Origin(a) == engine.Origin(b) {
		return true
	}
	ca, okA := a.(*ssa.Call)
	cb, okB := b.(*ssa.Call)
	if okA && okB {
		if ca.Call.StaticCallee() != nil && ca.Call.StaticCallee() == cb.Call.StaticCallee() && len(ca.Call.Args) == len(cb.Call.Args) {
			for i := range ca.Call.Args {
				if engine.Origin(ca.Call.Args[i]) != engine.Origin(cb.Call.Args[i]) {
					return false
				}
			}
			return true
		}
		return false
	}
	if ph, ok := a.(*ssa.Phi); ok {
		for _, e := range ph.Edges {
			if c, isC := engine.ConstInt(e); isC && c == 0 {
				continue
			}
			if sameAmount(e, b, depth+1) {
				return true
			}
		}
	}
	return false
}

func isBoolType(t types.Type) bool {
	b, ok := t.Underlying().(*types.Basic)
	return ok && b.Kind() == types.Bool
}

// c14R7: lazy caches of the shared read-only state. A getter that publishes a loaded object through a
// setter storing field F under lock L must itself read F under L (its map-based siblings do) — an
// unlocked check followed by a locked publication is a data race on every view shared by goroutines
// (the pool validates every submission against one cached read-only AppState per height).
func c14R7(p *engine.Prog, r *engine.Report, la *engine.LockAnalysis) {
	n := 0
	for _, typ := range []string{"StateDB", "IdentityStateDB"} {
		var methods []*ssa.Function
		for _, f := range funcsOfPkg(p, "core/state") {
			if f.Blocks == nil || f.Synthetic != "" || isTestish(p.Pos(f.Pos())) || f.Signature.Recv() == nil {
				continue
			}
			if nn := engine.NamedOf(f.Signature.Recv().Type()); nn != nil && nn.Obj().Name() == typ {
				methods = append(methods, f)
			}
		}
		// setter summary: field -> lock held at a store of it (receiver field, or mutation of the map it holds)
		type pub struct {
			field, lock string
		}
		storesOf := func(f *ssa.Function) []pub {
			var out []pub
			if len(f.Params) == 0 {
				return nil
			}
			recv := ssa.Value(f.Params[0])
			for _, b := range f.Blocks {
				for _, ins := range b.Instrs {
					var fa *ssa.FieldAddr
					switch x := ins.(type) {
					case *ssa.Store:
						fa, _ = x.Addr.(*ssa.FieldAddr)
					case *ssa.MapUpdate:
						if ld, ok := x.Map.(*ssa.UnOp); ok {
							fa, _ = ld.X.(*ssa.FieldAddr)
						}
					}
					if fa == nil || engine.Origin(fa.X) != recv {
						continue
					}
					o, fld, ok := engine.FieldOf(fa)
					if !ok || o != typ {
						continue
					}
					for id, m := range la.HeldAt(ins).M {
						if strings.HasPrefix(id, typ+".") && m == engine.LockW {
							out = append(out, pub{fld, id})
						}
					}
				}
			}
			return out
		}
		for _, g := range methods {
			if len(g.Params) == 0 {
				continue
			}
			recv := ssa.Value(g.Params[0])
			// fields g reads
			type rd struct {
				ins  ssa.Instruction
				held engine.LSet
			}
			reads := map[string][]rd{}
			for _, b := range g.Blocks {
				for _, ins := range b.Instrs {
					ld, ok := ins.(*ssa.UnOp)
					if !ok || ld.Op != token.MUL {
						continue
					}
					fa, ok := ld.X.(*ssa.FieldAddr)
					if !ok || engine.Origin(fa.X) != recv {
						continue
					}
					if o, fld, ok := engine.FieldOf(fa); ok && o == typ {
						reads[fld] = append(reads[fld], rd{ld, la.HeldAt(ld)})
					}
				}
			}
			done := map[string]bool{}
			for _, c := range engine.Calls(g) {
				s := c.Common().StaticCallee()
				if s == nil || s == g || s.Signature.Recv() == nil || len(c.Common().Args) == 0 || engine.Origin(c.Common().Args[0]) != recv {
					continue
				}
				if nn := engine.NamedOf(s.Signature.Recv().Type()); nn == nil || nn.Obj().Name() != typ {
					continue
				}
				// the setter's lock must not already be held at the call (then g is inside the section)
				for _, pb := range storesOf(s) {
					if done[pb.field] || len(reads[pb.field]) == 0 || la.HeldAt(c).Has(pb.lock) {
						continue
					}
					done[pb.field] = true
					n++
					var bad []string
					for _, x := range reads[pb.field] {
						if !x.held.Has(pb.lock) {
							bad = append(bad, p.InstrPos(x.ins))
						}
					}
					r.Check(len(bad) == 0, "C14-R7", typ+"."+g.Name()+"|reads "+pb.field+" under the lock it is published under", p.Pos(g.Pos()), pb.lock+" held at every read; published by "+s.Name(), "reads "+pb.field+" at "+strings.Join(bad, ", ")+" without "+pb.lock+" although "+s.Name()+" publishes it under that lock: unlocked check vs locked store on a view shared by goroutines (data race)")
				}
			}
		}
	}
	r.Floor("C14-R7", 6, "lazy getters of StateDB / IdentityStateDB")
	c14R8(p, r)
	c14R9(p, r)
	c14R10(p, r)
	_ = n
}

// c14R8: a per-sender queue that may have been created on the spot (newSortedTxs / newTxMap) and has
// accepted a transaction is published in the pool's map on the success path of that Add — otherwise
// the transaction stays in `all` but in neither queue.
func c14R8(p *engine.Prog, r *engine.Report) {
	n := 0
	for _, f := range funcsOfPkg(p, "core/mempool") {
		if f.Blocks == nil || isTestish(p.Pos(f.Pos())) || f.Signature.Recv() == nil {
			continue
		}
		if rn := engine.NamedOf(f.Signature.Recv().Type()); rn == nil || rn.Obj().Name() != "TxPool" {
			continue
		}
		for _, c := range engine.Calls(f) {
			cal := c.Common().StaticCallee()
			if cal == nil || (cal.Name() != "newSortedTxs" && cal.Name() != "newTxMap") {
				continue
			}
			cv, isV := c.(*ssa.Call)
			if !isV {
				continue
			}
			// values that may be the fresh queue
			fresh := map[ssa.Value]bool{}
			var fw func(v ssa.Value)
			fw = func(v ssa.Value) {
				if fresh[v] || v.Referrers() == nil {
					return
				}
				fresh[v] = true
				for _, ref := range *v.Referrers() {
					if ph, isPhi := ref.(*ssa.Phi); isPhi {
						fw(ph)
					}
				}
			}
			fw(cv)
			stores := map[*ssa.BasicBlock]bool{}
			for _, b := range f.Blocks {
				for _, ins := range b.Instrs {
					if mu, isMU := ins.(*ssa.MapUpdate); isMU && fresh[engine.Unwrap(mu.Value)] {
						if u, isLoad := engine.Unwrap(mu.Map).(*ssa.UnOp); isLoad {
							if o, _, okF := engine.FieldOf(u.X); okF && o == "TxPool" {
								stores[b] = true
							}
						}
					}
				}
			}
			for _, a := range engine.Calls(f) {
				if !engine.CallNameIs(a, "Add") || !engine.HasRecv(a) || !fresh[engine.Unwrap(engine.CallArgs(a)[0])] {
					continue
				}
				av, isAV := a.(*ssa.Call)
				if !isAV {
					continue
				}
				n++
				r.Fn(engine.FuncName(f))
				// success edges: Add(...) == nil (through a spilled err as well)
				ok, found := true, false
				for _, i := range engine.Ifs(f) {
					x, y, isEq, okC := eqCond(i.Cond)
					if !okC {
						continue
					}
					var other ssa.Value
					// the test of this very Add's result (a later test of a merged err is another decision)
					if engine.Origin(x) == ssa.Value(av) {
						other = y
					} else if engine.Origin(y) == ssa.Value(av) {
						other = x
					}
					if k, isK := other.(*ssa.Const); other == nil || !isK || !k.IsNil() {
						continue
					}
					found = true
					succ := i.Block().Succs[1]
					if isEq {
						succ = i.Block().Succs[0]
					}
					if stores[succ] {
						continue
					}
					hdr := engine.LoopHeaderOf(av.Block())
					for b := range engine.ReachAvoiding(f, succ, nil, stores) {
						if b == hdr {
							ok = false
						}
						if len(b.Instrs) > 0 {
							if _, isRet := b.Instrs[len(b.Instrs)-1].(*ssa.Return); isRet {
								ok = false
							}
						}
					}
				}
				r.Check(found && ok, "C14-R8", uniq(r, engine.RelName(f)+"|a queue created on the spot is published once it holds a transaction"), p.InstrPos(a), "map store on the success path of Add", "the per-sender queue may have been created just above and is not stored in the pool's map after a successful Add: the transaction is removed from pending (or counted in `all`) but sits in an object nobody references — it is never offered for a block and blocks every later nonce of the sender")
			}
		}
	}
	r.Floor("C14-R8", 3, "put, putToPending, movePendingTxsToExecutable")
}

// c14R9: the two places that decide whether a sender's first queued transaction is executable —
// TxPool.put (submission) and movePendingTxsToExecutable (promotion after a block) — use the same
// tests on epoch and nonce (sibling agreement): a transaction is promoted exactly when it would have
// been placed in the executable queue had it arrived after the block.
func c14R9(p *engine.Prog, r *engine.Report) {
	put := mustFunc(p, r, "core/mempool", "TxPool.put")
	mv := mustFunc(p, r, "core/mempool", "TxPool.movePendingTxsToExecutable")
	if put == nil || mv == nil {
		return
	}
	toks := []string{".AccountNonce", "GetNonce(", "GetEpoch(", "StateDB.Epoch(", ".Epoch", "} + 1)", "phi{0|"}
	side := func(v ssa.Value) string {
		s := renderVal(v, 0)
		// element selection (`sorted[i+1]`) says nothing about the test: drop index expressions
		for {
			o := strings.Index(s, "[")
			if o < 0 {
				break
			}
			depth, c := 0, -1
			for k := o; k < len(s); k++ {
				if s[k] == '[' {
					depth++
				} else if s[k] == ']' {
					depth--
					if depth == 0 {
						c = k
						break
					}
				}
			}
			if c < 0 {
				break
			}
			s = s[:o] + s[c+1:]
		}
		s = strings.ReplaceAll(s, "StateDB.Epoch(", "\x00GLOBALEPOCH(")
		var out []string
		for _, t := range toks {
			tt := t
			if t == "StateDB.Epoch(" {
				tt = "\x00GLOBALEPOCH("
			}
			if strings.Contains(s, tt) {
				out = append(out, t)
			}
		}
		return strings.Join(out, "")
	}
	tests := func(f *ssa.Function) []string {
		var out []string
		// the function and the TxPool helpers it calls directly (a test extracted into a helper counts)
		fns := []*ssa.Function{f}
		for _, c := range engine.Calls(f) {
			if h := c.Common().StaticCallee(); h != nil && h.Blocks != nil && h != f && h.Signature.Recv() != nil {
				if rn := engine.NamedOf(h.Signature.Recv().Type()); rn != nil && rn.Obj().Name() == "TxPool" {
					fns = append(fns, h)
				}
			}
		}
		var ifs []*ssa.If
		for _, g := range fns {
			ifs = append(ifs, engine.Ifs(g)...)
		}
		for _, i := range ifs {
			cond, neg := stripNot(i.Cond)
			bo, ok := cond.(*ssa.BinOp)
			if !ok {
				continue
			}
			x, y := side(bo.X), side(bo.Y)
			if x == "" || y == "" {
				continue
			}
			op := bo.Op.String()
			if x > y { // orientation-free
				x, y = y, x
				op = map[string]string{"<": ">", ">": "<", "<=": ">=", ">=": "<=", "==": "==", "!=": "!="}[op]
			}
			if neg {
				op = "!" + op
			}
			out = append(out, x+" "+op+" "+y)
		}
		sort.Strings(out)
		return dedup(out)
	}
	a, b := tests(put), tests(mv)
	r.Check(len(a) >= 3 && strings.Join(a, " ; ") == strings.Join(b, " ; "), "C14-R9", "put vs movePendingTxsToExecutable|the first queued transaction is executable under the same epoch / nonce tests", p.Pos(mv.Pos()), strings.Join(a, " ; "), "submission decides by {"+strings.Join(a, " ; ")+"}, promotion by {"+strings.Join(b, " ; ")+"}: a transaction can be promoted although it does not continue the committed nonce (or stay pending although it does) — the executable list gets a hole, or a valid transaction is never offered")
	r.Floor("C14-R9", 1, "sibling tests")
}

// c14R10: (a) every place that asks for the block gas cap asks with the same configuration switch
// (types.MaxBlockSize(cfg.Consensus.X)): the builder's cap is the validator's cap in every consensus
// version; (b) no loop drains a channel under a bound that it re-reads from the shrinking channel
// (StopSync re-submits EVERY transaction parked during sync).
func c14R10(p *engine.Prog, r *engine.Report) {
	args := map[string][]string{}
	for _, f := range p.AllFuncs() {
		if pk := engine.FuncPkg(f); pk == nil || !engine.IsRepoPkg(pk) || f.Synthetic != "" || f.Blocks == nil || isTestish(p.Pos(f.Pos())) {
			continue
		}
		for _, c := range engine.Calls(f) {
			if !engine.CallIs(c, "blockchain/types.MaxBlockSize") {
				continue
			}
			a := engine.CallArgs(c)
			// the configuration switch(es) the argument is computed from (`cfg != nil && cfg.Consensus.X` included)
			var sw []string
			for v := range engine.BackSlice(a[0], engine.DefaultSlice) {
				if _, fn2, okF := engine.FieldOf(v); okF && strings.HasPrefix(fn2, "Enable") {
					sw = append(sw, fn2)
				}
			}
			sort.Strings(sw)
			fld := strings.Join(dedup(sw), "+")
			if fld == "" {
				fld = "?" + renderVal(a[0], 0)
			}
			args[fld] = append(args[fld], engine.RelName(f)+" at "+p.InstrPos(c))
		}
	}
	var ks []string
	total := 0
	for k, v := range args {
		ks = append(ks, k)
		total += len(v)
	}
	sort.Strings(ks)
	detail := ""
	for _, k := range ks {
		detail += k + ": " + strings.Join(args[k], ", ") + "; "
	}
	r.Check(len(ks) == 1 && total >= 4, "C14-R10", "MaxBlockSize|every caller selects the block gas cap by the same consensus switch", "", itoa(int64(total))+" call sites use "+strings.Join(ks, ","), "the block gas cap is selected by different switches: "+detail+"— in the consensus version where they differ the builder fills blocks up to another cap than the validator enforces")
	n := 0
	for _, f := range funcsOfPkg(p, "core/mempool") {
		if f.Blocks == nil || isTestish(p.Pos(f.Pos())) {
			continue
		}
		n++
		for _, bad := range drainBoundedByShrinkingLen(f) {
			r.Bad("C14-R10", uniq(r, engine.RelName(f)+"|channel drained under a bound re-read from the shrinking channel"), p.InstrPos(bad), "the loop condition compares a growing index with len(channel) while the body receives from that channel: it stops after about half of the elements — the rest stay parked (accepted transactions are neither in the pool nor offered)")
		}
	}
	r.OK("C14-R10", "core/mempool|no drain loop bounded by the shrinking channel length", "", itoa(int64(n))+" functions scanned")
}
