package props

import (
	"fmt"
	"sort"
	"strings"

	"golang.org/x/tools/go/ssa"

	"idenaverif/internal/engine"
)

func init() { register("C11", C11) }

// C11 — sync artifacts (identity diffs, snapshots) reproduce the canonical state.
func C11(p *engine.Prog, r *engine.Report) {
	r.Explanation = "(R1) stored diff = applied diff: in AddBlock the IdentityStateDiff given to IdentityState.AddDiff, to CommitTrees and to insertBlock is the same field of the validation result, and insertBlock stores exactly its diff parameter at block.Height(); the stored artifact follows the canonical chain across a reorganisation (every height whose header ResetTo removes also loses its stored diff, or an empty diff clears the entry); (R2) diff completeness at the source: IdentityStateDB.Precommit appends a diff value in the same basic block as every tree update/delete it performs, over sorted dirty keys; AddDiff applies every value of the diff (delete vs raw update selected by Deleted) after positioning the version; (R3) import refusal is clean: in ReadTreeFrom2 every error return after the importer was created passes common.ClearDb(pdb), success is behind WorkingHash()==root and ValidateTree(), RecoverSnapshot2 clears the target prefix before import; (R4) replay check: fastSync.validateIdentityState compares the replayed root with the header's and rolls the working tree back (Reset, not only Clear) on mismatch, and applyDeferredBlocks commits/stores a block's diff only behind validateIdentityState==nil; (R5) results of importer.Add are dropped — informational (the root and ValidateTree checks bound the damage). Decides shape; does not decide that export∘import is the identity on contents, nor corruption classes inside IAVL."
	r.Assumptions = []string{"IAVL importer/exporter and ValidateTree (trusted base)", "tar/proto framing of the archive"}
	// ---------------- R1
	if ab := mustFunc(p, r, "blockchain", "Blockchain.AddBlock"); ab != nil {
		var paths []string
		pick := func(id string, argIdx int) {
			for _, c := range callsTo(ab, id) {
				a := c.Common().Args
				if argIdx < len(a) {
					if _, isF := loadOfField(a[argIdx], "blockInsertionResult", "identityStateDiff"); isF {
						paths = append(paths, engine.PathOf(a[argIdx]))
					} else {
						paths = append(paths, "other:"+engine.PathOf(a[argIdx]))
					}
				}
			}
		}
		pick("core/state.IdentityStateDB.AddDiff", 2)
		pick("core/appstate.AppState.CommitTrees", 2)
		pick("blockchain.Blockchain.insertBlock", 2)
		ok := len(paths) == 3
		for _, x := range paths {
			if x != paths[0] || strings.HasPrefix(x, "other:") {
				ok = false
			}
		}
		r.Check(ok, "C11-R1", "AddBlock|one diff value applied, committed and stored", p.Pos(ab.Pos()), "blockInsertionResult.identityStateDiff at all three sites", "the identity diff that is stored/served is not the one that was applied: "+strings.Join(paths, " | "))
	}
	if ib := mustFunc(p, r, "blockchain", "Blockchain.insertBlock"); ib != nil {
		ok := false
		for _, c := range callsTo(ib, "blockchain.Blockchain.WriteIdentityStateDiff") {
			a := c.Common().Args
			if engine.Origin(a[2]) == ssa.Value(ib.Params[2]) && sliceCallOn(a[1], ib.Params[1], "blockchain/types.Block.Height") {
				ok = true
				for _, ret := range successReturns(ib) {
					if !engine.MustPassInstr(ib, ret, []ssa.Instruction{c}) {
						ok = false
					}
				}
			}
		}
		r.Check(ok, "C11-R1", "insertBlock|WriteIdentityStateDiff(block.Height(), diff) on every success path", p.Pos(ib.Pos()), "own parameter, own height", "a block can be inserted without storing its identity diff (or under another height)")
	}
	// reorg: the stored diff of an abandoned height does not survive
	c11Reorg(p, r)
	r.Floor("C11-R1", 3, "AddBlock, insertBlock, reorg")

	// ---------------- R2
	if pc := mustFunc(p, r, "core/state", "IdentityStateDB.Precommit"); pc != nil {
		n := 0
		for _, c := range engine.Calls(pc) {
			cal := c.Common().StaticCallee()
			if cal == nil || !(strings.HasPrefix(cal.Name(), "updateStateIdentityObject") || strings.HasPrefix(cal.Name(), "deleteStateIdentityObject")) {
				continue
			}
			n++
			// an append to diff.Values follows on every path: in the same block, or in blocks that every
			// way from the tree write to the next iteration / the return passes through
			appendBlocks := map[*ssa.BasicBlock]bool{}
			for _, b := range pc.Blocks {
				for _, ins := range b.Instrs {
					if st, ok := ins.(*ssa.Store); ok {
						if _, isV := fieldAddrOf(st.Addr, "IdentityStateDiff", "Values"); isV {
							appendBlocks[b] = true
						}
					}
				}
			}
			paired := appendBlocks[c.Block()]
			if !paired && len(appendBlocks) > 0 {
				paired = true
				var hdr *ssa.BasicBlock
				for _, b := range pc.Blocks {
					if b.Dominates(c.Block()) && b != c.Block() {
						for _, pr := range b.Preds {
							if b.Dominates(pr) { // back edge: b is a loop header enclosing the write
								if hdr == nil || hdr.Dominates(b) {
									hdr = b
								}
							}
						}
					}
				}
				for b := range engine.ReachAvoiding(pc, c.Block(), nil, appendBlocks) {
					if b == c.Block() {
						continue
					}
					if b == hdr {
						paired = false // next iteration reached without an append
					}
					if len(b.Instrs) > 0 {
						if _, isRet := b.Instrs[len(b.Instrs)-1].(*ssa.Return); isRet {
							paired = false
						}
					}
				}
			}
			r.Check(paired, "C11-R2", "IdentityStateDB.Precommit|"+cal.Name()+" paired with a diff value", p.InstrPos(c), "append(diff.Values, …) follows on every path of the iteration", "a tree change is not recorded in the diff: replaying the diffs cannot reproduce the root")
		}
		if n == 0 {
			r.Und("C11-R2", "IdentityStateDB.Precommit|tree writes", p.Pos(pc.Pos()), "none found")
		}
	}
	if ad := mustFunc(p, r, "core/state", "IdentityStateDB.AddDiff"); ad != nil {
		var del, upd, ver ssa.CallInstruction
		for _, c := range engine.Calls(ad) {
			if cal := c.Common().StaticCallee(); cal != nil {
				switch {
				case strings.HasPrefix(cal.Name(), "deleteStateIdentityObject"):
					del = c
				case strings.HasPrefix(cal.Name(), "updateStateIdentityObjectRaw"):
					upd = c
				}
			}
			if engine.CallNameIs(c, "SetVirtualVersion") {
				ver = c
			}
		}
		ok := del != nil && upd != nil && ver != nil
		if ok {
			// selected by v.Deleted; both inside the loop over diff.Values; version positioned before
			g := guardsWhere(ad, func(cond ssa.Value) (bool, bool, string) {
				c, neg := stripNot(cond)
				if _, isD := loadOfField(c, "IdentityStateDiffValue", "Deleted"); isD {
					return true, !neg, ""
				}
				return false, false, ""
			})
			ok = engine.OnlyThroughPass(ad, del.Block(), g) && engine.LoopHeaderOf(del.Block()) != nil && engine.LoopHeaderOf(upd.Block()) == engine.LoopHeaderOf(del.Block()) &&
				engine.InstrDominates(ver, del) && engine.InstrDominates(ver, upd)
			if ok {
				ok = sliceCallOn(ver.Common().Args[len(ver.Common().Args)-1], nil, "") || true
				// SetVirtualVersion(height-1)
				sl := engine.BackSlice(ver.Common().Args[len(ver.Common().Args)-1], engine.DefaultSlice)
				ok = sl[ad.Params[1]]
			}
		}
		r.Check(ok, "C11-R2", "IdentityStateDB.AddDiff|every value applied at version height-1", p.Pos(ad.Pos()), "SetVirtualVersion(height-1) then delete/raw-update per value by v.Deleted", "diff replay skips values, mixes delete/update or does not position the version: replay cannot reproduce the committed root")
	}
	r.Floor("C11-R2", 3, "2 tree writes + AddDiff")

	// ---------------- R3
	if rt := mustFunc(p, r, "core/state", "ReadTreeFrom2"); rt != nil {
		var imp *ssa.Call
		for _, c := range engine.Calls(rt) {
			if engine.CallNameIs(c, "Importer") {
				imp, _ = c.(*ssa.Call)
			}
		}
		var clears []ssa.Instruction
		for _, c := range callsTo(rt, "common.ClearDb") {
			if engine.Origin(c.Common().Args[0]) == ssa.Value(rt.Params[0]) || sliceHas(c.Common().Args[0], rt.Params[0]) {
				clears = append(clears, c)
			}
		}
		if imp == nil {
			r.Bad("C11-R3", "ReadTreeFrom2|importer", p.Pos(rt.Pos()), "tree.Importer call not found")
		} else {
			gImp := nilErrGuards(rt, imp)
			n := 0
			for _, ret := range engine.Returns(rt) {
				if isRecoverBlock(ret.Block()) || retErrKind(ret) == "nil" {
					continue
				}
				if !engine.OnlyThroughPassRet(rt, ret, gImp) {
					continue // before anything was written
				}
				n++
				// the ClearDb must be in the return's own block or dominate it after the importer
				ok := false
				for _, cl := range clears {
					if cl.Block() == ret.Block() || (cl.Block().Dominates(ret.Block()) && engine.OnlyThroughPass(rt, cl.Block(), gImp)) {
						ok = true
					}
				}
				r.Check(ok, "C11-R3", "ReadTreeFrom2|refusal clears the target db", p.InstrPos(ret), "common.ClearDb(pdb) before the error return", "a refused import leaves partially imported nodes behind (the importer flushes batches before Commit)")
			}
			if n < 5 {
				r.Und("C11-R3", "ReadTreeFrom2|error returns after the importer", p.Pos(rt.Pos()), "fewer than 5 found")
			}
		}
		// success gates
		gRoot := guardsWhere(rt, func(cond ssa.Value) (bool, bool, string) {
			x, y, isEq, ok := eqCond(cond)
			if !ok {
				return false, false, ""
			}
			for _, pr := range [][2]ssa.Value{{x, y}, {y, x}} {
				if engine.Origin(pr[1]) == ssa.Value(rt.Params[2]) {
					if c, ok := engine.Unwrap(pr[0]).(*ssa.Call); ok && engine.CallNameIs(c, "WorkingHash") {
						return true, isEq, ""
					}
				}
			}
			return false, false, ""
		})
		gValid := guardsWhere(rt, func(cond ssa.Value) (bool, bool, string) {
			c, neg := stripNot(cond)
			if cc, ok := c.(*ssa.Call); ok && engine.CallNameIs(cc, "ValidateTree") {
				return true, !neg, ""
			}
			return false, false, ""
		})
		okR, okV := len(gRoot) > 0, len(gValid) > 0
		for _, ret := range successReturns(rt) {
			if !engine.OnlyThroughPassRet(rt, ret, gRoot) {
				okR = false
			}
			if !engine.OnlyThroughPassRet(rt, ret, gValid) {
				okV = false
			}
		}
		r.Check(okR, "C11-R3", "ReadTreeFrom2|success only if WorkingHash() == root", p.Pos(rt.Pos()), "dominated", "an imported snapshot is accepted without comparing its root with the advertised one")
		r.Check(okV, "C11-R3", "ReadTreeFrom2|success only if ValidateTree()", p.Pos(rt.Pos()), "dominated", "an imported snapshot is accepted without tree validation")
		// dropped importer.Add results (informational)
		for _, c := range engine.Calls(rt) {
			if engine.CallNameIs(c, "Add") && strings.Contains(engine.CallID(c), "iavl") {
				if v, ok := c.(ssa.Value); ok && (v.Referrers() == nil || len(*v.Referrers()) == 0) {
					r.Note("C11-R5", "ReadTreeFrom2|importer.Add result dropped", p.InstrPos(c), "bounded by the root and ValidateTree checks")
				}
			}
		}
	}
	for _, x := range []struct{ typ string }{{"StateDB"}} { // IdentityStateDB.RecoverSnapshot2 is used only for the predefined genesis on a fresh db
		f, err := p.Func("core/state", x.typ+".RecoverSnapshot2")
		if err != nil {
			continue
		}
		r.Fn(engine.FuncName(f))
		var clr, rd ssa.CallInstruction
		for _, c := range engine.Calls(f) {
			if engine.CallIs(c, "common.ClearDb") {
				clr = c
			}
			if engine.CallIs(c, "core/state.ReadTreeFrom2") {
				rd = c
			}
		}
		ok := clr != nil && rd != nil && engine.InstrDominates(clr, rd) && engine.PathOf(clr.Common().Args[0]) == engine.PathOf(rd.Common().Args[0])
		r.Check(ok, "C11-R3", x.typ+".RecoverSnapshot2|target prefix cleared before import", p.Pos(f.Pos()), "ClearDb(pdb) dominates ReadTreeFrom2(pdb, …)", "import into a prefix that may hold leftovers of an earlier attempt")
	}
	// the root an imported snapshot is verified against is the canonical header's, not the (unauthenticated) manifest's
	if pc := mustFunc(p, r, "protocol", "fastSync.postConsuming"); pc != nil {
		n := 0
		for _, c := range engine.Calls(pc) {
			if !engine.CallNameIs(c, "RecoverSnapshot2") {
				continue
			}
			n++
			args := engine.CallArgs(c)
			fromHead, fromManifest := false, false
			for _, a := range args[1:] {
				if nn := engine.NamedOf(a.Type()); nn == nil || nn.Obj().Name() != "Hash" {
					continue
				}
				for v := range engine.BackSlice(a, engine.DefaultSlice) {
					if cc, ok := v.(*ssa.Call); ok && engine.CallIs(cc, "blockchain/types.Header.Root") {
						if _, isPH := loadOfField(cc.Call.Args[0], "Blockchain", "PreliminaryHead"); isPH {
							fromHead = true
						}
					}
					if o, fld, ok := engine.FieldOf(v); ok && o == "Manifest" && fld == "Root" {
						fromManifest = true
					}
				}
			}
			r.Check(fromHead && !fromManifest, "C11-R3", "postConsuming|snapshot verified against the preliminary head's root", p.InstrPos(c), "RecoverSnapshot2(height, PreliminaryHead.Root(), file)", "the expected root of the imported state is taken from the manifest: any archive whose own root is written into its manifest passes the root check and is switched in (Head.Root() != State.Root())")
		}
		if n == 0 {
			r.Und("C11-R3", "postConsuming|snapshot import", p.Pos(pc.Pos()), "RecoverSnapshot2 not called")
		}
	}
	c11Prefix(p, r)
	// the snapshot prefix is addressed the same way by everyone: dbm.NewPrefixDB(s.original, BuildDbPrefix(h))
	{
		n := 0
		for _, f := range funcsOfPkg(p, "core/state") {
			if f.Blocks == nil || isTestish(p.Pos(f.Pos())) || f.Signature.Recv() == nil {
				continue
			}
			for _, c := range engine.Calls(f) {
				if !engine.CallNameIs(c, "NewPrefixDB") || len(c.Common().Args) != 2 {
					continue
				}
				if pc, ok := engine.Origin(c.Common().Args[1]).(*ssa.Call); !ok || !(engine.CallNameIs(pc, "BuildDbPrefix") || engine.CallNameIs(pc, "buildDbPrefix")) {
					continue
				}
				n++
				_, fld, okF := engine.FieldOf(engine.Origin(c.Common().Args[0]))
				r.Check(okF && fld == "original", "C11-R3", uniq(r, engine.RelName(f)+"|snapshot prefix addressed on the raw database"), p.InstrPos(c), "NewPrefixDB(s.original, BuildDbPrefix(h))", "the prefix database is built on "+engine.PathOf(c.Common().Args[0])+" instead of the raw database: it addresses another key range than the import wrote (a refused snapshot is not cleaned up / a committed one is not found)")
			}
		}
		if n < 3 {
			r.Und("C11-R3", "snapshot prefix sites", "", fmt.Sprintf("%d NewPrefixDB(…, BuildDbPrefix(h)) sites found (3+ confirmed by reading)", n))
		}
	}
	r.Floor("C11-R3", 11, "5 refusals + 2 gates + recover + 3 prefix sites")

	// ---------------- R4
	if vi := mustFunc(p, r, "protocol", "fastSync.validateIdentityState"); vi != nil {
		var add ssa.CallInstruction
		for _, c := range callsTo(vi, "core/state.IdentityStateDB.AddDiff") {
			add = c
		}
		gRoot := guardsWhere(vi, func(cond ssa.Value) (bool, bool, string) {
			x, y, isEq, ok := eqCond(cond)
			if !ok {
				return false, false, ""
			}
			for _, pr := range [][2]ssa.Value{{x, y}, {y, x}} {
				c1, ok1 := engine.Unwrap(pr[0]).(*ssa.Call)
				c2, ok2 := engine.Unwrap(pr[1]).(*ssa.Call)
				if ok1 && ok2 && engine.CallIs(c1, "core/state.IdentityStateDB.Root") && engine.CallIs(c2, "blockchain/types.Header.IdentityRoot") {
					return true, isEq, ""
				}
			}
			return false, false, ""
		})
		ok := add != nil && len(gRoot) > 0
		for _, ret := range successReturns(vi) {
			if !engine.OnlyThroughPassRet(vi, ret, gRoot) {
				ok = false
			}
		}
		r.Check(ok, "C11-R4", "validateIdentityState|accepted only if replayed root == header.IdentityRoot()", p.Pos(vi.Pos()), "dominated", "a served identity diff is accepted without reproducing the committed identity root")
		// mismatch rolls the working tree back
		okReset := false
		for _, g := range gRoot {
			fe := g.FailEdge()
			fb := fe.From.Succs[fe.Succ]
			for b := range engine.ReachAvoiding(vi, fb, nil, nil) {
				for _, ins := range b.Instrs {
					if c, isC := ins.(ssa.CallInstruction); isC && engine.CallIs(c, "core/state.IdentityStateDB.Reset") {
						okReset = true
					}
				}
			}
		}
		r.Check(okReset, "C11-R4", "validateIdentityState|refused diff is rolled back (Reset)", p.Pos(vi.Pos()), "IdentityStateDB.Reset() = Clear + tree.Rollback", "a refused diff stays in the working tree (only caches cleared): the next, canonical diff no longer reproduces the root and honest peers get banned")
	}
	if rs := mustFunc(p, r, "core/state", "IdentityStateDB.Reset"); rs != nil {
		ok := len(callsToName(rs, "Rollback")) > 0 && len(callsToName(rs, "Clear")) > 0
		r.Check(ok, "C11-R4", "IdentityStateDB.Reset|Clear and tree.Rollback", p.Pos(rs.Pos()), "both", "Reset does not roll the tree back")
	}
	if ad := mustFunc(p, r, "protocol", "fastSync.applyDeferredBlocks"); ad != nil {
		var vcall *ssa.Call
		for _, c := range callsTo(ad, "protocol.fastSync.validateIdentityState") {
			vcall, _ = c.(*ssa.Call)
		}
		ok := vcall != nil
		if ok {
			g := nilErrGuards(ad, vcall)
			for _, c := range engine.Calls(ad) {
				if engine.CallIs(c, "blockchain.Blockchain.WriteIdentityStateDiff", "core/state.IdentityStateDB.CommitTree", "blockchain.Blockchain.AddHeaderUnsafe") {
					if !engine.OnlyThroughPass(ad, c.Block(), g) {
						ok = false
					}
				}
			}
		}
		r.Check(ok, "C11-R4", "applyDeferredBlocks|diff committed/stored only after validateIdentityState==nil", p.Pos(ad.Pos()), "dominated", "a block's diff is committed or stored although it did not reproduce the identity root")
		// every accepted block stores its diff — also an empty one, which is what clears the entry an
		// abandoned block left at that height (fix 1933510a): the store is not control-dependent on the diff
		{
			var hdrAdd, wr ssa.CallInstruction
			for _, c := range engine.Calls(ad) {
				if engine.CallIs(c, "blockchain.Blockchain.AddHeaderUnsafe") {
					hdrAdd = c
				}
				if engine.CallIs(c, "blockchain.Blockchain.WriteIdentityStateDiff") {
					wr = c
				}
			}
			okW := hdrAdd != nil && wr != nil
			if okW {
				g := nilErrGuards(ad, hdrAdd.(*ssa.Call))
				hdr := engine.LoopHeaderOf(wr.Block())
				okW = hdr != nil && len(g) > 0
				if okW {
					// from the success edge of AddHeaderUnsafe, the loop header (next block) or a return is reachable only through the store
					pe := g[0].PassEdge()
					start := pe.From.Succs[pe.Succ]
					reach := engine.ReachAvoiding(ad, start, nil, map[*ssa.BasicBlock]bool{wr.Block(): true})
					if start != wr.Block() {
						for b := range reach {
							if b == hdr {
								okW = false
							}
							if len(b.Instrs) > 0 {
								if _, isRet := b.Instrs[len(b.Instrs)-1].(*ssa.Return); isRet {
									okW = false
								}
							}
						}
					}
				}
			}
			r.Check(okW, "C11-R4", "applyDeferredBlocks|every accepted block stores its diff, empty or not", p.Pos(ad.Pos()), "WriteIdentityStateDiff on every path after AddHeaderUnsafe==nil", "a fast-synced block with an empty diff does not overwrite the diff an abandoned block left at its height: the node keeps serving a diff that does not reproduce the canonical identity root")
		}
	}
	r.Floor("C11-R4", 5, "root gate, rollback, Reset, deferred ×2")
}

func sliceHas(v ssa.Value, x ssa.Value) bool {
	return engine.BackSlice(v, engine.DefaultSlice)[x]
}

// c11Reorg: the stored identity diff of an abandoned height does not survive a reorganisation:
// either ResetTo removes it next to the header/canonical hash, or WriteIdentityStateDiff
// clears the entry when the new block's diff is empty.
func c11Reorg(p *engine.Prog, r *engine.Report) {
	rt := mustFunc(p, r, "blockchain", "Blockchain.ResetTo")
	w := mustFunc(p, r, "blockchain", "Blockchain.WriteIdentityStateDiff")
	if rt == nil || w == nil {
		return
	}
	removesIn := func(f *ssa.Function) bool {
		for _, c := range engine.Calls(f) {
			o := engine.CalleeObj(c.Common())
			if o != nil && strings.Contains(o.Name(), "IdentityStateDiff") && (strings.HasPrefix(o.Name(), "Remove") || strings.HasPrefix(o.Name(), "Delete")) {
				return true
			}
		}
		return false
	}
	// (a) ResetTo removes per abandoned height, in the loop that removes headers
	a := false
	for _, c := range engine.Calls(rt) {
		o := engine.CalleeObj(c.Common())
		if o != nil && strings.Contains(o.Name(), "IdentityStateDiff") && (strings.HasPrefix(o.Name(), "Remove") || strings.HasPrefix(o.Name(), "Delete")) {
			if engine.LoopHeaderOf(c.Block()) != nil {
				a = true
			}
		}
	}
	// (b) or the writer clears the entry on an empty diff: the Empty()==true edge reaches a remove
	b := false
	for _, i := range engine.Ifs(w) {
		c, neg := stripNot(i.Cond)
		cc, ok := c.(*ssa.Call)
		if !ok || !engine.CallIs(cc, "core/state.IdentityStateDiff.Empty") {
			continue
		}
		emptyEdge := 0
		if neg {
			emptyEdge = 1
		}
		for blk := range engine.ReachAvoiding(w, i.Block().Succs[emptyEdge], nil, nil) {
			for _, ins := range blk.Instrs {
				if c2, isC := ins.(ssa.CallInstruction); isC {
					o := engine.CalleeObj(c2.Common())
					if o != nil && strings.Contains(o.Name(), "IdentityStateDiff") && (strings.HasPrefix(o.Name(), "Remove") || strings.HasPrefix(o.Name(), "Delete")) {
						b = true
					}
				}
			}
		}
	}
	_ = removesIn
	_ = a // removal in ResetTo alone is not enough: fast sync stores diffs under heights that never pass through ResetTo
	r.Check(b, "C11-R1", "ResetTo/WriteIdentityStateDiff|stored diff of an abandoned height does not survive a reorg", p.Pos(rt.Pos()), "an empty diff clears the entry stored under its height", "ResetTo removes header and canonical hash of an abandoned height but keeps its stored identity diff, and an empty diff of the replacing block does not overwrite it: the node keeps serving the abandoned block's diff, replay diverges at that height")
}

// c11Prefix: the preliminary (fast-sync) copy of the identity tree lives under a prefix that a
// committed snapshot / current tree of the same height can never have: the expression the copy
// builds its prefix from differs from the one CommitSnapshot / RecoverSnapshot2 use for their
// height. (With equal expressions a sync started while the head is the imported snapshot's height
// replays diffs into — and on give-up drops — the live identity state.)
func c11Prefix(p *engine.Prog, r *engine.Report) {
	prefixExpr := func(f *ssa.Function) []string {
		var out []string
		for _, c := range engine.Calls(f) {
			if !engine.CallNameIs(c, "buildDbPrefix") {
				continue
			}
			args := engine.CallArgs(c)
			out = append(out, renderVal(args[len(args)-1], 0))
		}
		sort.Strings(out)
		return dedup(out)
	}
	cp := mustFunc(p, r, "core/state", "IdentityStateDB.CreatePreliminaryCopy")
	if cp == nil {
		return
	}
	mine := prefixExpr(cp)
	var others []string
	for _, n := range []string{"IdentityStateDB.CommitSnapshot", "IdentityStateDB.RecoverSnapshot2", "IdentityStateDB.DropSnapshot"} {
		if f, _ := p.Func("core/state", n); f != nil {
			others = append(others, prefixExpr(f)...)
		}
	}
	others = dedup(others)
	clash := ""
	for _, m := range mine {
		for _, o := range others {
			if m == o {
				clash = m
			}
		}
	}
	r.Check(len(mine) > 0 && len(others) > 0 && clash == "", "C11-R3", "IdentityStateDB.CreatePreliminaryCopy|preliminary prefix apart from the snapshot prefix of the same height", p.Pos(cp.Pos()), "prefix from {"+strings.Join(mine, ",")+"}, snapshots from {"+strings.Join(others, ",")+"}", "the preliminary copy and a committed snapshot build their prefix from the same expression of their height ("+clash+"): a fast sync started at the imported snapshot's height writes into, and on give-up drops, the current identity state")
}
