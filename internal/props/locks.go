package props

import (
	"fmt"
	"go/token"
	"go/types"
	"os"
	"sort"
	"strings"

	"golang.org/x/tools/go/ssa"

	"idenaverif/internal/engine"
)

// Shared lock-discipline rules (analysis D): guarded-by, lock order, blocking under a lock, release on
// all paths. Used by C14 (mempool) and C20 (gossip push/pull).

var lockAnalysisCache = map[*engine.Prog]*engine.LockAnalysis{}

func lockAnalysis(p *engine.Prog) *engine.LockAnalysis {
	if la := lockAnalysisCache[p]; la != nil {
		return la
	}
	la := engine.NewLockAnalysis(p)
	lockAnalysisCache[p] = la
	return la
}

type fieldAccess struct {
	fn    *ssa.Function
	ins   ssa.Instruction
	write bool
	held  engine.LSet
	init  bool // construction / start-up phase
	what  string
}

// isSyncType: mutexes, atomics, channels — fields that synchronise themselves.
func isSelfSynchronised(t types.Type) bool {
	if p, ok := t.Underlying().(*types.Pointer); ok {
		t = p.Elem()
	}
	if _, ok := t.Underlying().(*types.Chan); ok {
		return true
	}
	if n := engine.NamedOf(t); n != nil && n.Obj().Pkg() != nil {
		switch n.Obj().Pkg().Path() {
		case "sync", "sync/atomic":
			return true
		}
	}
	return false
}

// fieldAccesses collects reads/writes of the fields of the given struct types over all repo functions.
// A write is a store to the field or a mutation of the map/slice it holds.
func fieldAccesses(p *engine.Prog, la *engine.LockAnalysis, owners map[string]bool, initPhase func(*ssa.Function) bool) map[string][]fieldAccess {
	out := map[string][]fieldAccess{}
	for _, f := range p.AllFuncs() {
		if f.Blocks == nil || f.Synthetic != "" || isTestish(p.Pos(f.Pos())) {
			continue
		}
		isInit := initPhase(f)
		for _, b := range f.Blocks {
			for _, ins := range b.Instrs {
				fa, ok := ins.(*ssa.FieldAddr)
				if !ok {
					continue
				}
				o, fld, ok := engine.FieldOf(fa)
				if !ok || !owners[o] {
					continue
				}
				st, _ := fa.X.Type().Underlying().(*types.Pointer)
				if st == nil {
					continue
				}
				str, _ := st.Elem().Underlying().(*types.Struct)
				if str == nil || isSelfSynchronised(str.Field(fa.Field).Type()) {
					continue
				}
				key := o + "." + fld
				// unpublished object: allocated in this very function
				fresh := false
				if a, isA := engine.Origin(fa.X).(*ssa.Alloc); isA && a.Parent() == f {
					fresh = true
				}
				add := func(at ssa.Instruction, write bool, what string) {
					out[key] = append(out[key], fieldAccess{fn: f, ins: at, write: write, held: la.HeldAt(at), init: isInit || fresh, what: what})
				}
				if fa.Referrers() == nil {
					continue
				}
				for _, ref := range *fa.Referrers() {
					switch x := ref.(type) {
					case *ssa.Store:
						if x.Addr == ssa.Value(fa) {
							add(x, true, "store")
						}
					case *ssa.UnOp:
						if x.Op != token.MUL {
							continue
						}
						add(x, false, "load")
						// container mutations through the loaded value
						if x.Referrers() == nil {
							continue
						}
						for _, r2 := range *x.Referrers() {
							switch y := r2.(type) {
							case *ssa.MapUpdate:
								if y.Map == ssa.Value(x) {
									add(y, true, "map update")
								}
							case *ssa.Call:
								if bi, isB := y.Call.Value.(*ssa.Builtin); isB && bi.Name() == "delete" && len(y.Call.Args) > 0 && y.Call.Args[0] == ssa.Value(x) {
									add(y, true, "map delete")
								}
							case *ssa.IndexAddr:
								if y.X == ssa.Value(x) && y.Referrers() != nil {
									for _, r3 := range *y.Referrers() {
										if s3, isS := r3.(*ssa.Store); isS && s3.Addr == ssa.Value(y) {
											add(s3, true, "element store")
										}
									}
								}
							}
						}
					case *ssa.Call:
						// &x.f passed to a call: atomic.* is self-synchronised, anything else is a write
						if o := engine.CalleeObj(&x.Call); o != nil && o.Pkg() != nil && o.Pkg().Path() == "sync/atomic" {
							continue
						}
						add(x, true, "address passed to "+calleeShort(x))
					}
				}
			}
		}
	}
	return out
}

// initPhaseFuncs: functions that only run before the object is shared — constructors of the owner
// package and functions whose every call site is in such a function or in the node's start-up.
func initPhaseFuncs(p *engine.Prog, la *engine.LockAnalysis, roots func(*ssa.Function) bool) func(*ssa.Function) bool {
	memo := map[*ssa.Function]int{} // 1 yes, 2 no, 3 in progress
	var is func(f *ssa.Function, depth int) bool
	is = func(f *ssa.Function, depth int) bool {
		if f == nil {
			return false
		}
		if v := memo[f]; v == 1 {
			return true
		} else if v == 2 || v == 3 {
			return false
		}
		if roots(f) {
			memo[f] = 1
			return true
		}
		if f.Parent() != nil {
			// a closure is init-phase only if it is synchronous and its parent is
			if la.Async(f) {
				memo[f] = 2
				return false
			}
			ok := is(f.Parent(), depth+1)
			if ok {
				memo[f] = 1
			} else {
				memo[f] = 2
			}
			return ok
		}
		if la.Async(f) || depth > 6 {
			memo[f] = 2
			return false
		}
		memo[f] = 3
		sites := la.CallSites(f)
		ok := len(sites) > 0
		for _, c := range sites {
			if isTestish(p.InstrPos(c)) {
				continue
			}
			if _, isGo := c.(*ssa.Go); isGo {
				ok = false
				break
			}
			if !is(c.Parent(), depth+1) {
				ok = false
				break
			}
		}
		if ok {
			memo[f] = 1
		} else {
			memo[f] = 2
		}
		return ok
	}
	return func(f *ssa.Function) bool { return is(f, 0) }
}

// guardedBy: every field with a write outside the initialisation phase has one lock held (in write mode
// at writes) at every access outside that phase.
func guardedBy(p *engine.Prog, r *engine.Report, rule string, acc map[string][]fieldAccess, exempt map[string]string) (checked int) {
	var keys []string
	for k := range acc {
		keys = append(keys, k)
	}
	sort.Strings(keys)
	for _, k := range keys {
		var live []fieldAccess
		writes := 0
		if os.Getenv("VERIF_DEBUG_LOCKS") != "" {
			for _, a := range acc[k] {
				fmt.Fprintf(os.Stderr, "ACCESS %s %s write=%v init=%v held=%s fn=%s async=%v entry=%s (%s)\n", k, p.InstrPos(a.ins), a.write, a.init, a.held.String(), engine.RelName(a.fn), lockAnalysis(p).Async(a.fn), lockAnalysis(p).Entry(a.fn).String(), a.what)
			}
		}
		for _, a := range acc[k] {
			if a.init {
				continue
			}
			live = append(live, a)
			if a.write {
				writes++
			}
		}
		if writes == 0 {
			continue // effectively immutable after construction
		}
		checked++
		if why, ok := exempt[k]; ok {
			r.Note(rule, k+"|exempt", "", why)
			continue
		}
		// pairwise (Eraser) condition: every write shares a lock — held in write mode by the writer —
		// with every other access
		shares := func(w, a fieldAccess) bool {
			// mutual exclusion: both hold the lock and at least one of them exclusively
			for id, m := range w.held.M {
				if a.held.Has(id) && (m == engine.LockW || a.held.Mode(id) == engine.LockW) {
					return true
				}
			}
			return false
		}
		var pairsBad []string
		nPairs := 0
		for i, w := range live {
			if !w.write {
				continue
			}
			for j, a := range live {
				if a.write && j < i {
					continue
				}
				nPairs++
				if !shares(w, a) {
					kind := "read"
					if a.write {
						kind = "write"
					}
					if len(pairsBad) < 6 {
						pairsBad = append(pairsBad, fmt.Sprintf("write %s in %s holding %s / %s %s in %s holding %s", p.InstrPos(w.ins), engine.RelName(w.fn), w.held.String(), kind, p.InstrPos(a.ins), engine.RelName(a.fn), a.held.String()))
					} else if len(pairsBad) == 6 {
						pairsBad = append(pairsBad, "…")
					}
				}
			}
		}
		common := engine.LSet{Top: true}
		for _, a := range live {
			common = engineMeet(common, a.held)
		}
		detail := fmt.Sprintf("%d accesses / %d writes, %d write/access pairs each share a lock (common to all: %s)", len(live), writes, nPairs, common.String())
		if len(pairsBad) == 0 {
			r.OK(rule, k+"|every write shares a lock with every other access", p.InstrPos(live[0].ins), detail)
			continue
		}
		r.Bad(rule, k+"|every write shares a lock with every other access", p.InstrPos(live[0].ins), fmt.Sprintf("%d accesses / %d writes; conflicting pairs with no common lock: %s", len(live), writes, strings.Join(pairsBad, "; ")))
		continue
	}
	return checked
}

func engineMeet(a, b engine.LSet) engine.LSet {
	if a.Top {
		return b.Clone()
	}
	if b.Top {
		return a.Clone()
	}
	o := engine.LSet{M: map[string]engine.LockMode{}}
	for k, v := range a.M {
		if w := b.M[k]; w != 0 {
			if w < v {
				v = w
			}
			o.M[k] = v
		}
	}
	return o
}

type lockEdge struct {
	from, to string
	at       string
}

// lockOrder collects acquired-while-holding edges in the given functions and reports re-entrant
// acquisitions and cycles. track selects the locks of interest.
func lockOrder(p *engine.Prog, la *engine.LockAnalysis, r *engine.Report, rule string, fns []*ssa.Function, track func(id string) bool, sameInstanceOK map[string]string) (nEdges int) {
	edges := map[string]lockEdge{}
	var reent []string
	for _, f := range fns {
		var may map[ssa.Instruction]engine.LSet
		for _, b := range f.Blocks {
			for _, ins := range b.Instrs {
				c, ok := ins.(*ssa.Call)
				if !ok {
					continue
				}
				// a direct Lock of a lock that may still be held on some path (e.g. a loop iteration that
				// continues without unlocking)
				if op, isOp := engine.LockOpOf(c); isOp && op.Acquire && track(op.ID) {
					if may == nil {
						may = la.MayBefore(f)
					}
					if m := may[c]; m.Has(op.ID) && !(m.Mode(op.ID) == engine.LockR && op.Mode == engine.LockR) && !la.HeldAt(c).Has(op.ID) {
						reent = append(reent, fmt.Sprintf("%s: %s acquired again while it may still be held on some path (%s)", p.InstrPos(c), op.ID, engine.RelName(f)))
					}
				}
				held := la.HeldAt(c)
				if held.Top || len(held.M) == 0 {
					continue
				}
				acq := map[string]engine.LockMode{}
				direct := false
				if op, isOp := engine.LockOpOf(c); isOp {
					if op.Acquire {
						acq[op.ID] = op.Mode
						direct = true
					}
				} else {
					for _, g := range la.Callees(c) {
						for id, m := range la.MayAcquire(g) {
							if acq[id] < m {
								acq[id] = m
							}
						}
					}
				}
				for h, hm := range held.M {
					if !track(h) {
						continue
					}
					for a, am := range acq {
						if !track(a) {
							continue
						}
						if h == a {
							if hm == engine.LockR && am == engine.LockR {
								continue
							}
							if _, ok := sameInstanceOK[h]; ok && !direct {
								continue
							}
							reent = append(reent, fmt.Sprintf("%s: %s acquired again while held (%s)", p.InstrPos(c), h, engine.RelName(f)))
							continue
						}
						k := h + " -> " + a
						if _, ok := edges[k]; !ok {
							edges[k] = lockEdge{h, a, p.InstrPos(c) + " in " + engine.RelName(f)}
						}
					}
				}
			}
		}
	}
	sort.Strings(reent)
	r.Check(len(reent) == 0, rule, "no lock is acquired again while it is held", "", "no re-entrant acquisition on any path", strings.Join(reent, "; "))
	// cycles
	adj := map[string][]string{}
	var ks []string
	for k, e := range edges {
		adj[e.from] = append(adj[e.from], e.to)
		ks = append(ks, k)
	}
	sort.Strings(ks)
	var cyc []string
	for _, k := range ks {
		e := edges[k]
		// is e.from reachable from e.to?
		seen := map[string]bool{}
		stack := []string{e.to}
		for len(stack) > 0 {
			x := stack[len(stack)-1]
			stack = stack[:len(stack)-1]
			if seen[x] {
				continue
			}
			seen[x] = true
			stack = append(stack, adj[x]...)
		}
		if seen[e.from] {
			cyc = append(cyc, k+" @"+e.at)
		}
	}
	var desc []string
	for _, k := range ks {
		desc = append(desc, k)
	}
	r.Check(len(cyc) == 0, rule, "acquired-while-holding graph is acyclic", "", fmt.Sprintf("%d edges: %s", len(ks), strings.Join(desc, ", ")), "lock-order cycle: "+strings.Join(cyc, "; "))
	return len(ks)
}

// blockingKinds: calls that may block or re-enter arbitrary subscribers.
func blockingCall(c ssa.CallInstruction) string {
	cc := c.Common()
	if cc.IsInvoke() && cc.Method.Name() == "Publish" {
		if n := engine.NamedOf(cc.Value.Type()); n != nil && n.Obj().Name() == "Bus" {
			return "eventbus.Bus.Publish"
		}
	}
	if o := engine.CalleeObj(cc); o != nil && o.Pkg() != nil {
		switch o.Pkg().Path() + "." + o.Name() {
		case "time.Sleep":
			return "time.Sleep"
		}
		if o.Pkg().Path() == "os" || o.Pkg().Path() == "io/ioutil" {
			switch o.Name() {
			case "WriteFile", "ReadFile", "OpenFile", "Open", "Create", "Rename", "Remove", "Sync", "Write", "Close":
				return o.Pkg().Name() + "." + o.Name()
			}
		}
	}
	return ""
}

// mayBlock: f (transitively, over repo functions, synchronous calls) reaches a blocking operation.
func mayBlockFn(p *engine.Prog, la *engine.LockAnalysis, memo map[*ssa.Function]string, f *ssa.Function, depth int) string {
	if v, ok := memo[f]; ok {
		return v
	}
	memo[f] = ""
	if f.Blocks == nil || depth > 8 {
		return ""
	}
	res := ""
outer:
	for _, b := range f.Blocks {
		for _, ins := range b.Instrs {
			switch x := ins.(type) {
			case *ssa.Send:
				if !sendInSelectDefault(x) {
					res = "channel send at " + p.InstrPos(x)
					break outer
				}
			case *ssa.Call:
				if w := blockingCall(x); w != "" {
					res = w + " at " + p.InstrPos(x)
					break outer
				}
				for _, g := range blockCallees(la, x) {
					if w := mayBlockFn(p, la, memo, g, depth+1); w != "" {
						res = engine.RelName(g) + " -> " + w
						break outer
					}
				}
			}
		}
	}
	memo[f] = res
	return res
}

func sendInSelectDefault(s *ssa.Send) bool { return false }

// noBlockingUnderLock: no blocking operation while one of the tracked locks is held.
func noBlockingUnderLock(p *engine.Prog, la *engine.LockAnalysis, r *engine.Report, rule string, fns []*ssa.Function, track func(id string) bool, allowed map[string]string) (sites int) {
	memo := map[*ssa.Function]string{}
	var bad []string
	for _, f := range fns {
		for _, b := range f.Blocks {
			for _, ins := range b.Instrs {
				var held engine.LSet
				what := ""
				switch x := ins.(type) {
				case *ssa.Send:
					held = la.HeldAt(x)
					what = "channel send"
				case *ssa.Select:
					if x.Blocking {
						held = la.HeldAt(x)
						what = "blocking select"
					}
				case *ssa.Call:
					held = la.HeldAt(x)
					if w := blockingCall(x); w != "" {
						what = w
					} else {
						for _, g := range blockCallees(la, x) {
							if w := mayBlockFn(p, la, memo, g, 0); w != "" {
								what = engine.RelName(g) + " -> " + w
								break
							}
						}
					}
				}
				if what == "" || held.Top {
					continue
				}
				for id := range held.M {
					if !track(id) {
						continue
					}
					sites++
					key := engine.RelName(f) + "|" + id + "|" + strings.SplitN(what, " at ", 2)[0]
					if _, ok := allowed[key]; ok {
						continue
					}
					bad = append(bad, fmt.Sprintf("%s: %s while holding %s (%s)", p.InstrPos(ins), what, id, engine.RelName(f)))
				}
			}
		}
	}
	sort.Strings(bad)
	r.Check(len(bad) == 0, rule, "no event publication, channel send or file I/O while a pool/tracker lock is held", "", fmt.Sprintf("%d held-lock call sites examined", sites), strings.Join(bad, "; "))
	return sites
}

// releasedOnAllPaths: a function that acquires a tracked lock does not return holding it on some path
// (pure acquire wrappers — no release of that lock inside — excepted).
func releasedOnAllPaths(p *engine.Prog, la *engine.LockAnalysis, r *engine.Report, rule string, fns []*ssa.Function, track func(id string) bool) (n int) {
	for _, f := range fns {
		acq := map[string]bool{}
		rel := map[string]bool{}
		for _, b := range f.Blocks {
			for _, ins := range b.Instrs {
				c, ok := ins.(ssa.CallInstruction)
				if !ok {
					continue
				}
				if op, isOp := engine.LockOpOf(c); isOp && track(op.ID) {
					if op.Acquire {
						acq[op.ID] = true
					} else {
						rel[op.ID] = true
					}
				}
			}
		}
		if len(acq) == 0 {
			continue
		}
		for id := range la.Releases(f) {
			rel[id] = true
		}
		may := la.MayHoldAtExit(f)
		must := la.Acquires(f)
		var ids []string
		for id := range acq {
			ids = append(ids, id)
		}
		sort.Strings(ids)
		for _, id := range ids {
			n++
			key := engine.RelName(f) + "|" + id + " released on every path"
			switch {
			case !may.Has(id):
				r.OK(rule, key, p.Pos(f.Pos()), "not held at any exit")
			case must.Has(id) && !rel[id]:
				r.OK(rule, key, p.Pos(f.Pos()), "acquire wrapper: returns holding it on every path, no release inside")
			default:
				r.Bad(rule, key, p.Pos(f.Pos()), "some return path leaves "+id+" held (no unlock, no deferred unlock on that path)")
			}
		}
	}
	return n
}

// flagIdiom checks the repo's flag-based unlock idiom: a deferred closure that releases lock L only if
// a captured bool cell is set. Every direct Lock(L) in the function must be followed, in the same
// block and before any call, by a store of true to that cell; every Unlock(L) outside the deferred
// closure (in the function or its closures) must be followed by a store of false to it.
func flagIdiom(p *engine.Prog, la *engine.LockAnalysis, r *engine.Report, rule string, f *ssa.Function) {
	// find the deferred closure and the flag cell
	var flag ssa.Value // Alloc in f
	var lockID string
	var deferred *ssa.Function
	for _, b := range f.Blocks {
		for _, ins := range b.Instrs {
			d, ok := ins.(*ssa.Defer)
			if !ok {
				continue
			}
			mc, ok := d.Call.Value.(*ssa.MakeClosure)
			if !ok {
				continue
			}
			fn := mc.Fn.(*ssa.Function)
			for _, bb := range fn.Blocks {
				for _, i2 := range bb.Instrs {
					c, ok := i2.(*ssa.Call)
					if !ok {
						continue
					}
					op, isOp := engine.LockOpOf(c)
					if !isOp || op.Acquire {
						continue
					}
					// guarded by a load of a captured bool
					for _, iff := range engine.Ifs(fn) {
						u, isU := iff.Cond.(*ssa.UnOp)
						if !isU || u.Op != token.MUL {
							continue
						}
						fv, isFV := u.X.(*ssa.FreeVar)
						if !isFV {
							continue
						}
						if engine.ReachAvoiding(fn, fn.Blocks[0], map[engine.Edge]bool{{From: iff.Block(), Succ: 0}: true}, nil)[bb] {
							continue
						}
						for i, v := range fn.FreeVars {
							if v == fv {
								flag = mc.Bindings[i]
								lockID = op.ID
								deferred = fn
							}
						}
					}
				}
			}
		}
	}
	key := engine.RelName(f) + "|flag mirrors the lock (conditional deferred unlock)"
	if flag == nil {
		r.Und(rule, key, p.Pos(f.Pos()), "flag-based deferred unlock not found")
		return
	}
	storesAfter := func(c *ssa.Call, want bool, cell func(v ssa.Value) bool) bool {
		blk := c.Block()
		after := false
		for _, ins := range blk.Instrs {
			if ins == ssa.Instruction(c) {
				after = true
				continue
			}
			if !after {
				continue
			}
			if st, ok := ins.(*ssa.Store); ok && cell(st.Addr) {
				if v, isC := engine.ConstBool(st.Val); isC && v == want {
					return true
				}
				return false
			}
			if _, isCall := ins.(ssa.CallInstruction); isCall {
				return false
			}
		}
		return false
	}
	var bad []string
	nLock, nUnlock := 0, 0
	scan := func(fn *ssa.Function, cell func(v ssa.Value) bool) {
		for _, b := range fn.Blocks {
			for _, ins := range b.Instrs {
				c, ok := ins.(*ssa.Call)
				if !ok {
					continue
				}
				op, isOp := engine.LockOpOf(c)
				if !isOp || op.ID != lockID {
					continue
				}
				if op.Acquire {
					nLock++
					if !storesAfter(c, true, cell) {
						bad = append(bad, p.InstrPos(c)+" Lock not followed by flag=true")
					}
				} else {
					nUnlock++
					if !storesAfter(c, false, cell) {
						bad = append(bad, p.InstrPos(c)+" Unlock not followed by flag=false")
					}
				}
			}
		}
	}
	scan(f, func(v ssa.Value) bool { return v == flag })
	for _, a := range f.AnonFuncs {
		if a == deferred {
			continue
		}
		// the cell as seen from the closure
		var fvs []ssa.Value
		for _, b := range f.Blocks {
			for _, ins := range b.Instrs {
				if mc, ok := ins.(*ssa.MakeClosure); ok && mc.Fn == ssa.Value(a) {
					for i, bnd := range mc.Bindings {
						if bnd == flag {
							fvs = append(fvs, a.FreeVars[i])
						}
					}
				}
			}
		}
		scan(a, func(v ssa.Value) bool {
			for _, x := range fvs {
				if v == x {
					return true
				}
			}
			return false
		})
	}
	r.Check(len(bad) == 0 && nLock > 0 && nUnlock > 0, rule, key, p.Pos(f.Pos()), fmt.Sprintf("%s: %d Lock → flag=true, %d Unlock → flag=false; deferred closure unlocks iff flag", lockID, nLock, nUnlock), strings.Join(bad, "; "))
}

// blockCallees: callees followed by the blocking analysis — static callees, closures, and invokes on
// interfaces declared in the repository (invokes on io.Writer and the like would resolve, under CHA, to
// every writer of the program).
func blockCallees(la *engine.LockAnalysis, c ssa.CallInstruction) []*ssa.Function {
	cc := c.Common()
	if cc.IsInvoke() {
		n := engine.NamedOf(cc.Value.Type())
		if n == nil || n.Obj().Pkg() == nil || !engine.IsRepoPkg(n.Obj().Pkg()) {
			return nil
		}
	}
	return la.Callees(c)
}

// isTestish: position inside test code or test helpers compiled into the package.
func isTestish(pos string) bool {
	return strings.Contains(pos, "_test.go") || strings.Contains(pos, "test_utils") || strings.Contains(pos, "_mocks.go") || strings.HasPrefix(pos, "tests/")
}
