package props

import (
	"os"
	"sort"
	"strings"

	"golang.org/x/tools/go/ssa"

	"idenaverif/internal/engine"
)

var fillers = map[string]bool{"Add": true, "Store": true, "Set": true, "Put": true, "Push": true, "Insert": true, "LoadOrStore": true}

// resetField describes one field of a type with a reset method.
type resetField struct {
	Field    string
	FilledAt string // first write outside constructor and reset ("" if none)
	Reset    bool   // written by the reset method (or a method of the same type it calls)
}

// resetCoverage relates the fields of pkg.typ written after construction to the fields the
// reset method writes. A field is "written" by a Store to its address, by a map update /
// delete through a load of it, or by a store through an element pointer derived from it.
func resetCoverage(p *engine.Prog, pkg, typ string, reset *ssa.Function) []resetField {
	fieldOfWrite := func(ins ssa.Instruction) (string, bool) {
		switch x := ins.(type) {
		case *ssa.Store:
			if o, f, ok := engine.FieldOf(x.Addr); ok && o == typ {
				// a composite literal / new(T) being filled in is construction, not a later write
				if fa, isFA := x.Addr.(*ssa.FieldAddr); isFA {
					if _, fresh := engine.Unwrap(fa.X).(*ssa.Alloc); fresh {
						return "", false
					}
				}
				return f, true
			}
		case *ssa.MapUpdate:
			if u, ok := engine.Unwrap(x.Map).(*ssa.UnOp); ok {
				if o, f, ok := engine.FieldOf(u.X); ok && o == typ {
					return f, true
				}
			}
		case *ssa.Call:
			// a filling method on the container held by the field (set.Add, sync.Map.Store, …)
			if obj := engine.CalleeObj(&x.Call); obj != nil && fillers[obj.Name()] {
				if args := engine.CallArgs(x); len(args) > 0 && engine.HasRecv(x) {
					if u, ok := engine.Unwrap(args[0]).(*ssa.UnOp); ok {
						ts := u.Type().String()
						if o, f, ok := engine.FieldOf(u.X); ok && o == typ && (strings.Contains(ts, "golang-set.Set") || strings.Contains(ts, "sync.Map")) {
							return f, true
						}
					}
				}
			}
			if b, ok := x.Call.Value.(*ssa.Builtin); ok && b.Name() == "delete" && len(x.Call.Args) > 0 {
				if u, ok := engine.Unwrap(x.Call.Args[0]).(*ssa.UnOp); ok {
					if o, f, ok := engine.FieldOf(u.X); ok && o == typ {
						return f, true
					}
				}
			}
		}
		return "", false
	}
	// the reset method and the same-type methods it calls
	inReset := map[*ssa.Function]bool{}
	var visit func(f *ssa.Function)
	visit = func(f *ssa.Function) {
		if f == nil || inReset[f] || f.Blocks == nil {
			return
		}
		inReset[f] = true
		for _, c := range engine.Calls(f) {
			if cal := c.Common().StaticCallee(); cal != nil && cal.Signature.Recv() != nil {
				if n := engine.NamedOf(cal.Signature.Recv().Type()); n != nil && n.Obj().Name() == typ {
					visit(cal)
				}
			}
		}
	}
	visit(reset)
	resetW := map[string]bool{}
	for f := range inReset {
		for _, b := range f.Blocks {
			for _, ins := range b.Instrs {
				if st, ok := ins.(*ssa.Store); ok {
					if o, fld, ok := engine.FieldOf(st.Addr); ok && o == typ {
						resetW[fld] = true
					}
				}
			}
		}
	}
	filled := map[string]string{}
	for _, f := range funcsOfPkg(p, pkg) {
		if f.Blocks == nil || isTestish(p.Pos(f.Pos())) || inReset[f] {
			continue
		}
		top := topParent(f)
		if top.Signature.Recv() == nil && strings.HasPrefix(top.Name(), "New") {
			continue
		}
		for _, b := range f.Blocks {
			for _, ins := range b.Instrs {
				if fld, ok := fieldOfWrite(ins); ok && filled[fld] == "" {
					filled[fld] = p.InstrPos(ins) + " (" + engine.RelName(f) + ")"
				}
			}
		}
	}
	names := map[string]bool{}
	for f := range filled {
		names[f] = true
	}
	for f := range resetW {
		names[f] = true
	}
	var out []resetField
	for _, f := range sortedKeys(names) {
		out = append(out, resetField{Field: f, FilledAt: filled[f], Reset: resetW[f]})
	}
	sort.Slice(out, func(i, j int) bool { return out[i].Field < out[j].Field })
	return out
}

// resetCompletenessRule: every field of pkg.typ written after construction is written by the
// reset method, except the fields frozen in `keep` (field -> reason it legitimately survives).
// A kept field that the reset starts writing, or that is no longer written anywhere, is
// reported as a stale exception (informational), never as a violation.
func resetCompletenessRule(p *engine.Prog, r *engine.Report, rule, pkg, typ, resetName string, keep map[string]string, bad string) {
	reset := mustFunc(p, r, pkg, typ+"."+resetName)
	if reset == nil {
		return
	}
	r.Fn(engine.FuncName(reset))
	for _, rf := range resetCoverage(p, pkg, typ, reset) {
		if rf.FilledAt == "" {
			continue
		}
		key := typ + "." + resetName + "|" + rf.Field
		if why, ok := keep[rf.Field]; ok {
			r.OK(rule, key+" (survives by design)", p.Pos(reset.Pos()), why)
			continue
		}
		r.Check(rf.Reset, rule, key, p.Pos(reset.Pos()), "re-initialised by "+resetName+" (written at "+rf.FilledAt+")", typ+"."+rf.Field+" is written at "+rf.FilledAt+" but "+typ+"."+resetName+" leaves it as it is: "+bad)
	}
}

func init() {
	if os.Getenv("VERIF_RESET_PROBE") == "" {
		return
	}
	register("XRESET", func(p *engine.Prog, r *engine.Report) {
		for _, t := range [][3]string{
			{"core/state", "StateDB", "Clear"}, {"core/state", "IdentityStateDB", "Clear"},
			{"core/ceremony", "ValidationCeremony", "completeEpoch"}, {"core/flip", "Flipper", "Clear"},
			{"core/mempool", "KeysPool", "Clear"}, {"core/appstate", "EvidenceMap", "Clear"},
			{"core/state", "NonceCache", "Clear"}, {"core/mempool", "txKeeper", "Clear"},
			{"vm/env", "EnvImp", "Reset"}, {"vm/wasm", "WasmEnv", "Reset"}, {"core/validators", "ValidatorsCache", "loadValidNodes"},
			{"core/ceremony", "qualification", "clear"}, {"blockchain", "OfflineDetector", "restart"},
		} {
			f, _ := p.Func(t[0], t[1]+"."+t[2])
			if f == nil {
				r.Note("XRESET", t[1]+"."+t[2], "", "not found")
				continue
			}
			for _, rf := range resetCoverage(p, t[0], t[1], f) {
				r.Note("XRESET", t[1]+"."+t[2]+"|"+rf.Field, rf.FilledAt, map[bool]string{true: "reset", false: "NOT reset"}[rf.Reset])
			}
		}
	})
}
