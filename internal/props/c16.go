package props

import (
	"go/types"
	"sort"
	"strings"

	"golang.org/x/tools/go/ssa"

	"idenaverif/internal/engine"
)

func init() { register("C16", C16) }

// C16 — flip lottery: determinism and the assignment<->recipient linkage shape.
func C16(p *engine.Prog, r *engine.Report) {
	r.Explanation = "(R1) effect analysis A over the lottery (GetAuthorsDistribution, GetFlipsDistribution, calculateCeremonyCandidates, getCandidatesAndFlips): every PRNG is rand.New(rand.NewSource(f(seed))), no clock/global randomness, every iteration in unspecified order is order-insensitive by idiom or a confirmed instance; (R2) the two inverse tables authorsPerCandidate / candidatesPerAuthor are updated in lock-step: every append of author a to authorsPerCandidate[c] has, in the same basic block, the append of c to candidatesPerAuthor[a], and nothing else writes either map ('and vice versa'); (R3) one source of truth: ValidationCeremony.shardLotteries is written only from GetAuthorsDistribution(vc.shardCandidates, seed, n); the flip assignment reads authorsPerCandidate of the same shard entry and the same seed/n; the key-package recipient list and the package index read candidatesPerAuthor of that same field, indexed by getCandidateIndex of the author and resolved in the same shard's candidate list. (R4) the long-list placeholder is written to the list whose emptiness its guard tests, the recipient list has exactly one entry per element of candidatesPerAuthor[author] in order and the package index is the position in that raw list. Decides determinism and linkage shape; does not decide in-range / duplicate-free / quota / non-empty long list (index arithmetic over runtime sizes) nor decryptability."
	r.Assumptions = []string{"math/rand with an explicit source is a pure function of the seed", "candidate order inside a shard comes from IterateIdentities (IAVL key order) or the stored lottery identities"}
	var entries []*ssa.Function
	for _, n := range []string{"GetAuthorsDistribution", "GetFlipsDistribution", "ValidationCeremony.calculateCeremonyCandidates", "ValidationCeremony.getCandidatesAndFlips", "SortFlips"} {
		if f, err := p.Func("core/ceremony", n); err == nil {
			entries = append(entries, f)
			r.Fn(engine.FuncName(f))
		} else if n != "SortFlips" {
			r.Errorf("anchor %s: %v", n, err)
		}
	}
	runDeterminism(p, r, "C16-R1", entries, 1)

	// ---------------- R2 lock-step
	n2 := 0
	for _, name := range []string{"getFirstAuthorsDistribution", "appendAdditionalCandidates"} {
		f := mustFunc(p, r, "core/ceremony", name)
		if f == nil {
			continue
		}
		type upd struct {
			mu   *ssa.MapUpdate
			elem ssa.Value // appended element
		}
		var ups []upd
		for _, b := range f.Blocks {
			for _, ins := range b.Instrs {
				mu, ok := ins.(*ssa.MapUpdate)
				if !ok {
					continue
				}
				// value = append(m[k], elem...)
				var elem ssa.Value
				if c, ok := mu.Value.(*ssa.Call); ok {
					if bi, isB := c.Call.Value.(*ssa.Builtin); isB && bi.Name() == "append" {
						// variadic arg: slice of a 1-element array holding elem
						for v := range engine.BackSlice(c.Call.Args[1], engine.SliceOpts{ThroughLoads: true, ThroughFields: true, MaxNodes: 30}) {
							if st, ok := v.(*ssa.Alloc); ok {
								for _, ref := range *st.Referrers() {
									if ia, ok := ref.(*ssa.IndexAddr); ok {
										for _, s := range engine.StoresTo(ia) {
											elem = s.Val
										}
									}
								}
							}
						}
					}
				}
				ups = append(ups, upd{mu, elem})
			}
		}
		for _, u := range ups {
			n2++
			key := name + "|" + srcExprOfMapUpdate(p, u.mu) + "[…] append"
			if u.elem == nil {
				r.Und("C16-R2", key, p.InstrPos(u.mu), "table write is not an append of one element")
				continue
			}
			paired := false
			for _, o := range ups {
				if o.mu == u.mu || o.mu.Block() != u.mu.Block() || o.elem == nil {
					continue
				}
				if engine.PathOf(o.mu.Map) != engine.PathOf(u.mu.Map) && o.mu.Key == u.elem && o.elem == u.mu.Key {
					paired = true
				}
			}
			r.Check(paired, "C16-R2", key, p.InstrPos(u.mu), "paired with the inverse append in the same block", "an (author, candidate) pair is recorded in one table without the inverse entry in the other: a candidate can be assigned a flip whose author does not encrypt the key for it (or vice versa)")
		}
	}
	r.Floor("C16-R2", 4, "2 functions x 2 tables")

	// ---------------- R3 one source of truth
	ccc := mustFunc(p, r, "core/ceremony", "ValidationCeremony.calculateCeremonyCandidates")
	if ccc == nil {
		return
	}
	all := funcsOfPkg(p, "core/ceremony")
	var gad *ssa.Call
	for _, s := range storesToField(all, "ValidationCeremony", "shardLotteries") {
		fn := engine.RelName(s.Parent())
		if engine.IsNilConst(s.Val) {
			r.OK("C16-R3", fn+"|shardLotteries = nil", p.InstrPos(s), "reset")
			continue
		}
		c, ok := engine.Unwrap(s.Val).(*ssa.Call)
		ok = ok && s.Parent() == ccc && engine.CallIs(c, "core/ceremony.GetAuthorsDistribution")
		if ok {
			gad = c
			_, fromField := loadOfField(c.Call.Args[0], "ValidationCeremony", "shardCandidates")
			ok = fromField
		}
		r.Check(ok, "C16-R3", fn+"|shardLotteries = GetAuthorsDistribution(vc.shardCandidates, …)", p.InstrPos(s), "single producer", "author distribution written from another source")
	}
	for _, c := range callsTo(ccc, "core/ceremony.GetFlipsDistribution") {
		a := c.Common().Args
		ok := false
		detail := ""
		// a[1] = vc.shardLotteries[K].authorsPerCandidate
		if base, isF := loadOfField(a[1], "shardAuthors", "authorsPerCandidate"); isF {
			if lk, isL := engine.Origin(base).(*ssa.Lookup); isL {
				if _, fromField := loadOfField(lk.X, "ValidationCeremony", "shardLotteries"); fromField {
					// shard = vc.shardCandidates[K']
					for v := range engine.BackSlice(a[3], engine.DefaultSlice) {
						// `for shardId, shard := range vc.shardCandidates`: value and key of the same iteration
						if ex, isEx := v.(*ssa.Extract); isEx && ex.Index == 2 {
							if nx, isNx := ex.Tuple.(*ssa.Next); isNx {
								if rg, isRg := nx.Iter.(*ssa.Range); isRg {
									if _, ff := loadOfField(rg.X, "ValidationCeremony", "shardCandidates"); ff {
										if kx, isKx := engine.Unwrap(lk.Index).(*ssa.Extract); isKx && kx.Index == 1 && kx.Tuple == ex.Tuple {
											ok = true
										} else {
											detail = "different shard keys"
										}
									}
								}
							}
						}
						if lk2, isL2 := v.(*ssa.Lookup); isL2 {
							if _, ff := loadOfField(lk2.X, "ValidationCeremony", "shardCandidates"); ff {
								if engine.PathOf(lk2.Index) == engine.PathOf(lk.Index) {
									ok = true
								} else {
									detail = "different shard keys"
								}
							}
						}
					}
				}
			}
		}
		if ok && gad != nil {
			ok = engine.PathOf(a[4]) == engine.PathOf(gad.Call.Args[1]) && engine.PathOf(a[5]) == engine.PathOf(gad.Call.Args[2])
			if !ok {
				detail = "seed / short flips count differ from the author distribution's"
			}
		}
		r.Check(ok, "C16-R3", "calculateCeremonyCandidates|GetFlipsDistribution reads the same shard's authorsPerCandidate, same seed", p.InstrPos(c), "vc.shardLotteries[shardId].authorsPerCandidate with shard = vc.shardCandidates[shardId]", "flip assignment does not use the recorded author distribution of its own shard: "+detail)
	}
	for _, name := range []string{"ValidationCeremony.PrivateEncryptionKeyCandidates", "ValidationCeremony.getPrivateKeyPackageIndex"} {
		f := mustFunc(p, r, "core/ceremony", name)
		if f == nil {
			continue
		}
		ok := false
		detail := "no lookup of candidatesPerAuthor found"
		for _, b := range f.Blocks {
			for _, ins := range b.Instrs {
				lk, isL := ins.(*ssa.Lookup)
				if !isL {
					continue
				}
				base, isF := loadOfField(lk.X, "shardAuthors", "candidatesPerAuthor")
				if !isF {
					continue
				}
				outer, isL2 := engine.Origin(base).(*ssa.Lookup)
				if !isL2 {
					continue
				}
				if _, ff := loadOfField(outer.X, "ValidationCeremony", "shardLotteries"); !ff {
					detail = "candidatesPerAuthor not read from vc.shardLotteries"
					continue
				}
				// index = getCandidateIndex(<author>)
				idx, isC := engine.Origin(lk.Index).(*ssa.Call)
				if !isC || !engine.CallIs(idx, "core/ceremony.ValidationCeremony.getCandidateIndex") {
					detail = "author index not from getCandidateIndex"
					continue
				}
				wantParam := f.Params[1] // addr (the author for PrivateEncryptionKeyCandidates)
				if name == "ValidationCeremony.getPrivateKeyPackageIndex" {
					wantParam = f.Params[2] // author
				}
				if engine.Origin(idx.Call.Args[1]) != ssa.Value(wantParam) {
					detail = "candidatesPerAuthor indexed by another address than the author"
					continue
				}
				ok = true
			}
		}
		r.Check(ok, "C16-R3", engine.RelName(f)+"|recipients = vc.shardLotteries[shard].candidatesPerAuthor[index(author)]", p.Pos(f.Pos()), "same table the flip assignment is the inverse of", "key recipients are not derived from the recorded distribution: "+detail)
	}
	// recipients' public keys come from the same shard's candidate list
	if f, err := p.Func("core/ceremony", "ValidationCeremony.PrivateEncryptionKeyCandidates"); err == nil {
		var kLot, kCand []string
		for _, b := range f.Blocks {
			for _, ins := range b.Instrs {
				if lk, ok := ins.(*ssa.Lookup); ok {
					if _, ff := loadOfField(lk.X, "ValidationCeremony", "shardLotteries"); ff {
						kLot = append(kLot, engine.PathOf(lk.Index))
					}
					if _, ff := loadOfField(lk.X, "ValidationCeremony", "shardCandidates"); ff {
						kCand = append(kCand, engine.PathOf(lk.Index))
					}
				}
			}
		}
		ok := len(kLot) > 0 && len(kCand) > 0
		for _, a := range kCand {
			for _, b := range kLot {
				if a != b {
					ok = false
				}
			}
		}
		r.Check(ok, "C16-R3", "PrivateEncryptionKeyCandidates|candidate list and lottery of the same shard", p.Pos(f.Pos()), "same shard key", "recipient indexes are resolved in another shard's candidate list")
	}
	r.Floor("C16-R3", 5, "producer, consumer, 2 recipient readers, shard agreement")
	c16R4(p, r)
	c16R5(p, r)
	c16R6(p, r)
	c16R7(p, r)
}

// varNameOf: the source variable name behind a value when it is a load of a named local /
// a parameter; falls back to the access path.
func varNameOf(v ssa.Value) string {
	switch x := v.(type) {
	case *ssa.Parameter:
		return x.Name()
	case *ssa.UnOp:
		if a, ok := x.X.(*ssa.Alloc); ok && a.Comment != "" {
			return a.Comment
		}
		if fv, ok := x.X.(*ssa.FreeVar); ok {
			return fv.Name()
		}
	}
	return engine.PathOf(v)
}

// c16R4: local shape rules of the assignment/recipient code.
func c16R4(p *engine.Prog, r *engine.Report) {
	// (a) the placeholder loop of GetFlipsDistribution tests the very list it fills
	if f := mustFunc(p, r, "core/ceremony", "GetFlipsDistribution"); f != nil {
		n := 0
		for _, b := range f.Blocks {
			for _, ins := range b.Instrs {
				st, ok := ins.(*ssa.Store)
				if !ok {
					continue
				}
				ia, ok := st.Addr.(*ssa.IndexAddr)
				if !ok {
					continue
				}
				// stored value: a one-element literal slice
				sl, ok := st.Val.(*ssa.Slice)
				if !ok {
					continue
				}
				if a, isA := sl.X.(*ssa.Alloc); !isA || a.Comment != "slicelit" {
					continue
				}
				n++
				// the guard that dominates this block: len(X'[i]) == 0
				okG := false
				for d := b; d != nil; d = d.Idom() {
					if len(d.Instrs) == 0 {
						continue
					}
					i, isIf := d.Instrs[len(d.Instrs)-1].(*ssa.If)
					if !isIf || d == b {
						continue
					}
					x, y, _, isEq := eqCond(i.Cond)
					if !isEq {
						continue
					}
					for _, pr := range [][2]ssa.Value{{x, y}, {y, x}} {
						if k, isK := engine.ConstInt(pr[1]); !isK || k != 0 {
							continue
						}
						ln, isC := pr[0].(*ssa.Call)
						if !isC {
							continue
						}
						if bi, isB := ln.Call.Value.(*ssa.Builtin); !isB || bi.Name() != "len" {
							continue
						}
						if u, isU := ln.Call.Args[0].(*ssa.UnOp); isU {
							if ia2, isIA := u.X.(*ssa.IndexAddr); isIA && engine.PathOf(ia2.X) == engine.PathOf(ia.X) && engine.PathOf(ia2.Index) == engine.PathOf(ia.Index) {
								okG = true
							}
						}
					}
					break
				}
				r.Check(okG, "C16-R4", "GetFlipsDistribution|placeholder guards the list it fills", p.InstrPos(st), "if len(list[i]) == 0 { list[i] = placeholder } on the same list and index", "the placeholder is written to a list whose emptiness is not what the guard tests: a candidate can keep an empty long-session list")
			}
		}
		if n == 0 {
			r.Und("C16-R4", "GetFlipsDistribution|placeholder assignment", p.Pos(f.Pos()), "placeholder store not found")
		}
	}
	// (b) the recipient list has one entry per element of candidatesPerAuthor[author], in order:
	// positions are what getPrivateKeyPackageIndex returns
	if f := mustFunc(p, r, "core/ceremony", "ValidationCeremony.PrivateEncryptionKeyCandidates"); f != nil {
		ok := false
		for _, c := range engine.Calls(f) {
			bi, isB := c.Common().Value.(*ssa.Builtin)
			if !isB || bi.Name() != "append" {
				continue
			}
			hdr := engine.LoopHeaderOf(c.Block())
			if hdr == nil {
				continue
			}
			// every back edge of the loop passes the append block
			reach := engine.ReachAvoiding(f, hdr, nil, map[*ssa.BasicBlock]bool{c.Block(): true})
			ok = true
			for _, pr := range hdr.Preds {
				if hdr.Dominates(pr) && pr != c.Block() && reach[pr] {
					ok = false
				}
			}
			// appended element resolved from the iterated element
			if ok {
				ok = dependsOnLoopPosition(c.Common().Args[1], loopBlocks(hdr))
			}
		}
		r.Check(ok, "C16-R4", "PrivateEncryptionKeyCandidates|one recipient entry per list element, in order", p.Pos(f.Pos()), "every iteration appends exactly the element's public key", "the recipient list skips or filters elements of candidatesPerAuthor[author]: positions no longer match getPrivateKeyPackageIndex, a recipient reads another slot of the key package")
	}
	if f := mustFunc(p, r, "core/ceremony", "ValidationCeremony.getPrivateKeyPackageIndex"); f != nil {
		// returns the range index of the first element equal to the solver's candidate index
		ok := false
		for _, ret := range engine.Returns(f) {
			if len(ret.Results) != 1 {
				continue
			}
			if ph, isPhi := ret.Results[0].(*ssa.Phi); isPhi && isLoopIndexPhi(ph) {
				ok = true
			}
			if bo, isB := ret.Results[0].(*ssa.BinOp); isB {
				if ph, isPhi := bo.X.(*ssa.Phi); isPhi && isLoopIndexPhi(ph) {
					ok = true
				}
			}
		}
		r.Check(ok, "C16-R4", "getPrivateKeyPackageIndex|returns the position in the raw list", p.Pos(f.Pos()), "range index of the first match", "package index is not the position in candidatesPerAuthor[author]")
	}
	// the writer of the package: one slot per recipient, in order — every iteration of the loop over the
	// recipients' keys appends exactly one element (a placeholder when a key cannot be used)
	if f := mustFunc(p, r, "core/mempool", "EncryptPrivateKeysPackage"); f != nil {
		var hdr *ssa.BasicBlock
		var appends []ssa.CallInstruction
		for _, c := range engine.Calls(f) {
			bi, isB := c.Common().Value.(*ssa.Builtin)
			if !isB || bi.Name() != "append" {
				continue
			}
			if h := engine.LoopHeaderOf(c.Block()); h != nil {
				hdr = h
				appends = append(appends, c)
			}
		}
		ok := hdr != nil && len(appends) > 0
		if ok {
			// the next iteration is reachable from the loop body only through an append
			cut := map[*ssa.BasicBlock]bool{}
			for _, a := range appends {
				cut[a.Block()] = true
			}
			for _, s := range hdr.Succs {
				if !loopBlocks(hdr)[s] || cut[s] {
					continue
				}
				if engine.ReachAvoiding(f, s, nil, cut)[hdr] {
					ok = false
				}
			}
			// and no iteration appends twice: no append block reaches another append block without the header
			for _, a := range appends {
				for _, s := range a.Block().Succs {
					reach := engine.ReachAvoiding(f, s, nil, map[*ssa.BasicBlock]bool{hdr: true})
					for _, b := range appends {
						if reach[b.Block()] {
							ok = false
						}
					}
				}
			}
		}
		r.Check(ok, "C16-R4", "EncryptPrivateKeysPackage|one slot per recipient, in order", p.Pos(f.Pos()), "every iteration appends exactly once", "some recipient gets no slot (or two): every later recipient reads the key encrypted for its neighbour — positions are what getPrivateKeyPackageIndex / GetEncryptedPrivateFlipKey address")
	}
	r.Floor("C16-R4", 4, "placeholder + two positional readers")
}

// dependsOnLoopPosition: v is computed from the position variable of the (ordered) loop made of blocks:
// the element or hidden index of a range loop, or a classic induction variable.
func dependsOnLoopPosition(v ssa.Value, blocks map[*ssa.BasicBlock]bool) bool {
	if dependsOnIterVarIn(v, blocks) {
		return true
	}
	for x := range engine.BackSlice(v, engine.DefaultSlice) {
		if ph, ok := x.(*ssa.Phi); ok && blocks[ph.Block()] && isLoopIndexPhi(ph) {
			return true
		}
	}
	return false
}

// c16R5: the key-extraction path (GetEncryptedPrivateFlipKey, GetPublicFlipKey) answers from
// per-epoch containers of KeysPool; every such container that is filled after construction is
// re-created by KeysPool.Clear (run at the epoch switch). A container that survives Clear makes
// next epoch's solvers read last epoch's keys.
func c16R5(p *engine.Prog, r *engine.Report) {
	clear := mustFunc(p, r, "core/mempool", "KeysPool.Clear")
	var entries []*ssa.Function
	for _, n := range []string{"KeysPool.GetEncryptedPrivateFlipKey", "KeysPool.GetPublicFlipKey"} {
		if f := mustFunc(p, r, "core/mempool", n); f != nil {
			entries = append(entries, f)
		}
	}
	if clear == nil || len(entries) == 0 {
		return
	}
	isKP := func(v ssa.Value) bool {
		o, _, ok := engine.FieldOf(v)
		return ok && o == "KeysPool"
	}
	// fields read by the extraction path (static callees that are KeysPool methods)
	read := map[string]bool{}
	seen := map[*ssa.Function]bool{}
	var visit func(f *ssa.Function)
	visit = func(f *ssa.Function) {
		if f == nil || seen[f] || f.Blocks == nil {
			return
		}
		seen[f] = true
		r.Fn(engine.FuncName(f))
		for _, b := range f.Blocks {
			for _, ins := range b.Instrs {
				if u, ok := ins.(*ssa.UnOp); ok && isKP(u.X) {
					if _, isMap := u.Type().Underlying().(*types.Map); isMap {
						_, fld, _ := engine.FieldOf(u.X)
						read[fld] = true
					}
				}
				if c, ok := ins.(ssa.CallInstruction); ok {
					if cal := c.Common().StaticCallee(); cal != nil && cal.Signature.Recv() != nil {
						if n := engine.NamedOf(cal.Signature.Recv().Type()); n != nil && n.Obj().Name() == "KeysPool" {
							visit(cal)
						}
					}
				}
			}
		}
	}
	for _, e := range entries {
		visit(e)
	}
	// fields filled after construction
	filled := map[string]string{}
	for _, f := range funcsOfPkg(p, "core/mempool") {
		if f.Blocks == nil || isTestish(p.Pos(f.Pos())) || f == clear || (f.Parent() == nil && strings.HasPrefix(f.Name(), "New")) {
			continue
		}
		for _, b := range f.Blocks {
			for _, ins := range b.Instrs {
				if mu, ok := ins.(*ssa.MapUpdate); ok {
					if u, isLoad := engine.Unwrap(mu.Map).(*ssa.UnOp); isLoad && isKP(u.X) {
						_, fld, _ := engine.FieldOf(u.X)
						if filled[fld] == "" {
							filled[fld] = p.InstrPos(mu)
						}
					}
				}
			}
		}
	}
	// what Clear re-creates
	fresh := map[string]bool{}
	for _, b := range clear.Blocks {
		for _, ins := range b.Instrs {
			if st, ok := ins.(*ssa.Store); ok && isKP(st.Addr) {
				if _, isMake := engine.Unwrap(st.Val).(*ssa.MakeMap); isMake {
					_, fld, _ := engine.FieldOf(st.Addr)
					fresh[fld] = true
				}
			}
		}
	}
	var names []string
	for f := range read {
		if filled[f] != "" {
			names = append(names, f)
		}
	}
	sort.Strings(names)
	for _, f := range names {
		r.Check(fresh[f], "C16-R5", "KeysPool.Clear|re-creates "+f, p.Pos(clear.Pos()), "fresh map stored on the epoch switch (filled at "+filled[f]+")", "KeysPool."+f+" is read when a solver asks for a flip key and is filled during the epoch, but survives Clear: after the epoch switch a recipient is answered from the previous epoch's keys/packages (wrong key, or a slot encrypted for whoever held that index last epoch)")
	}
	// the flip store and the node's own flip keys are per-epoch as well
	resetCompletenessRule(p, r, "C16-R5", "core/flip", "Flipper", "Clear", map[string]string{},
		"flips, readiness marks or the node's own flip encryption keys of the finished epoch are used in the next one: authors encrypt with, and solvers are served from, last epoch's material")
	r.Floor("C16-R5", 5, "3 KeysPool containers + Flipper fields")
}

// c16R6: (a) in getCandidatesAndFlips flips are attributed to "the candidate appended next"
// (author index = len(shard.candidates)): every attribution is followed, on every path, by the
// append of that identity to shard.candidates; (b) GetEncryptedPrivateFlipKey answers from the
// cache and from the freshly decrypted package by the same index test.
func c16R6(p *engine.Prog, r *engine.Report) {
	if f := mustFunc(p, r, "core/ceremony", "ValidationCeremony.getCandidatesAndFlips"); f != nil {
		n := 0
		for _, cl := range f.AnonFuncs {
			// the closure that appends to shard.candidates
			stores := map[*ssa.BasicBlock]bool{}
			for _, b := range cl.Blocks {
				for _, ins := range b.Instrs {
					if st, ok := ins.(*ssa.Store); ok {
						if _, fld, okF := engine.FieldOf(st.Addr); okF && fld == "candidates" {
							stores[b] = true
						}
					}
				}
			}
			if len(stores) == 0 {
				continue
			}
			for _, c := range engine.Calls(cl) {
				// a call of a sibling closure that fills flipsPerAuthor (addFlips): dynamic call of a captured func value
				cc := c.Common()
				if cc.StaticCallee() != nil || cc.IsInvoke() {
					continue
				}
				if _, isB := cc.Value.(*ssa.Builtin); isB {
					continue
				}
				// it receives flip cids ([][]byte)
				takesCids := false
				for _, a := range cc.Args {
					if a.Type().String() == "[][]byte" {
						takesCids = true
					}
				}
				if !takesCids {
					continue
				}
				n++
				ok := stores[c.Block()]
				if !ok {
					ok = true
					for b := range engine.ReachAvoiding(cl, c.Block(), nil, stores) {
						if b == c.Block() {
							continue
						}
						if len(b.Instrs) > 0 {
							if _, isRet := b.Instrs[len(b.Instrs)-1].(*ssa.Return); isRet {
								ok = false
							}
						}
					}
					// the call's own block must not return either
					if _, isRet := c.Block().Instrs[len(c.Block().Instrs)-1].(*ssa.Return); isRet {
						ok = false
					}
				}
				r.Check(ok, "C16-R6", "getCandidatesAndFlips|flips are attributed only to an identity that is appended to the candidates next", p.InstrPos(c), "append to shard.candidates follows on every path", "flips are attributed under author index len(shard.candidates) for an identity that is not (always) appended: they land on the next candidate of the shard — solvers are assigned flips whose real author has no recipient list and publishes no key package")
			}
		}
		if n == 0 {
			r.Und("C16-R6", "getCandidatesAndFlips|flip attribution", p.Pos(f.Pos()), "no attribution call found in the candidate closure")
		}
	}
	if f := mustFunc(p, r, "core/mempool", "KeysPool.GetEncryptedPrivateFlipKey"); f != nil {
		sigs := map[string]string{}
		// the tests may live in a same-package helper both branches call with the index
		fns := []*ssa.Function{f}
		for _, c := range engine.Calls(f) {
			if h := c.Common().StaticCallee(); h != nil && h.Blocks != nil && h.Pkg == f.Pkg && h != f {
				for _, a := range c.Common().Args {
					for _, prm := range f.Params {
						if prm.Type().String() == "int" && engine.Origin(a) == ssa.Value(prm) {
							fns = append(fns, h)
						}
					}
				}
			}
		}
		var allIfs []*ssa.If
		for _, g := range fns {
			allIfs = append(allIfs, engine.Ifs(g)...)
		}
		for _, i := range allIfs {
			cond, neg := stripNot(i.Cond)
			bo, ok := cond.(*ssa.BinOp)
			if !ok {
				continue
			}
			s := renderVal(bo, 0)
			if !strings.Contains(s, ".Pairs") {
				continue
			}
			// forget which array the test is about
			for {
				k := strings.Index(s, ".Pairs")
				if k < 0 {
					break
				}
				st := k
				for st > 0 && !strings.ContainsAny(string(s[st-1]), "( ") {
					st--
				}
				s = s[:st] + "PAIRS" + s[k+len(".Pairs"):]
			}
			if neg {
				s = "!" + s
			}
			sigs[s] = p.InstrPos(i)
		}
		var keys []string
		for k := range sigs {
			keys = append(keys, k)
		}
		sort.Strings(keys)
		if len(keys) == 0 {
			r.Und("C16-R6", "GetEncryptedPrivateFlipKey|cached and first-lookup answers use the same index test", p.Pos(f.Pos()), "no index test against the package length found (neither inline nor in a helper given the index)")
		} else {
			r.Check(len(keys) == 1, "C16-R6", "GetEncryptedPrivateFlipKey|cached and first-lookup answers use the same index test", p.Pos(f.Pos()), strings.Join(keys, " | "), "the index tests of the two branches differ ("+strings.Join(keys, " | ")+"): a recipient gets its key on the first lookup and nil on the next (or the reverse) although the package holds its entry")
		}
	}
	r.Floor("C16-R6", 2, "attribution + index tests")
}

// c16R7: (a) the address -> index cache used to find a recipient's slot holds, for every candidate,
// its position in its OWN shard's candidate list (the value stored depends on the position of the
// inner loop over shard.candidates, not on how many entries the map already has); (b) flip-key
// messages are accepted for the current epoch only (an equality gate, not an ordering).
func c16R7(p *engine.Prog, r *engine.Report) {
	if f := mustFunc(p, r, "core/ceremony", "ValidationCeremony.calculateCeremonyCandidates"); f != nil {
		n := 0
		// the function and the same-package helpers it calls directly (the fill may be extracted)
		var blocks []*ssa.BasicBlock
		blocks = append(blocks, f.Blocks...)
		for _, c := range engine.Calls(f) {
			if h := c.Common().StaticCallee(); h != nil && h.Blocks != nil && h.Pkg == f.Pkg && h != f {
				blocks = append(blocks, h.Blocks...)
			}
		}
		for _, b := range blocks {
			for _, ins := range b.Instrs {
				mu, ok := ins.(*ssa.MapUpdate)
				if !ok {
					continue
				}
				mt, isM := mu.Map.Type().Underlying().(*types.Map)
				if !isM || mt.Elem().String() != "int" || !strings.HasSuffix(mt.Key().String(), "common.Address") {
					continue
				}
				n++
				hdr := enclosingLoopHeader(b)
				okPos := hdr != nil && dependsOnLoopPosition(mu.Value, loopBlocks(hdr))
				usesLen := false
				for v := range engine.BackSlice(mu.Value, engine.SliceOpts{MaxNodes: 30}) {
					if c, isC := v.(*ssa.Call); isC {
						if bi, isB := c.Call.Value.(*ssa.Builtin); isB && bi.Name() == "len" {
							usesLen = true
						}
					}
				}
				r.Check(okPos && !usesLen, "C16-R7", uniq(r, "calculateCeremonyCandidates|the cached index of a candidate is its position in its own shard's list"), p.InstrPos(mu), "range index of shard.candidates", "the index cached for a candidate is not the position of the loop over its shard's candidates (e.g. the running size of the map, which spans all shards): in every shard but one, recipients are resolved to other candidates' keys and slots — an assigned candidate cannot extract or decrypt its flip key")
			}
		}
		if n == 0 {
			r.Und("C16-R7", "calculateCeremonyCandidates|index cache", p.Pos(f.Pos()), "no address->int map filled")
		}
	}
	if f, _ := p.Func("core/mempool", "validateKey"); f != nil {
		r.Fn(engine.FuncName(f))
		g := guardsWhere(f, func(cond ssa.Value) (bool, bool, string) {
			x, y, isEq, ok := eqCond(cond)
			if !ok {
				return false, false, ""
			}
			for _, pr := range [][2]ssa.Value{{x, y}, {y, x}} {
				c, isC := engine.Unwrap(pr[0]).(*ssa.Call)
				if isC && engine.CallIs(c, "core/state.StateDB.Epoch") && engine.Origin(pr[1]) == ssa.Value(f.Params[1]) {
					return true, isEq, "State.Epoch() == epoch"
				}
			}
			return false, false, ""
		})
		ok := len(g) > 0
		for _, ret := range successReturns(f) {
			if !engine.OnlyThroughPassRet(f, ret, g) {
				ok = false
			}
		}
		r.Check(ok, "C16-R7", "validateKey|a flip key message is accepted for the current epoch only", p.Pos(f.Pos()), "success only behind State.Epoch() == epoch", "flip keys / key packages of another epoch pass validation (an ordering test or none instead of the equality): a replayed package of the previous epoch is decrypted and cached, and later extractions are served from it — recipients get last epoch's key")
	} else {
		r.Und("C16-R7", "validateKey", "", "function not found")
	}
	r.Floor("C16-R7", 2, "index cache + epoch gate")
}
