package props

import (
	"fmt"
	"go/constant"
	"go/token"
	"go/types"
	"sort"
	"strings"

	"golang.org/x/tools/go/ssa"

	"idenaverif/internal/engine"
)

func init() { register("C17", C17) }

// identityStateConsts: IdentityState enum (value -> name), from the const block declaring Undefined.
func identityStateConsts(p *engine.Prog) map[int64]string {
	out := map[int64]string{}
	pk := p.ByPath[engine.RepoMod+"/core/state"]
	if pk == nil {
		return out
	}
	sc := pk.Types.Scope()
	for _, n := range sc.Names() {
		c, ok := sc.Lookup(n).(*types.Const)
		if !ok {
			continue
		}
		if nt, ok := c.Type().(*types.Named); ok && nt.Obj().Name() == "IdentityState" {
			if v, ok := constant.Int64Val(c.Val()); ok {
				out[v] = n
			}
		}
	}
	return out
}

// newbieOrBetterSet reads the definition of IdentityState.NewbieOrBetter.
func newbieOrBetterSet(p *engine.Prog) map[int64]bool {
	out := map[int64]bool{}
	f, err := p.Func("core/state", "IdentityState.NewbieOrBetter")
	if err != nil {
		return out
	}
	for _, b := range f.Blocks {
		for _, ins := range b.Instrs {
			if bo, ok := ins.(*ssa.BinOp); ok {
				if k, isK := engine.ConstInt(bo.Y); isK {
					out[k] = true
				}
			}
		}
	}
	return out
}

// C17 — validation outcomes follow the rules and depend only on on-chain data.
func C17(p *engine.Prog, r *engine.Report) {
	r.Explanation = "(R1) decision-table shape of determineNewIdentityState on all paths of its CFG: every return of a constant satisfying NewbieOrBetter (set read from that method's body) is dominated by missed==false and identity.HasDoneAllRequiredFlips()==true; with the previous status fixed to Killed, Undefined or Invite (all comparisons of identity.State resolved accordingly) only Killed/Undefined can be returned; every status of the enum has its own arm (the post-switch default is unreachable for it). (R2) ceremony inputs come from blocks only: qualification.addAnswers / epochDb.WriteEvidenceMap / WriteAnswerHash are called solely by processCeremonyTxs, whose callers are the per-period block handlers; the mempool subscriber reaches none of them; addAnswers is first-write-wins. (R3) memo soundness: every function that removes or replaces an input of ApplyNewEpoch also resets the per-height result cache epochApplyingCache. (R4) analysis A over the epoch evaluation (shared with C01). (R5) every answer map written by addAnswers is persisted by persist and restored by restore. (R6) threshold agreement between the arms of the decision table: every return of a passing status lies behind longScore >= MinLongScore or a session-not-qualified flag, behind shortSessionScoreCheck() or noQualShort, and (Verified/Human) behind totalScore >= MinTotalScore / MinHumanTotalScore or noQualShort; exceptions are a frozen table with reasons (Zombie->Verified does not test the long score: consensus behaviour). Decides shape; does not decide score arithmetic on the boundaries."
	r.Assumptions = []string{"block handlers run in block order on one goroutine (bus subscriber)", "score thresholds and float comparisons are not decided"}
	consts := identityStateConsts(p)
	nob := newbieOrBetterSet(p)
	if len(consts) < 9 || len(nob) != 3 {
		r.Errorf("IdentityState enum / NewbieOrBetter not resolved (%d consts, %d in NewbieOrBetter)", len(consts), len(nob))
		return
	}
	c17R1(p, r, consts, nob)
	c17R2(p, r)
	c17R3(p, r)
	var entries []*ssa.Function
	for _, x := range []struct{ pkg, fn string }{{"core/ceremony", "ValidationCeremony.ApplyNewEpoch"}, {"core/appstate", "EvidenceMap.CalculateApprovedCandidates"}, {"core/appstate", "EvidenceMap.CalculateBitmap"}} {
		if f := mustFunc(p, r, x.pkg, x.fn); f != nil {
			entries = append(entries, f)
		}
	}
	runDeterminism(p, r, "C17-R4", entries, 8)
	c17R5(p, r)
	c17R7(p, r)
	c17R8(p, r)
	c17R9(p, r)
	c17R10(p, r)
	c17R11(p, r)
}

func c17R1(p *engine.Prog, r *engine.Report, consts map[int64]string, nob map[int64]bool) {
	f := mustFunc(p, r, "core/ceremony", "determineNewIdentityState")
	if f == nil {
		return
	}
	identity := ssa.Value(f.Params[0])
	var missed ssa.Value
	for _, par := range f.Params {
		if par.Name() == "missed" {
			missed = par
		}
	}
	if missed == nil {
		r.Errorf("determineNewIdentityState: parameter missed not found")
		return
	}
	gMissed := guardsWhere(f, func(cond ssa.Value) (bool, bool, string) {
		c, neg := stripNot(cond)
		if engine.Origin(c) == missed {
			return true, neg, "!missed"
		}
		return false, false, ""
	})
	gFlips := guardsWhere(f, func(cond ssa.Value) (bool, bool, string) {
		c, neg := stripNot(cond)
		if cc, ok := c.(*ssa.Call); ok && engine.CallIs(cc, "core/state.Identity.HasDoneAllRequiredFlips") && rootOf(cc.Call.Args[0]) == identity {
			return true, !neg, "HasDoneAllRequiredFlips()"
		}
		return false, false, ""
	})
	// state comparisons
	type sg struct {
		i    *ssa.If
		k    int64
		isEq bool
	}
	var sgs []sg
	isState := func(v ssa.Value) bool {
		o, fld, ok := engine.FieldOf(engine.Origin(v))
		return ok && o == "Identity" && fld == "State" && rootOf(engine.Origin(v)) == identity
	}
	for _, i := range engine.Ifs(f) {
		x, y, isEq, ok := eqCond(i.Cond)
		if !ok {
			continue
		}
		for _, pr := range [][2]ssa.Value{{x, y}, {y, x}} {
			if k, isK := engine.ConstInt(pr[1]); isK && isState(pr[0]) {
				sgs = append(sgs, sg{i, k, isEq})
			}
		}
	}
	if len(sgs) < 9 {
		r.Errorf("determineNewIdentityState: only %d comparisons of identity.State found", len(sgs))
		return
	}
	retConst := func(ret *ssa.Return) (int64, bool) {
		if len(ret.Results) != 1 {
			return 0, false
		}
		return engine.ConstInt(ret.Results[0])
	}
	// (a)
	for _, ret := range engine.Returns(f) {
		k, ok := retConst(ret)
		if !ok {
			r.Und("C17-R1", "determineNewIdentityState|return of a non-constant", p.InstrPos(ret), "cannot classify")
			continue
		}
		if !nob[k] {
			continue
		}
		key := "determineNewIdentityState|return " + consts[k]
		r.Check(engine.OnlyThroughPassRet(f, ret, gMissed), "C17-R1", key+" only if !missed", p.InstrPos(ret), "dominated by missed == false", "an identity that missed the session can be promoted or left validated ("+consts[k]+")")
		r.Check(engine.OnlyThroughPassRet(f, ret, gFlips), "C17-R1", key+" only if HasDoneAllRequiredFlips", p.InstrPos(ret), "dominated by HasDoneAllRequiredFlips() == true", "an identity lacking its required flips can be promoted or left validated ("+consts[k]+")")
	}
	// (a') thresholds: every passing return lies behind the session thresholds or the matching
	// "session not qualified" flag — sibling agreement between the arms of the table. Exceptions are
	// frozen with a reason (read and confirmed, not inferred).
	c17Thresholds(p, r, f, consts, nob, retConst)
	// default return: reachable with every state-equality edge cut
	cutAllEq := map[engine.Edge]bool{}
	for _, s := range sgs {
		if s.isEq {
			cutAllEq[engine.Edge{From: s.i.Block(), Succ: 0}] = true
		} else {
			cutAllEq[engine.Edge{From: s.i.Block(), Succ: 1}] = true
		}
	}
	// the post-switch default: the return reachable with all equal edges cut AND behind HasDoneAllRequiredFlips
	reachNoArm := engine.ReachAvoiding(f, nil, cutAllEq, nil)
	// (b)+(c): per previous status
	var ks []int64
	for k := range consts {
		ks = append(ks, k)
	}
	sort.Slice(ks, func(i, j int) bool { return ks[i] < ks[j] })
	terminal := map[string]bool{"Killed": true, "Undefined": true, "Invite": true}
	for _, k := range ks {
		cut := map[engine.Edge]bool{}
		for _, s := range sgs {
			trueEdge := engine.Edge{From: s.i.Block(), Succ: 0}
			falseEdge := engine.Edge{From: s.i.Block(), Succ: 1}
			holds := (s.k == k) == s.isEq // the condition's value when State == k
			if holds {
				cut[falseEdge] = true
			} else {
				cut[trueEdge] = true
			}
		}
		reach := engine.ReachAvoiding(f, nil, cut, nil)
		got := map[string]bool{}
		hitsDefault := false
		for _, ret := range engine.Returns(f) {
			if !reach[ret.Block()] {
				continue
			}
			if rk, ok := retConst(ret); ok {
				got[consts[rk]] = true
			}
			if reachNoArm[ret.Block()] && engine.OnlyThroughPassRet(f, ret, gFlips) {
				hitsDefault = true
			}
		}
		name := consts[k]
		if terminal[name] {
			ok := true
			for g := range got {
				if g != "Killed" && g != "Undefined" {
					ok = false
				}
			}
			r.Check(ok, "C17-R1", "determineNewIdentityState|previous status "+name+" yields only Killed/Undefined", p.Pos(f.Pos()), "returns {"+joinKeys(got)+"}", "a "+name+" identity can come back through validation: returns {"+joinKeys(got)+"}")
		}
		if name != "Undefined" {
			r.Check(!hitsDefault, "C17-R1", "determineNewIdentityState|status "+name+" has its own arm", p.Pos(f.Pos()), "post-switch default unreachable", "status "+name+" falls through to the default result")
		}
	}
	r.Floor("C17-R1", 25, "NewbieOrBetter returns x2 + 3 terminal + 8 arms")
}

func c17R2(p *engine.Prog, r *engine.Report) {
	pct := mustFunc(p, r, "core/ceremony", "ValidationCeremony.processCeremonyTxs")
	if pct == nil {
		return
	}
	for _, x := range []struct{ pkg, fn string }{{"core/ceremony", "qualification.addAnswers"}, {"database", "EpochDb.WriteEvidenceMap"}, {"database", "EpochDb.WriteAnswerHash"}} {
		f := mustFunc(p, r, x.pkg, x.fn)
		if f == nil {
			continue
		}
		cs := callerNames(p, f)
		ok := len(cs) == 1 && cs["core/ceremony.ValidationCeremony.processCeremonyTxs"]
		r.Check(ok, "C17-R2", "callers("+x.fn+")", p.Pos(f.Pos()), "processCeremonyTxs only", "ceremony input written from outside block processing: "+joinKeys(cs))
	}
	// processCeremonyTxs callers: block handlers only (functions taking *types.Block)
	okH := true
	var hs []string
	for _, e := range p.Callers(pct) {
		c := e.Caller.Func
		hs = append(hs, engine.RelName(c))
		hasBlock := false
		for _, par := range c.Params {
			if n := engine.NamedOf(par.Type()); n != nil && n.Obj().Name() == "Block" {
				hasBlock = true
			}
		}
		if !hasBlock || !strings.Contains(c.Name(), "handle") {
			okH = false
		}
	}
	sort.Strings(hs)
	r.Check(okH && len(hs) > 0, "C17-R2", "callers(processCeremonyTxs)", p.Pos(pct.Pos()), strings.Join(dedup(hs), ","), "processCeremonyTxs called outside the per-period block handlers: "+strings.Join(hs, ","))
	// the tx it reads comes from block.Body.Transactions
	okSrc := false
	for _, c := range callsTo(pct, "core/ceremony.qualification.addAnswers") {
		sl := engine.BackSlice(c.Common().Args[3], engine.DefaultSlice)
		for v := range sl {
			if readsField(v, "Transactions", "Body") {
				okSrc = true
			}
		}
	}
	r.Check(okSrc, "C17-R2", "processCeremonyTxs|answers taken from block.Body.Transactions", p.Pos(pct.Pos()), "payload of a transaction of the block", "answers do not come from the block body")
	// the mempool subscriber (addNewTx) reaches none of the writers
	if ant := mustFunc(p, r, "core/ceremony", "ValidationCeremony.addNewTx"); ant != nil {
		reach := p.Reach([]*ssa.Function{ant}, engine.ReachOpts{RepoOnly: true, NoFuncValueCHA: true, Cut: isNonConsensusSink})
		bad := ""
		for f := range reach {
			n := engine.RelName(f)
			if n == "qualification.addAnswers" || n == "EpochDb.WriteEvidenceMap" || n == "EpochDb.WriteAnswerHash" || n == "ValidationCeremony.processCeremonyTxs" {
				bad = n
			}
		}
		r.Check(bad == "", "C17-R2", "addNewTx (mempool subscriber)|does not reach the input writers", p.Pos(ant.Pos()), "reach set of "+itoa(int64(len(reach)))+" functions", "mempool transactions feed the ceremony inputs through "+bad)
	}
	// first-write-wins
	if aa := mustFunc(p, r, "core/ceremony", "qualification.addAnswers"); aa != nil {
		ok := false
		for _, b := range aa.Blocks {
			for _, ins := range b.Instrs {
				mu, isMU := ins.(*ssa.MapUpdate)
				if !isMU {
					continue
				}
				// guard: lookup of the same key with ,ok — pass = not present
				g := guardsWhere(aa, func(cond ssa.Value) (bool, bool, string) {
					c, neg := stripNot(cond)
					if ex, isEx := c.(*ssa.Extract); isEx && ex.Index == 1 {
						if lk, isLk := ex.Tuple.(*ssa.Lookup); isLk && lk.CommaOk && engine.PathOf(lk.Index) == engine.PathOf(mu.Key) && engine.PathOf(lk.X) == engine.PathOf(mu.Map) {
							return true, neg, "absent"
						}
					}
					return false, false, ""
				})
				ok = engine.OnlyThroughPass(aa, b, g)
			}
		}
		r.Check(ok, "C17-R2", "addAnswers|first write wins", p.Pos(aa.Pos()), "store dominated by the key-absent edge", "a later block's answers can overwrite the first ones (result depends on arrival order)")
	}
	r.Floor("C17-R2", 7, "3 writers + handlers + source + mempool + first-write-wins")
}

func c17R3(p *engine.Prog, r *engine.Report) {
	all := funcsOfPkg(p, "core/ceremony")
	resets := map[*ssa.Function]bool{}
	for _, s := range storesToField(all, "ValidationCeremony", "epochApplyingCache") {
		if _, isMake := engine.Unwrap(s.Val).(*ssa.MakeMap); isMake {
			resets[s.Parent()] = true
		}
	}
	n := 0
	for _, f := range all {
		var what []string
		for _, c := range engine.Calls(f) {
			switch engine.CallID(c) {
			case "core/ceremony.qualification.removeAnswers":
				what = append(what, "removeAnswers")
			case "database.EpochDb.RemoveEvidenceMap":
				what = append(what, "RemoveEvidenceMap")
			case "database.EpochDb.RemoveAnswerHash":
				what = append(what, "RemoveAnswerHash")
			}
		}
		for _, s := range storesToField([]*ssa.Function{f}, "ValidationCeremony", "qualification") {
			_ = s
			what = append(what, "qualification replaced")
		}
		if len(what) == 0 {
			continue
		}
		if f.Name() == "NewValidationCeremony" || f.Name() == "Initialize" {
			// construction / start-up: the cache is created empty in the constructor
			if f.Name() == "Initialize" && len(what) == 1 && what[0] == "qualification replaced" {
				r.OK("C17-R3", engine.RelName(f)+"|inputs (re)created at start-up", p.Pos(f.Pos()), "before any evaluation (cache created empty by the constructor)")
				continue
			}
		}
		n++
		sort.Strings(what)
		r.Check(resets[f], "C17-R3", engine.RelName(f)+"|removes inputs of ApplyNewEpoch: "+strings.Join(dedup(what), ","), p.Pos(f.Pos()), "also resets epochApplyingCache", "ceremony inputs are removed/replaced ("+strings.Join(dedup(what), ",")+") but the per-height result cache epochApplyingCache is kept: a later evaluation of the same height re-uses the result computed from the old inputs")
	}
	r.Floor("C17-R3", 2, "completeEpoch + the reset subscriber")
}

func c17R5(p *engine.Prog, r *engine.Report) {
	aa := mustFunc(p, r, "core/ceremony", "qualification.addAnswers")
	ps := mustFunc(p, r, "core/ceremony", "qualification.persist")
	rs := mustFunc(p, r, "core/ceremony", "qualification.restore")
	if aa == nil || ps == nil || rs == nil {
		return
	}
	written := map[string]bool{}
	for _, b := range aa.Blocks {
		for _, ins := range b.Instrs {
			if mu, ok := ins.(*ssa.MapUpdate); ok {
				for v := range sliceThroughHelpers(mu.Map, aa.Pkg, 2) {
					if o, f, ok := engine.FieldOf(v); ok && o == "qualification" {
						written[f] = true
					}
				}
			}
		}
	}
	if len(written) < 2 {
		r.Errorf("addAnswers: answer maps not identified (%v)", sortedKeys(written))
		return
	}
	var wcall ssa.CallInstruction
	for _, c := range callsTo(ps, "database.EpochDb.WriteAnswers") {
		wcall = c
	}
	for _, fld := range sortedKeys(written) {
		okP := false
		if wcall != nil {
			for _, a := range wcall.Common().Args[1:] {
				for v := range engine.BackSlice(a, engine.DefaultSlice) {
					if rg, isR := v.(*ssa.Range); isR {
						if o, f2, ok := engine.FieldOf(rg.X); ok && o == "qualification" && f2 == fld {
							okP = true
						}
					}
					if o, f2, ok := engine.FieldOf(v); ok && o == "qualification" && f2 == fld {
						okP = true
					}
				}
			}
		}
		r.Check(okP, "C17-R5", "persist|"+fld+" written to the epoch db", p.Pos(ps.Pos()), "flows into EpochDb.WriteAnswers", fld+" is not persisted: a restart between ceremony phases loses these answers")
		okR := false
		for _, b := range rs.Blocks {
			for _, ins := range b.Instrs {
				if mu, ok := ins.(*ssa.MapUpdate); ok {
					if o, f2, ok := engine.FieldOf(mu.Map); ok && o == "qualification" && f2 == fld {
						if sliceCallOn(mu.Value, nil, "database.EpochDb.ReadAnswers") {
							okR = true
						}
					}
				}
			}
		}
		r.Check(okR, "C17-R5", "restore|"+fld+" restored from the epoch db", p.Pos(rs.Pos()), "filled from EpochDb.ReadAnswers", fld+" is not restored after a restart")
	}
	// dirty flag: persist() is skipped unless the flag it tests is set, so every mutation of a persisted
	// map sets that flag on every path that follows it
	{
		gate := ""
		for _, iff := range engine.Ifs(ps) {
			c, _ := stripNot(iff.Cond)
			if o, f2, ok := engine.FieldOf(engine.Origin(c)); ok && o == "qualification" && isBoolType(c.Type()) {
				gate = f2
			}
		}
		if gate == "" {
			r.Note("C17-R5", "persist|no dirty flag", p.Pos(ps.Pos()), "persist writes unconditionally")
		} else {
			nMut := 0
			for _, f := range funcsOfPkg(p, "core/ceremony") {
				if f.Blocks == nil || f.Signature.Recv() == nil || f == ps || f == rs || isTestish(p.Pos(f.Pos())) {
					continue
				}
				if nn := engine.NamedOf(f.Signature.Recv().Type()); nn == nil || nn.Obj().Name() != "qualification" {
					continue
				}
				for _, b := range f.Blocks {
					for idx, ins := range b.Instrs {
						var m ssa.Value
						switch x := ins.(type) {
						case *ssa.MapUpdate:
							m = x.Map
						case *ssa.Call:
							if bi, ok := x.Call.Value.(*ssa.Builtin); ok && bi.Name() == "delete" {
								m = x.Call.Args[0]
							}
						}
						if m == nil {
							continue
						}
						hit := ""
						for _, f2 := range sortedKeys(containerFieldsOf(m, "qualification", f.Pkg, 3)) {
							if written[f2] {
								hit = f2
							}
						}
						if hit == "" {
							continue
						}
						nMut++
						// blocks (and the rest of this block) that set the flag
						setBlocks := map[*ssa.BasicBlock]bool{}
						sameBlockAfter := false
						for _, b2 := range f.Blocks {
							for j, i2 := range b2.Instrs {
								st, ok := i2.(*ssa.Store)
								if !ok {
									continue
								}
								if o, f2, okF := engine.FieldOf(st.Addr); okF && o == "qualification" && f2 == gate {
									if v, isC := engine.ConstBool(st.Val); isC && v {
										if b2 == b && j > idx {
											sameBlockAfter = true
										} else if b2 != b {
											setBlocks[b2] = true
										}
									}
								}
							}
						}
						ok := sameBlockAfter
						if !ok {
							ok = true
							for _, sb := range b.Succs {
								reach := engine.ReachAvoiding(f, sb, nil, setBlocks)
								for rb := range reach {
									if setBlocks[rb] {
										continue
									}
									if len(rb.Instrs) > 0 {
										if _, isRet := rb.Instrs[len(rb.Instrs)-1].(*ssa.Return); isRet {
											ok = false
										}
									}
								}
							}
							if len(b.Succs) == 0 {
								ok = false
							}
						}
						r.Check(ok, "C17-R5", uniq(r, engine.RelName(f)+"|mutation of "+hit+" marks the store dirty ("+gate+")"), p.InstrPos(ins), gate+" = true on every path after the mutation", "persist() returns early unless "+gate+" is set: this mutation of "+hit+" stays in memory only — a node that restarts loads the old answers and evaluates the epoch from other data than a node that did not restart")
					}
				}
			}
			if nMut < 2 {
				r.Und("C17-R5", "answer map mutations", "", fmt.Sprintf("%d found (addAnswers, removeAnswers confirmed by reading)", nMut))
			}
		}
	}
	// persist is reached after every block (addBlock) and after a reset
	r.Floor("C17-R5", 6, "2 maps x (persist, restore) + 2 mutations")
}

// c17ThresholdExceptions: passing returns that, by long-standing consensus behaviour, do not test a
// threshold their sibling arms test. Key: previous-status arm "->" returned status "|" threshold.
var c17ThresholdExceptions = map[string]string{
	"Zombie->Verified|long": "consensus behaviour since the Zombie status exists: a Zombie is restored on total and short score alone (the Human branch of the same arm does test the long score); changing it would fork the chain",
}

func c17Thresholds(p *engine.Prog, r *engine.Report, f *ssa.Function, consts map[int64]string, nob map[int64]bool, retConst func(*ssa.Return) (int64, bool)) {
	par := map[string]ssa.Value{}
	for _, x := range f.Params {
		par[x.Name()] = x
	}
	for _, need := range []string{"longScore", "totalScore", "noQualShort", "nonQualLong"} {
		if par[need] == nil {
			r.Errorf("determineNewIdentityState: parameter %s not found", need)
			return
		}
	}
	minLong, ok1 := constFloat(p, "common", "MinLongScore")
	minTotal, ok2 := constFloat(p, "common", "MinTotalScore")
	minHuman, ok3 := constFloat(p, "common", "MinHumanTotalScore")
	if !ok1 || !ok2 || !ok3 {
		r.Errorf("threshold constants of package common not found")
		return
	}
	near := func(a, b float64) bool { d := a - b; return d < 1e-6 && d > -1e-6 }
	// score >= K (or its negation score < K)
	scoreGuards := func(score ssa.Value, ks ...float64) []engine.Guard {
		return guardsWhere(f, func(cond ssa.Value) (bool, bool, string) {
			b, ok := cond.(*ssa.BinOp)
			if !ok || engine.Origin(b.X) != score {
				return false, false, ""
			}
			k, isK := ssaConstFloat(b.Y)
			if !isK {
				return false, false, ""
			}
			match := false
			for _, want := range ks {
				if near(k, want) || k > want {
					match = true
				}
			}
			if !match {
				return false, false, ""
			}
			switch b.Op.String() {
			case ">=":
				return true, true, "score >= threshold"
			case "<":
				return true, false, "score >= threshold"
			}
			return false, false, ""
		})
	}
	flagGuards := func(flag ssa.Value) []engine.Guard {
		return guardsWhere(f, func(cond ssa.Value) (bool, bool, string) {
			c, neg := stripNot(cond)
			if engine.Origin(c) == flag {
				return true, !neg, "flag set"
			}
			return false, false, ""
		})
	}
	// shortSessionScoreCheck(): the closure reading shortScore
	shortGuards := guardsWhere(f, func(cond ssa.Value) (bool, bool, string) {
		c, neg := stripNot(cond)
		call, ok := c.(*ssa.Call)
		if !ok {
			return false, false, ""
		}
		mc, ok := engine.Origin(call.Call.Value).(*ssa.MakeClosure)
		if !ok {
			return false, false, ""
		}
		fn, _ := mc.Fn.(*ssa.Function)
		if fn == nil {
			return false, false, ""
		}
		for _, fv := range fn.FreeVars {
			if fv.Name() == "shortScore" {
				return true, !neg, "short session check"
			}
		}
		return false, false, ""
	})
	gNoShort := flagGuards(par["noQualShort"])
	gNoLong := flagGuards(par["nonQualLong"])
	if len(shortGuards) == 0 || len(gNoShort) == 0 || len(gNoLong) == 0 {
		r.Errorf("determineNewIdentityState: threshold atoms not found (short %d, noQualShort %d, nonQualLong %d)", len(shortGuards), len(gNoShort), len(gNoLong))
		return
	}
	// which arm a return belongs to: the previous-status constants whose equality edge it lies behind
	armOf := func(ret *ssa.Return) string {
		var names []string
		for _, i := range engine.Ifs(f) {
			x, y, isEq, ok := eqCond(i.Cond)
			if !ok || !isEq {
				continue
			}
			for _, pr := range [][2]ssa.Value{{x, y}, {y, x}} {
				if k, isK := engine.ConstInt(pr[1]); isK {
					if o, fld, okF := engine.FieldOf(engine.Origin(pr[0])); okF && o == "Identity" && fld == "State" {
						if engine.OnlyThroughPassRet(f, ret, []engine.Guard{{If: i, PassTrue: true}}) {
							names = append(names, consts[k])
						}
					}
				}
			}
		}
		sort.Strings(names)
		return strings.Join(names, "/")
	}
	n := 0
	seen := map[string]int{}
	for _, ret := range engine.Returns(f) {
		k, ok := retConst(ret)
		if !ok || !nob[k] {
			continue
		}
		arm := armOf(ret)
		if arm == "" {
			continue // the lacked-flips prologue returns no passing status
		}
		base := arm + "->" + consts[k]
		seen[base]++
		id := base
		if seen[base] > 1 {
			id = fmt.Sprintf("%s#%d", base, seen[base])
		}
		type th struct {
			name   string
			guards []engine.Guard
			what   string
		}
		ths := []th{
			{"long", append(append(scoreGuards(par["longScore"], minLong), gNoLong...), gNoShort...), "longScore >= MinLongScore, or the long (or short) session was not qualified"},
			{"short", append(append([]engine.Guard{}, shortGuards...), gNoShort...), "shortSessionScoreCheck(), or the short session was not qualified"},
		}
		switch consts[k] {
		case "Verified":
			ths = append(ths, th{"total", append(scoreGuards(par["totalScore"], minTotal), gNoShort...), "totalScore >= MinTotalScore, or the short session was not qualified"})
		case "Human":
			ths = append(ths, th{"total", append(scoreGuards(par["totalScore"], minHuman), gNoShort...), "totalScore >= MinHumanTotalScore, or the short session was not qualified"})
		}
		for _, t := range ths {
			n++
			key := "determineNewIdentityState|" + id + " behind the " + t.name + " threshold"
			if why, isEx := c17ThresholdExceptions[id+"|"+t.name]; isEx {
				if engine.OnlyThroughPassRet(f, ret, t.guards) {
					r.Bad("C17-R6", key, p.InstrPos(ret), "listed as an exception ("+why+") but the threshold is tested now: remove the exception")
				} else {
					r.OK("C17-R6", key, p.InstrPos(ret), "frozen exception: "+why)
				}
				continue
			}
			r.Check(len(t.guards) > 0 && engine.OnlyThroughPassRet(f, ret, t.guards), "C17-R6", key, p.InstrPos(ret), t.what, "an identity coming from "+arm+" is given "+consts[k]+" on a path that tests neither "+t.what+" — its sibling arms do")
		}
	}
	r.Floor("C17-R6", 30, "passing returns × thresholds")
	_ = n
}

// containerFieldsOf: the fields of owner whose container value m IS (not merely derives from): a load of
// the field, a join of such loads, or the result of a same-package helper returning such loads.
func containerFieldsOf(m ssa.Value, owner string, pkg *ssa.Package, depth int) map[string]bool {
	out := map[string]bool{}
	if depth < 0 {
		return out
	}
	v := engine.Origin(m)
	switch x := v.(type) {
	case *ssa.UnOp:
		if o, f, ok := engine.FieldOf(x); ok && o == owner {
			out[f] = true
		}
	case *ssa.Phi:
		for _, e := range x.Edges {
			if e == ssa.Value(x) {
				continue
			}
			for k := range containerFieldsOf(e, owner, pkg, depth-1) {
				out[k] = true
			}
		}
	case *ssa.Call:
		if cal := x.Call.StaticCallee(); cal != nil && cal.Pkg == pkg && cal.Blocks != nil {
			for _, ret := range engine.Returns(cal) {
				for _, rv := range ret.Results {
					for k := range containerFieldsOf(rv, owner, pkg, depth-1) {
						out[k] = true
					}
				}
			}
		}
	}
	return out
}

// c17R7: per-epoch state of the ceremony object does not survive the epoch switch.
func c17R7(p *engine.Prog, r *engine.Report) {
	resetCompletenessRule(p, r, "C17-R7", "core/ceremony", "ValidationCeremony", "completeEpoch", map[string]string{},
		"the next epoch's ceremony starts with data of the finished one (candidates, lotteries, sent-flags, cached results): its outcome depends on what this node did last epoch, not only on the chain")
	resetCompletenessRule(p, r, "C17-R7", "core/appstate", "EvidenceMap", "Clear", map[string]string{
		"shortSessionTime":     "set again by completeEpoch right after Clear (SetShortSessionTime)",
		"shortSessionDuration": "set again by completeEpoch right after Clear (SetShortSessionTime)",
	}, "evidence (answers / keys seen in time) of the finished epoch counts in the next one")
	r.Floor("C17-R7", 12, "15 ceremony fields + evidence sets on the pinned tree")
}

// condSig renders the comparisons on a value of named type tname that control block b
// (single-predecessor branch successors dominating b), e.g. "grade >= 2".
func condSig(b *ssa.BasicBlock, tname string) []string {
	var out []string
	for _, d := range b.Parent().Blocks {
		if len(d.Instrs) == 0 {
			continue
		}
		iff, ok := d.Instrs[len(d.Instrs)-1].(*ssa.If)
		if !ok {
			continue
		}
		branch := -1
		for i, s := range d.Succs {
			if len(s.Preds) == 1 && s.Dominates(b) {
				branch = i
			}
		}
		if branch < 0 {
			continue
		}
		cond, neg := stripNot(iff.Cond)
		bo, ok := cond.(*ssa.BinOp)
		if !ok {
			continue
		}
		isT := func(v ssa.Value) bool { n := engine.NamedOf(v.Type()); return n != nil && n.Obj().Name() == tname }
		if !isT(bo.X) && !isT(bo.Y) {
			continue
		}
		side := func(v ssa.Value) string {
			if k, ok := v.(*ssa.Const); ok && k.Value != nil {
				return k.Value.ExactString()
			}
			return strings.ToLower(tname)
		}
		pol := (branch == 0) != neg
		s := side(bo.X) + " " + bo.Op.String() + " " + side(bo.Y)
		if !pol {
			s = "!(" + s + ")"
		}
		out = append(out, s)
	}
	sort.Strings(out)
	return out
}

// c17R8: grades.addGrade and grades.deleteGrades are inverse: every counter of flipGrades is
// changed under the same condition on the grade and by the same amount with the opposite sign.
// (deleteGrades withdraws the grades of an ignored reporter; an asymmetry leaves part of them in
// the committee sizes that qualify flips.)
func c17R8(p *engine.Prog, r *engine.Report) {
	add := mustFunc(p, r, "core/ceremony", "grades.addGrade")
	del := mustFunc(p, r, "core/ceremony", "grades.deleteGrades")
	if add == nil || del == nil {
		return
	}
	type upd struct{ sig, op, operand, pos string }
	collect := func(f *ssa.Function) map[string]upd {
		out := map[string]upd{}
		for _, b := range f.Blocks {
			for _, ins := range b.Instrs {
				st, ok := ins.(*ssa.Store)
				if !ok {
					continue
				}
				o, fld, ok := engine.FieldOf(st.Addr)
				if !ok || o != "flipGrades" {
					continue
				}
				u := upd{sig: strings.Join(condSig(b, "Grade"), " && "), pos: p.InstrPos(st), op: "?", operand: "?"}
				if bo, isBin := engine.Unwrap(st.Val).(*ssa.BinOp); isBin && (bo.Op == token.ADD || bo.Op == token.SUB) {
					u.op = bo.Op.String()
					switch y := engine.Unwrap(bo.Y).(type) {
					case *ssa.Const:
						u.operand = y.Value.ExactString()
					case *ssa.Call:
						u.operand = engine.CallID(y)
					default:
						u.operand = "value"
					}
				}
				if prev, dup := out[fld]; dup && prev != u {
					u.sig = prev.sig + " | " + u.sig
				}
				out[fld] = u
			}
		}
		return out
	}
	a, d := collect(add), collect(del)
	names := map[string]bool{}
	for f := range a {
		names[f] = true
	}
	for f := range d {
		names[f] = true
	}
	inv := map[string]string{"+": "-", "-": "+"}
	for _, f := range sortedKeys(names) {
		x, okA := a[f]
		y, okD := d[f]
		ok := okA && okD && x.sig == y.sig && x.operand == y.operand && inv[x.op] == y.op
		pos := x.pos
		if okD {
			pos = y.pos
		}
		r.Check(ok, "C17-R8", "addGrade/deleteGrades|"+f+" withdrawn exactly as it was counted", pos,
			"["+x.sig+"] "+x.op+x.operand+" vs ["+y.sig+"] "+y.op+y.operand,
			"flipGrades."+f+": counted under ["+x.sig+"] "+x.op+x.operand+", withdrawn under ["+y.sig+"] "+y.op+y.operand+": the grades of an ignored reporter stay (partly) in the committee counts that qualify flips")
	}
	r.Floor("C17-R8", 4, "cnt, approveCnt, reportCnt, totalScore")
}

// c17R9: the identity list persisted at the lottery (what a restarted node rebuilds its candidates
// and non-candidates from) holds exactly the identities the running node handled: in the scan of
// getCandidatesAndFlips every element handed to the per-identity handler is appended to the
// persisted list on every path.
func c17R9(p *engine.Prog, r *engine.Report) {
	f := mustFunc(p, r, "core/ceremony", "ValidationCeremony.getCandidatesAndFlips")
	if f == nil {
		return
	}
	isDbID := func(t types.Type) bool {
		n := engine.NamedOf(t)
		return n != nil && n.Obj().Name() == "DbLotteryIdentity"
	}
	n := 0
	for _, cl := range f.AnonFuncs {
		// the scan callback: it appends to a captured []DbLotteryIdentity
		var appends []*ssa.Store
		for _, b := range cl.Blocks {
			for _, ins := range b.Instrs {
				if st, ok := ins.(*ssa.Store); ok {
					if _, isFV := st.Addr.(*ssa.FreeVar); isFV {
						if sl, isSl := st.Val.Type().Underlying().(*types.Slice); isSl && isDbID(sl.Elem()) {
							appends = append(appends, st)
						}
					}
				}
			}
		}
		if len(appends) == 0 {
			continue
		}
		for _, c := range engine.Calls(cl) {
			cc := c.Common()
			if cc.StaticCallee() != nil && cc.Signature().Results().Len() > 0 {
				continue // the producer (toDbLotteryIdentity) and plain helpers
			}
			if _, isBuiltin := cc.Value.(*ssa.Builtin); isBuiltin {
				continue
			}
			var elem ssa.Value
			for _, a := range cc.Args {
				if isDbID(a.Type()) {
					elem = a
				}
			}
			if elem == nil {
				continue
			}
			n++
			ok := false
			for _, st := range appends {
				if !engine.BackSlice(st.Val, engine.DefaultSlice)[elem] {
					continue
				}
				if st.Block() == c.Block() {
					ok = true
					break
				}
				// every way out of the callback after the call passes the append
				reach := engine.ReachAvoiding(cl, c.Block(), nil, map[*ssa.BasicBlock]bool{st.Block(): true})
				leaks := false
				for b := range reach {
					if len(b.Instrs) > 0 {
						if _, isRet := b.Instrs[len(b.Instrs)-1].(*ssa.Return); isRet && b != c.Block() {
							leaks = true
						}
					}
				}
				if !leaks {
					ok = true
				}
			}
			r.Check(ok, "C17-R9", "getCandidatesAndFlips|every handled identity is persisted for the restore path", p.InstrPos(c), "handler call and append of the same element on every path", "an identity handed to the per-identity handler is not (always) appended to the list WriteLotteryIdentities stores: a node restarted during the ceremony rebuilds other candidate / non-candidate lists than a node that kept running, and computes another epoch result")
		}
	}
	if n == 0 {
		r.Und("C17-R9", "getCandidatesAndFlips|scan callback", p.Pos(f.Pos()), "no handler call taking a DbLotteryIdentity found in a callback that fills the persisted list")
	}
	// and the restore path hands every stored element to the same handler
	r.Floor("C17-R9", 1, "scan callback")
}

// c17R10: (a) the evidence maps that vote on a shard's candidates are selected by that shard's own
// candidate set (bitmaps are indexed by position in the sender's shard); (b) the answer store is
// rewritten as a whole on every persist: EpochDb.WriteAnswers writes both lists on every path, so a
// list emptied by a reorg overwrites the stored one.
func c17R10(p *engine.Prog, r *engine.Report) {
	if f := mustFunc(p, r, "core/ceremony", "ValidationCeremony.readEvidenceMaps"); f != nil && len(f.Params) >= 2 {
		r.Fn(engine.FuncName(f))
		shard := ssa.Value(f.Params[1])
		n := 0
		for _, b := range f.Blocks {
			for _, ins := range b.Instrs {
				c, isCall := ins.(*ssa.Call)
				if !isCall {
					continue
				}
				if bi, isB := c.Call.Value.(*ssa.Builtin); !isB || bi.Name() != "append" {
					continue
				}
				// the append of a stored map (not the set construction)
				if sl, isSl := c.Type().Underlying().(*types.Slice); !isSl || sl.Elem().String() != "[]byte" {
					continue
				}
				n++
				ok := false
				for _, d := range f.Blocks {
					if len(d.Instrs) == 0 {
						continue
					}
					iff, isIf := d.Instrs[len(d.Instrs)-1].(*ssa.If)
					if !isIf {
						continue
					}
					controls := false
					for _, s := range d.Succs {
						if len(s.Preds) == 1 && s.Dominates(b) {
							controls = true
						}
					}
					if !controls {
						continue
					}
					// the condition is a membership test of the map's sender in a set whose keys are the
					// addresses of the requested shard's candidates: a Lookup keyed by the sender into a map
					// that this function fills from vc.shardCandidates[shardId].candidates (a cache that spans
					// all shards, or a position test, does not say which shard the sender belongs to)
					for v := range engine.BackSlice(iff.Cond, engine.SliceOpts{ThroughLoads: true, ThroughFields: true, MaxNodes: 200}) {
						// a helper that is given both the shard and the sender decides membership for that shard
						if hc, isHC := v.(*ssa.Call); isHC && hc.Common().StaticCallee() != nil && engine.IsRepoPkg(engine.FuncPkg(hc.Common().StaticCallee())) {
							hasShard, hasSender := false, false
							for _, a := range hc.Call.Args {
								if engine.Origin(a) == shard {
									hasShard = true
								}
								for k := range engine.BackSlice(a, engine.SliceOpts{ThroughLoads: true, ThroughFields: true, MaxNodes: 40}) {
									if _, fld, isF := engine.FieldOf(k); isF && fld == "Sender" {
										hasSender = true
									}
									if l3, isL3 := k.(*ssa.Lookup); isL3 {
										if _, isSC := loadOfField(l3.X, "ValidationCeremony", "shardCandidates"); isSC && engine.Origin(l3.Index) == shard {
											hasShard = true
										}
									}
								}
							}
							if hasShard && hasSender {
								ok = true
							}
						}
						lk, isLk := v.(*ssa.Lookup)
						if !isLk {
							continue
						}
						bySender := false
						for k := range engine.BackSlice(lk.Index, engine.SliceOpts{ThroughLoads: true, ThroughFields: true, MaxNodes: 60}) {
							if _, fld, isF := engine.FieldOf(k); isF && fld == "Sender" {
								bySender = true
							}
						}
						mk, isMk := engine.Unwrap(lk.X).(*ssa.MakeMap)
						if !bySender || !isMk || mk.Referrers() == nil {
							continue
						}
						for _, ref := range *mk.Referrers() {
							mu, isMU := ref.(*ssa.MapUpdate)
							if !isMU {
								continue
							}
							for k := range engine.BackSlice(mu.Key, engine.DefaultSlice) {
								if l2, isL2 := k.(*ssa.Lookup); isL2 {
									if _, isSC := loadOfField(l2.X, "ValidationCeremony", "shardCandidates"); isSC && engine.Origin(l2.Index) == shard {
										ok = true
									}
								}
							}
						}
					}
				}
				r.Check(ok, "C17-R10", "readEvidenceMaps|a map counts only if its sender is a candidate of the requested shard", p.InstrPos(c), "membership in vc.shardCandidates[shardId].candidates", "evidence maps are not filtered by the requested shard's own candidates: bitmaps are positions in the sender's shard, so maps of other shards vote for unrelated identities and raise the majority threshold — who is approved depends on the other shards")
			}
		}
		if n == 0 {
			r.Und("C17-R10", "readEvidenceMaps|selection", p.Pos(f.Pos()), "no append of an evidence map found")
		}
	}
	if f := mustFunc(p, r, "database", "EpochDb.WriteAnswers"); f != nil {
		r.Fn(engine.FuncName(f))
		n := 0
		for _, c := range engine.Calls(f) {
			if !engine.CallNameIs(c, "Set") || c.Parent() != f {
				continue
			}
			n++
			ok := true
			for b := range engine.ReachAvoiding(f, f.Blocks[0], nil, map[*ssa.BasicBlock]bool{c.Block(): true}) {
				if len(b.Instrs) > 0 {
					if _, isRet := b.Instrs[len(b.Instrs)-1].(*ssa.Return); isRet {
						ok = false
					}
				}
			}
			if c.Block() == f.Blocks[0] {
				ok = true
			}
			r.Check(ok, "C17-R10", uniq(r, "EpochDb.WriteAnswers|the stored list is overwritten on every path"), p.InstrPos(c), "unconditional Set", "a persist can return without writing this list (e.g. when it is empty): after a reorg removed the last answers the old list stays in the epoch db, and a node that restarts evaluates the epoch with answers that are in no block")
		}
		r.Check(n >= 2, "C17-R10", "EpochDb.WriteAnswers|both lists are written", p.Pos(f.Pos()), itoa(int64(n))+" writes", "fewer than two writes: short or long answers are not persisted")
	}
	r.Floor("C17-R10", 3, "evidence selection + two list writes")
}

// c17R11: a node that restarts during a ceremony rebuilds the candidates in every period in which a
// running node holds them: the live path computes them when the flip lottery starts, so restoreState
// recomputes them for every validation period except None (decided by evaluating its guard for each
// constant of the period enum).
func c17R11(p *engine.Prog, r *engine.Report) {
	f := mustFunc(p, r, "core/ceremony", "ValidationCeremony.restoreState")
	if f == nil {
		return
	}
	r.Fn(engine.FuncName(f))
	periods := map[string]int64{}
	for _, n := range []string{"NonePeriod", "FlipLotteryPeriod", "ShortSessionPeriod", "LongSessionPeriod", "AfterLongSessionPeriod"} {
		periods[n] = constInt(p, "core/state", n)
	}
	cs := callsTo(f, "core/ceremony.ValidationCeremony.calculateCeremonyCandidates")
	if len(cs) == 0 {
		r.Bad("C17-R11", "restoreState|candidates are rebuilt after a restart", p.Pos(f.Pos()), "calculateCeremonyCandidates is not called")
		return
	}
	c := cs[0]
	// the comparisons on ValidationPeriod() that control the call
	type cmp struct {
		op    token.Token
		k     int64
		onTru bool
	}
	var cmps []cmp
	other := false
	for _, d := range f.Blocks {
		if len(d.Instrs) == 0 {
			continue
		}
		iff, ok := d.Instrs[len(d.Instrs)-1].(*ssa.If)
		if !ok {
			continue
		}
		branch := -1
		for i, s := range d.Succs {
			if len(s.Preds) == 1 && s.Dominates(c.Block()) {
				branch = i
			}
		}
		if branch < 0 {
			continue
		}
		cond, neg := stripNot(iff.Cond)
		bo, isB := cond.(*ssa.BinOp)
		if !isB {
			other = true
			continue
		}
		call, isC := engine.Unwrap(bo.X).(*ssa.Call)
		k, isK := engine.ConstInt(bo.Y)
		if !isC || !isK || !engine.CallNameIs(call, "ValidationPeriod") {
			other = true
			continue
		}
		cmps = append(cmps, cmp{bo.Op, k, (branch == 0) != neg})
	}
	eval := func(v int64) bool {
		for _, x := range cmps {
			var t bool
			switch x.op {
			case token.EQL:
				t = v == x.k
			case token.NEQ:
				t = v != x.k
			case token.LSS:
				t = v < x.k
			case token.LEQ:
				t = v <= x.k
			case token.GTR:
				t = v > x.k
			case token.GEQ:
				t = v >= x.k
			}
			if t != x.onTru {
				return false
			}
		}
		return true
	}
	var missing []string
	for _, n := range []string{"FlipLotteryPeriod", "ShortSessionPeriod", "LongSessionPeriod", "AfterLongSessionPeriod"} {
		if !eval(periods[n]) {
			missing = append(missing, n)
		}
	}
	if other {
		r.Und("C17-R11", "restoreState|candidates are rebuilt in every ceremony period", p.InstrPos(c), "the call is controlled by a condition that is not a comparison of ValidationPeriod() with a constant")
		return
	}
	r.Check(len(missing) == 0, "C17-R11", "restoreState|candidates are rebuilt in every ceremony period", p.InstrPos(c), "FlipLottery, ShortSession, LongSession, AfterLongSession", "after a restart in {"+strings.Join(missing, ",")+"} the candidates and the flip distribution are not rebuilt (the running node computed them when the lottery started and keeps them): ApplyNewEpoch on the restarted node iterates over no shards and reports another epoch result than the nodes that kept running")
}
