package props

import (
	"fmt"
	"go/ast"
	"go/constant"
	"go/token"
	"go/types"
	"os"
	"sort"
	"strconv"
	"strings"

	"golang.org/x/tools/go/ssa"

	"idenaverif/internal/engine"
)

func init() { register("C12", C12) }

// txTypeConsts enumerates the TxType constants of blockchain/types: value -> name.
func txTypeConsts(p *engine.Prog) map[int64]string {
	out := map[int64]string{}
	pk := p.ByPath[engine.RepoMod+"/blockchain/types"]
	if pk == nil {
		return out
	}
	// TxType is an alias of uint16 and the constants are declared `uint16`: the enum is the
	// const block that declares the symbol SendTx.
	for _, file := range pk.Syntax {
		for _, d := range file.Decls {
			gd, ok := d.(*ast.GenDecl)
			if !ok || gd.Tok != token.CONST {
				continue
			}
			isEnum := false
			for _, sp := range gd.Specs {
				for _, nm := range sp.(*ast.ValueSpec).Names {
					if nm.Name == "SendTx" {
						isEnum = true
					}
				}
			}
			if !isEnum {
				continue
			}
			for _, sp := range gd.Specs {
				for _, nm := range sp.(*ast.ValueSpec).Names {
					if c, ok := pk.TypesInfo.Defs[nm].(*types.Const); ok {
						if v, ok := constant.Int64Val(c.Val()); ok {
							out[v] = nm.Name
						}
					}
				}
			}
		}
	}
	return out
}

// validatorsTable reads validation.validators from the package initialiser: type const -> function.
func validatorsTable(p *engine.Prog) map[int64]*ssa.Function {
	out := map[int64]*ssa.Function{}
	for _, f := range funcsOfPkg(p, "blockchain/validation") {
		if !strings.HasPrefix(f.Name(), "init") {
			continue
		}
		for _, b := range f.Blocks {
			for _, in := range b.Instrs {
				mu, ok := in.(*ssa.MapUpdate)
				if !ok {
					continue
				}
				k, isK := engine.ConstInt(mu.Key)
				if !isK {
					continue
				}
				if n := engine.NamedOf(mu.Value.Type()); n == nil || n.Obj().Name() != "validator" {
					continue
				}
				if fn, ok := engine.Unwrap(mu.Value).(*ssa.Function); ok {
					out[k] = fn
				}
			}
		}
	}
	// the synthetic package init holds map literals of package-level vars
	if sp := p.SSAPkg[engine.RepoMod+"/blockchain/validation"]; sp != nil {
		if f := sp.Func("init"); f != nil {
			for _, b := range f.Blocks {
				for _, in := range b.Instrs {
					if mu, ok := in.(*ssa.MapUpdate); ok {
						if k, isK := engine.ConstInt(mu.Key); isK {
							if n := engine.NamedOf(mu.Value.Type()); n != nil && n.Obj().Name() == "validator" {
								if fn, ok := engine.Unwrap(mu.Value).(*ssa.Function); ok {
									out[k] = fn
								}
							}
						}
					}
				}
			}
		}
	}
	return out
}

// txTypeGuards: Ifs of fn comparing tx.Type (tx = given variable) with a constant.
type typeGuard struct {
	g engine.Guard
	k int64
}

func txTypeGuards(fn *ssa.Function, tx ssa.Value) []typeGuard {
	var out []typeGuard
	for _, i := range engine.Ifs(fn) {
		x, y, isEq, ok := eqCond(i.Cond)
		if !ok {
			continue
		}
		for _, pr := range [][2]ssa.Value{{x, y}, {y, x}} {
			if !txFieldLoad(pr[0], tx, "Type") {
				continue
			}
			if k, isK := engine.ConstInt(pr[1]); isK {
				out = append(out, typeGuard{engine.Guard{If: i, PassTrue: isEq}, k})
			}
		}
	}
	return out
}

// armTypes: the tx types under which block b is reachable; any=true if reachable on a path
// that takes no type-equal edge at all (code outside the switch / default).
func armTypes(fn *ssa.Function, b *ssa.BasicBlock, tgs []typeGuard) (ks []int64, any bool) {
	all := map[engine.Edge]bool{}
	for _, t := range tgs {
		all[t.g.PassEdge()] = true
	}
	if engine.ReachAvoiding(fn, nil, all, nil)[b] {
		any = true
	}
	seen := map[int64]bool{}
	for _, t := range tgs {
		if seen[t.k] {
			continue
		}
		cut := map[engine.Edge]bool{}
		for _, o := range tgs {
			if o.k != t.k {
				cut[o.g.PassEdge()] = true
			}
		}
		// reachable with only K's equal edges allowed, and not reachable without them
		if engine.ReachAvoiding(fn, nil, cut, nil)[b] && !any {
			seen[t.k] = true
			ks = append(ks, t.k)
		}
	}
	sort.Slice(ks, func(i, j int) bool { return ks[i] < ks[j] })
	return
}

// toDerefs lists the dereferences `*tx.To` in fn: the UnOp that loads the Address through
// the pointer stored in Transaction.To. Returns the deref and the tx base.
type toDeref struct {
	in   *ssa.UnOp
	base ssa.Value // Origin of the Transaction pointer
}

func toDerefs(fn *ssa.Function) []toDeref {
	var out []toDeref
	for _, b := range fn.Blocks {
		for _, in := range b.Instrs {
			u, ok := in.(*ssa.UnOp)
			if !ok || u.Op != token.MUL {
				continue
			}
			base, isTo := loadOfField(u.X, "Transaction", "To")
			if !isTo {
				continue
			}
			out = append(out, toDeref{u, engine.Origin(base)})
		}
	}
	return out
}

func toNonNilGuards(fn *ssa.Function, txBase ssa.Value) []engine.Guard {
	return atomGuards(fn, nonNilAtom(func(x ssa.Value) bool {
		base, ok := loadOfField(x, "Transaction", "To")
		return ok && engine.Origin(base) == txBase
	}))
}

// rejectsWhen: every return of fn that is not a definite error is reachable only through
// the pass edge of one of the guards (i.e. fn fails whenever the guarded condition fails).
func rejectsUnless(fn *ssa.Function, guards []engine.Guard) bool {
	if len(guards) == 0 {
		return false
	}
	for _, ret := range engine.Returns(fn) {
		if isRecoverBlock(ret.Block()) {
			continue
		}
		if retErrKind(ret) == "nonnil" {
			continue
		}
		if !engine.OnlyThroughPassRet(fn, ret, guards) {
			return false
		}
	}
	return true
}

// C12 — no message from the network can crash the node (nil-/bounds-shape clauses).
func C12(p *engine.Prog, r *engine.Report) {
	r.Explanation = "Nil-/bounds-shape necessary conditions on every path: (R1) in package protocol every decoded message of a type with IsValid() is used only behind IsValid()==true (per element in batch arms); (R2) every dereference of the optional recipient tx.To is dominated by a nil test of the same field, or — on the apply/VM path — the validator registered for the arm's tx type fails on nil recipient on every path; (R3) the same pairing for optional attachments (attachments.Parse* results); (R4) a nil-destination s2/snappy Decode reachable from the peer reader is preceded by a DecodedLen bound; (R6) the optional offline address of a header is dereferenced only behind its nil test or the Offline* flag test of the same header, and OfflineDetector.ValidateBlock establishes flag=>address; (R7) the fixed-size SetBytes crops use the receiver's own length; (R5) IsValid definitions imply the nil tests their consumers rely on and Header/Block accessors dereference a oneof arm only behind its test. Decides these shapes; does not decide absence of arithmetic/index panics, hangs, IAVL/protobuf behaviour."
	r.Assumptions = []string{"protobuf Unmarshal and IAVL do not panic (trusted base)", "ValidateTx (type validator included) runs before applyTxOnState on every path (checked in C06-R4)", "index/arithmetic panics are out of scope of the shape rules"}
	consts := txTypeConsts(p)
	vtab := validatorsTable(p)
	if len(vtab) < 20 {
		r.Errorf("validators table not resolved (%d entries)", len(vtab))
		return
	}

	c12R1(p, r)
	c12R2(p, r, consts, vtab)
	c12R3(p, r, consts, vtab)
	c12R4(p, r)
	c12R5(p, r)
	c12R6(p, r)
	c12R7(p, r)
}

// ---------------------------------------------------------------- R1
func c12R1(p *engine.Prog, r *engine.Report) {
	n := 0
	for _, f := range funcsOfPkg(p, "protocol") {
		for _, b := range f.Blocks {
			for _, in := range b.Instrs {
				a, ok := in.(*ssa.Alloc)
				if !ok {
					continue
				}
				nt := engine.NamedOf(a.Type())
				if nt == nil {
					continue
				}
				// *T has IsValid() bool ?
				ms := p.SSA.MethodSets.MethodSet(types.NewPointer(nt))
				var isValid *types.Func
				for i := 0; i < ms.Len(); i++ {
					if ms.At(i).Obj().Name() == "IsValid" {
						isValid, _ = ms.At(i).Obj().(*types.Func)
					}
				}
				if isValid == nil || a.Referrers() == nil {
					continue
				}
				decoded := false
				var gateVals []ssa.Value
				var others []ssa.Instruction
				for _, ref := range *a.Referrers() {
					if c, ok := ref.(ssa.CallInstruction); ok {
						args := engine.CallArgs(c)
						if len(args) > 0 && args[0] == ssa.Value(a) {
							if engine.CallNameIs(c, "FromBytes") || engine.CallNameIs(c, "FromProto") {
								decoded = true
								continue
							}
							if engine.CalleeObj(c.Common()) == isValid {
								if v, ok := c.(*ssa.Call); ok {
									gateVals = append(gateVals, v)
								}
								continue
							}
						}
					}
					if _, isDbg := ref.(*ssa.DebugRef); isDbg {
						continue
					}
					others = append(others, ref)
				}
				if !decoded {
					continue
				}
				if f.Name() == "FromBytes" || f.Name() == "FromProto" {
					continue // nested object inside a decoder: gated by the container's IsValid (R5a)
				}
				if trivialRecvNonNil(p, isValid) {
					continue // IsValid() is `recv != nil`: vacuous for a fresh allocation
				}
				r.Fn(engine.FuncName(f))
				guards := guardsWhere(f, func(cond ssa.Value) (bool, bool, string) {
					c, neg := stripNot(cond)
					for _, g := range gateVals {
						if c == g {
							return true, !neg, "IsValid()"
						}
					}
					return false, false, ""
				})
				n++
				key := engine.RelName(f) + "|" + nt.Obj().Name()
				bad := ""
				for _, o := range others {
					if !engine.OnlyThroughPass(f, o.Block(), guards) {
						bad = p.InstrPos(o)
						break
					}
				}
				if len(guards) == 0 {
					bad = "no IsValid() gate"
				}
				r.Check(bad == "", "C12-R1", key, p.InstrPos(a), "all uses of the decoded value are behind IsValid()==true", "decoded "+nt.Obj().Name()+" used without passing IsValid(): "+bad)
			}
		}
	}
	r.Floor("C12-R1", 8, "read: BlocksRange, ProposeBlock, Vote, FlipBody, Push, BatchPush, Pull, Block")
}

// ---------------------------------------------------------------- R2
func c12R2(p *engine.Prog, r *engine.Report, consts map[int64]string, vtab map[int64]*ssa.Function) {
	// (a) inside blockchain/validation: local guard required
	nLocal := 0
	for _, f := range funcsOfPkg(p, "blockchain/validation") {
		for _, d := range toDerefs(f) {
			nLocal++
			r.Fn(engine.FuncName(f))
			ok := engine.OnlyThroughPass(f, d.in.Block(), toNonNilGuards(f, d.base))
			r.Check(ok, "C12-R2a", engine.RelName(f)+"|*tx.To", p.InstrPos(d.in), "dominated by tx.To != nil", "recipient dereferenced before/without its nil test (validators run on unvalidated network input)")
		}
	}
	r.Floor("C12-R2a", 25, "probe: 28 dereferences in blockchain/validation")

	// (b) every other dereference on the consensus path: local guard, or a tx-type arm (in the
	// function itself or up the call chain) whose validator rejects a nil recipient
	rejectNilTo := map[*ssa.Function]bool{}
	rejects := func(v *ssa.Function) bool {
		if res, ok := rejectNilTo[v]; ok {
			return res
		}
		res := false
		if len(v.Params) >= 2 {
			res = rejectsUnless(v, toNonNilGuards(v, v.Params[1]))
		}
		rejectNilTo[v] = res
		return res
	}
	ctx := &toCtx{p: p, consts: consts, vtab: vtab, rejects: rejects}
	for _, pkg := range []string{"blockchain", "vm", "vm/env", "vm/wasm", "vm/embedded", "blockchain/fee", "core/mempool", "core/ceremony", "core/flip", "protocol", "consensus", "pengings", "core/state", "core/appstate"} {
		for _, f := range funcsOfPkg(p, pkg) {
			for _, d := range toDerefs(f) {
				r.Fn(engine.FuncName(f))
				key := engine.RelName(f) + "|*tx.To"
				ok, why := ctx.siteOK(f, d.in.Block(), d.base, 0, map[*ssa.Function]bool{})
				r.Check(ok, "C12-R2b", key, p.InstrPos(d.in), why, "recipient may be nil here: "+why)
			}
		}
	}
	r.Floor("C12-R2b", 45, "probe: 43 dereferences in applyTxOnState + ~9 in vm")
}

type toCtx struct {
	p       *engine.Prog
	consts  map[int64]string
	vtab    map[int64]*ssa.Function
	rejects func(*ssa.Function) bool
}

// txParamsOf: parameters of type *Transaction.
func txParamsOf(f *ssa.Function) []ssa.Value {
	var out []ssa.Value
	for _, par := range f.Params {
		if n := engine.NamedOf(par.Type()); n != nil && n.Obj().Name() == "Transaction" {
			if _, isPtr := par.Type().(*types.Pointer); isPtr {
				out = append(out, par)
			}
		}
	}
	return out
}

// siteOK decides whether tx.To is known non-nil at block blk of f. txBase is the Origin of
// the Transaction the site uses (nil = unknown: every tx parameter of f is tried).
func (c *toCtx) siteOK(f *ssa.Function, blk *ssa.BasicBlock, txBase ssa.Value, depth int, seen map[*ssa.Function]bool) (bool, string) {
	if depth > 5 {
		return false, "call chain deeper than 5"
	}
	var cands []ssa.Value
	if txBase != nil {
		cands = []ssa.Value{txBase}
	} else {
		cands = txParamsOf(f)
	}
	for _, tx := range cands {
		if engine.OnlyThroughPass(f, blk, toNonNilGuards(f, tx)) {
			return true, "dominated by tx.To != nil in " + engine.RelName(f)
		}
		tgs := txTypeGuards(f, tx)
		if len(tgs) > 0 {
			ks, any := armTypes(f, blk, tgs)
			if !any && len(ks) > 0 {
				var names, bad []string
				for _, k := range ks {
					names = append(names, c.consts[k])
					if v := c.vtab[k]; v == nil || !c.rejects(v) {
						bad = append(bad, c.consts[k])
					}
				}
				if len(bad) == 0 {
					return true, "arm " + strings.Join(names, ",") + " of " + engine.RelName(f) + ": validator fails on nil recipient on every path"
				}
				return false, "arm of " + engine.RelName(f) + ": validator of " + strings.Join(bad, ",") + " can succeed with tx.To == nil"
			}
		}
	}
	// tx held in a struct field (call contexts): go to the functions that store that field
	if txBase != nil {
		if owner, field, ok := engine.FieldOf(txBase); ok && owner != "" {
			var ctors []*ssa.Store
			for _, g := range c.p.AllFuncs() {
				ctors = append(ctors, storesToField([]*ssa.Function{g}, owner, field)...)
			}
			if len(ctors) == 0 {
				return false, "no constructor stores " + owner + "." + field
			}
			var why []string
			for _, st := range ctors {
				ok, w := c.siteOK(st.Parent(), st.Block(), engine.Origin(st.Val), depth+1, seen)
				if !ok {
					return false, owner + "." + field + " set in " + engine.RelName(st.Parent()) + ": " + w
				}
				why = append(why, w)
			}
			return true, owner + "." + field + " constructed only where: " + strings.Join(dedup(why), "; ")
		}
	}
	// closure: the creation site in the parent
	if f.Parent() != nil {
		for _, b := range f.Parent().Blocks {
			for _, in := range b.Instrs {
				if mc, ok := in.(*ssa.MakeClosure); ok && mc.Fn == f {
					return c.siteOK(f.Parent(), b, nil, depth+1, seen)
				}
			}
		}
	}
	// callers
	if seen[f] {
		return true, "(recursive)"
	}
	seen[f] = true
	defer delete(seen, f)
	var why []string
	n := 0
	for _, e := range c.p.Callers(f) {
		if e.Site == nil {
			continue
		}
		cf := e.Caller.Func
		pk := engine.FuncPkg(cf)
		if pk == nil || !engine.IsRepoPkg(pk) {
			continue
		}
		sp := engine.ShortPkg(pk.Path())
		if strings.HasPrefix(sp, "api") || strings.HasPrefix(sp, "cmd") || sp == "main" || strings.HasPrefix(sp, "tests") {
			continue // RPC helpers act on locally built transactions, not network input
		}
		n++
		var argTx ssa.Value
		if par, ok := txBase.(*ssa.Parameter); ok && e.Site.Common().StaticCallee() == f {
			for i, q := range f.Params {
				if q == par && i < len(e.Site.Common().Args) {
					argTx = engine.Origin(e.Site.Common().Args[i])
				}
			}
		}
		ok, w := c.siteOK(cf, e.Site.Block(), argTx, depth+1, seen)
		if !ok {
			return false, "via " + engine.RelName(cf) + ": " + w
		}
		why = append(why, w)
	}
	if n == 0 {
		return false, "no consensus-path caller of " + engine.RelName(f) + " found"
	}
	return true, strings.Join(dedup(why), "; ")
}

func dedup(in []string) []string {
	m := map[string]bool{}
	var out []string
	for _, s := range in {
		if !m[s] {
			m[s] = true
			out = append(out, s)
		}
	}
	sort.Strings(out)
	if len(out) > 4 {
		out = append(out[:4], "…")
	}
	return out
}

// trivialRecvNonNil: the IsValid method is exactly `return recv != nil`.
func trivialRecvNonNil(p *engine.Prog, m *types.Func) bool {
	f := p.SSA.FuncValue(m)
	if f == nil || len(f.Blocks) != 1 {
		return false
	}
	rets := engine.Returns(f)
	if len(rets) != 1 || len(rets[0].Results) != 1 {
		return false
	}
	x, nonNilOnTrue, ok := engine.NilCheck(rets[0].Results[0])
	return ok && nonNilOnTrue && x == ssa.Value(f.Params[0])
}

// ---------------------------------------------------------------- R3
func c12R3(p *engine.Prog, r *engine.Report, consts map[int64]string, vtab map[int64]*ssa.Function) {
	// which validator guarantees which Parse function non-nil
	guarantee := map[string]map[int64]bool{} // parse id -> types whose validator rejects nil result
	for k, v := range vtab {
		for _, c := range engine.Calls(v) {
			id := engine.CallID(c)
			if !strings.HasPrefix(id, "blockchain/attachments.Parse") {
				continue
			}
			call, ok := c.(*ssa.Call)
			if !ok {
				continue
			}
			g := atomGuards(v, nonNilAtom(func(x ssa.Value) bool { return engine.Origin(x) == ssa.Value(call) }))
			if rejectsUnless(v, g) {
				if guarantee[id] == nil {
					guarantee[id] = map[int64]bool{}
				}
				guarantee[id][k] = true
			}
		}
	}
	apply, _ := p.Func("blockchain", "Blockchain.applyTxOnState")
	// what ValidateTx itself runs (static callees, validators cut) runs before or without the
	// per-type validator: it cannot lean on the validator's nil test
	preValidation := map[*ssa.Function]bool{}
	if vt, _ := p.Func("blockchain/validation", "ValidateTx"); vt != nil {
		isValidator := map[*ssa.Function]bool{}
		for _, v := range vtab {
			isValidator[v] = true
		}
		work := []*ssa.Function{vt}
		preValidation[vt] = true
		for _, v := range vtab {
			preValidation[v] = true // the validator is what establishes presence: its own uses need the local test
		}
		for len(work) > 0 {
			f := work[len(work)-1]
			work = work[:len(work)-1]
			for _, c := range engine.Calls(f) {
				cal := c.Common().StaticCallee()
				if cal == nil || preValidation[cal] || isValidator[cal] || !engine.IsRepoPkg(engine.FuncPkg(cal)) {
					continue
				}
				preValidation[cal] = true
				work = append(work, cal)
			}
		}
	} else {
		r.Und("C12-R3", "ValidateTx", "", "blockchain/validation.ValidateTx not found")
	}
	n := 0
	scan := []string{"blockchain", "blockchain/validation", "vm", "vm/wasm", "vm/env", "blockchain/fee", "core/ceremony", "core/flip", "core/mempool"}
	for _, pkg := range scan {
		for _, f := range funcsOfPkg(p, pkg) {
			for _, c := range engine.Calls(f) {
				id := engine.CallID(c)
				if !strings.HasPrefix(id, "blockchain/attachments.Parse") {
					continue
				}
				call, ok := c.(*ssa.Call)
				if !ok {
					continue
				}
				// dereferences of the result: FieldAddr / method call with receiver / load
				var derefs []ssa.Instruction
				collectDerefs(call, &derefs, map[ssa.Value]bool{})
				if len(derefs) == 0 {
					continue
				}
				n++
				r.Fn(engine.FuncName(f))
				g := atomGuards(f, nonNilAtom(func(x ssa.Value) bool { return engine.Origin(x) == ssa.Value(call) }))
				unguarded := ""
				for _, d := range derefs {
					if d.Parent() != f {
						unguarded = p.InstrPos(d) + " (in closure)"
						break
					}
					if !engine.OnlyThroughPass(f, d.Block(), g) {
						unguarded = p.InstrPos(d)
						break
					}
				}
				short := strings.TrimPrefix(id, "blockchain/attachments.")
				key := engine.RelName(f) + "|" + short
				if unguarded == "" {
					r.OK("C12-R3", key+" (local guard)", p.InstrPos(c), "result used only behind != nil")
					continue
				}
				// reliance on the validator
				top := topParent(f)
				if top == apply && apply != nil {
					tx := ssa.Value(apply.Params[1])
					blk := c.Block()
					if f != apply {
						blk = nil
					}
					if blk != nil {
						ks, any := armTypes(apply, blk, txTypeGuards(apply, tx))
						var bad []string
						for _, k := range ks {
							if !guarantee[id][k] {
								bad = append(bad, consts[k])
							}
						}
						ok := !any && len(ks) > 0 && len(bad) == 0
						r.Check(ok, "C12-R3", key+" in arm", p.InstrPos(c), "validator of the arm's type rejects a nil "+short, "attachment dereferenced at "+unguarded+" without nil test; validator(s) of "+strings.Join(bad, ",")+" do not reject nil")
						continue
					}
				}
				if preValidation[topParent(f)] {
					r.Bad("C12-R3", key, p.InstrPos(c), "attachment dereferenced at "+unguarded+" without nil test in code ValidateTx runs before (or without) the per-type validator: an undecodable payload panics the validating goroutine")
					continue
				}
				// elsewhere: some validator must guarantee this parse function
				ok = len(guarantee[id]) > 0
				var ts []string
				for k := range guarantee[id] {
					ts = append(ts, consts[k])
				}
				sort.Strings(ts)
				if ok {
					r.OK("C12-R3", key+" (validator-backed)", p.InstrPos(c), "unguarded use at "+unguarded+"; nil rejected by validator of "+strings.Join(ts, ","))
				} else {
					r.Bad("C12-R3", key, p.InstrPos(c), "attachment dereferenced at "+unguarded+" without nil test and no validator rejects nil")
				}
			}
		}
	}
	r.Floor("C12-R3", 12, "read: ~20 parse sites with dereferences")
	// contradiction sub-rule: function both dereferences and nil-tests the same parse result: test must come first — covered by the local-guard form above (an unguarded deref with a later test is 'unguarded').
}

// collectDerefs gathers instructions that dereference pointer value v (field access,
// method call with v as receiver, explicit load), following phis/cells.
func collectDerefs(v ssa.Value, out *[]ssa.Instruction, seen map[ssa.Value]bool) {
	if seen[v] || v.Referrers() == nil {
		return
	}
	seen[v] = true
	for _, ref := range *v.Referrers() {
		switch x := ref.(type) {
		case *ssa.FieldAddr:
			if x.X == v {
				*out = append(*out, x)
			}
		case *ssa.UnOp:
			if x.Op == token.MUL && x.X == v {
				*out = append(*out, x)
			}
		case ssa.CallInstruction:
			args := engine.CallArgs(x)
			if len(args) > 0 && args[0] == v && engine.HasRecv(x) {
				// pointer-receiver method: callee may dereference; value receiver: implicit load
				*out = append(*out, x.(ssa.Instruction))
			}
		case *ssa.Store:
			if x.Val == v {
				// stored into a local cell: follow loads of that cell
				if a, ok := x.Addr.(*ssa.Alloc); ok && a.Referrers() != nil {
					for _, r2 := range *a.Referrers() {
						if u, ok := r2.(*ssa.UnOp); ok && u.Op == token.MUL {
							collectDerefs(u, out, seen)
						}
					}
				}
			}
		case *ssa.Phi:
			collectDerefs(x, out, seen)
		}
	}
}

// ---------------------------------------------------------------- R4
func c12R4(p *engine.Prog, r *engine.Report) {
	n := 0
	for _, f := range funcsOfPkg(p, "protocol") {
		for _, c := range engine.Calls(f) {
			id := engine.CallID(c)
			if id != "github.com/klauspost/compress/s2.Decode" && id != "github.com/golang/snappy.Decode" && id != "github.com/klauspost/compress/snappy.Decode" {
				continue
			}
			n++
			r.Fn(engine.FuncName(f))
			args := c.Common().Args
			key := engine.RelName(f) + "|s2.Decode"
			if !engine.IsNilConst(args[0]) {
				r.OK("C12-R4", key+" (caller-provided buffer)", p.InstrPos(c), "destination supplied by caller")
				continue
			}
			// a DecodedLen call on the same source whose result feeds a dominating comparison
			srcPath := engine.PathOf(args[1])
			ok := false
			for _, c2 := range engine.Calls(f) {
				id2 := engine.CallID(c2)
				if !strings.HasSuffix(id2, ".DecodedLen") {
					continue
				}
				if engine.PathOf(c2.Common().Args[0]) != srcPath {
					continue
				}
				v2, isV := c2.(*ssa.Call)
				if !isV {
					continue
				}
				// find Ifs whose condition's slice contains the DecodedLen result with an ordering comparison
				var gs []engine.Guard
				for _, i := range engine.Ifs(f) {
					b, isB := i.Cond.(*ssa.BinOp)
					if !isB {
						continue
					}
					switch b.Op {
					case token.GTR, token.GEQ, token.LSS, token.LEQ:
					default:
						continue
					}
					sl := engine.BackSlice(i.Cond, engine.DefaultSlice)
					if !sl[v2] {
						continue
					}
					// which edge is "small enough"? the one from which the Decode is reachable
					// while the other leads away; accept either edge that dominates the decode
					gs = append(gs, engine.Guard{If: i, PassTrue: true}, engine.Guard{If: i, PassTrue: false})
				}
				for _, g := range gs {
					if engine.OnlyThroughPass(f, c.Block(), []engine.Guard{g}) {
						ok = true
					}
				}
			}
			r.Check(ok, "C12-R4", key+"(nil, src)", p.InstrPos(c), "declared length bounded before allocation", "s2.Decode(nil, …) allocates the length declared by the peer (up to 4 GiB) with no DecodedLen bound on any path from ReadMsg")
		}
	}
	r.Floor("C12-R4", 1, "protocol.Decode")
}

// ---------------------------------------------------------------- R5
func c12R5(p *engine.Prog, r *engine.Report) {
	// (a) IsValid definitions imply the nil tests the consumers rely on
	type reqT struct {
		pkg, fn string
		atoms   map[string]atomFn
	}
	recvNonNil := func(f *ssa.Function) atomFn {
		return nonNilAtom(func(x ssa.Value) bool { return engine.Origin(x) == ssa.Value(f.Params[0]) })
	}
	fieldNonNil := func(f *ssa.Function, owner string, fields ...string) atomFn {
		return nonNilAtom(func(x ssa.Value) bool {
			for _, fld := range fields {
				if base, ok := loadOfField(x, owner, fld); ok && engine.Origin(base) == ssa.Value(f.Params[0]) {
					return true
				}
			}
			return false
		})
	}
	callTrue := func(ids ...string) atomFn {
		return func(v ssa.Value) (bool, bool) {
			if c, ok := v.(*ssa.Call); ok && engine.CallIs(c, ids...) {
				return true, true
			}
			return false, false
		}
	}
	check := func(pkg, name, what string, mk func(f *ssa.Function) atomFn) {
		f := mustFunc(p, r, pkg, name)
		if f == nil {
			return
		}
		ok := returnsImply(f, true, mk(f))
		r.Check(ok, "C12-R5a", name+"|true implies "+what, p.Pos(f.Pos()), "holds on every return", name+" can return true without "+what)
	}
	check("blockchain/types", "Header.IsValid", "h != nil", recvNonNil)
	check("blockchain/types", "Header.IsValid", "a header arm is present", func(f *ssa.Function) atomFn {
		return fieldNonNil(f, "Header", "EmptyBlockHeader", "ProposedHeader")
	})
	check("blockchain/types", "Body.IsValid", "b != nil", recvNonNil)
	check("blockchain/types", "Vote.IsValid", "Header != nil", func(f *ssa.Function) atomFn { return fieldNonNil(f, "Vote", "Header") })
	check("blockchain/types", "Flip.IsValid", "Tx != nil", func(f *ssa.Function) atomFn { return fieldNonNil(f, "Flip", "Tx") })
	check("blockchain/types", "Block.IsValid", "Header.IsValid()", func(f *ssa.Function) atomFn { return callTrue("blockchain/types.Header.IsValid") })
	check("blockchain/types", "Block.IsValid", "Body.IsValid()", func(f *ssa.Function) atomFn { return callTrue("blockchain/types.Body.IsValid") })
	check("blockchain/types", "BlockProposal.IsValid", "Block != nil", func(f *ssa.Function) atomFn { return fieldNonNil(f, "BlockProposal", "Block") })
	check("blockchain/types", "BlockProposal.IsValid", "Block.IsValid()", func(f *ssa.Function) atomFn { return callTrue("blockchain/types.Block.IsValid") })
	check("blockchain/types", "BlockProposal.IsValid", "!Block.IsEmpty()", func(f *ssa.Function) atomFn {
		return func(v ssa.Value) (bool, bool) {
			if c, ok := v.(*ssa.Call); ok && engine.CallIs(c, "blockchain/types.Block.IsEmpty") {
				return true, false
			}
			return false, false
		}
	})
	// blockRange.IsValid: returns true only after the loop visited every element with Header.IsValid()
	if f := mustFunc(p, r, "protocol", "blockRange.IsValid"); f != nil {
		atom := callTrue("blockchain/types.Header.IsValid")
		gs := atomGuards(f, atom)
		ok := len(gs) > 0
		// every back edge of the element loop is behind the pass edge; the true return is the loop exit
		for _, g := range gs {
			hdr := engine.LoopHeaderOf(g.If.Block())
			if hdr == nil {
				ok = false
				continue
			}
			if !backEdgesGuarded(f, hdr, gs) {
				ok = false
			}
			// fail edge returns false
			fe := g.FailEdge()
			fb := fe.From.Succs[fe.Succ]
			if ret, isRet := fb.Instrs[len(fb.Instrs)-1].(*ssa.Return); !isRet || len(ret.Results) != 1 {
				ok = false
			} else if b, isB := engine.ConstBool(ret.Results[0]); !isB || b {
				ok = false
			}
		}
		r.Check(ok, "C12-R5a", "blockRange.IsValid|every element's Header.IsValid()", p.Pos(f.Pos()), "loop continues only on valid headers; invalid returns false", "blockRange.IsValid can accept a range with an invalid header")
	}
	r.Floor("C12-R5a", 11, "table of IsValid implications")

	// (b) Header / Block accessors: a oneof arm is dereferenced only behind its test
	n := 0
	for _, f := range funcsOfPkg(p, "blockchain/types") {
		if f.Signature.Recv() == nil || f.Parent() != nil {
			continue
		}
		rn := engine.NamedOf(f.Signature.Recv().Type())
		if rn == nil || (rn.Obj().Name() != "Header" && rn.Obj().Name() != "Block") {
			continue
		}
		for _, b := range f.Blocks {
			for _, in := range b.Instrs {
				fa, ok := in.(*ssa.FieldAddr)
				if !ok {
					continue
				}
				// base is a load of Header.ProposedHeader / Header.EmptyBlockHeader
				var arm string
				for _, a := range []string{"ProposedHeader", "EmptyBlockHeader"} {
					if _, ok := loadOfField(fa.X, "Header", a); ok {
						arm = a
					}
				}
				if arm == "" {
					continue
				}
				other := "EmptyBlockHeader"
				if arm == "EmptyBlockHeader" {
					other = "ProposedHeader"
				}
				n++
				atom := func(v ssa.Value) (bool, bool) {
					if x, nonNilOnTrue, ok := engine.NilCheck(v); ok {
						if _, isArm := loadOfField(x, "Header", arm); isArm {
							return true, nonNilOnTrue
						}
						if _, isOther := loadOfField(x, "Header", other); isOther {
							return true, !nonNilOnTrue // other arm nil => this arm present (oneof, IsValid)
						}
					}
					if c, ok := v.(*ssa.Call); ok && engine.CallIs(c, "blockchain/types.Block.IsEmpty") {
						return true, arm == "EmptyBlockHeader"
					}
					return false, false
				}
				okG := engine.OnlyThroughPass(f, b, atomGuards(f, atom))
				_, fld, _ := engine.FieldOf(fa)
				r.Check(okG, "C12-R5b", engine.RelName(f)+"|"+arm+"."+fld, p.InstrPos(fa), "behind the arm's presence test (oneof)", "header arm "+arm+" dereferenced on a path where it may be nil")
			}
		}
	}
	r.Floor("C12-R5b", 20, "measured: 22 arm dereferences in Header/Block accessors")
}

// ---------------------------------------------------------------- R6: optional offline address
func c12R6(p *engine.Prog, r *engine.Report) {
	isOfflineAddrVal := func(v ssa.Value) (hdrPath string, ok bool) {
		v = engine.Origin(v)
		if c, isC := v.(*ssa.Call); isC && engine.CallIs(c, "blockchain/types.Header.OfflineAddr") {
			return engine.PathOf(c.Call.Args[0]), true
		}
		if base, isF := loadOfField(v, "ProposedHeader", "OfflineAddr"); isF {
			return engine.PathOf(base), true
		}
		return "", false
	}
	flagConsts := map[int64]bool{}
	if pk := p.ByPath[engine.RepoMod+"/blockchain/types"]; pk != nil {
		for _, n := range []string{"OfflinePropose", "OfflineCommit"} {
			if c, ok := pk.Types.Scope().Lookup(n).(*types.Const); ok {
				if v, ok := constant.Int64Val(c.Val()); ok {
					flagConsts[v] = true
				}
			}
		}
	}
	if len(flagConsts) != 2 {
		r.Errorf("Offline* flag constants not found")
		return
	}
	// HasFlag(Offline*) on the flags of header path hp
	flagAtom := func(hp string) atomFn {
		return func(v ssa.Value) (bool, bool) {
			c, ok := v.(*ssa.Call)
			if !ok || !engine.CallIs(c, "blockchain/types.BlockFlag.HasFlag") {
				return false, false
			}
			k, isK := engine.ConstInt(c.Call.Args[1])
			if !isK || !flagConsts[k] {
				return false, false
			}
			fl, isCall := engine.Origin(c.Call.Args[0]).(*ssa.Call)
			if !isCall || !engine.CallIs(fl, "blockchain/types.Header.Flags", "blockchain/types.Block.Flags") {
				return false, false
			}
			recv := engine.PathOf(fl.Call.Args[0])
			// Block.Flags() is Header.Flags() of block.Header
			if recv == hp || recv+".Header" == hp {
				return true, true
			}
			return false, false
		}
	}
	n := 0
	for _, pkg := range []string{"blockchain", "consensus", "pengings", "protocol", "core/ceremony", "core/mempool", "core/state", "core/appstate", "core/upgrade"} {
		for _, f := range funcsOfPkg(p, pkg) {
			for _, b := range f.Blocks {
				for _, in := range b.Instrs {
					u, ok := in.(*ssa.UnOp)
					if !ok || u.Op != token.MUL {
						continue
					}
					if pt, isPtr := u.X.Type().(*types.Pointer); !isPtr || engine.TypeID(pt.Elem()) != "common.Address" {
						continue
					}
					hp, isOA := isOfflineAddrVal(u.X)
					if !isOA {
						continue
					}
					n++
					r.Fn(engine.FuncName(f))
					org := engine.Origin(u.X)
					nn := atomGuards(f, nonNilAtom(func(x ssa.Value) bool { return engine.Origin(x) == org }))
					fg := atomGuards(f, flagAtom(hp))
					ok1 := engine.OnlyThroughPass(f, b, nn)
					ok2 := engine.OnlyThroughPass(f, b, fg)
					how := "dominated by != nil"
					if !ok1 {
						how = "dominated by HasFlag(Offline*) of the same header (flag => address, established by OfflineDetector.ValidateBlock)"
					}
					r.Check(ok1 || ok2, "C12-R6", engine.RelName(f)+"|*OfflineAddr", p.InstrPos(u), how, "optional offline address dereferenced without nil test or Offline* flag test of the same header")
				}
			}
		}
	}
	r.Floor("C12-R6", 6, "read: VoteForOffline(3), ValidateBlock(4), applyGlobalParams(1)")
	// the invariant itself: OfflineDetector.ValidateBlock accepts a flagged block only with an address
	if f := mustFunc(p, r, "blockchain", "OfflineDetector.ValidateBlock"); f != nil {
		var addrCall *ssa.Call
		for _, c := range callsTo(f, "blockchain/types.Header.OfflineAddr") {
			if cc, ok := c.(*ssa.Call); ok && strings.Contains(engine.PathOf(cc.Call.Args[0]), "block") {
				addrCall = cc
			}
		}
		ok := false
		if addrCall != nil {
			nn := atomGuards(f, nonNilAtom(func(x ssa.Value) bool { return engine.Origin(x) == ssa.Value(addrCall) }))
			hp := engine.PathOf(addrCall.Call.Args[0])
			fg := atomGuards(f, flagAtom(hp))
			ok = len(nn) > 0 && len(fg) > 0
			cut := map[engine.Edge]bool{}
			for _, g := range nn {
				cut[g.PassEdge()] = true
			}
			for _, g := range fg {
				if engine.OnlyThroughPass(f, g.If.Block(), nn) {
					continue // a flag test that is already behind addr != nil
				}
				te := g.PassEdge()
				from := te.From.Succs[te.Succ]
				// the same SSA value cannot be true here and false at a later test of it:
				// cut those infeasible edges
				cutG := map[engine.Edge]bool{}
				for e := range cut {
					cutG[e] = true
				}
				for _, g2 := range fg {
					if g2.If.Cond == g.If.Cond {
						cutG[g2.FailEdge()] = true
					}
				}
				for b := range engine.ReachAvoiding(f, from, cutG, nil) {
					if len(b.Instrs) == 0 {
						continue
					}
					if ret, isRet := b.Instrs[len(b.Instrs)-1].(*ssa.Return); isRet && retErrKind(ret) != "nonnil" {
						ok = false
					}
				}
			}
		}
		r.Check(ok, "C12-R6", "OfflineDetector.ValidateBlock|flag implies address", p.Pos(f.Pos()), "no non-error return after an Offline* flag test without passing addr != nil", "a block with an Offline* flag and no offline address can pass OfflineDetector.ValidateBlock")
	}
}

// ---------------------------------------------------------------- R7: fixed-size crops
func c12R7(p *engine.Prog, r *engine.Report) {
	n := 0
	for _, f := range funcsOfPkg(p, "common") {
		if f.Name() != "SetBytes" || f.Signature.Recv() == nil {
			continue
		}
		pt, ok := f.Signature.Recv().Type().(*types.Pointer)
		if !ok {
			continue
		}
		arr, ok := pt.Elem().Underlying().(*types.Array)
		if !ok {
			continue
		}
		n++
		r.Fn(engine.FuncName(f))
		bad := ""
		for _, b := range f.Blocks {
			for _, in := range b.Instrs {
				var ops []*ssa.Value
				for _, op := range in.Operands(ops) {
					if k, isK := engine.ConstInt(*op); isK && k != 0 && k != arr.Len() {
						if _, isIdx := in.(*ssa.IndexAddr); isIdx {
							continue
						}
						bad = p.InstrPos(in)
					}
				}
			}
		}
		r.Check(bad == "", "C12-R7", engine.RelName(f)+"|crop constants == "+itoa(arr.Len()), p.Pos(f.Pos()), "every length constant equals the array length", "length constant differs from the receiver's array length at "+bad+" (slice bounds panic on long input)")
	}
	r.Floor("C12-R7", 3, "Hash, Address, Hash128")
	// ---------------- R9: never a hang — a lock taken while handling a message is released on every path
	{
		la := lockAnalysis(p)
		var fns []*ssa.Function
		for _, f := range p.AllFuncs() {
			if f.Blocks == nil || f.Synthetic != "" || isTestish(p.Pos(f.Pos())) {
				continue
			}
			fns = append(fns, f)
		}
		n := releasedOnAllPaths(p, la, r, "C12-R9", fns, func(id string) bool { return !strings.HasPrefix(id, "local:") })
		_ = n
		r.Floor("C12-R9", 60, "functions that take a lock (repo-wide)")
	}
	c12R8(p, r)
	c12R10(p, r)
	c12R11(p, r)
	c12R12(p, r)
}

func itoa(i int64) string { return strconv.FormatInt(i, 10) }

// c12R8: headers taken from the chain (the parent handed to a validator, the node's head, a header read
// back by height or hash) may be empty blocks: every dereference of their proposed part lies behind a
// presence test of that part (or the absence of the empty part) on the same header.
func c12R8(p *engine.Prog, r *engine.Report) {
	n := 0
	isChainHeader := func(f *ssa.Function, hdr ssa.Value) (bool, string) {
		switch x := hdr.(type) {
		case *ssa.Parameter:
			if nn := engine.NamedOf(x.Type()); nn == nil || nn.Obj().Name() != "Header" {
				return false, ""
			}
			// not the candidate under validation (the first header/block parameter)
			if candParam(f) == ssa.Value(x) {
				return false, ""
			}
			return true, "parameter " + x.Name()
		case *ssa.UnOp:
			if _, fld, ok := engine.FieldOf(x); ok && (fld == "Head" || fld == "PreliminaryHead") {
				return true, "chain." + fld
			}
		case *ssa.Call:
			if nn := engine.NamedOf(x.Type()); nn != nil && nn.Obj().Name() == "Header" {
				if o := engine.CalleeObj(&x.Call); o != nil && o.Pkg() != nil && engine.IsRepoPkg(o.Pkg()) {
					return true, "result of " + o.Name()
				}
			}
		}
		return false, ""
	}
	for _, f := range p.AllFuncs() {
		if f.Blocks == nil || f.Synthetic != "" || isTestish(p.Pos(f.Pos())) {
			continue
		}
		sp := engine.ShortPkg(engine.FuncPkg(f).Path())
		if sp == "blockchain/types" || strings.HasPrefix(sp, "api") || strings.HasPrefix(sp, "cmd") {
			continue
		}
		for _, b := range f.Blocks {
			for _, ins := range b.Instrs {
				fa, ok := ins.(*ssa.FieldAddr)
				if !ok {
					continue
				}
				ld, ok := fa.X.(*ssa.UnOp)
				if !ok || ld.Op != token.MUL {
					continue
				}
				hb, isP := loadOfField(ld, "Header", "ProposedHeader")
				if !isP {
					continue
				}
				hdr := engine.Origin(hb)
				isCh, what := isChainHeader(f, hdr)
				if !isCh {
					continue
				}
				n++
				hpath := engine.PathOf(hdr)
				same := func(v ssa.Value) bool { return engine.Origin(v) == hdr || engine.PathOf(engine.Origin(v)) == hpath }
				g := guardsWhere(f, func(cond ssa.Value) (bool, bool, string) {
					c, neg := stripNot(cond)
					if x, nonNilOnTrue, ok := engine.NilCheck(c); ok {
						if base, isPH := loadOfField(x, "Header", "ProposedHeader"); isPH && same(base) {
							return true, nonNilOnTrue != neg, "proposed part present"
						}
						if base, isEH := loadOfField(x, "Header", "EmptyBlockHeader"); isEH && same(base) {
							return true, nonNilOnTrue == neg, "empty part absent"
						}
					}
					return false, false, ""
				})
				_, fld, _ := engine.FieldOf(fa)
				r.Check(len(g) > 0 && engine.OnlyThroughPass(f, b, g), "C12-R8", uniq(r, engine.RelName(f)+"|"+what+".ProposedHeader."+fld+" behind a presence test"), p.InstrPos(fa), "proposed part present (or empty part absent) on the same header", "the header comes from the chain ("+what+") and may be an empty block: its proposed part is dereferenced without a presence test — a peer that makes this code run on top of an empty block crashes the node")
			}
		}
	}
	r.Floor("C12-R8", 3, "chain-header dereferences")
	_ = n
}

// ---------------------------------------------------------------- R10
// Belief contradiction (Engler et al.): a pointer that is tested for nil is not dereferenced at a
// point that dominates the test. Either the test is dead or the dereference can panic on the
// input the test was written for. Repo-wide, one frozen exception.
func c12R10(p *engine.Prog, r *engine.Report) {
	// keyed by function and tested value: another contradiction in the same function is still reported
	exempt := map[string]string{
		"VmImpl.deploy|blockchain/attachments.ParseDeployContractAttachment(param:*github.com/idena-network/idena-go/blockchain/types.Transaction)": "attach.CodeHash is read before `attach == nil`; the DeployContractTx validator rejects an unparsable attachment before the VM runs (C12-R3 'validator-backed'), so the late test is dead code, not a reachable panic",
		"Blockchain.ValidateHeader|param:*github.com/idena-network/idena-go/blockchain/types.Header.ProposedHeader":                                 "the trailing `header.ProposedHeader != nil` (unknown-upgrade test) is dead: control gets there only with EmptyBlockHeader == nil, and a header from the network passed Header.IsValid() (exactly the rule C12-R5a: one arm present)",
	}
	n, scanned := 0, 0
	for _, f := range p.AllFuncs() {
		if pk := engine.FuncPkg(f); pk == nil || !engine.IsRepoPkg(pk) || f.Synthetic != "" || f.Blocks == nil || isTestish(p.Pos(f.Pos())) {
			continue
		}
		if strings.HasSuffix(p.Pos(f.Pos()), ".pb.go") || strings.Contains(p.Pos(f.Pos()), ".pb.go:") {
			continue
		}
		scanned++
		for _, c := range derefBeforeNilTest(f) {
			n++
			key := engine.RelName(f) + "|dereference dominates the nil test of the same value"
			if os.Getenv("VERIF_VERBOSE") != "" {
				fmt.Fprintln(os.Stderr, "C12-R10 candidate:", engine.RelName(f)+"|"+renderVal(c.Val, 0))
			}
			if why, ok := exempt[engine.RelName(f)+"|"+renderVal(c.Val, 0)]; ok {
				r.OK("C12-R10", uniq(r, key+" (frozen exception)"), p.InstrPos(c.Deref), why)
				continue
			}
			r.Bad("C12-R10", uniq(r, key), p.InstrPos(c.Deref), "the pointer tested for nil at "+p.InstrPos(c.Test)+" is dereferenced here first: for the input the test was written for (an absent optional part of a decoded message) this is a nil dereference, not the intended refusal")
		}
	}
	r.OK("C12-R10", "repo|functions scanned for dereference-before-test", "", itoa(int64(scanned))+" functions, "+itoa(int64(n))+" contradiction(s)")
	if scanned < 2000 {
		r.Und("C12-R10", "repo|scan size", "", "only "+itoa(int64(scanned))+" functions scanned")
	}
}

// ---------------------------------------------------------------- R11
// The certificate of a block bundle received from a peer is optional on the wire (absent -> nil).
// Every place that stores such a certificate (Blockchain.WriteCertificate -> BlockCert.ToBytes
// dereferences it) does so behind a presence test of that very certificate — the sibling call sites
// in full sync and fast sync do; a site without the test crashes on a bundle sent without one.
func c12R11(p *engine.Prog, r *engine.Report) {
	n := 0
	for _, f := range p.AllFuncs() {
		if pk := engine.FuncPkg(f); pk == nil || !engine.IsRepoPkg(pk) || f.Synthetic != "" || f.Blocks == nil || isTestish(p.Pos(f.Pos())) {
			continue
		}
		for _, c := range engine.Calls(f) {
			if !engine.CallIs(c, "blockchain.Blockchain.WriteCertificate") {
				continue
			}
			args := engine.CallArgs(c)
			cert := engine.Unwrap(args[2])
			ld, isLoad := cert.(*ssa.UnOp)
			if !isLoad || ld.Op != token.MUL {
				continue // built locally (cert.Compress()): never nil
			}
			if _, fld, okF := engine.FieldOf(ld.X); !okF || fld != "Cert" {
				continue
			}
			n++
			path := renderVal(cert, 0)
			g := guardsWhere(f, func(cond ssa.Value) (bool, bool, string) {
				cnd, neg := stripNot(cond)
				if cc, ok := cnd.(*ssa.Call); ok && engine.CallNameIs(cc, "Empty") {
					if a := engine.CallArgs(cc); len(a) > 0 && renderVal(a[0], 0) == path {
						return true, neg, "!Cert.Empty()"
					}
				}
				if x, y, isEq, ok := eqCond(cnd); ok {
					for _, pr := range [][2]ssa.Value{{x, y}, {y, x}} {
						if k, isK := pr[1].(*ssa.Const); isK && k.IsNil() && renderVal(pr[0], 0) == path {
							return true, isEq == neg, "Cert != nil"
						}
					}
				}
				return false, false, ""
			})
			r.Check(len(g) > 0 && engine.OnlyThroughPass(f, c.Block(), g), "C12-R11", uniq(r, engine.RelName(f)+"|a received certificate is stored only if present"), p.InstrPos(c), "behind !Cert.Empty() / Cert != nil of the same bundle", "the optional certificate of a received block bundle is stored without a presence test: WriteCertificate encodes it (nil dereference in BlockCert.ToProto) — a peer that serves a valid fork and leaves out a certificate in the middle crashes the node while it is switching forks")
		}
	}
	r.Floor("C12-R11", 3, "fork resolver, full sync, fast sync")
}

// ---------------------------------------------------------------- R12
// getGasLimit runs for every contract transaction of a block under validation (no recover on that
// path): its decimal division is reached only behind the zero test of its own divisor (the cost of
// one gas unit is zero as long as the state has no fee rate, e.g. right after a generated genesis).
func c12R12(p *engine.Prog, r *engine.Report) {
	f := mustFunc(p, r, "blockchain", "Blockchain.getGasLimit")
	if f == nil {
		return
	}
	r.Fn(engine.FuncName(f))
	nDiv := 0
	for _, c := range engine.Calls(f) {
		if o := engine.CalleeObj(c.Common()); o != nil && o.Pkg() != nil && strings.HasSuffix(o.Pkg().Path(), "shopspring/decimal") && (o.Name() == "Div" || o.Name() == "DivRound") {
			nDiv++
		}
	}
	bad := unguardedDecimalDivisions(f)
	for _, d := range bad {
		r.Bad("C12-R12", uniq(r, "getGasLimit|the division is behind the zero test of its own divisor"), p.InstrPos(d.Call), "decimal division by "+d.Of+" is reachable without a test that this very value is not zero (a test of another value does not help): with no fee rate in the state the divisor is 0, decimal.Div panics inside block validation — a block from the network crashes the node instead of getting a verdict")
	}
	if len(bad) == 0 {
		r.OK("C12-R12", "getGasLimit|the division is behind the zero test of its own divisor", p.Pos(f.Pos()), itoa(int64(nDiv))+" division(s) guarded (integer arithmetic would not be constrained)")
	}
}
