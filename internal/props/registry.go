// Package props holds one rule set per property. Each rule enumerates its instances from
// the type-checked program and reports one obligation per instance.
package props

import (
	"idenaverif/internal/engine"
)

type Rule func(p *engine.Prog, r *engine.Report)

var Registry = map[string]Rule{}

// extras holds rules added to a property from another file (looked up at run time, so the order of
// init functions does not matter).
var extras = map[string][]Rule{}

func extend(id string, f Rule) { extras[id] = append(extras[id], f) }

func register(id string, f Rule) {
	Registry[id] = func(p *engine.Prog, r *engine.Report) {
		f(p, r)
		for _, e := range extras[id] {
			e(p, r)
		}
	}
}

// mustFunc resolves an anchor or records a checker error (anchor moved => check broken,
// never a silent pass).
func mustFunc(p *engine.Prog, r *engine.Report, pkg, name string) *ssaFunc {
	f, err := p.Func(pkg, name)
	if err != nil {
		r.Errorf("anchor unresolved: %v", err)
		return nil
	}
	r.Fn(engine.FuncName(f))
	return f
}
