package props

import (
	"fmt"
	"go/token"
	"go/types"
	"sort"
	"strings"

	"golang.org/x/tools/go/ssa"

	"idenaverif/internal/engine"
)

// Rules that several properties need as a necessary condition; each caller passes its own rule id.

// envResetPrecedesRule: one VM serves every transaction of a block; the contract environment is re-created
// before each embedded execution (a failed, uncommitted call leaves nothing for the next one).
func envResetPrecedesRule(p *engine.Prog, r *engine.Report, rule string) {
	run := mustFunc(p, r, "vm", "VmImpl.Run")
	if run == nil {
		return
	}
	var reset ssa.CallInstruction
	var execs []ssa.CallInstruction
	for _, c := range engine.Calls(run) {
		o := engine.CalleeObj(c.Common())
		if o == nil {
			continue
		}
		switch {
		case o.Name() == "Reset" && strings.Contains(engine.CallID(c), "vm/env") && isEnvReceiver(c):
			if reset == nil || engine.InstrDominates(c, reset) {
				reset = c
			}
		case engine.CallIs(c, "vm.VmImpl.deploy", "vm.VmImpl.call", "vm.VmImpl.terminate"):
			execs = append(execs, c)
		}
	}
	ok := reset != nil && len(execs) > 0
	for _, e := range execs {
		if reset == nil || !engine.InstrDominates(reset, e) {
			ok = false
		}
	}
	r.Check(ok, rule, "VmImpl.Run|env.Reset precedes every execution", p.Pos(run.Pos()), fmt.Sprintf("dominates %d executions", len(execs)), "an embedded execution can start on the buffers a previous (possibly failed, uncommitted) transaction of the block left: absolute balances of bystanders are written back by the next successful one")
}

// insertBlockStoresDiffRule: insertBlock stores its diff parameter at the block's height on every success path,
// unconditionally (an empty diff clears what an abandoned block left at that height).
func insertBlockStoresDiffRule(p *engine.Prog, r *engine.Report, rule string) {
	ib := mustFunc(p, r, "blockchain", "Blockchain.insertBlock")
	if ib == nil {
		return
	}
	ok := false
	for _, c := range callsTo(ib, "blockchain.Blockchain.WriteIdentityStateDiff") {
		a := c.Common().Args
		if engine.Origin(a[2]) == ssa.Value(ib.Params[2]) && sliceCallOn(a[1], ib.Params[1], "blockchain/types.Block.Height") {
			ok = true
			for _, ret := range successReturns(ib) {
				if !engine.MustPassInstr(ib, ret, []ssa.Instruction{c}) {
					ok = false
				}
			}
		}
	}
	r.Check(ok, rule, "insertBlock|WriteIdentityStateDiff(block.Height(), diff) on every success path", p.Pos(ib.Pos()), "own parameter, own height, unconditional", "a block can be inserted without passing its identity diff to the store: the diff an abandoned block left at that height survives the switch and is served to syncing peers")
}

// deletedArmCompleteRule: in ValidatorsCache.UpdateFromIdentityStateDiff every address-keyed container the
// live arm can add the address to is cleaned for it in the Deleted arm (incremental view == rebuilt view).
func deletedArmCompleteRule(p *engine.Prog, r *engine.Report, rule string) {
	f := mustFunc(p, r, "core/validators", "ValidatorsCache.UpdateFromIdentityStateDiff")
	if f == nil {
		return
	}
	// the Deleted guard
	var del *ssa.If
	for _, i := range engine.Ifs(f) {
		if _, fld, ok := engine.FieldOf(engine.Origin(i.Cond)); ok && fld == "Deleted" {
			del = i
		}
	}
	if del == nil {
		r.Und(rule, "UpdateFromIdentityStateDiff|Deleted arm", p.Pos(f.Pos()), "branch on d.Deleted not found")
		return
	}
	hdr := engine.LoopHeaderOf(del.Block())
	cutB := map[*ssa.BasicBlock]bool{}
	if hdr != nil {
		cutB[hdr] = true
	}
	arm := engine.ReachAvoiding(f, del.Block().Succs[0], nil, cutB)
	containerOf := func(v ssa.Value) string {
		if _, fld, ok := engine.FieldOf(engine.Origin(v)); ok {
			return fld
		}
		return ""
	}
	added := map[string]bool{}
	removedIn := func(blocks map[*ssa.BasicBlock]bool, fns []*ssa.Function) map[string]bool {
		out := map[string]bool{}
		scan := func(ins ssa.Instruction) {
			switch x := ins.(type) {
			case *ssa.Call:
				if bi, ok := x.Call.Value.(*ssa.Builtin); ok && bi.Name() == "delete" {
					if c := containerOf(x.Call.Args[0]); c != "" {
						out[c] = true
					}
				}
				if engine.CallNameIs(x, "Remove") {
					if a := engine.CallArgs(x); len(a) > 0 {
						if c := containerOf(a[0]); c != "" {
							out[c] = true
						}
					}
				}
			}
		}
		for b := range blocks {
			for _, ins := range b.Instrs {
				scan(ins)
				// closures called in the arm
				if c, ok := ins.(*ssa.Call); ok {
					if mc, isMC := engine.Origin(c.Call.Value).(*ssa.MakeClosure); isMC {
						if cf, isF := mc.Fn.(*ssa.Function); isF {
							for _, bb := range cf.Blocks {
								for _, i2 := range bb.Instrs {
									scan(i2)
								}
							}
						}
					}
				}
			}
		}
		_ = fns
		return out
	}
	for _, b := range f.Blocks {
		for _, ins := range b.Instrs {
			switch x := ins.(type) {
			case *ssa.Call:
				if engine.CallNameIs(x, "Add") {
					if a := engine.CallArgs(x); len(a) > 0 {
						if c := containerOf(a[0]); c != "" {
							added[c] = true
						}
					}
				}
			case *ssa.MapUpdate:
				if c := containerOf(x.Map); c != "" {
					// keyed by the diff's address
					if _, fld, ok := engine.FieldOf(engine.Origin(x.Key)); ok && fld == "Address" {
						added[c] = true
					}
				}
			}
		}
	}
	rem := removedIn(arm, nil)
	names := sortedKeys(added)
	for _, c := range names {
		r.Check(rem[c], rule, "UpdateFromIdentityStateDiff|a deleted identity leaves "+c, p.InstrPos(del), "removed in the Deleted arm", "the live arm can add the address to "+c+" but the Deleted arm does not take it out: a node that updates its view from diffs keeps a killed identity there, a node that rebuilds the view (restart, reset) does not — committees and thresholds differ")
	}
	if len(names) < 3 {
		r.Und(rule, "UpdateFromIdentityStateDiff|containers", p.Pos(f.Pos()), fmt.Sprintf("only %v found", names))
	}
	_ = sort.Strings
}

// totalCostNoBypassRule: validateTotalCost reports success only behind the balance comparison or behind a
// non-positive FULL cost (amount + tips + fee) — no other shortcut.
func totalCostNoBypassRule(p *engine.Prog, r *engine.Report, rule string) {
	tc := mustFunc(p, r, "blockchain/validation", "validateTotalCost")
	if tc == nil {
		return
	}
	isFullCost := func(v ssa.Value) bool {
		seen := map[ssa.Value]bool{}
		var all func(v ssa.Value) bool
		all = func(v ssa.Value) bool {
			v = engine.Unwrap(v)
			if seen[v] {
				return true
			}
			seen[v] = true
			if ph, ok := v.(*ssa.Phi); ok {
				for _, e := range ph.Edges {
					if !all(e) {
						return false
					}
				}
				return true
			}
			c, ok := v.(*ssa.Call)
			return ok && (engine.CallIs(c, "blockchain/fee.CalculateCost") || engine.CallIs(c, "blockchain/fee.CalculateMaxCost"))
		}
		return all(v)
	}
	var guards []engine.Guard
	for _, g := range checksOf(tc) {
		// the balance comparison
		sl := engine.BackSlice(g.If.Cond, engine.DefaultSlice)
		for v := range sl {
			if c, ok := v.(*ssa.Call); ok && engine.CallIs(c, "core/state.StateDB.GetBalance") {
				guards = append(guards, g)
				break
			}
		}
	}
	// cost.Sign() > 0 with cost the full cost: the false edge is a legitimate pass
	for _, i := range engine.Ifs(tc) {
		b, ok := i.Cond.(*ssa.BinOp)
		if !ok {
			continue
		}
		sc, isC := engine.Unwrap(b.X).(*ssa.Call)
		k, isK := engine.ConstInt(b.Y)
		if !isC || !isK || k != 0 || !engine.CallIs(sc, "math/big.Int.Sign") || !isFullCost(sc.Call.Args[0]) {
			continue
		}
		switch b.Op.String() {
		case ">":
			guards = append(guards, engine.Guard{If: i, PassTrue: false, Note: "full cost <= 0"})
		case "<=":
			guards = append(guards, engine.Guard{If: i, PassTrue: true, Note: "full cost <= 0"})
		}
	}
	ok := len(guards) > 0
	var bad []string
	for _, ret := range successReturns(tc) {
		if !engine.OnlyThroughPassRet(tc, ret, guards) {
			ok = false
			bad = append(bad, p.InstrPos(ret))
		}
	}
	r.Check(ok, rule, "validateTotalCost|success only behind the balance comparison or a non-positive full cost", p.Pos(tc.Pos()), "no other shortcut", "a transaction is admitted at "+strings.Join(bad, ", ")+" without comparing the sender's balance with its full cost (amount + tips + fee): what is not covered is taken from someone else when the transfer is applied")
}

// sameCommitteePopulationRule: committee size and vote threshold are computed from the same population count.
func sameCommitteePopulationRule(p *engine.Prog, r *engine.Report, rule string) {
	gs := mustFunc(p, r, "blockchain", "Blockchain.GetCommitteeSize")
	gt := mustFunc(p, r, "blockchain", "Blockchain.GetCommitteeVotesThreshold")
	if gs == nil || gt == nil {
		return
	}
	pop := func(f *ssa.Function) map[string]bool {
		out := map[string]bool{}
		for _, c := range engine.Calls(f) {
			if o := engine.CalleeObj(c.Common()); o != nil && strings.Contains(engine.CallID(c), "core/validators.ValidatorsCache.") {
				if a := engine.CallArgs(c); len(a) > 0 && engine.Origin(a[0]) == ssa.Value(f.Params[1]) {
					out[o.Name()] = true
				}
			}
		}
		return out
	}
	a, b := pop(gs), pop(gt)
	r.Check(len(a) > 0 && joinKeys(a) == joinKeys(b), rule, "GetCommitteeSize vs GetCommitteeVotesThreshold|same population", p.Pos(gt.Pos()), "both count "+joinKeys(a), "the committee size counts {"+joinKeys(a)+"} but the vote threshold counts {"+joinKeys(b)+"}: with pools the two differ and certificates below the real quorum are emitted and accepted")
}

// isEnvReceiver: the call's receiver is the contract environment (Env / EnvImp), not e.g. the gas counter.
func isEnvReceiver(c ssa.CallInstruction) bool {
	var t ssa.Value
	if c.Common().IsInvoke() {
		t = c.Common().Value
	} else if a := c.Common().Args; len(a) > 0 {
		t = a[0]
	}
	if t == nil {
		return false
	}
	n := engine.NamedOf(t.Type())
	return n != nil && strings.HasPrefix(n.Obj().Name(), "Env")
}

// importRules runs another property's rules on a scratch report (memoised per program) and copies the
// obligations of the selected rule ids into r under a new rule id. A property whose behaviour also
// depends on a condition that a sibling property already decides claims that condition too, under its
// own id, instead of re-implementing it.
var importMemo = map[*engine.Prog]map[string]*engine.Report{}

func importRules(p *engine.Prog, r *engine.Report, from string, rename map[string]string) {
	m := importMemo[p]
	if m == nil {
		m = map[string]*engine.Report{}
		importMemo[p] = m
	}
	src := m[from]
	if src == nil {
		fn := Registry[from]
		if fn == nil {
			r.Errorf("importRules: property %s not registered", from)
			return
		}
		src = engine.NewReport(from, r.Tier, r.Seed)
		fn(p, src)
		m[from] = src
	}
	n := map[string]int{}
	for _, o := range src.Obls {
		to, ok := rename[o.Rule]
		if !ok {
			continue
		}
		key := strings.TrimPrefix(o.Key, o.Rule+"|")
		switch o.Status {
		case engine.Discharged:
			r.OK(to, key, o.Pos, o.Detail)
		case engine.Violated:
			r.Bad(to, key, o.Pos, o.Detail)
		case engine.Undecided:
			r.Und(to, key, o.Pos, o.Detail)
		case engine.Info:
			r.Note(to, key, o.Pos, o.Detail)
		}
		n[to]++
	}
	for f := range src.Funcs {
		r.Fn(f)
	}
	for from, to := range rename {
		if n[to] == 0 {
			r.Und(to, "imported from "+from, "", "the imported rule produced no obligation")
		}
	}
	for _, e := range src.Errors {
		r.Errorf("imported %s: %s", from, e)
	}
}

// viewConstructorsAgreeRule: every constructor of a derived view of a state DB (ForCheck, ForCheckWithOverwrite,
// Readonly …) inherits the same behaviour-carrying fields from its parent: a field that one of them copies
// from the receiver (e.g. the identity-update hook that decides what a kill leaves behind) is copied by all.
func viewConstructorsAgreeRule(p *engine.Prog, r *engine.Report, rule string) {
	for _, typ := range []string{"StateDB", "IdentityStateDB"} {
		copied := map[*ssa.Function]map[string]bool{}
		union := map[string]bool{}
		var ctors []*ssa.Function
		for _, f := range funcsOfPkg(p, "core/state") {
			if f.Blocks == nil || f.Signature.Recv() == nil || isTestish(p.Pos(f.Pos())) {
				continue
			}
			if nn := engine.NamedOf(f.Signature.Recv().Type()); nn == nil || nn.Obj().Name() != typ {
				continue
			}
			if !(strings.HasPrefix(f.Name(), "ForCheck") || f.Name() == "Readonly") {
				continue
			}
			as := allocsOf(f, typ)
			if len(as) == 0 {
				continue
			}
			recv := ssa.Value(f.Params[0])
			set := map[string]bool{}
			for _, a := range as {
				for fld, st := range fieldStoresOn(a) {
					if base, ok := loadOfField(st.Val, typ, fld); ok && engine.Origin(base) == recv {
						set[fld] = true
						union[fld] = true
					}
				}
			}
			copied[f] = set
			ctors = append(ctors, f)
		}
		sort.Slice(ctors, func(i, j int) bool { return ctors[i].Name() < ctors[j].Name() })
		// fields that are shared storage rather than behaviour (the view may or may not wrap them)
		storage := map[string]bool{"db": true, "original": true, "tree": true}
		for _, f := range ctors {
			var missing []string
			for fld := range union {
				if !storage[fld] && !copied[f][fld] {
					missing = append(missing, fld)
				}
			}
			sort.Strings(missing)
			r.Check(len(missing) == 0, rule, typ+"."+f.Name()+"|inherits what its sibling view constructors inherit", p.Pos(f.Pos()), "copies "+joinKeys(copied[f]), "does not copy "+strings.Join(missing, ", ")+" from its parent although a sibling constructor does: blocks applied on this kind of view (sync, fork validation) behave differently from blocks applied on the others — different roots for the same block")
		}
	}
}

// gasLimitFeeRateRule: the part of MaxFee that getGasLimit reserves for the transaction's own fee is computed with
// the fee rate the fee is charged at (the state's FeePerGas, as in applyTxOnState) — otherwise fee + gas cost can
// exceed MaxFee, which is all that admission compared the balance with.
func gasLimitFeeRateRule(p *engine.Prog, r *engine.Report, rule string) {
	gl := mustFunc(p, r, "blockchain", "Blockchain.getGasLimit")
	at := mustFunc(p, r, "blockchain", "Blockchain.applyTxOnState")
	if gl == nil || at == nil {
		return
	}
	rateOf := func(f *ssa.Function) map[string]bool {
		out := map[string]bool{}
		for _, c := range callsTo(f, "blockchain.Blockchain.getTxFee") {
			// the fee-rate argument, found by its type (not by position: the helper's signature may grow)
			var rate ssa.Value
			for _, a := range c.Common().Args[1:] {
				if n := engine.NamedOf(a.Type()); n != nil && n.Obj().Name() == "Int" {
					rate = a
				}
			}
			if rate == nil {
				continue
			}
			for v := range engine.BackSlice(rate, engine.DefaultSlice) {
				if cc, ok := v.(*ssa.Call); ok {
					if o := engine.CalleeObj(&cc.Call); o != nil && (strings.Contains(o.Name(), "FeePerGas")) {
						out[o.Name()] = true
					}
				}
			}
		}
		return out
	}
	a, b := rateOf(gl), rateOf(at)
	r.Check(len(a) > 0 && joinKeys(a) == joinKeys(b), rule, "getGasLimit vs applyTxOnState|own fee computed at the same rate", p.Pos(gl.Pos()), "both use "+joinKeys(a), "the gas limit reserves the fee at {"+joinKeys(a)+"} but the fee is charged at {"+joinKeys(b)+"}: fee plus gas cost can exceed MaxFee, the sender is charged more than admission compared its balance with")
}

// offlineFlagsPeriodRule: the proposer side of the offline detector returns a flag only under the period condition
// under which the validator side accepts one.
func offlineFlagsPeriodRule(p *engine.Prog, r *engine.Report, rule string) {
	po := mustFunc(p, r, "blockchain", "OfflineDetector.ProposeOffline")
	vb := mustFunc(p, r, "blockchain", "OfflineDetector.ValidateBlock")
	if po == nil || vb == nil {
		return
	}
	periodGuards := func(f *ssa.Function) []engine.Guard {
		return guardsWhere(f, func(cond ssa.Value) (bool, bool, string) {
			x, y, isEq, ok := eqCond(cond)
			if !ok {
				return false, false, ""
			}
			for _, pr := range [][2]ssa.Value{{x, y}, {y, x}} {
				c, isC := engine.Unwrap(pr[0]).(*ssa.Call)
				k, isK := engine.ConstInt(pr[1])
				if isC && isK && k == 0 && engine.CallNameIs(c, "ValidationPeriod") {
					return true, isEq, "ValidationPeriod() == NonePeriod"
				}
			}
			return false, false, ""
		})
	}
	// validator: flags accepted only in NonePeriod
	gv := periodGuards(vb)
	gp := periodGuards(po)
	okV := len(gv) > 0
	// proposer: every return of a non-zero flag behind the same condition
	okP := len(gp) > 0
	n := 0
	for _, ret := range engine.Returns(po) {
		if len(ret.Results) != 2 {
			continue
		}
		if k, isK := engine.ConstInt(returnedValue(ret, 1)); isK && k == 0 {
			continue
		}
		if isRecoverBlock(ret.Block()) {
			continue
		}
		n++
		if !engine.OnlyThroughPassRet(po, ret, gp) {
			okP = false
		}
	}
	r.Check(okV && okP && n > 0, rule, "ProposeOffline vs OfflineDetector.ValidateBlock|offline flags only outside validation periods on both sides", p.Pos(po.Pos()), fmt.Sprintf("%d flag returns behind ValidationPeriod()==NonePeriod", n), "the proposer can set an Offline* flag during a validation period although every validator refuses such a block: an honest proposer's block is rejected and the round is lost")
}

// returnedValue: the i-th result of ret, looking through results spilled to named-result cells (functions
// with defer): the value of the last store to the cell in the return's own block.
func returnedValue(ret *ssa.Return, i int) ssa.Value {
	v := ret.Results[i]
	ld, ok := v.(*ssa.UnOp)
	if !ok {
		return v
	}
	a, ok := ld.X.(*ssa.Alloc)
	if !ok {
		return v
	}
	var last ssa.Value
	for _, ins := range ret.Block().Instrs {
		if st, isSt := ins.(*ssa.Store); isSt && st.Addr == ssa.Value(a) {
			last = st.Val
		}
	}
	if last != nil {
		return last
	}
	return v
}

// processTxsExhaustiveRule: a block is accepted only if every one of its transactions went through ValidateTx and
// applyTxOnState: the validation loop of processTxs is left early only by refusing the block.
func processTxsExhaustiveRule(p *engine.Prog, r *engine.Report, rule string) {
	pt := mustFunc(p, r, "blockchain", "Blockchain.processTxs")
	if pt == nil {
		return
	}
	var vt ssa.CallInstruction
	for _, c := range callsTo(pt, "blockchain/validation.ValidateTx") {
		vt = c
	}
	if vt == nil {
		r.Und(rule, "processTxs|validation loop", p.Pos(pt.Pos()), "ValidateTx not called")
		return
	}
	hdr := engine.LoopHeaderOf(vt.Block())
	if hdr == nil {
		r.Bad(rule, "processTxs|validation loop", p.InstrPos(vt), "ValidateTx is not called in a loop over the block's transactions")
		return
	}
	lb := loopBlocks(hdr)
	var bad []string
	for b := range lb {
		if b == hdr {
			continue
		}
		for _, s := range b.Succs {
			if lb[s] {
				continue
			}
			if !errorOnly(pt, s) {
				bad = append(bad, p.InstrPos(b.Instrs[len(b.Instrs)-1]))
			}
		}
	}
	sort.Strings(bad)
	r.Check(len(bad) == 0, rule, "processTxs|the loop over the block's transactions is left early only by refusing the block", p.InstrPos(vt), "every other exit is the exhaustion of the list", "the loop can be left at "+strings.Join(bad, ", ")+" towards a successful return: the remaining transactions of the block are accepted without having been validated or applied (their nonces are not consumed — the same signed transaction can be mined again)")
}

// offlineFlagsAtomsRule: every state condition under which the validator side of the offline detector accepts an
// Offline* flag is established by the proposer side before it returns that flag (sibling agreement, atom by atom).
func offlineFlagsAtomsRule(p *engine.Prog, r *engine.Report, rule string) {
	po := mustFunc(p, r, "blockchain", "OfflineDetector.ProposeOffline")
	vb := mustFunc(p, r, "blockchain", "OfflineDetector.ValidateBlock")
	if po == nil || vb == nil {
		return
	}
	names := map[string]bool{"IsOnlineIdentity": true, "HasDelayedOfflinePenalty": true, "HasStatusSwitchAddresses": true}
	// atom: (accessor, value it has on the given edge)
	atomOf := func(cond ssa.Value) (string, bool, bool) { // name, valueWhenCondTrue, ok
		c, neg := stripNot(cond)
		if call, ok := c.(*ssa.Call); ok {
			if o := engine.CalleeObj(&call.Call); o != nil && names[o.Name()] {
				return o.Name(), !neg, true
			}
		}
		return "", false, false
	}
	// validator: atoms required on the accepting side
	required := map[string]bool{} // name -> required value
	for _, g := range checksOf(vb) {
		if name, vTrue, ok := atomOf(g.If.Cond); ok {
			required[name] = vTrue == g.PassTrue
		}
	}
	if len(required) < 2 {
		r.Und(rule, "OfflineDetector.ValidateBlock|state conditions", p.Pos(vb.Pos()), fmt.Sprintf("only %d found", len(required)))
		return
	}
	flagName := map[int64]string{}
	for _, ret := range engine.Returns(po) {
		if len(ret.Results) != 2 || isRecoverBlock(ret.Block()) {
			continue
		}
		k, isK := engine.ConstInt(returnedValue(ret, 1))
		if isK && k == 0 {
			continue
		}
		fl := "a flag"
		if isK {
			if flagName[k] == "" {
				flagName[k] = fmt.Sprintf("flag %d", k)
			}
			fl = flagName[k]
		}
		for _, name := range sortedKeys(boolKeys(required)) {
			want := required[name]
			g := guardsWhere(po, func(cond ssa.Value) (bool, bool, string) {
				n2, vTrue, ok := atomOf(cond)
				if !ok || n2 != name {
					return false, false, ""
				}
				return true, vTrue == want, name
			})
			okc := len(g) > 0 && engine.OnlyThroughPassRet(po, ret, g)
			if !okc && name == "IsOnlineIdentity" && want {
				// drawn from the online set itself
				for v := range engine.BackSlice(returnedValue(ret, 0), engine.DefaultSlice) {
					if c, ok := v.(*ssa.Call); ok && engine.CallNameIs(c, "GetAllOnlineValidators", "GetOnlineValidators") {
						okc = true
					}
				}
			}
			r.Check(okc, rule, uniq(r, "ProposeOffline|"+fl+" returned only with "+name+"=="+fmt.Sprint(want)), p.InstrPos(ret), "same condition as OfflineDetector.ValidateBlock", "the proposer can return "+fl+" without having established "+name+"=="+fmt.Sprint(want)+", which every validator demands for a block carrying it: the honestly built block is refused and the round is lost")
		}
	}
}

func boolKeys(m map[string]bool) map[string]bool {
	o := map[string]bool{}
	for k := range m {
		o[k] = true
	}
	return o
}

// subChainOnCheckStateRule: ValidateSubChain judges a fork on the speculative state derived for
// the fork point; the node's own state (chain.appState) is used only to derive that state.
// Anything else read from chain.appState there (validator cache, identity registry, balances)
// is the view at the node's own head, not the fork's.
func subChainOnCheckStateRule(p *engine.Prog, r *engine.Report, rule string) {
	f := mustFunc(p, r, "blockchain", "Blockchain.ValidateSubChain")
	if f == nil {
		return
	}
	r.Fn(engine.FuncName(f))
	n := 0
	ok, where := true, ""
	var visit func(fn *ssa.Function)
	visit = func(fn *ssa.Function) {
		for _, b := range fn.Blocks {
			for _, ins := range b.Instrs {
				u, isLoad := ins.(*ssa.UnOp)
				if !isLoad {
					continue
				}
				o, fld, isF := engine.FieldOf(u.X)
				if !isF || o != "Blockchain" || fld != "appState" {
					continue
				}
				n++
				if u.Referrers() == nil {
					continue
				}
				for _, ref := range *u.Referrers() {
					c, isCall := ref.(ssa.CallInstruction)
					if isCall && engine.HasRecv(c) && engine.CallArgs(c)[0] == ssa.Value(u) && engine.CallNameIs(c, "ForCheckWithOverwrite", "ForCheck") {
						continue
					}
					if _, isDbg := ref.(*ssa.DebugRef); isDbg {
						continue
					}
					ok, where = false, p.InstrPos(ref)
				}
			}
		}
		for _, a := range fn.AnonFuncs {
			visit(a)
		}
	}
	visit(f)
	r.Check(ok && n > 0, rule, "ValidateSubChain|the node's own state is used only to derive the check state", p.Pos(f.Pos()), "chain.appState flows only into ForCheckWithOverwrite", "chain.appState is used at "+where+" while a fork is judged: the fork's blocks and certificates are checked against the validator set / state at the node's own head instead of the fork's own state — a genuinely certified fork is refused and one signed by identities unknown to the fork is adopted")
}

// timestampBoundaryRule: the builder stamps a block with max(prev + MinBlockDelay, now); the
// earliest honest distance to the parent is therefore exactly MinBlockDelay, and the validator's
// "too close" test must let equality pass (reject only strictly below the same constant).
func timestampBoundaryRule(p *engine.Prog, r *engine.Report, rule string) {
	v := mustFunc(p, r, "blockchain", "validateBlockTimestamp")
	b := mustFunc(p, r, "blockchain", "Blockchain.ProposeBlock")
	if v == nil || b == nil {
		return
	}
	min := constInt(p, "blockchain", "MinBlockDelay")
	// builder side: some Add(MinBlockDelay) feeds the header time
	builderAdds := false
	for _, c := range engine.Calls(b) {
		if engine.CallIs(c, "time.Time.Add") {
			if k, ok := engine.ConstInt(engine.CallArgs(c)[1]); ok && k == min {
				builderAdds = true
			}
		}
	}
	if !builderAdds || min == 0 {
		r.Und(rule, "ProposeBlock|earliest timestamp = parent + MinBlockDelay", p.Pos(b.Pos()), "builder side not recognised")
		return
	}
	n := 0
	for _, g := range checksOf(v) {
		cond, neg := stripNot(g.If.Cond)
		bo, ok := cond.(*ssa.BinOp)
		if !ok {
			continue
		}
		kx, okx := engine.ConstInt(bo.X)
		ky, oky := engine.ConstInt(bo.Y)
		var op string
		switch {
		case oky && ky == min:
			op = bo.Op.String()
		case okx && kx == min:
			op = map[string]string{"<": ">", ">": "<", "<=": ">=", ">=": "<="}[bo.Op.String()]
		default:
			continue
		}
		// normalise to "distance OP MinBlockDelay is true on the REJECT edge"
		rejectOnTrue := !g.PassTrue
		if neg {
			rejectOnTrue = !rejectOnTrue
		}
		if !rejectOnTrue {
			op = map[string]string{"<": ">=", ">=": "<", "<=": ">", ">": "<="}[op]
		}
		n++
		r.Check(op == "<", rule, "validateBlockTimestamp|a block exactly MinBlockDelay after its parent is accepted", p.InstrPos(g.If), "rejects only distance < MinBlockDelay (the builder's earliest stamp is parent + MinBlockDelay)", "the validator rejects when distance "+op+" MinBlockDelay, but ProposeBlock stamps max(parent + MinBlockDelay, now): an honest block proposed within the delay of its parent (fast round, proposer clock behind) carries exactly parent + MinBlockDelay and is refused by every validator")
	}
	if n == 0 {
		r.Und(rule, "validateBlockTimestamp|MinBlockDelay comparison", p.Pos(v.Pos()), "no rejecting comparison against MinBlockDelay found")
	}
}

// chargedCostRule: what applyTxOnState charges (and, for ActivationTx, what it leaves behind) is the
// actual cost at the block's fee rate — getTxCost is fee.CalculateCost(size, feePerGas, tx) — never
// the declared maximum, which only bounds admission.
func chargedCostRule(p *engine.Prog, r *engine.Report, rule string) {
	f := mustFunc(p, r, "blockchain", "Blockchain.getTxCost")
	if f == nil {
		return
	}
	r.Fn(engine.FuncName(f))
	ok, why := true, ""
	n := 0
	for _, ret := range engine.Returns(f) {
		n++
		c, isCall := engine.Unwrap(ret.Results[0]).(*ssa.Call)
		if !isCall || !engine.CallIs(c, "blockchain/fee.CalculateCost") {
			ok, why = false, "result is not fee.CalculateCost(...)"
			continue
		}
		args := engine.CallArgs(c)
		isParam := func(v ssa.Value) bool {
			o := engine.Origin(v)
			for _, prm := range f.Params[1:] {
				if o == ssa.Value(prm) {
					return true
				}
			}
			return false
		}
		if len(args) < 3 || !isParam(args[1]) || !isParam(args[2]) {
			ok, why = false, "not computed from the fee rate and transaction it was given"
		}
		// the network size comes from the state it was given, not from the node's own
		for v := range engine.BackSlice(args[0], engine.DefaultSlice) {
			if _, fld, isF := engine.FieldOf(v); isF && fld == "appState" {
				ok, why = false, "network size read from the node's own state (chain.appState)"
			}
		}
	}
	r.Check(ok && n > 0, rule, "getTxCost|the charged cost is fee.CalculateCost(size, feePerGas, tx)", p.Pos(f.Pos()), "actual cost at the block's fee rate", "getTxCost: "+why+": ActivationTx moves balance - cost to the recipient — with the declared maximum (not validated against the balance for a zero-fee type) the difference is negative and the recipient is debited in favour of the signer")
}

// stakePartsRule: locked stake is part of replenished stake, which is part of the stake: every
// addition to an inner part comes with the same addition (same address, same amount) to the
// enclosing parts in the same block of code. The release computations subtract the parts from one
// another; a part that outgrows its container releases coins that do not exist.
func stakePartsRule(p *engine.Prog, r *engine.Report, rule string) {
	encl := map[string][]string{"AddLockedStake": {"AddReplenishedStake", "AddStake"}, "AddReplenishedStake": {"AddStake"}}
	n := 0
	for _, pkg := range []string{"blockchain", "core/ceremony", "vm/env", "vm/wasm"} {
		for _, f := range funcsOfPkg(p, pkg) {
			if f.Blocks == nil || isTestish(p.Pos(f.Pos())) {
				continue
			}
			for _, c := range engine.Calls(f) {
				var inner string
				for k := range encl {
					if engine.CallIs(c, "core/state.StateDB."+k) {
						inner = k
					}
				}
				if inner == "" {
					continue
				}
				n++
				args := engine.CallArgs(c)
				for _, outer := range encl[inner] {
					found := false
					for _, c2 := range engine.Calls(f) {
						if !engine.CallIs(c2, "core/state.StateDB."+outer) {
							continue
						}
						a2 := engine.CallArgs(c2)
						same := len(a2) == len(args) && renderVal(a2[1], 0) == renderVal(args[1], 0) && renderVal(a2[2], 0) == renderVal(args[2], 0)
						if !same {
							continue
						}
						// on every path: the outer call's block dominates the inner call's block
						if c2.Block() == c.Block() || c2.Block().Dominates(c.Block()) {
							found = true
						}
					}
					r.Check(found, rule, uniq(r, engine.RelName(f)+"|"+inner+" comes with "+outer+" of the same address and amount"), p.InstrPos(c), "paired on every path", inner+" at this site has no "+outer+"(same address, same amount) before it on every path: the inner stake part can exceed the part that contains it, and the release computations (stake - replenished, stake - locked) pay out coins that were never there")
				}
			}
		}
	}
	if n == 0 {
		r.Und(rule, "stake parts", "", "no AddLockedStake/AddReplenishedStake call found")
	}
}

// predefinedImportRule: a chain started from a predefined state restores every exported field of
// every message it imports (account epoch next to the nonce, stake parts, flags …): a dropped field
// restarts the chain with a state that differs from the one that was dumped.
func predefinedImportRule(p *engine.Prog, r *engine.Report, rule string, onlyMsgs map[string]bool) {
	var fns []*ssa.Function
	for _, f := range funcsOfPkg(p, "core/state") {
		if f.Blocks != nil && strings.HasPrefix(f.Name(), "SetPredefined") && !isTestish(p.Pos(f.Pos())) {
			fns = append(fns, f)
			for _, a := range f.AnonFuncs {
				fns = append(fns, a)
			}
		}
	}
	if len(fns) == 0 {
		r.Und(rule, "SetPredefined*", "", "no importer found")
		return
	}
	read := map[string]map[string]bool{} // message type -> fields read
	msgs := map[string]*types.Struct{}
	for _, f := range fns {
		r.Fn(engine.FuncName(f))
		for _, b := range f.Blocks {
			for _, ins := range b.Instrs {
				var x ssa.Value
				var idx int
				switch t := ins.(type) {
				case *ssa.FieldAddr:
					x, idx = t.X, t.Field
				case *ssa.Field:
					x, idx = t.X, t.Field
				default:
					continue
				}
				n := engine.NamedOf(x.Type())
				if n == nil || !strings.HasPrefix(n.Obj().Name(), "ProtoPredefinedState") {
					continue
				}
				st, _ := n.Underlying().(*types.Struct)
				if st == nil {
					continue
				}
				msgs[n.Obj().Name()] = st
				if read[n.Obj().Name()] == nil {
					read[n.Obj().Name()] = map[string]bool{}
				}
				read[n.Obj().Name()][st.Field(idx).Name()] = true
			}
		}
	}
	var mnames []string
	for m := range msgs {
		mnames = append(mnames, m)
	}
	sort.Strings(mnames)
	for _, m := range mnames {
		if onlyMsgs != nil && !onlyMsgs[m] {
			continue
		}
		st := msgs[m]
		for i := 0; i < st.NumFields(); i++ {
			fld := st.Field(i)
			if !fld.Exported() {
				continue
			}
			r.Check(read[m][fld.Name()], rule, "SetPredefined*|"+m+"."+fld.Name()+" is restored", p.Pos(fns[0].Pos()), "read by an importer", "the predefined-state importers never read "+m+"."+fld.Name()+": a chain started from a dumped state lacks it (e.g. account epoch: every stored nonce then counts as stale and transactions of the current epoch can be applied again)")
		}
	}
}

// gasLimitTestsAgreeRule: the builder's filter (filterTxs) and the validator's replay (processTxs)
// compare against the block gas limit with the same expressions under the same configuration
// branches; a stricter or laxer test on one side makes honest blocks invalid (or lets the validator
// accept what no honest builder produces).
func gasLimitTestsAgreeRule(p *engine.Prog, r *engine.Report, rule string) {
	b := mustFunc(p, r, "blockchain", "Blockchain.filterTxs")
	v := mustFunc(p, r, "blockchain", "Blockchain.processTxs")
	if b == nil || v == nil {
		return
	}
	tests := func(f *ssa.Function) []string {
		var out []string
		for _, i := range engine.Ifs(f) {
			hit := false
			for x := range engine.BackSlice(i.Cond, engine.DefaultSlice) {
				if c, ok := x.(*ssa.Call); ok && engine.CallNameIs(c, "MaxBlockSize") {
					hit = true
				}
			}
			if !hit {
				continue
			}
			cond, neg := stripNot(i.Cond)
			// shape of the test, not the data flow behind it: which side is the limit, whether the
			// other side is the running total or the total plus the candidate's gas, and the operator
			s := "?"
			if bo, isB := cond.(*ssa.BinOp); isB {
				kind := func(v ssa.Value) string {
					for x := range engine.BackSlice(v, engine.SliceOpts{MaxNodes: 50}) {
						if c, ok := x.(*ssa.Call); ok && engine.CallNameIs(c, "MaxBlockSize") {
							return "limit"
						}
					}
					if add, isAdd := engine.Unwrap(v).(*ssa.BinOp); isAdd && add.Op == token.ADD {
						return "total+gas"
					}
					return "total"
				}
				s = kind(bo.X) + " " + bo.Op.String() + " " + kind(bo.Y)
			}
			if neg {
				s = "!(" + s + ")"
			}
			// the configuration branch the test sits in
			var cfg []string
			for _, c := range controlSig(i.Block()) {
				if strings.Contains(c, "Enable") || strings.Contains(c, "Consensus") {
					cfg = append(cfg, c)
				}
			}
			out = append(out, "["+strings.Join(cfg, " && ")+"] "+s)
		}
		sort.Strings(out)
		return out
	}
	tb, tv := tests(b), tests(v)
	r.Check(len(tb) > 0 && strings.Join(tb, " ; ") == strings.Join(tv, " ; "), rule, "filterTxs vs processTxs|same tests against the block gas limit", p.Pos(b.Pos()), itoa(int64(len(tb)))+" tests agree", "builder: {"+strings.Join(tb, " ; ")+"} validator: {"+strings.Join(tv, " ; ")+"}: the two sides draw the block gas limit differently — an honestly filled block is refused, or a block no honest builder would produce is accepted")
}

// dryRunNeutralRule: tryExecuteTx (the builder's dry run of contract calls before upgrade 12) leaves
// the check state as it found it: every balance mutation it makes around vm.Run has its inverse
// (same address, same amount) under exactly the same conditions — the real application follows on
// the same state and the validator runs no dry run.
func dryRunNeutralRule(p *engine.Prog, r *engine.Report, rule string) {
	f := mustFunc(p, r, "blockchain", "Blockchain.tryExecuteTx")
	if f == nil {
		return
	}
	r.Fn(engine.FuncName(f))
	type mut struct {
		name, args, conds, pos string
	}
	var muts []mut
	for _, c := range engine.Calls(f) {
		cal := c.Common().StaticCallee()
		if cal == nil || cal.Signature.Recv() == nil {
			continue
		}
		if n := engine.NamedOf(cal.Signature.Recv().Type()); n == nil || n.Obj().Name() != "StateDB" {
			continue
		}
		if !strings.HasPrefix(cal.Name(), "Add") && !strings.HasPrefix(cal.Name(), "Sub") && !strings.HasPrefix(cal.Name(), "Set") {
			continue
		}
		args := engine.CallArgs(c)
		var as []string
		for _, a := range args[1:] {
			as = append(as, renderVal(a, 0))
		}
		muts = append(muts, mut{cal.Name(), strings.Join(as, ","), strings.Join(controlSig(c.Block()), " && "), p.InstrPos(c)})
	}
	inverse := func(n string) string {
		switch {
		case strings.HasPrefix(n, "Add"):
			return "Sub" + strings.TrimPrefix(n, "Add")
		case strings.HasPrefix(n, "Sub"):
			return "Add" + strings.TrimPrefix(n, "Sub")
		}
		return ""
	}
	for _, m := range muts {
		ok := false
		for _, o := range muts {
			if o.name == inverse(m.name) && o.args == m.args && o.conds == m.conds {
				ok = true
			}
		}
		r.Check(ok, rule, uniq(r, "tryExecuteTx|"+m.name+" has its inverse under the same conditions"), m.pos, "mirrored", "the dry run's "+m.name+"("+m.args+") under {"+m.conds+"} has no "+inverse(m.name)+" of the same address and amount under the same conditions: the dry run leaves a trace on the state the block is then built on — the builder's roots differ from what every validator (who runs no dry run) computes")
	}
	if len(muts) == 0 {
		r.OK(rule, "tryExecuteTx|no state mutation in the dry run", p.Pos(f.Pos()), "nothing to mirror")
	}
}

// unconditionalSetterRule: StateDB.<setter>(addr, v) reaches the object-level setter with v on every
// path (only the nil test of the looked-up object may stand in the way), and the object-level setter
// stores v unconditionally. A "guarded" setter (never backwards, only if changed …) silently drops
// writes the transition logic relies on — e.g. the nonce restart of a new epoch.
func unconditionalSetterRule(p *engine.Prog, r *engine.Report, rule, setter, objType, objSetter, field string) {
	f := mustFunc(p, r, "core/state", "StateDB."+setter)
	if f == nil {
		return
	}
	r.Fn(engine.FuncName(f))
	val := ssa.Value(f.Params[len(f.Params)-1])
	ok, why := false, "object-level setter not called"
	for _, c := range engine.Calls(f) {
		cal := c.Common().StaticCallee()
		if cal == nil || cal.Signature.Recv() == nil {
			continue
		}
		if n := engine.NamedOf(cal.Signature.Recv().Type()); n == nil || n.Obj().Name() != objType {
			continue
		}
		if !strings.EqualFold(cal.Name(), objSetter) {
			continue
		}
		args := engine.CallArgs(c)
		if engine.Origin(args[len(args)-1]) != val {
			why = "object-level setter called with another value"
			continue
		}
		ok, why = true, ""
		for _, s := range controlSig(c.Block()) {
			if !strings.HasSuffix(s, " != nil)") && !strings.HasSuffix(s, " == nil)") {
				ok, why = false, "guarded by "+s
			}
		}
	}
	r.Check(ok, rule, "StateDB."+setter+"|the given value reaches the object on every path", p.Pos(f.Pos()), "unconditional (nil test of the object only)", "StateDB."+setter+": "+why+": a write the state transition asks for can be dropped (e.g. nonce 1 of a new epoch after a higher nonce of the previous one: replay protection counts on from the old epoch's nonce)")
	// the object-level setter chain stores the parameter unconditionally
	n := 0
	for _, g := range funcsOfPkg(p, "core/state") {
		if g.Blocks == nil || g.Signature.Recv() == nil || !strings.EqualFold(g.Name(), objSetter) {
			continue
		}
		if rn := engine.NamedOf(g.Signature.Recv().Type()); rn == nil || rn.Obj().Name() != objType {
			continue
		}
		for _, b := range g.Blocks {
			for _, ins := range b.Instrs {
				st, isSt := ins.(*ssa.Store)
				if !isSt {
					continue
				}
				if _, fld, okF := engine.FieldOf(st.Addr); !okF || fld != field {
					continue
				}
				n++
				okS := len(controlSig(b)) == 0 && engine.Origin(st.Val) == ssa.Value(g.Params[len(g.Params)-1])
				r.Check(okS, rule, uniq(r, objType+"."+g.Name()+"|stores its parameter unconditionally"), p.InstrPos(st), "plain store", objType+"."+g.Name()+" stores "+field+" under a condition or from another value")
			}
		}
	}
	if n == 0 {
		r.Und(rule, objType+"."+objSetter+"|store of "+field, "", "store not found")
	}
}

// undelegationsFlowRule: in every function that applies the identity-update steps of a block
// (applyBlockOnState and its empty-block sibling), the undelegations returned by
// applyDelegationSwitch are what switchPoolsToOffline is given — a pool emptied by an undelegation
// goes offline in an empty identity-update block exactly as in a proposed one.
func undelegationsFlowRule(p *engine.Prog, r *engine.Report, rule string) {
	n := 0
	for _, f := range funcsOfPkg(p, "blockchain") {
		if f.Blocks == nil || isTestish(p.Pos(f.Pos())) {
			continue
		}
		sw := callsTo(f, "blockchain.Blockchain.switchPoolsToOffline")
		if len(sw) == 0 {
			continue
		}
		for _, c := range sw {
			n++
			args := engine.CallArgs(c)
			ok := false
			for v := range engine.BackSlice(args[2], engine.DefaultSlice) {
				if cc, isC := v.(*ssa.Call); isC && engine.CallIs(cc, "blockchain.Blockchain.applyDelegationSwitch") {
					ok = true
				}
			}
			r.Check(ok, rule, uniq(r, engine.RelName(f)+"|pools are switched offline with the undelegations of this very block"), p.InstrPos(c), "switchPoolsToOffline(appState, applyDelegationSwitch(…), block)", "switchPoolsToOffline is not given the undelegations that applyDelegationSwitch returned in "+engine.RelName(f)+": a pool whose last delegator's undelegation is flushed by this kind of block keeps its online flag although it is neither a pool nor validated any more")
		}
	}
	r.Floor(rule, 2, "applyBlockOnState and applyEmptyBlockOnState")
	_ = n
}

// everyElementWrittenRule: fn ranges over a collection and calls `callee` for each element; no
// iteration reaches the next one (or the end of the loop) without that call — an index writer that
// skips elements (already present, filtered …) leaves records of an abandoned branch in place.
func everyElementWrittenRule(p *engine.Prog, r *engine.Report, rule, pkg, fn, callee, bad string) {
	f := mustFunc(p, r, pkg, fn)
	if f == nil {
		return
	}
	r.Fn(engine.FuncName(f))
	cs := callsTo(f, callee)
	if len(cs) == 0 {
		r.Bad(rule, fn+"|writes every element", p.Pos(f.Pos()), callee+" is not called")
		return
	}
	c := cs[0]
	hdr := enclosingLoopHeader(c.Block())
	ok := hdr != nil
	if hdr != nil {
		reach := engine.ReachAvoiding(f, hdr, nil, map[*ssa.BasicBlock]bool{c.Block(): true})
		for _, pr := range hdr.Preds {
			if hdr.Dominates(pr) && pr != c.Block() && reach[pr] {
				ok = false
			}
		}
	}
	r.Check(ok, rule, fn+"|every element is written", p.InstrPos(c), "no iteration bypasses "+callee, bad)
}

// signChecksCompleteRule: ValidateTx refuses a negative value in every big.Int field of the
// transaction (Amount, Tips, MaxFee …): the wire encoding drops the sign, so a negative value admitted
// on the node that holds the object in memory is applied with another value by everyone who decoded it.
func signChecksCompleteRule(p *engine.Prog, r *engine.Report, rule string) {
	f := mustFunc(p, r, "blockchain/validation", "ValidateTx")
	if f == nil {
		return
	}
	pk := p.ByPath[engine.RepoMod+"/blockchain/types"]
	if pk == nil {
		r.Und(rule, "ValidateTx|sign checks", "", "types package not loaded")
		return
	}
	st, _ := pk.Types.Scope().Lookup("Transaction").Type().Underlying().(*types.Struct)
	checked := map[string]bool{}
	for _, c := range engine.Calls(f) {
		if !engine.CallNameIs(c, "checkIfNonNegative") {
			continue
		}
		for _, a := range engine.CallArgs(c) {
			if _, fld, ok := engine.FieldOf(engine.Origin(a)); ok {
				checked[fld] = true
			}
		}
	}
	n := 0
	for i := 0; st != nil && i < st.NumFields(); i++ {
		fl := st.Field(i)
		if fl.Type().String() != "*math/big.Int" {
			continue
		}
		n++
		r.Check(checked[fl.Name()], rule, "ValidateTx|a negative "+fl.Name()+" is refused", p.Pos(f.Pos()), "checkIfNonNegative(tx."+fl.Name()+")", "ValidateTx does not refuse a negative "+fl.Name()+" (e.g. another field is checked twice): the proposer applies the in-memory value, every peer decodes the sign-less bytes and computes other roots — the honest proposer's block is refused by everyone else")
	}
	if n == 0 {
		r.Und(rule, "ValidateTx|sign checks", p.Pos(f.Pos()), "no big.Int field found in Transaction")
	}
}
