package props

import (
	"go/types"
	"strings"

	"golang.org/x/tools/go/ssa"

	"idenaverif/internal/engine"
)

func init() { register("C05", C05) }

// senderOf finds `sender, _ := types.Sender(tx)` in f for the given tx parameter.
func senderOf(f *ssa.Function, tx ssa.Value) ssa.Value {
	for _, c := range callsTo(f, "blockchain/types.Sender") {
		if engine.Origin(c.Common().Args[0]) != tx {
			continue
		}
		if cc, ok := c.(*ssa.Call); ok && cc.Referrers() != nil {
			for _, ref := range *cc.Referrers() {
				if ex, ok := ref.(*ssa.Extract); ok && ex.Index == 0 {
					return ex
				}
			}
		}
	}
	return nil
}

// isDerefTo: v is `*tx.To` for the given tx.
func isDerefTo(v ssa.Value, tx ssa.Value) bool {
	u, ok := engine.Origin(v).(*ssa.UnOp)
	if !ok {
		return false
	}
	base, isTo := loadOfField(u.X, "Transaction", "To")
	return isTo && engine.Origin(base) == tx
}

// C05 — a transaction can only spend its signer's funds.
func C05(p *engine.Prog, r *engine.Report) {
	r.Explanation = "(R1) debit-address discipline in applyTxOnState and tryExecuteTx: every call of a decreasing mutator (Sub* of balance/stake/locked/replenished stake/invites — taken from core/state's derived field effects —, SetState(_, Killed), IdentityState.Remove, ClearAccount, SetBalance) has an address operand that is the signer recovered by types.Sender(tx), or *tx.To inside the KillInviteeTx / KillDelegatorTx arms (arm = the tx.Type constants under which the site is reachable), or the executing contract's own address (vm.ContractAddr(tx,&sender)) on the failed-call refund path; the address-less god-invite debit is behind sender == GodAddress(). (R2) relationship gates: the validators registered for the exception types succeed only through inviter != nil && inviter.Address == sender with inviter = GetInviter(*tx.To), resp. delegatee != nil && *delegatee == sender with delegatee = Delegatee(*tx.To); ChangeGodAddressTx only through sender == GodAddress(). (R3) exhaustive dispatch: every tx type constant has a registered validator and every arm constant of applyTxOnState is registered. (R4) contract envs debit only the executing contract's own address (ctx.ContractAddr()) and every env cache that Commit writes back is cleared by Reset between transactions. Decides who may be debited; embedded contracts' internal authorisation logic is not decided."
	r.Assumptions = []string{"types.Sender recovers the signer (cryptographic)", "ValidateTx (with the registered validator) precedes applyTxOnState (C06-R4)", "link bookkeeping (inviter/invitee links, shard sizes) is not a 'spend'"}
	sm := getStateModel(p)
	consts := txTypeConsts(p)
	vtab := validatorsTable(p)
	debitFields := map[string]bool{"Account.Balance": true, "Identity.Stake": true, "Identity.lockedStake": true, "Identity.replenishedStake": true, "Identity.Invites": true, "Global.GodAddressInvites": true}
	isDebit := func(c ssa.CallInstruction) (string, bool) {
		name, ws, ok := sm.mutatorCall(c)
		if !ok {
			return "", false
		}
		short := name[strings.Index(name, ".")+1:]
		touches := false
		for _, w := range ws {
			if debitFields[w] {
				touches = true
			}
		}
		switch {
		case strings.HasPrefix(short, "Sub") && touches:
			return name, true
		case short == "ClearAccount", short == "SetBalance", short == "SetInvites", short == "SetContractStake":
			return name, true
		case name == "IdentityStateDB.Remove":
			return name, true
		case short == "SetState":
			if k, isK := engine.ConstInt(engine.Params(c)[1]); isK && k == constInt(p, "core/state", "Killed") {
				return name + "(Killed)", true
			}
		}
		return "", false
	}
	killTypes := map[string]bool{"KillInviteeTx": true, "KillDelegatorTx": true}
	n := 0
	for _, fname := range []string{"Blockchain.applyTxOnState", "Blockchain.tryExecuteTx"} {
		f := mustFunc(p, r, "blockchain", fname)
		if f == nil {
			continue
		}
		tx := ssa.Value(f.Params[1])
		sender := senderOf(f, tx)
		if sender == nil {
			r.Errorf("%s: sender not found", fname)
			continue
		}
		tgs := txTypeGuards(f, tx)
		// contract address value
		isContractAddr := func(v ssa.Value) bool {
			c, ok := engine.Origin(v).(*ssa.Call)
			if !ok || c.Call.Method == nil || c.Call.Method.Name() != "ContractAddr" {
				return false
			}
			return engine.Origin(c.Call.Args[0]) == tx
		}
		for _, c := range engine.Calls(f) {
			name, ok := isDebit(c)
			if !ok {
				continue
			}
			n++
			key := engine.RelName(f) + "|" + name
			pos := p.InstrPos(c)
			ps := engine.Params(c)
			if len(ps) == 0 || !strings.Contains(ps[0].Type().String(), "Address") {
				// address-less debit: god invite
				g := guardsWhere(f, func(cond ssa.Value) (bool, bool, string) {
					x, y, isEq, ok := eqCond(cond)
					if !ok {
						return false, false, ""
					}
					for _, pr := range [][2]ssa.Value{{x, y}, {y, x}} {
						if engine.Origin(pr[0]) == sender {
							if cc, ok := engine.Unwrap(pr[1]).(*ssa.Call); ok && engine.CallIs(cc, "core/state.StateDB.GodAddress") {
								return true, isEq, ""
							}
						}
					}
					return false, false, ""
				})
				r.Check(engine.OnlyThroughPass(f, c.Block(), g), "C05-R1", key+" (no address)", pos, "behind sender == GodAddress()", "god-address invite debited for a signer that is not the god address")
				continue
			}
			addr := ps[0]
			switch {
			case engine.Origin(addr) == sender:
				r.OK("C05-R1", key+" of sender", pos, "address operand is the signer")
			case isDerefTo(addr, tx):
				ks, any := armTypes(f, c.Block(), tgs)
				ok := !any && len(ks) > 0
				var names []string
				for _, k := range ks {
					names = append(names, consts[k])
					if !killTypes[consts[k]] {
						ok = false
					}
				}
				r.Check(ok, "C05-R1", key+" of *tx.To in arm "+strings.Join(names, ","), pos, "named exception (terminating one's own invitee/delegator)", "another address than the signer is debited in an arm that is not a named exception")
			case isContractAddr(addr):
				// the contract may only be debited by what this very function escrowed to it before:
				// an AddBalance(contractAddr, sameAmount) that dominates the debit
				ok := false
				for _, c2 := range engine.Calls(f) {
					n2, _, isM := sm.mutatorCall(c2)
					if !isM || n2 != "StateDB.AddBalance" {
						continue
					}
					p2 := engine.Params(c2)
					if engine.Origin(p2[0]) != engine.Origin(addr) || engine.PathOf(p2[1]) != engine.PathOf(ps[1]) {
						continue
					}
					if engine.InstrDominates(c2, c) {
						ok = true
						continue
					}
					// both under the same condition value (if shouldAddPayAmount {…} … if shouldAddPayAmount {…}),
					// credit first
					for _, i := range engine.Ifs(f) {
						var same []engine.Guard
						for _, j := range engine.Ifs(f) {
							if j.Cond == i.Cond {
								same = append(same, engine.Guard{If: j, PassTrue: true})
							}
						}
						if engine.OnlyThroughPass(f, c2.Block(), same) && engine.OnlyThroughPass(f, c.Block(), same) &&
							engine.ReachAvoiding(f, c2.Block(), nil, nil)[c.Block()] && !engine.ReachAvoiding(f, c.Block(), nil, nil)[c2.Block()] {
							ok = true
						}
					}
				}
				r.Check(ok, "C05-R1", key+" of the contract (escrow return)", pos, "returns exactly the pay amount this function credited to the contract before", "the contract's balance is debited without a dominating escrow credit of the same amount")
			default:
				r.Bad("C05-R1", key+" of "+engine.PathOf(addr), pos, "decreasing mutator applied to an address that is neither the signer, nor *tx.To in a kill-invitee/kill-delegator arm, nor the executing contract on refund")
			}
		}
	}
	r.Floor("C05-R1", 22, "read: 27 debit sites")

	// ---------------- R2
	gate := func(typeName, lookup, what string) {
		var v *ssa.Function
		for k, f := range vtab {
			if consts[k] == typeName {
				v = f
			}
		}
		if v == nil {
			r.Errorf("validator of %s not found", typeName)
			return
		}
		r.Fn(engine.FuncName(v))
		tx := ssa.Value(v.Params[1])
		sender := senderOf(v, tx)
		var rel *ssa.Call
		for _, c := range callsTo(v, lookup) {
			if isDerefTo(engine.Params(c)[0], tx) {
				rel, _ = c.(*ssa.Call)
			}
		}
		key := v.Name() + "|" + what
		if sender == nil || rel == nil {
			r.Bad("C05-R2", key, p.Pos(v.Pos()), "relationship lookup keyed by *tx.To not found")
			return
		}
		nonNil := atomGuards(v, nonNilAtom(func(x ssa.Value) bool { return engine.Origin(x) == ssa.Value(rel) }))
		eq := guardsWhere(v, func(cond ssa.Value) (bool, bool, string) {
			x, y, isEq, ok := eqCond(cond)
			if !ok {
				return false, false, ""
			}
			for _, pr := range [][2]ssa.Value{{x, y}, {y, x}} {
				if engine.Origin(pr[1]) != sender {
					continue
				}
				// the other side: value read through rel (inviter.Address / *delegatee)
				for z := range engine.BackSlice(pr[0], engine.SliceOpts{ThroughLoads: true, ThroughFields: true, MaxNodes: 40}) {
					if z == ssa.Value(rel) {
						return true, isEq, ""
					}
				}
			}
			return false, false, ""
		})
		r.Check(rejectsUnless(v, nonNil), "C05-R2", key+" (relationship exists)", p.Pos(v.Pos()), "every success path passes "+lookup+"(*tx.To) != nil", "the transaction is accepted when the target has no such relationship at all (any signer may terminate it)")
		r.Check(rejectsUnless(v, eq), "C05-R2", key+" (== sender)", p.Pos(v.Pos()), "every success path passes the comparison with the signer", "the transaction is accepted although the relationship points to another address than the signer")
	}
	gate("KillInviteeTx", "core/state.StateDB.GetInviter", "inviter of *tx.To is the signer")
	gate("KillDelegatorTx", "core/state.StateDB.Delegatee", "delegatee of *tx.To is the signer")
	// god address change
	for k, v := range vtab {
		if consts[k] != "ChangeGodAddressTx" {
			continue
		}
		tx := ssa.Value(v.Params[1])
		sender := senderOf(v, tx)
		g := guardsWhere(v, func(cond ssa.Value) (bool, bool, string) {
			x, y, isEq, ok := eqCond(cond)
			if !ok || sender == nil {
				return false, false, ""
			}
			for _, pr := range [][2]ssa.Value{{x, y}, {y, x}} {
				if engine.Origin(pr[0]) == sender {
					if cc, ok := engine.Unwrap(pr[1]).(*ssa.Call); ok && engine.CallIs(cc, "core/state.StateDB.GodAddress") {
						return true, isEq, ""
					}
				}
			}
			return false, false, ""
		})
		r.Check(rejectsUnless(v, g), "C05-R2", v.Name()+"|signer is the god address", p.Pos(v.Pos()), "every success path passes sender == GodAddress()", "the god address can be changed by another signer")
	}
	r.Floor("C05-R2", 5, "2x2 relationship gates + god")

	// ---------------- R3
	for k, name := range consts {
		_, ok := vtab[k]
		r.Check(ok, "C05-R3", "validators["+name+"]", "blockchain/validation", "registered", "tx type "+name+" has no registered validator")
	}
	if f, err := p.Func("blockchain", "Blockchain.applyTxOnState"); err == nil {
		seen := map[int64]bool{}
		for _, t := range txTypeGuards(f, f.Params[1]) {
			if seen[t.k] {
				continue
			}
			seen[t.k] = true
			_, ok := vtab[t.k]
			r.Check(ok, "C05-R3", "applyTxOnState arm "+consts[t.k], p.InstrPos(t.g.If), "type has a validator", "an arm applies a tx type that no validator is registered for")
		}
	}
	r.Floor("C05-R3", 40, "23 types + arms")

	c05R4(p, r)
}

// c05R4: contract envs.
func c05R4(p *engine.Prog, r *engine.Report) {
	// (a) subBalance address operand = ctx.ContractAddr()
	n := 0
	for _, pkg := range []string{"vm/env", "vm/wasm"} {
		for _, f := range funcsOfPkg(p, pkg) {
			for _, c := range engine.Calls(f) {
				cal := c.Common().StaticCallee()
				if cal == nil || (cal.Name() != "subBalance" && cal.Name() != "SubBalance") {
					continue
				}
				if pk := engine.FuncPkg(cal); pk == nil || engine.ShortPkg(pk.Path()) != pkg {
					continue
				}
				if cal.Name() == "SubBalance" && f.Name() != "SubBalance" {
					// WasmEnv.SubBalance(amount) debits the executing context itself; callers pass no address
					continue
				}
				n++
				ps := engine.Params(c)
				if len(ps) == 0 {
					continue
				}
				ok := false
				if cc, isC := engine.Origin(ps[0]).(*ssa.Call); isC {
					if o := engine.CalleeObj(cc.Common()); o != nil && o.Name() == "ContractAddr" {
						ok = true
					}
				}
				r.Check(ok, "C05-R4", engine.RelName(f)+"|"+cal.Name()+" debits ctx.ContractAddr()", p.InstrPos(c), "the executing contract's own address", "a contract env debits an address other than the executing contract")
			}
		}
	}
	// (b) every cache that Commit writes back is cleared by Reset (stale entries of an earlier
	// transaction of the block would overwrite bystanders' balances)
	for _, x := range []struct{ pkg, typ string }{{"vm/env", "EnvImp"}} {
		commit := mustFunc(p, r, x.pkg, x.typ+".Commit")
		reset := mustFunc(p, r, x.pkg, x.typ+".Reset")
		if commit == nil || reset == nil {
			continue
		}
		ranged := map[string]bool{}
		for _, b := range commit.Blocks {
			for _, ins := range b.Instrs {
				if rg, ok := ins.(*ssa.Range); ok {
					if o, fld, ok := engine.FieldOf(rg.X); ok && o == x.typ {
						ranged[fld] = true
					}
				}
			}
		}
		cleared := map[string]bool{}
		for _, s := range storesToField([]*ssa.Function{reset}, x.typ, "") {
			_, fld, _ := engine.FieldOf(s.Addr)
			switch engine.Unwrap(s.Val).(type) {
			case *ssa.MakeMap:
				cleared[fld] = true
			case *ssa.Const:
				cleared[fld] = true
			}
		}
		for _, fld := range sortedKeys(ranged) {
			r.Check(cleared[fld], "C05-R4", x.typ+".Reset clears "+fld, p.Pos(reset.Pos()), "fresh map per transaction", x.typ+".Commit writes back "+fld+" but Reset does not clear it: entries of an earlier transaction in the block are re-applied by a later one (absolute balances/stakes of bystanders overwritten)")
		}
	}
	r.Floor("C05-R4", 6, "subBalance sites + 5 EnvImp caches")
	// ---------------- R5: nobody else pays — admission covers the full cost; a failed call leaves no buffer behind
	totalCostNoBypassRule(p, r, "C05-R5")
	envResetPrecedesRule(p, r, "C05-R5")
	chargedCostRule(p, r, "C05-R5")
	c05R6(p, r, "C05-R6")
	c05R7(p, r)
	r.Floor("C05-R5", 2, "total cost + reset")
}

// c05R6: who a transaction is attributed to. Every address types.Sender / SenderFlipKey… return comes
// from the recovery over (signature hash of THIS object, its signature) or from a memo kept on the
// object itself; an answer taken from package-level state (a shared cache) must be looked up under a
// key that depends on that signature hash — otherwise bytes copied from another transaction decide
// whose funds are spent.
func c05R6(p *engine.Prog, r *engine.Report, rule string) {
	n := 0
	for _, name := range []string{"Sender", "SenderPubKey", "SenderFlipKey", "SenderFlipKeysPackage"} {
		f, _ := p.Func("blockchain/types", name)
		if f == nil || f.Blocks == nil {
			continue
		}
		r.Fn(engine.FuncName(f))
		for _, ret := range engine.Returns(f) {
			if len(ret.Results) == 0 {
				continue
			}
			res := ret.Results[0]
			sl := engine.BackSlice(res, engine.DefaultSlice)
			usesGlobal, usesHash := "", false
			for v := range sl {
				if g, isG := v.(*ssa.Global); isG && g.Pkg != nil && engine.IsRepoPkg(g.Pkg.Pkg) {
					if _, isFn := g.Type().Underlying().(*types.Pointer).Elem().Underlying().(*types.Signature); !isFn {
						usesGlobal = g.Name()
					}
				}
				if c, isC := v.(*ssa.Call); isC {
					if o := engine.CalleeObj(&c.Call); o != nil && (o.Name() == "SignatureHash" || o.Name() == "signatureHash" || o.Name() == "ToSignatureBytes") {
						usesHash = true
					}
				}
			}
			if usesGlobal == "" {
				continue
			}
			n++
			r.Check(usesHash, rule, uniq(r, name+"|an answer taken from shared state is keyed by the object's signature hash"), p.InstrPos(ret), "lookup depends on the signature hash", "the returned signer comes from package-level state ("+usesGlobal+") under a key that does not depend on the signature hash of this object (e.g. the signature bytes alone): a forged transaction carrying the signature of a recently seen one is attributed to that one's signer — it spends funds of an address that never signed it")
		}
	}
	r.OK(rule, "blockchain/types|signers are recovered from (signature hash, signature) or a memo on the object", "", itoa(int64(n))+" returns fed by shared state")
}

// c05R7: (a) the links between an inviter and its invitees are removed for EVERY invitee when the
// inviter goes: no loop ranges over the slice returned by StateDB.GetInvitees while its body removes
// from that very list (RemoveInvitee deletes in place; a ranged copy of the slice header walks a
// shifting array and skips every second element — the skipped invitees keep an inviter that can still
// kill them); (b) dropping a pending undelegation clears the delegatee with it: the epoch-end expiry
// relies on RemovePendingUndelegation alone, a remaining delegatee lets the former pool kill the
// identity and take its stake.
func c05R7(p *engine.Prog, r *engine.Report) {
	n := 0
	for _, pkg := range []string{"blockchain", "core/ceremony", "core/state"} {
		for _, f := range funcsOfPkg(p, pkg) {
			if f.Blocks == nil || isTestish(p.Pos(f.Pos())) {
				continue
			}
			for _, c := range callsTo(f, "core/state.StateDB.RemoveInvitee") {
				n++
				hdr := enclosingLoopHeader(c.Block())
				bad := false
				if hdr != nil {
					// is the loop a range/index loop over a GetInvitees(...) result evaluated once?
					for _, b := range []*ssa.BasicBlock{hdr} {
						for _, ins := range b.Instrs {
							_ = ins
						}
					}
					body := loopBlocks(hdr)
					for _, g := range callsTo(f, "core/state.StateDB.GetInvitees") {
						if body[g.Block()] {
							continue // re-read inside the loop: fine
						}
						gv, ok := g.(*ssa.Call)
						if !ok || gv.Referrers() == nil {
							continue
						}
						// the once-read slice is indexed / ranged inside the loop
						for _, ref := range *gv.Referrers() {
							if body[ref.Block()] {
								bad = true
							}
							if rg, isR := ref.(*ssa.Range); isR {
								_ = rg
								bad = true
							}
						}
						// `for _, x := range s.GetInvitees(a)`: len() before the loop, IndexAddr inside
						for _, ref := range *gv.Referrers() {
							if cl, isC := ref.(*ssa.Call); isC {
								if bi, isB := cl.Call.Value.(*ssa.Builtin); isB && bi.Name() == "len" && !body[cl.Block()] {
									bad = true
								}
							}
						}
					}
				}
				r.Check(!bad, "C05-R7", uniq(r, engine.RelName(f)+"|the invitee list is not ranged over while it is being emptied"), p.InstrPos(c), "list re-read on every iteration (or no loop)", "RemoveInvitee is called inside a loop that walks a slice obtained from GetInvitees once: the list is modified in place underneath the iteration and every second invitee is skipped — it keeps its Inviter link, and the dead inviter's address can still kill it (KillInviteeTx) and burn its stake")
			}
		}
	}
	if n == 0 {
		r.Und("C05-R7", "RemoveInvitee|call sites", "", "none found")
	}
	if f, _ := p.Func("core/state", "stateIdentity.RemovePendingUndelegation"); f != nil {
		r.Fn(engine.FuncName(f))
		wrote := map[string]bool{}
		for _, b := range f.Blocks {
			for _, ins := range b.Instrs {
				if st, ok := ins.(*ssa.Store); ok {
					if _, fld, okF := engine.FieldOf(st.Addr); okF && len(controlSig(b)) == 0 {
						if k, isK := engine.Unwrap(st.Val).(*ssa.Const); isK && (k.IsNil() || (k.Value != nil && k.Value.ExactString() == "false")) {
							wrote[fld] = true
						}
					}
				}
			}
		}
		r.Check(wrote["pendingUndelegation"] && wrote["delegatee"], "C05-R7", "stateIdentity.RemovePendingUndelegation|the delegatee is cleared together with the pending undelegation", p.Pos(f.Pos()), "flag reset and delegatee set to nil unconditionally", "RemovePendingUndelegation leaves the delegatee in place: after the epoch-end expiry of a pending undelegation the identity counts as a delegator of its former pool again — the pool's KillDelegatorTx passes validation, kills the identity and collects its stake")
	} else {
		r.Und("C05-R7", "stateIdentity.RemovePendingUndelegation", "", "function not found")
	}
}
