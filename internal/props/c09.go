package props

import (
	"fmt"
	"go/token"
	"go/types"
	"sort"
	"strings"

	"golang.org/x/tools/go/ssa"

	"idenaverif/internal/engine"
)

func init() { register("C09", C09) }

// C09 — a crash at any point leaves a node that restarts into a consistent chain.
// The quantifier (every storage write is a crash point) is not statically decidable; what is decided
// here are the orderings, gates and plumbing without which some crash point is unrecoverable.
func C09(p *engine.Prog, r *engine.Report) {
	r.Explanation = "(R1) start-up order in Node.StartWithHeight: EnsureIntegrity runs only behind InitializeChain()==nil and a successful AppState.Initialize (at the head height, falling back to the latest version), every error is propagated, and every call that starts a service or reads the head/state (reaches a go statement, Blockchain.Head or AppState trees) runs only behind EnsureIntegrity()==nil; (R2) the fast-sync switch is one atomic batch: every Batch-taking call of AtomicSwitchToPreliminary gets the batch created by SwitchToPreliminary (never nil), Batch-taking functions pass their own parameter down and write directly only on their batch==nil side, nothing else between creation and WriteSync writes durably, and the in-memory head/genesis switch happens only behind WriteSync()==nil; (R3) insertion order in AddBlock: trees are committed only behind ValidateBlock==nil and both root comparisons, every refusal after AddDiff resets the working trees, insertBlock runs only behind CommitTrees==nil, cannot fail after its first durable write, writes header and canonical hash before the head record that implies them, and moves the in-memory head last; (R4) repair: EnsureIntegrity returns success only with both roots equal, picks a reset target only if both trees have that version, searches at least the retained window, propagates errors; ResetTo moves the head only behind AppState.ResetTo==nil and removes headers after that; both trees reset with the overwriting loader; CommitTree deletes only versions older than the MaxSavedStatesCount newest. Not decided: recoverability at each individual crash point (needs crash injection), atomicity of goleveldb batches and IAVL SaveVersion (trusted)."
	r.Assumptions = []string{"goleveldb batch atomicity and IAVL SaveVersion atomicity (trusted base)", "all stores share one underlying database (constructor wiring)"}
	c09R1(p, r)
	c09R2(p, r)
	c09R3(p, r)
	c09R4(p, r)
}

// ---------------------------------------------------------------------------------------------

// durableWrite: c is a call that writes the database directly (not through a caller's batch).
func durableWrite(c ssa.CallInstruction) (string, bool) {
	o := engine.CalleeObj(c.Common())
	if o == nil || o.Pkg() == nil {
		return "", false
	}
	pp := o.Pkg().Path()
	recv := ""
	if sig, ok := o.Type().(*types.Signature); ok && sig.Recv() != nil {
		if n := engine.NamedOf(sig.Recv().Type()); n != nil {
			recv = n.Obj().Name()
		}
	}
	switch {
	case strings.HasSuffix(pp, "tendermint/tm-db"):
		switch recv + "." + o.Name() {
		case "DB.Set", "DB.SetSync", "DB.Delete", "DB.DeleteSync", "Batch.Write", "Batch.WriteSync":
			return "dbm." + recv + "." + o.Name(), true
		}
	case strings.HasSuffix(pp, "/iavl"):
		switch o.Name() {
		case "SaveVersion", "SaveVersionAt", "DeleteVersion", "DeleteVersions", "DeleteVersionsRange", "LoadVersionForOverwriting", "SaveForcedVersion":
			return "iavl." + o.Name(), true
		}
	case strings.HasSuffix(pp, "idena-go/common"):
		switch o.Name() {
		case "ClearDb", "Copy":
			return "common." + o.Name(), true
		}
	}
	return "", false
}

func isBatchType(t types.Type) bool {
	n := engine.NamedOf(t)
	return n != nil && n.Obj().Name() == "Batch" && n.Obj().Pkg() != nil && strings.HasSuffix(n.Obj().Pkg().Path(), "tendermint/tm-db")
}

// batchParamIdx returns the index (in Params, receiver included) of the Batch parameter of f, or -1.
func batchParamIdx(f *ssa.Function) int {
	for i, par := range f.Params {
		if isBatchType(par.Type()) {
			return i
		}
	}
	return -1
}

// batchArgOf: the argument c passes for a Batch-typed parameter of its callee (nil if the callee has none).
func batchArgOf(c ssa.CallInstruction) ssa.Value {
	sig := c.Common().Signature()
	args := c.Common().Args
	off := 0
	if !c.Common().IsInvoke() && sig.Recv() != nil {
		off = 1
	}
	for i := 0; i < sig.Params().Len(); i++ {
		if isBatchType(sig.Params().At(i).Type()) && i+off < len(args) {
			return args[i+off]
		}
	}
	return nil
}

// mayWriteDurably: f reaches (over repo functions) a direct database write that is not excused by a
// Batch parameter. Returns one witness.
func mayWriteDurably(p *engine.Prog, f *ssa.Function) string {
	reach := p.Reach([]*ssa.Function{f}, engine.ReachOpts{RepoOnly: true, NoFuncValueCHA: true})
	for _, g := range engine.SortedFuncs(reach) {
		for _, c := range engine.Calls(g) {
			if w, ok := durableWrite(c); ok {
				return engine.FuncName(g) + " -> " + w
			}
		}
	}
	return ""
}

// ---------------------------------------------------------------------------------------------

func c09R1(p *engine.Prog, r *engine.Report) {
	sw := mustFunc(p, r, "node", "Node.StartWithHeight")
	if sw == nil {
		return
	}
	one := func(id string) []*ssa.Call {
		var out []*ssa.Call
		for _, c := range callsTo(sw, id) {
			if cc, ok := c.(*ssa.Call); ok {
				out = append(out, cc)
			}
		}
		return out
	}
	ic := one("blockchain.Blockchain.InitializeChain")
	in := one("core/appstate.AppState.Initialize")
	ei := one("blockchain.Blockchain.EnsureIntegrity")
	if len(ic) != 1 || len(ei) != 1 || len(in) == 0 {
		r.Und("C09-R1", "StartWithHeight|recovery calls", p.Pos(sw.Pos()), fmt.Sprintf("InitializeChain×%d Initialize×%d EnsureIntegrity×%d", len(ic), len(in), len(ei)))
		return
	}
	gIC := nilErrGuards(sw, ic[0])
	var gIN []engine.Guard
	for _, c := range in {
		gIN = append(gIN, nilErrGuards(sw, c)...)
	}
	gEI := nilErrGuards(sw, ei[0])
	r.Check(len(gIC) > 0 && engine.OnlyThroughPass(sw, ei[0].Block(), gIC), "C09-R1", "StartWithHeight|EnsureIntegrity only behind InitializeChain()==nil", p.InstrPos(ei[0]), "dominated", "the integrity repair runs on a chain whose head was not loaded (or after a failed initialisation)")
	r.Check(len(gIN) > 0 && engine.OnlyThroughPass(sw, ei[0].Block(), gIN), "C09-R1", "StartWithHeight|EnsureIntegrity only behind a successful AppState.Initialize", p.InstrPos(ei[0]), fmt.Sprintf("%d Initialize call(s), one must succeed", len(in)), "the integrity repair compares the head with state trees that failed to load")
	// the first attempt loads the head's height
	first := in[0]
	for _, c := range in {
		if engine.InstrDominates(c, first) {
			first = c
		}
	}
	hOK := false
	if a := first.Call.Args; len(a) == 2 {
		if c, ok := engine.Unwrap(a[1]).(*ssa.Call); ok && engine.CallIs(c, "blockchain/types.Header.Height") {
			_, hOK = loadOfField(c.Call.Args[0], "Blockchain", "Head")
		}
	}
	r.Check(hOK, "C09-R1", "StartWithHeight|state is loaded at the head's height first", p.InstrPos(first), "Initialize(blockchain.Head.Height())", "start-up loads a state version unrelated to the stored head")
	// every success return behind EnsureIntegrity()==nil
	okRet := len(gEI) > 0
	for _, ret := range successReturns(sw) {
		if !engine.OnlyThroughPassRet(sw, ret, gEI) {
			okRet = false
		}
	}
	r.Check(okRet, "C09-R1", "StartWithHeight|success only behind EnsureIntegrity()==nil", p.Pos(sw.Pos()), "dominated", "the node reports a successful start although the integrity repair failed or did not run")
	// every service/start/head-reading call behind the gate
	trio := map[ssa.Instruction]bool{ic[0]: true, ei[0]: true}
	for _, c := range in {
		trio[c] = true
	}
	n, bad := 0, []string{}
	sens := map[*ssa.Function]string{}
	sensitive := func(f *ssa.Function) string {
		if s, ok := sens[f]; ok {
			return s
		}
		s := ""
		reach := p.Reach([]*ssa.Function{f}, engine.ReachOpts{RepoOnly: true, NoFuncValueCHA: true})
	outer:
		for _, g := range engine.SortedFuncs(reach) {
			for _, b := range g.Blocks {
				for _, ins := range b.Instrs {
					switch x := ins.(type) {
					case *ssa.Go:
						s = "starts a goroutine in " + engine.RelName(g)
						break outer
					case *ssa.FieldAddr:
						if o, fld, ok := engine.FieldOf(x); ok && ((o == "Blockchain" && fld == "Head") || (o == "AppState" && (fld == "State" || fld == "IdentityState"))) {
							s = "reads " + o + "." + fld + " in " + engine.RelName(g)
							break outer
						}
					}
				}
			}
		}
		sens[f] = s
		return s
	}
	for _, b := range sw.Blocks {
		for _, ins := range b.Instrs {
			c, ok := ins.(ssa.CallInstruction)
			if !ok || trio[ins] {
				continue
			}
			why := ""
			if _, isGo := ins.(*ssa.Go); isGo {
				why = "go statement"
			}
			for _, cal := range p.SiteCallees(c) {
				if !isRepoFn(cal) {
					continue
				}
				if s := sensitive(cal); s != "" && why == "" {
					why = engine.RelName(cal) + " " + s
				}
			}
			if why == "" {
				continue
			}
			n++
			if !engine.OnlyThroughPass(sw, b, gEI) {
				bad = append(bad, p.InstrPos(ins)+" "+why)
			}
		}
	}
	r.Check(len(bad) == 0 && n >= 5, "C09-R1", "StartWithHeight|services start only behind EnsureIntegrity()==nil", p.Pos(sw.Pos()), fmt.Sprintf("%d service/state-reading calls, all behind the gate", n), "runs before the integrity repair: "+strings.Join(bad, "; "))
	r.Floor("C09-R1", 5, "order ×2, height, success, services")
}

// ---------------------------------------------------------------------------------------------

func c09R2(p *engine.Prog, r *engine.Report) {
	asp := mustFunc(p, r, "blockchain", "Blockchain.AtomicSwitchToPreliminary")
	if asp == nil {
		return
	}
	var mk *ssa.Call
	for _, c := range callsTo(asp, "core/state.IdentityStateDB.SwitchToPreliminary") {
		mk, _ = c.(*ssa.Call)
	}
	if mk == nil {
		r.Und("C09-R2", "AtomicSwitchToPreliminary|batch creation", p.Pos(asp.Pos()), "SwitchToPreliminary not called")
		return
	}
	var batch ssa.Value
	for _, ref := range *mk.Referrers() {
		if ex, ok := ref.(*ssa.Extract); ok && isBatchType(ex.Type()) {
			batch = ex
		}
	}
	if batch == nil {
		r.Und("C09-R2", "AtomicSwitchToPreliminary|batch creation", p.InstrPos(mk), "no Batch result")
		return
	}
	// (a) every Batch-taking call gets the batch
	n := 0
	var ws *ssa.Call
	for _, c := range engine.Calls(asp) {
		if engine.CallNameIs(c, "WriteSync") && len(c.Common().Args) == 0 && c.Common().IsInvoke() && engine.Origin(c.Common().Value) == batch {
			ws, _ = c.(*ssa.Call)
		}
		a := batchArgOf(c)
		if a == nil {
			continue
		}
		n++
		key := "AtomicSwitchToPreliminary|" + calleeShort(c) + " writes into the switch batch"
		r.Check(engine.Origin(a) == batch, "C09-R2", uniq(r, key), p.InstrPos(c), "batch of SwitchToPreliminary", "a part of the preliminary switch is written outside the atomic batch ("+engine.PathOf(a)+"): a crash between the two writes leaves head, state prefix and preliminary markers inconsistent")
	}
	r.Check(n >= 7, "C09-R2", "AtomicSwitchToPreliminary|batched writes found", p.Pos(asp.Pos()), fmt.Sprintf("%d", n), fmt.Sprintf("only %d Batch-taking calls (7 confirmed by reading)", n))
	// (c) WriteSync gate
	if ws == nil {
		r.Bad("C09-R2", "AtomicSwitchToPreliminary|batch written with WriteSync", p.Pos(asp.Pos()), "the switch batch is never written synchronously")
	} else {
		g := nilErrGuards(asp, ws)
		ok := len(g) > 0
		var sites []string
		for _, c := range callsTo(asp, "blockchain.Blockchain.setCurrentHead") {
			sites = append(sites, "setCurrentHead")
			if !engine.OnlyThroughPass(asp, c.Block(), g) {
				ok = false
			}
		}
		for _, b := range asp.Blocks {
			for _, ins := range b.Instrs {
				if st, isSt := ins.(*ssa.Store); isSt {
					if o, f, isF := engine.FieldOf(st.Addr); isF && o == "GenesisInfo" {
						sites = append(sites, "genesisInfo."+f)
						if !engine.OnlyThroughPass(asp, b, g) {
							ok = false
						}
					}
				}
			}
		}
		for _, ret := range successReturns(asp) {
			if !engine.OnlyThroughPassRet(asp, ret, g) {
				ok = false
			}
		}
		r.Check(ok && len(sites) >= 3, "C09-R2", "AtomicSwitchToPreliminary|in-memory head/genesis switch only behind WriteSync()==nil", p.InstrPos(ws), strings.Join(sites, ","), "the in-memory head or genesis moves (or success is returned) although the batch was not durably written")
		// (d) nothing else writes durably between creation and WriteSync
		gm := nilErrGuards(asp, mk)
		var offenders []string
		checked := 0
		for _, c := range engine.Calls(asp) {
			if c == ssa.CallInstruction(ws) || c == ssa.CallInstruction(mk) || batchArgOf(c) != nil {
				continue
			}
			if _, isDefer := c.(*ssa.Defer); isDefer {
				continue
			}
			// between: behind creation success, not behind WriteSync success
			if !engine.OnlyThroughPass(asp, c.Block(), gm) || engine.OnlyThroughPass(asp, c.Block(), g) {
				continue
			}
			if w, isW := durableWrite(c); isW {
				offenders = append(offenders, p.InstrPos(c)+" "+w)
				continue
			}
			for _, cal := range p.SiteCallees(c) {
				if !isRepoFn(cal) {
					continue
				}
				checked++
				if w := mayWriteDurably(p, cal); w != "" {
					offenders = append(offenders, p.InstrPos(c)+" "+engine.RelName(cal)+": "+w)
				}
			}
		}
		r.Check(len(offenders) == 0 && checked > 0, "C09-R2", "AtomicSwitchToPreliminary|no unbatched durable write before WriteSync", p.Pos(asp.Pos()), fmt.Sprintf("%d other callees, none reaches a direct write", checked), "a durable write outside the batch happens before the batch is written: "+strings.Join(offenders, "; "))
	}
	// (b) plumbing of every Batch-taking repo function
	nb := 0
	for _, f := range p.AllFuncs() {
		if f.Blocks == nil {
			continue
		}
		idx := batchParamIdx(f)
		if idx < 0 || f.Synthetic != "" || strings.Contains(p.Pos(f.Pos()), "_test.go") || strings.Contains(p.Pos(f.Pos()), "test_utils") {
			continue
		}
		par := f.Params[idx]
		nb++
		// guards: nil test of the parameter, pass = nil side
		g := guardsWhere(f, func(cond ssa.Value) (bool, bool, string) {
			x, nonNilOnTrue, ok := engine.NilCheck(cond)
			if !ok || engine.Origin(x) != ssa.Value(par) {
				return false, false, ""
			}
			return true, !nonNilOnTrue, "batch == nil"
		})
		var bad []string
		for _, c := range engine.Calls(f) {
			onNilSide := len(g) > 0 && engine.OnlyThroughPass(f, c.Block(), g)
			if a := batchArgOf(c); a != nil && engine.Origin(a) != ssa.Value(par) && !onNilSide {
				bad = append(bad, p.InstrPos(c)+" passes "+engine.PathOf(a)+" instead of its own batch")
			}
			if w, ok := durableWrite(c); ok && !onNilSide {
				// a write on the parameter itself is the caller's business
				if c.Common().IsInvoke() && engine.Origin(c.Common().Value) == ssa.Value(par) {
					continue
				}
				bad = append(bad, p.InstrPos(c)+" "+w+" with a batch supplied")
			}
		}
		r.Check(len(bad) == 0, "C09-R2", engine.RelName(f)+"|with a batch supplied, writes go to that batch only", p.Pos(f.Pos()), "own parameter passed down; direct writes only on the batch==nil side", strings.Join(bad, "; "))
	}
	r.Floor("C09-R2", 7+3+nbFloor(nb), "batched calls, gate, plumbing")
}

func nbFloor(n int) int {
	if n >= 10 {
		return 10
	}
	return n
}

func calleeShort(c ssa.CallInstruction) string {
	if o := engine.CalleeObj(c.Common()); o != nil {
		id := engine.ObjID(o)
		if i := strings.LastIndex(id, "/"); i >= 0 {
			id = id[i+1:]
		}
		return id
	}
	return "?"
}

// uniq makes repeated keys distinct in source order (#2, #3 …) — stable under unrelated edits.
var uniqSeen = map[*engine.Report]map[string]int{}

func uniq(r *engine.Report, key string) string {
	m := uniqSeen[r]
	if m == nil {
		m = map[string]int{}
		uniqSeen[r] = m
	}
	m[key]++
	if m[key] == 1 {
		return key
	}
	return fmt.Sprintf("%s#%d", key, m[key])
}

// ---------------------------------------------------------------------------------------------

func c09R3(p *engine.Prog, r *engine.Report) {
	ab := mustFunc(p, r, "blockchain", "Blockchain.AddBlock")
	ib := mustFunc(p, r, "blockchain", "Blockchain.insertBlock")
	if ab == nil || ib == nil {
		return
	}
	get := func(f *ssa.Function, id string) *ssa.Call {
		for _, c := range callsTo(f, id) {
			if cc, ok := c.(*ssa.Call); ok {
				return cc
			}
		}
		return nil
	}
	vb, ct, ins := get(ab, "blockchain.Blockchain.ValidateBlock"), get(ab, "core/appstate.AppState.CommitTrees"), get(ab, "blockchain.Blockchain.insertBlock")
	ad := get(ab, "core/state.StateDB.AddDiff")
	if vb == nil || ct == nil || ins == nil || ad == nil {
		r.Und("C09-R3", "AddBlock|anchors", p.Pos(ab.Pos()), "ValidateBlock/AddDiff/CommitTrees/insertBlock not all found")
		return
	}
	gv := nilErrGuards(ab, vb)
	r.Check(len(gv) > 0 && engine.OnlyThroughPass(ab, ad.Block(), gv) && engine.OnlyThroughPass(ab, ct.Block(), gv), "C09-R3", "AddBlock|diffs applied and trees committed only behind ValidateBlock==nil", p.InstrPos(ct), "dominated", "an unvalidated block's diff reaches the canonical trees")
	rootGuard := func(stateRoot, blockRoot string) []engine.Guard {
		return guardsWhere(ab, func(cond ssa.Value) (bool, bool, string) {
			x, y, isEq, ok := eqCond(cond)
			if !ok {
				return false, false, ""
			}
			cx, okx := engine.Unwrap(x).(*ssa.Call)
			cy, oky := engine.Unwrap(y).(*ssa.Call)
			if !okx || !oky {
				return false, false, ""
			}
			if (engine.CallIs(cx, stateRoot) && engine.CallIs(cy, blockRoot)) || (engine.CallIs(cy, stateRoot) && engine.CallIs(cx, blockRoot)) {
				return true, isEq, "roots equal"
			}
			return false, false, ""
		})
	}
	gs := rootGuard("core/state.StateDB.Root", "blockchain/types.Block.Root")
	gi := rootGuard("core/state.IdentityStateDB.Root", "blockchain/types.Block.IdentityRoot")
	r.Check(len(gs) > 0 && engine.OnlyThroughPass(ab, ct.Block(), gs), "C09-R3", "AddBlock|CommitTrees only behind State.Root()==block.Root()", p.InstrPos(ct), "dominated", "a tree version is saved for a block whose state root it does not have: after a crash the head's root never matches")
	r.Check(len(gi) > 0 && engine.OnlyThroughPass(ab, ct.Block(), gi), "C09-R3", "AddBlock|CommitTrees only behind IdentityState.Root()==block.IdentityRoot()", p.InstrPos(ct), "dominated", "a tree version is saved for a block whose identity root it does not have")
	gc := nilErrGuards(ab, ct)
	r.Check(len(gc) > 0 && engine.OnlyThroughPass(ab, ins.Block(), gc), "C09-R3", "AddBlock|insertBlock only behind CommitTrees==nil", p.InstrPos(ins), "dominated", "the head can be written for a block whose trees were not saved")
	// refusals after AddDiff reset the working trees
	nRef, okRef := 0, true
	for _, ret := range engine.Returns(ab) {
		if retErrKind(ret) != "nonnil" || !engine.MustPassInstr(ab, ret, []ssa.Instruction{ad}) {
			continue
		}
		// refusals of insertBlock happen after the commit: nothing to roll back
		if engine.OnlyThroughPassRet(ab, ret, gc) {
			continue
		}
		nRef++
		rs := callsTo(ab, "core/appstate.AppState.Reset")
		var through []ssa.Instruction
		for _, c := range rs {
			through = append(through, c)
		}
		if !engine.MustPassInstr(ab, ret, through) {
			okRef = false
		}
	}
	r.Check(okRef && nRef >= 3, "C09-R3", "AddBlock|every refusal between AddDiff and the commit resets the working trees", p.Pos(ab.Pos()), fmt.Sprintf("%d refusals", nRef), "a refused block's diff stays in the working tree and is saved with the next block")
	// insertBlock: cannot fail after its first durable write
	writes := repoWriteCalls(p, ib)
	okFail := len(writes) > 0
	for _, ret := range engine.Returns(ib) {
		if retErrKind(ret) == "nil" {
			continue
		}
		for _, w := range writes {
			if reachesInstr(w, ret) {
				okFail = false
			}
		}
	}
	r.Check(okFail, "C09-R3", "insertBlock|cannot fail after its first durable write", p.Pos(ib.Pos()), fmt.Sprintf("%d repo writes, all after the last error return", len(writes)), "insertBlock reports failure with part of the block's records (possibly the head) already written")
	// head record last among header, canonical hash, head
	c09HeadOrder(p, r, ib)
	// in-memory head after the durable records
	okMem := false
	for _, c := range callsTo(ib, "blockchain.Blockchain.setCurrentHead") {
		okMem = true
		for _, w := range writes {
			if o := engine.CalleeObj(w.Common()); o != nil && (o.Name() == "insertHeader" || o.Name() == "WriteHead") && !engine.InstrDominates(w, c) {
				okMem = false
			}
		}
	}
	r.Check(okMem, "C09-R3", "insertBlock|in-memory head moves after the head record is written", p.Pos(ib.Pos()), "dominated", "the in-memory head is ahead of the stored one")
	r.Floor("C09-R3", 8, "validate, roots ×2, commit, refusals, no-late-failure, head order, memory head")
}

// repoWriteCalls lists calls in f to repo functions that (transitively) write durably, or direct writes.
func repoWriteCalls(p *engine.Prog, f *ssa.Function) []ssa.CallInstruction {
	var out []ssa.CallInstruction
	for _, c := range engine.Calls(f) {
		if _, ok := durableWrite(c); ok {
			out = append(out, c)
			continue
		}
		for _, cal := range p.SiteCallees(c) {
			if isRepoFn(cal) && strings.Contains(engine.FuncName(cal), "/database.Repo") || (isRepoFn(cal) && cal.Pkg == f.Pkg && mayWriteDurably(p, cal) != "") {
				if strings.Contains(engine.FuncName(cal), "/database.Repo") && !strings.HasPrefix(cal.Name(), "Write") && !strings.HasPrefix(cal.Name(), "Remove") && !strings.HasPrefix(cal.Name(), "Set") && !strings.HasPrefix(cal.Name(), "Save") && !strings.HasPrefix(cal.Name(), "Delete") {
					continue
				}
				out = append(out, c)
				break
			}
		}
	}
	return out
}

// reachesInstr: b is reachable from a along CFG edges (same function).
func reachesInstr(a, b ssa.Instruction) bool {
	if a.Block() == b.Block() {
		if engine.InstrIndex(a) < engine.InstrIndex(b) {
			return true
		}
	}
	seen := engine.ReachAvoiding(a.Parent(), a.Block(), nil, nil)
	if a.Block() == b.Block() {
		// through a cycle
		for _, s := range a.Block().Succs {
			if engine.ReachAvoiding(a.Parent(), s, nil, nil)[b.Block()] {
				return true
			}
		}
		return false
	}
	return seen[b.Block()]
}

// c09HeadOrder: the head record of a newly inserted block is written after the records a restarted node
// resolves through it (header by hash, canonical hash by height). Calls are collected through
// insertHeader (one level of same-package helpers).
func c09HeadOrder(p *engine.Prog, r *engine.Report, ib *ssa.Function) {
	type site struct {
		c    ssa.CallInstruction
		name string
	}
	// flatten: instructions of ib with helper bodies spliced in call order
	var seq []site
	var walk func(f *ssa.Function, depth int) bool
	walk = func(f *ssa.Function, depth int) bool {
		// only straight-line helpers are spliced (single block); otherwise record the call itself
		for _, b := range f.Blocks {
			for _, ins := range b.Instrs {
				c, ok := ins.(ssa.CallInstruction)
				if !ok {
					continue
				}
				o := engine.CalleeObj(c.Common())
				if o == nil {
					continue
				}
				id := engine.ObjID(o)
				if strings.Contains(id, "database.Repo.") {
					seq = append(seq, site{c, o.Name()})
					continue
				}
				if cal := c.Common().StaticCallee(); cal != nil && depth < 2 && cal.Pkg == ib.Pkg && len(cal.Blocks) == 1 {
					walk(cal, depth+1)
				}
			}
		}
		return true
	}
	// ib itself may branch; take calls in dominance order of ib's blocks, splicing single-block helpers
	var top []ssa.CallInstruction
	for _, c := range engine.Calls(ib) {
		top = append(top, c)
	}
	sort.SliceStable(top, func(i, j int) bool { return engine.InstrDominates(top[i], top[j]) && top[i] != top[j] })
	for _, c := range top {
		o := engine.CalleeObj(c.Common())
		if o == nil {
			continue
		}
		if strings.Contains(engine.ObjID(o), "database.Repo.") {
			seq = append(seq, site{c, o.Name()})
			continue
		}
		if cal := c.Common().StaticCallee(); cal != nil && cal.Pkg == ib.Pkg && len(cal.Blocks) == 1 {
			walk(cal, 1)
		}
	}
	idx := map[string]int{}
	for i, s := range seq {
		if _, ok := idx[s.name]; !ok {
			idx[s.name] = i
		}
	}
	h, okH := idx["WriteHead"]
	bh, okB := idx["WriteBlockHeader"]
	ch, okC := idx["WriteCanonicalHash"]
	if !okH || !okB || !okC {
		r.Und("C09-R3", "insertBlock|head record written after header and canonical hash", p.Pos(ib.Pos()), fmt.Sprintf("WriteHead=%v WriteBlockHeader=%v WriteCanonicalHash=%v found", okH, okB, okC))
		return
	}
	var names []string
	for _, s := range seq {
		names = append(names, s.name)
	}
	pos := p.Pos(ib.Pos())
	if okH {
		pos = p.InstrPos(seq[h].c)
	}
	r.Check(bh < h && ch < h, "C09-R3", "insertBlock|head record written after header and canonical hash", pos, strings.Join(names, " > "), "the head record is written before the canonical hash (order: "+strings.Join(names, " > ")+"): a crash in between leaves a head whose height has no canonical hash — GetBlockHeaderByHeight/GetBlockByHeight(head) stay nil forever on the restarted node (fork resolution, contract block-header reads and block serving differ from a node that never crashed)")
}

// ---------------------------------------------------------------------------------------------

func c09R4(p *engine.Prog, r *engine.Report) {
	ei := mustFunc(p, r, "blockchain", "Blockchain.EnsureIntegrity")
	rt := mustFunc(p, r, "blockchain", "Blockchain.ResetTo")
	art := mustFunc(p, r, "core/appstate", "AppState.ResetTo")
	if ei == nil || rt == nil || art == nil {
		return
	}
	maxSaved := constInt(p, "core/state", "MaxSavedStatesCount")
	neqGuard := func(f *ssa.Function, a, b string) []engine.Guard {
		return guardsWhere(f, func(cond ssa.Value) (bool, bool, string) {
			x, y, isEq, ok := eqCond(cond)
			if !ok {
				return false, false, ""
			}
			cx, okx := engine.Unwrap(x).(*ssa.Call)
			cy, oky := engine.Unwrap(y).(*ssa.Call)
			if !okx || !oky {
				return false, false, ""
			}
			if (engine.CallIs(cx, a) && engine.CallIs(cy, b)) || (engine.CallIs(cy, a) && engine.CallIs(cx, b)) {
				return true, isEq, "equal"
			}
			return false, false, ""
		})
	}
	gs := neqGuard(ei, "blockchain/types.Header.Root", "core/state.StateDB.Root")
	gi := neqGuard(ei, "blockchain/types.Header.IdentityRoot", "core/state.IdentityStateDB.Root")
	ok := len(gs) > 0 && len(gi) > 0
	for _, ret := range successReturns(ei) {
		if !engine.OnlyThroughPassRet(ei, ret, gs) || !engine.OnlyThroughPassRet(ei, ret, gi) {
			ok = false
		}
	}
	r.Check(ok, "C09-R4", "EnsureIntegrity|success only with both head roots equal to the loaded trees", p.Pos(ei.Pos()), "Head.Root()==State.Root() and Head.IdentityRoot()==IdentityState.Root()", "start-up accepts a head whose state or identity root differs from the loaded tree")
	// reset target
	var rc *ssa.Call
	for _, c := range callsTo(ei, "blockchain.Blockchain.ResetTo") {
		rc, _ = c.(*ssa.Call)
	}
	if rc == nil {
		r.Bad("C09-R4", "EnsureIntegrity|repairs through ResetTo", p.Pos(ei.Pos()), "no ResetTo call")
	} else {
		target := rc.Call.Args[1]
		okT, okZ := true, false
		var cands []ssa.Value
		// the function that searches: EnsureIntegrity itself, or a same-package helper whose result is the target
		searchFn := ei
		hasVersionBehind := func(f *ssa.Function, at *ssa.BasicBlock, ret *ssa.Return, e ssa.Value) bool {
			for _, spec := range []struct{ id string }{{"core/state.StateDB.HasVersion"}, {"core/state.IdentityStateDB.HasVersion"}} {
				g := guardsWhere(f, func(cond ssa.Value) (bool, bool, string) {
					c, neg := stripNot(cond)
					cc, isCall := engine.Unwrap(c).(*ssa.Call)
					if !isCall || !engine.CallIs(cc, spec.id) || cc.Call.Args[1] != e {
						return false, false, ""
					}
					return true, !neg, "HasVersion"
				})
				if len(g) == 0 {
					return false
				}
				if ret != nil {
					if !engine.OnlyThroughPassRet(f, ret, g) {
						return false
					}
				} else if !engine.OnlyThroughPass(f, at, g) {
					return false
				}
			}
			return true
		}
		if ph, isPhi := target.(*ssa.Phi); isPhi {
			for i, e := range ph.Edges {
				if v, isC := engine.ConstInt(e); isC && v == 0 {
					continue
				}
				cands = append(cands, e)
				if !hasVersionBehind(ei, ph.Block().Preds[i], nil, e) {
					okT = false
				}
			}
		} else if hc, isCall := target.(*ssa.Call); isCall && hc.Call.StaticCallee() != nil && hc.Call.StaticCallee().Pkg == ei.Pkg && hc.Call.StaticCallee().Blocks != nil {
			searchFn = hc.Call.StaticCallee()
			r.Fn(engine.FuncName(searchFn))
			for _, ret := range engine.Returns(searchFn) {
				if len(ret.Results) != 1 {
					okT = false
					continue
				}
				e := ret.Results[0]
				if v, isC := engine.ConstInt(e); isC && v == 0 {
					continue
				}
				cands = append(cands, e)
				if !hasVersionBehind(searchFn, nil, ret, e) {
					okT = false
				}
			}
		} else {
			okT = false
		}
		// zero target refused
		gz := guardsWhere(ei, func(cond ssa.Value) (bool, bool, string) {
			x, y, isEq, ok := eqCond(cond)
			if !ok {
				return false, false, ""
			}
			if v, isC := engine.ConstInt(y); isC && v == 0 && x == target {
				return true, !isEq, "target != 0"
			}
			return false, false, ""
		})
		okZ = len(gz) > 0 && engine.OnlyThroughPass(ei, rc.Block(), gz)
		r.Check(okT && len(cands) > 0, "C09-R4", "EnsureIntegrity|reset target only if both trees have that version", p.InstrPos(rc), "State.HasVersion(h) && IdentityState.HasVersion(h) on the chosen h", "the repair resets to a height one of the trees cannot load")
		r.Check(okZ, "C09-R4", "EnsureIntegrity|no retained version found is an error, not a reset to 0", p.InstrPos(rc), "target != 0 gate", "the repair calls ResetTo(0) when no common retained version exists")
		// search window
		okW, win := false, int64(0)
		for _, i := range engine.Ifs(searchFn) {
			if b, isB := i.Cond.(*ssa.BinOp); isB && b.Op == token.LSS {
				if k, isC := engine.ConstInt(b.Y); isC && engine.LoopHeaderOf(i.Block()) != nil {
					win = k
					okW = k >= maxSaved
				}
			}
		}
		r.Check(okW && maxSaved > 0, "C09-R4", "EnsureIntegrity|search window covers the retained versions", p.Pos(ei.Pos()), fmt.Sprintf("window %d >= MaxSavedStatesCount %d", win, maxSaved), fmt.Sprintf("the downward search stops after %d heights although %d versions are retained: a recoverable database is declared corrupted", win, maxSaved))
		g := nilErrGuards(ei, rc)
		okE := len(g) > 0
		for _, ret := range successReturns(ei) {
			_ = ret
		}
		for _, b := range ei.Blocks {
			// the loop continues (back edge from the ResetTo block) only on success
			_ = b
		}
		if len(g) > 0 {
			for _, s := range rc.Block().Succs {
				_ = s
			}
			fe := g[0].FailEdge()
			last := fe.From.Succs[fe.Succ]
			okE = false
			if len(last.Instrs) > 0 {
				if ret, isR := last.Instrs[len(last.Instrs)-1].(*ssa.Return); isR && retErrKind(ret) == "nonnil" {
					okE = true
				}
			}
		}
		r.Check(okE, "C09-R4", "EnsureIntegrity|a failed reset is reported", p.InstrPos(rc), "returns the error", "a failed ResetTo is ignored and start-up continues")
	}
	// versions above the head are dropped before start-up succeeds
	{
		aboveHead := func(v ssa.Value) bool {
			sl := engine.BackSlice(v, engine.DefaultSlice)
			hasH, hasAdd := false, false
			for x := range sl {
				if c, ok := x.(*ssa.Call); ok && engine.CallIs(c, "blockchain/types.Header.Height") {
					if _, isHead := loadOfField(c.Call.Args[0], "Blockchain", "Head"); isHead {
						hasH = true
					}
				}
				if b, ok := x.(*ssa.BinOp); ok && b.Op == token.ADD {
					if k, isC := engine.ConstInt(b.Y); isC && k == 1 {
						hasAdd = true
					}
				}
			}
			return hasH && hasAdd
		}
		var resetGuards []engine.Guard
		for _, c := range callsTo(ei, "core/appstate.AppState.ResetTo") {
			cc, ok := c.(*ssa.Call)
			if !ok {
				continue
			}
			if hc, isH := engine.Unwrap(cc.Call.Args[1]).(*ssa.Call); isH && engine.CallIs(hc, "blockchain/types.Header.Height") {
				if _, isHead := loadOfField(hc.Call.Args[0], "Blockchain", "Head"); isHead {
					resetGuards = append(resetGuards, nilErrGuards(ei, cc)...)
				}
			}
		}
		for _, spec := range []struct{ id, typ string }{{"core/state.StateDB.HasVersion", "StateDB"}, {"core/state.IdentityStateDB.HasVersion", "IdentityStateDB"}} {
			g := guardsWhere(ei, func(cond ssa.Value) (bool, bool, string) {
				c, neg := stripNot(cond)
				cc, isCall := engine.Unwrap(c).(*ssa.Call)
				if !isCall || !engine.CallIs(cc, spec.id) || !aboveHead(cc.Call.Args[1]) {
					return false, false, ""
				}
				return true, neg, "no version above head"
			})
			okA := len(g) > 0
			all := append(append([]engine.Guard{}, g...), resetGuards...)
			for _, ret := range successReturns(ei) {
				if !engine.OnlyThroughPassRet(ei, ret, all) {
					okA = false
				}
			}
			r.Check(okA, "C09-R4", "EnsureIntegrity|success only with no "+spec.typ+" version above the head (or after dropping it)", p.Pos(ei.Pos()), "!HasVersion(Head.Height()+1) or AppState.ResetTo(Head.Height())==nil", "a tree version above the head (left by a process that died between CommitTrees and the head write) survives start-up: saving any other block at that height fails with 'version was already saved to different hash'")
		}
	}
	// Blockchain.ResetTo
	var ar *ssa.Call
	for _, c := range callsTo(rt, "core/appstate.AppState.ResetTo") {
		ar, _ = c.(*ssa.Call)
	}
	if ar == nil {
		r.Bad("C09-R4", "ResetTo|state reset", p.Pos(rt.Pos()), "AppState.ResetTo not called")
	} else {
		g := nilErrGuards(rt, ar)
		sh := callsTo(rt, "blockchain.Blockchain.setHead")
		ok := len(g) > 0 && len(sh) > 0
		for _, c := range sh {
			if !engine.OnlyThroughPass(rt, c.Block(), g) {
				ok = false
			}
		}
		r.Check(ok, "C09-R4", "ResetTo|head moves only behind AppState.ResetTo==nil", p.InstrPos(ar), "dominated", "the head record is moved before (or although) the state trees could not be reset: a failed reset leaves a head without matching trees")
		okRm, nRm := true, 0
		for _, c := range callsTo(rt, "database.Repo.RemoveHeader", "database.Repo.RemoveCanonicalHash") {
			nRm++
			dom := false
			for _, s := range sh {
				if engine.InstrDominates(s, c) {
					dom = true
				}
			}
			if !dom {
				okRm = false
			}
		}
		r.Check(okRm && nRm >= 2, "C09-R4", "ResetTo|abandoned headers removed only after the head moved", p.Pos(rt.Pos()), fmt.Sprintf("%d removals after setHead", nRm), "headers or canonical hashes are removed while the head record still points above them")
	}
	// AppState.ResetTo: both trees, errors propagated, overwriting loader
	for _, spec := range []struct{ typ string }{{"StateDB"}, {"IdentityStateDB"}} {
		var c *ssa.Call
		for _, x := range callsTo(art, "core/state."+spec.typ+".ResetTo") {
			c, _ = x.(*ssa.Call)
		}
		ok := c != nil
		if ok {
			g := nilErrGuards(art, c)
			ok = len(g) > 0
			for _, ret := range successReturns(art) {
				if !engine.OnlyThroughPassRet(art, ret, g) {
					ok = false
				}
			}
		}
		r.Check(ok, "C09-R4", "AppState.ResetTo|"+spec.typ+" reset and its error propagated", p.Pos(art.Pos()), "success only behind nil", "a tree that could not be reset is reported as reset")
		if f := mustFunc(p, r, "core/state", spec.typ+".ResetTo"); f != nil {
			// on every path that reports success
			var ows []ssa.Instruction
			for _, cc := range engine.Calls(f) {
				if engine.CallNameIs(cc, "LoadVersionForOverwriting") {
					ows = append(ows, cc)
				}
			}
			ow := len(ows) > 0
			for _, ret := range successReturns(f) {
				if !engine.MustPassInstr(f, ret, ows) {
					ow = false
				}
			}
			r.Check(ow, "C09-R4", spec.typ+".ResetTo|uses the overwriting loader", p.Pos(f.Pos()), "LoadVersionForOverwriting on every success path", "some successful reset keeps the abandoned versions above the target on disk: saving a different block at those heights fails")
		}
		// retention
		if f := mustFunc(p, r, "core/state", spec.typ+".CommitTree"); f != nil {
			c09Retention(p, r, f, spec.typ, maxSaved)
		}
	}
	r.Floor("C09-R4", 17, "EnsureIntegrity ×5, ResetTo ×2, AppState.ResetTo ×2, loaders ×2, retention ×2")
}

// c09Retention: DeleteVersion(versions[i]) only for i < len(versions) - MaxSavedStatesCount.
func c09Retention(p *engine.Prog, r *engine.Report, f *ssa.Function, typ string, maxSaved int64) {
	var del ssa.CallInstruction
	for _, c := range engine.Calls(f) {
		if engine.CallNameIs(c, "DeleteVersion") {
			del = c
		}
	}
	// the save's error reaches the caller: pruning (which assigns the same error variable) only after a successful save
	{
		var sv *ssa.Call
		for _, c := range engine.Calls(f) {
			if cc, ok := c.(*ssa.Call); ok && engine.CallNameIs(cc, "SaveVersionAt") {
				sv = cc
			}
		}
		k2 := typ + ".CommitTree|a failed save is reported (pruning only after SaveVersionAt()==nil)"
		if sv == nil {
			r.Bad("C09-R4", k2, p.Pos(f.Pos()), "SaveVersionAt not called")
		} else if del == nil {
			r.OK("C09-R4", k2, p.InstrPos(sv), "no pruning")
		} else {
			g := nilErrGuards(f, sv)
			r.Check(len(g) > 0 && engine.OnlyThroughPass(f, del.Block(), g), "C09-R4", k2, p.InstrPos(sv), "DeleteVersion behind err == nil", "pruning runs after a failed SaveVersionAt and its result overwrites the error: a block is inserted over a tree version with different content")
		}
	}
	key := typ + ".CommitTree|deletes only versions older than the MaxSavedStatesCount newest"
	if del == nil {
		r.OK("C09-R4", key, p.Pos(f.Pos()), "no version is deleted")
		return
	}
	hdr := engine.LoopHeaderOf(del.Block())
	ok := hdr != nil
	detail := ""
	if ok {
		ok = false
		// loop condition: i < len(versions) - K
		if iff, isIf := hdr.Instrs[len(hdr.Instrs)-1].(*ssa.If); isIf {
			if b, isB := iff.Cond.(*ssa.BinOp); isB && b.Op == token.LSS {
				if sub, isS := b.Y.(*ssa.BinOp); isS && sub.Op == token.SUB {
					k, isC := engine.ConstInt(sub.Y)
					_, isLen := sub.X.(*ssa.Call) // len(versions)
					detail = fmt.Sprintf("i < len(versions) - %d", k)
					// the deleted version is versions[i] with i the loop variable
					idxOK := false
					sl := engine.BackSlice(del.Common().Args[len(del.Common().Args)-1], engine.DefaultSlice)
					for v := range sl {
						if ia, isIA := v.(*ssa.IndexAddr); isIA && ia.Index == b.X {
							idxOK = true
						}
					}
					ok = isC && isLen && k == maxSaved && idxOK
				}
			}
		}
	}
	r.Check(ok, "C09-R4", key, p.InstrPos(del), detail, "the retention loop does not keep the MaxSavedStatesCount ("+fmt.Sprint(maxSaved)+") newest versions ("+detail+"): EnsureIntegrity's fallback heights may be gone")
}

func isRepoFn(f *ssa.Function) bool {
	pk := engine.FuncPkg(f)
	return pk != nil && engine.IsRepoPkg(pk)
}
