package props

import (
	"golang.org/x/tools/go/ssa"

	"idenaverif/internal/engine"
)

// runDeterminism is analysis A (DESIGN §2.A): nondeterminism sources, host-zone dependence
// and unordered iteration over the reach set of the entries.
func runDeterminism(p *engine.Prog, r *engine.Report, rule string, entries []*ssa.Function, floor int) {
	detAnalyse(p, r, rule, entries, floor)
}
