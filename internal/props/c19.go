package props

import (
	"fmt"
	"go/ast"
	"go/token"
	"go/types"
	"golang.org/x/tools/go/packages"
	"strings"

	"golang.org/x/tools/go/ssa"

	"idenaverif/internal/engine"
)

func init() { register("C19", C19) }

// C19 — with an API key configured, no request without it reaches any method.
func C19(p *engine.Prog, r *engine.Report) {
	r.Explanation = "Static must-pass-through on package rpc: (R1) every dispatch sink (reflect.Value.Call, notifier.unsubscribe/activate, createSubscription) is reachable only behind the req.err==nil edge of Server.handle; (R2) handle is fed only by exec/execBatch with the requests returned by readRequest; (R3) every dispatchable serverRequest literal of readRequest is unreachable once the pass edges of the key gate (apiKey==\"\" / r.key==apiKey, exact string comparison on the current batch element) are cut, the fail edge stores an *invalidApiKeyError for that element only and continues the loop; (R4) every rpcRequest literal takes key from the Key of the jsonRequest element it is built from; (R5) Server.apiKey is written only by NewServer and request headers are read only by readRequest<-serveRequest<-ServeCodec/ServeSingleRequest. Decides the gate's shape on all paths; does not decide encoding/json or reflect semantics."
	r.Assumptions = []string{
		"encoding/json maps the request member \"key\" to jsonRequest.Key only (struct tag checked)",
		"reflect.Value.Call invokes only what the callback registry holds",
		"files excluded by build constraints (ipc_windows.go, ipc_js.go) are scanned syntactically for gated identifiers",
	}
	const pkg = "rpc"
	fns := funcsOfPkg(p, pkg)
	if len(fns) == 0 {
		r.Errorf("package rpc has no functions")
		return
	}
	handle := mustFunc(p, r, pkg, "Server.handle")
	readReq := mustFunc(p, r, pkg, "Server.readRequest")
	exec := mustFunc(p, r, pkg, "Server.exec")
	execBatch := mustFunc(p, r, pkg, "Server.execBatch")
	serveReq := mustFunc(p, r, pkg, "Server.serveRequest")
	createSub := mustFunc(p, r, pkg, "Server.createSubscription")
	newServer := mustFunc(p, r, pkg, "NewServer")
	if handle == nil || readReq == nil || exec == nil || execBatch == nil || serveReq == nil || createSub == nil || newServer == nil {
		return
	}

	// ---------------- R1: dispatch sinks
	errGuard := func(fn *ssa.Function, reqParam ssa.Value) []engine.Guard {
		return guardsWhere(fn, func(cond ssa.Value) (bool, bool, string) {
			x, nonNilOnTrue, ok := engine.NilCheck(cond)
			if !ok {
				return false, false, ""
			}
			base, isErr := loadOfField(x, "serverRequest", "err")
			if !isErr || engine.Origin(base) != reqParam {
				return false, false, ""
			}
			// pass edge = err is nil
			return true, !nonNilOnTrue, "req.err == nil"
		})
	}
	isSink := func(c ssa.CallInstruction) string {
		switch engine.CallID(c) {
		case "reflect.Value.Call", "reflect.Value.CallSlice":
			return "reflect.Value.Call"
		case "rpc.Notifier.unsubscribe":
			return "Notifier.unsubscribe"
		case "rpc.Notifier.activate":
			return "Notifier.activate"
		case "rpc.Server.createSubscription":
			return "Server.createSubscription"
		}
		return ""
	}
	var handleReq ssa.Value
	if len(handle.Params) == 4 {
		handleReq = handle.Params[3]
	} else {
		r.Errorf("Server.handle signature changed (%d params)", len(handle.Params))
		return
	}
	hg := errGuard(handle, handleReq)
	for _, f := range fns {
		if strings.HasSuffix(p.Fset.Position(f.Pos()).Filename, "client.go") {
			// client side has no server dispatch; still scanned for reflect calls below
		}
		for _, c := range engine.Calls(f) {
			sink := isSink(c)
			if sink == "" {
				continue
			}
			top := topParent(f)
			key := engine.RelName(f) + "|" + sink
			pos := p.InstrPos(c)
			switch {
			case top == handle && f == handle:
				ok := engine.OnlyThroughPass(handle, c.Block(), hg)
				r.Check(ok, "C19-R1", key, pos, "dominated by the req.err==nil edge", "dispatch sink reachable in handle without passing the req.err==nil edge")
			case top == handle:
				// closure of handle (activateSub): the closure must be created behind the gate
				ok := false
				for _, b := range handle.Blocks {
					for _, in := range b.Instrs {
						if mc, isMC := in.(*ssa.MakeClosure); isMC && mc.Fn == f {
							ok = engine.OnlyThroughPass(handle, b, hg)
						}
					}
				}
				r.Check(ok, "C19-R1", key, pos, "closure created behind the req.err==nil edge", "closure with dispatch sink created without passing the req.err==nil edge")
			case f == createSub:
				// createSubscription: all its callers must be gated sites in handle (checked as sinks above)
				callers := callerNames(p, createSub)
				ok := len(callers) == 1 && callers["rpc.Server.handle"]
				r.Check(ok, "C19-R1", key, pos, "only caller is handle (gated there)", "createSubscription has callers other than handle: "+joinKeys(callers))
			case sink == "reflect.Value.Call" && strings.HasSuffix(p.Fset.Position(f.Pos()).Filename, "/rpc/client.go"):
				r.Note("C19-R1", key, pos, "client-side reflect call (not a server dispatch)")
			default:
				r.Bad("C19-R1", key, pos, "dispatch sink outside Server.handle/createSubscription")
			}
		}
	}
	r.Floor("C19-R1", 5, "read: 2 reflect calls + unsubscribe + activate + createSubscription call")

	// ---------------- R2: who feeds handle
	callers := callerNames(p, handle)
	okCallers := true
	for c := range callers {
		if c != "rpc.Server.exec" && c != "rpc.Server.execBatch" {
			okCallers = false
		}
	}
	r.Check(okCallers && len(callers) == 2, "C19-R2", "callers(Server.handle)", p.Pos(handle.Pos()), "exec, execBatch", "handle is called from "+joinKeys(callers))
	sliceOpts := engine.DefaultSlice
	sliceOpts.ParamArgs = p.ParamArgs
	for _, ex := range []*ssa.Function{exec, execBatch} {
		for _, e := range p.Callers(ex) {
			if e.Site == nil {
				continue
			}
			caller := e.Caller.Func
			key := engine.RelName(caller) + "|" + engine.RelName(ex)
			if topParent(caller) != serveReq {
				r.Bad("C19-R2", key, p.InstrPos(e.Site), "exec/execBatch called outside serveRequest")
				continue
			}
			args := e.Site.Common().Args
			reqArg := args[len(args)-1]
			sl := engine.BackSlice(reqArg, sliceOpts)
			c := engine.SliceHasCall(sl, "rpc.Server.readRequest")
			r.Check(c != nil, "C19-R2", key, p.InstrPos(e.Site), "request argument is the result of s.readRequest(codec)", "request argument does not come from readRequest")
		}
	}
	// requests passed to handle inside exec/execBatch come from their parameter
	for _, ex := range []*ssa.Function{exec, execBatch} {
		for _, c := range callsTo(ex, "rpc.Server.handle") {
			args := c.Common().Args
			sl := engine.BackSlice(args[len(args)-1], engine.DefaultSlice)
			ok := sl[ex.Params[len(ex.Params)-1]]
			r.Check(ok, "C19-R2", engine.RelName(ex)+"|arg(handle)", p.InstrPos(c), "handle receives the function's own request parameter", "handle receives a request not derived from the parameter")
		}
	}
	r.Floor("C19-R2", 7, "read: callers + 4 exec sites + 2 handle sites")

	// ---------------- R3: the key gate in readRequest
	var recv ssa.Value = readReq.Params[0]
	type keyCmp struct {
		g       engine.Guard
		keyBase ssa.Value
	}
	var g1, g2 []engine.Guard
	var cmps []keyCmp
	for _, i := range engine.Ifs(readReq) {
		x, y, isEq, ok := eqCond(i.Cond)
		if !ok {
			continue
		}
		for _, pr := range [][2]ssa.Value{{x, y}, {y, x}} {
			base, isKey := loadOfField(pr[0], "Server", "apiKey")
			if !isKey || engine.Origin(base) != recv {
				continue
			}
			if isConstString(pr[1], "") {
				g1 = append(g1, engine.Guard{If: i, PassTrue: isEq, Note: "apiKey == \"\""})
			} else if kb, isReqKey := loadOfField(pr[1], "rpcRequest", "key"); isReqKey {
				g := engine.Guard{If: i, PassTrue: isEq, Note: "r.key == apiKey"}
				g2 = append(g2, g)
				cmps = append(cmps, keyCmp{g, kb})
			}
		}
	}
	// the same gate behind a boolean helper: if s.keyMismatch(r.key) {…}
	for _, i := range engine.Ifs(readReq) {
		c, neg := stripNot(i.Cond)
		call, ok := c.(*ssa.Call)
		if !ok || call.Call.StaticCallee() == nil || len(call.Call.Args) < 2 || engine.Origin(call.Call.Args[0]) != recv {
			continue
		}
		if j, isPred := keyMismatchPredicate(call.Call.StaticCallee()); isPred && j < len(call.Call.Args) {
			if kb, isReqKey := loadOfField(call.Call.Args[j], "rpcRequest", "key"); isReqKey {
				// pass edge: the predicate is false
				g := engine.Guard{If: i, PassTrue: neg, Note: "!" + call.Call.StaticCallee().Name() + "(r.key)"}
				g1 = append(g1, g)
				g2 = append(g2, g)
				cmps = append(cmps, keyCmp{g, kb})
			}
		}
	}
	r.Check(len(g1) >= 1, "C19-R3", "readRequest|gate(apiKey configured)", p.Pos(readReq.Pos()), "found", "no comparison of s.apiKey with \"\"")
	r.Check(len(g2) == 1, "C19-R3", "readRequest|gate(r.key == s.apiKey)", p.Pos(readReq.Pos()), "exact == / != comparison of the two strings", "need exactly one exact string comparison of an rpcRequest.key with s.apiKey")
	gates := append(append([]engine.Guard{}, g1...), g2...)

	// index value of the element whose key is compared
	var keyIdx ssa.Value
	if len(cmps) == 1 {
		sl := engine.BackSlice(cmps[0].keyBase, engine.DefaultSlice)
		for v := range sl {
			if ia, ok := v.(*ssa.IndexAddr); ok {
				if n := engine.NamedOf(ia.Type()); n != nil && n.Obj().Name() == "rpcRequest" {
					if keyIdx != nil && keyIdx != ia.Index {
						keyIdx = nil
						break
					}
					keyIdx = ia.Index
				}
			}
		}
		// the compared element must come from ReadRequestHeaders
		hdr := false
		for v := range sl {
			if c, ok := v.(*ssa.Call); ok && c.Call.IsInvoke() && c.Call.Method.Name() == "ReadRequestHeaders" {
				hdr = true
			}
		}
		r.Check(hdr && keyIdx != nil, "C19-R3", "readRequest|compared element", p.InstrPos(cmps[0].g.If), "key of reqs[i] from codec.ReadRequestHeaders", "compared key is not the key of an element of the parsed request list")
	}

	nDisp, nCarrier := 0, 0
	for _, a := range allocsOf(readReq, "serverRequest") {
		st := fieldStoresOn(a)
		initErr := false
		if s, ok := st["err"]; ok && s.Block() == a.Block() {
			initErr = true
		}
		kind := "plain"
		if _, ok := st["callb"]; ok {
			kind = "callb"
		}
		if _, ok := st["isUnsubscribe"]; ok {
			kind = "isUnsubscribe"
		}
		if initErr && kind == "plain" {
			nCarrier++
			continue
		}
		nDisp++
		key := "readRequest|dispatchable literal " + kind
		ok := len(gates) > 0 && engine.OnlyThroughPass(readReq, a.Block(), gates)
		r.Check(ok, "C19-R3", key, p.InstrPos(a), "unreachable once the key-gate pass edges are cut", "dispatchable serverRequest reachable without passing the API-key gate")
		// same element: stored into requests[idx] with idx == index of the compared element
		if keyIdx != nil {
			same := false
			for _, ref := range *a.Referrers() {
				if s, isS := ref.(*ssa.Store); isS && s.Val == ssa.Value(a) {
					if ia, isIA := s.Addr.(*ssa.IndexAddr); isIA && ia.Index == keyIdx {
						same = true
					}
				}
			}
			r.Check(same, "C19-R3", key+" index", p.InstrPos(a), "stored at the index whose key was compared", "request stored at an index other than the one whose key was compared")
		}
	}
	r.Check(nCarrier >= 2, "C19-R3", "readRequest|error carriers", p.Pos(readReq.Pos()), "error-carrying literals present", "expected error-carrying serverRequest literals")
	// fail edge: stores an *invalidApiKeyError for this element and continues the loop
	if len(g2) == 1 {
		fe := g2[0].FailEdge()
		fb := fe.From.Succs[fe.Succ]
		okErr := false
		for _, in := range fb.Instrs {
			if mi, ok := in.(*ssa.MakeInterface); ok {
				if n := engine.NamedOf(mi.X.Type()); n != nil && n.Obj().Name() == "invalidApiKeyError" {
					for _, ref := range *mi.Referrers() {
						if s, isS := ref.(*ssa.Store); isS {
							if _, isErr := fieldAddrOf(s.Addr, "serverRequest", "err"); isErr {
								okErr = true
							}
						}
					}
				}
			}
		}
		r.Check(okErr, "C19-R3", "readRequest|fail edge error", p.InstrPos(g2[0].If), "fail edge stores &invalidApiKeyError{} as the request error", "fail edge of the key gate does not store an invalidApiKeyError")
		// continues the loop: no return reachable from the fail block without the loop header
		hdr := engine.LoopHeaderOf(fb)
		okLoop := hdr != nil
		if hdr != nil {
			reach := engine.ReachAvoiding(readReq, fb, nil, map[*ssa.BasicBlock]bool{hdr: true})
			for b := range reach {
				if len(b.Instrs) > 0 {
					if _, isRet := b.Instrs[len(b.Instrs)-1].(*ssa.Return); isRet {
						okLoop = false
					}
				}
			}
		}
		r.Check(okLoop, "C19-R3", "readRequest|fail edge continues", p.InstrPos(g2[0].If), "a bad key marks this element only; the loop goes on", "a bad key aborts the batch (requests carrying the key are not served)")
	}
	r.Floor("C19-R3", 8, "read: 2 gates + 3 dispatchable literals (+index) + fail edge")

	// serverRequest allocations elsewhere
	for _, f := range fns {
		if f == readReq {
			continue
		}
		for _, a := range allocsOf(f, "serverRequest") {
			r.Bad("C19-R3", engine.RelName(f)+"|serverRequest literal", p.InstrPos(a), "serverRequest constructed outside readRequest")
		}
	}

	// ---------------- R4: rpcRequest literals take their key from their own jsonRequest
	pk := repoPkg(p, r, pkg)
	if pk == nil {
		return
	}
	nLit := 0
	for _, file := range pk.Syntax {
		withStack(file, func(n ast.Node, stack []ast.Node) bool {
			cl, ok := n.(*ast.CompositeLit)
			if !ok {
				return true
			}
			tv, ok := pk.TypesInfo.Types[cl]
			if !ok {
				return true
			}
			nt, ok := tv.Type.(*types.Named)
			if !ok || nt.Obj().Name() != "rpcRequest" {
				return true
			}
			nLit++
			fname := enclosingFuncName(stack)
			var keyObj types.Object
			others := map[types.Object]bool{}
			hasErr := false
			fieldsDesc := []string{}
			for _, el := range cl.Elts {
				kv, ok := el.(*ast.KeyValueExpr)
				if !ok {
					continue
				}
				kname := ""
				if id, ok := kv.Key.(*ast.Ident); ok {
					kname = id.Name
				}
				fieldsDesc = append(fieldsDesc, kname)
				if kname == "err" {
					hasErr = true
				}
				if kname == "key" {
					val := kv.Value
					// a local that is defined once as <jsonRequest>.Key and never assigned again
					if id, ok := val.(*ast.Ident); ok {
						if def := singleDefOf(pk, stack, id); def != nil {
							val = def
						}
					}
					if sel, ok := val.(*ast.SelectorExpr); ok && sel.Sel.Name == "Key" {
						if id, ok := sel.X.(*ast.Ident); ok {
							if t := pk.TypesInfo.TypeOf(id); t != nil {
								if nn := engine.NamedOf(t); nn != nil && nn.Obj().Name() == "jsonRequest" {
									keyObj = pk.TypesInfo.Uses[id]
								}
							}
						}
					}
					continue
				}
				ast.Inspect(kv.Value, func(m ast.Node) bool {
					if id, ok := m.(*ast.Ident); ok {
						if o := pk.TypesInfo.Uses[id]; o != nil {
							if nn := engine.NamedOf(o.Type()); nn != nil && nn.Obj().Name() == "jsonRequest" {
								if _, isVar := o.(*types.Var); isVar {
									others[o] = true
								}
							}
						}
					}
					return true
				})
			}
			key := fname + "|rpcRequest{" + strings.Join(fieldsDesc, ",") + "}"
			pos := p.Pos(cl.Pos())
			if hasErr && keyObj == nil {
				r.OK("C19-R4", key, pos, "error-carrying request")
				return true
			}
			if keyObj == nil {
				r.Bad("C19-R4", key, pos, "rpcRequest literal does not take key from <jsonRequest>.Key")
				return true
			}
			for o := range others {
				if o != keyObj {
					r.Bad("C19-R4", key, pos, "key is read from "+keyObj.Name()+" but other fields from "+o.Name())
					return true
				}
			}
			// batch: if keyObj is a range value variable, the literal must be stored at the range key index
			okIdx, detail := true, "key from the parsed request "+keyObj.Name()
			for i := len(stack) - 1; i >= 0; i-- {
				rs, ok := stack[i].(*ast.RangeStmt)
				if !ok {
					continue
				}
				vid, ok := rs.Value.(*ast.Ident)
				if !ok || pk.TypesInfo.Defs[vid] != keyObj {
					continue
				}
				kid, _ := rs.Key.(*ast.Ident)
				okIdx = false
				if as, ok := stack[len(stack)-1].(*ast.AssignStmt); ok && len(as.Lhs) == 1 && kid != nil {
					if ix, ok := as.Lhs[0].(*ast.IndexExpr); ok {
						if iid, ok := ix.Index.(*ast.Ident); ok && pk.TypesInfo.Uses[iid] == pk.TypesInfo.Defs[kid] {
							okIdx = true
							detail = "key from range element " + keyObj.Name() + ", stored at its own index " + kid.Name
						}
					}
				}
				break
			}
			r.Check(okIdx, "C19-R4", key, pos, detail, "batch element's key is not stored at the element's own index")
			return true
		})
	}
	r.Floor("C19-R4", 8, "counted: 8 rpcRequest literals in json.go")
	// the header a key is read from is fresh per message: json.Unmarshal leaves members that are absent from
	// the message untouched, so a decode target that outlives the message would hand the previous
	// request's key to a key-less one
	{
		n := 0
		for _, f := range fns {
			for _, b := range f.Blocks {
				for _, ins := range b.Instrs {
					fa, ok := ins.(*ssa.FieldAddr)
					if !ok {
						continue
					}
					if o, fld, okF := engine.FieldOf(fa); !okF || o != "jsonRequest" || fld != "Key" {
						continue
					}
					n++
					a, isA := engine.Origin(fa.X).(*ssa.Alloc)
					okFresh := isA && a.Parent() == f
					// ... and per batch element: a target declared outside the loop that a decoder is handed
					// inside the loop is shared by all elements of the batch
					if okFresh {
						if hdr := enclosingLoopHeader(b); hdr != nil && !loopBlocks(hdr)[a.Block()] && a.Referrers() != nil {
							for _, ref := range *a.Referrers() {
								if !loopBlocks(hdr)[ref.Block()] {
									continue
								}
								switch y := ref.(type) {
								case *ssa.MakeInterface:
									okFresh = false // &target passed as interface{} (json.Unmarshal(elem, &r))
								case ssa.CallInstruction:
									_ = y
									okFresh = false
								}
							}
						}
					}
					r.Check(okFresh, "C19-R4", uniq(r, engine.RelName(f)+"|key read from a header decoded for this message only"), p.InstrPos(fa), "local decode target", "the key is read from "+engine.PathOf(fa.X)+", which outlives the message: a request without a key member inherits the key of the previous request decoded into it")
				}
			}
		}
		if n < 2 {
			r.Und("C19-R4", "jsonRequest.Key reads", "", fmt.Sprintf("%d found", n))
		}
	}
	// who-may-write rpcRequest.key: only literal initialisers (stores count == literals with key)
	keyStores := storesToField(fns, "rpcRequest", "key")
	for _, s := range keyStores {
		fn := engine.RelName(topParent(s.Parent()))
		ok := fn == "parseRequest" || fn == "parseBatchRequest"
		if !ok {
			r.Bad("C19-R4", fn+"|store rpcRequest.key", p.InstrPos(s), "rpcRequest.key written outside the parsers")
		}
	}
	// the json tag of jsonRequest.Key
	if tn, ok := pk.Types.Scope().Lookup("jsonRequest").(*types.TypeName); ok {
		if st, ok := tn.Type().Underlying().(*types.Struct); ok {
			found := false
			for i := 0; i < st.NumFields(); i++ {
				if st.Field(i).Name() == "Key" {
					found = true
					tag := st.Tag(i)
					dup := 0
					for j := 0; j < st.NumFields(); j++ {
						if strings.Contains(st.Tag(j), `json:"key"`) || strings.Contains(st.Tag(j), `json:"key,`) {
							dup++
						}
					}
					okTag := strings.Contains(tag, `json:"key"`) && dup == 1 && types.Identical(st.Field(i).Type(), types.Typ[types.String])
					r.Check(okTag, "C19-R4", "jsonRequest.Key tag", p.Pos(st.Field(i).Pos()), "string member \"key\", unique", "jsonRequest.Key is not the unique string member \"key\"")
				}
			}
			if !found {
				r.Errorf("jsonRequest.Key not found")
			}
		}
	} else {
		r.Errorf("jsonRequest type not found")
	}

	// ---------------- R5: ownership of the configured key and of the request reader
	apiStores := storesToField(fns, "Server", "apiKey")
	for _, s := range apiStores {
		fn := engine.RelName(topParent(s.Parent()))
		ok := s.Parent() == newServer
		if ok {
			// the stored value must be the constructor's parameter itself
			ok = s.Val == ssa.Value(newServer.Params[0])
		}
		r.Check(ok, "C19-R5", fn+"|store Server.apiKey", p.InstrPos(s), "NewServer stores its apiKey parameter", "Server.apiKey written outside NewServer or with a derived value")
	}
	cs := callerNames(p, readReq)
	r.Check(len(cs) == 1 && cs["rpc.Server.serveRequest"], "C19-R5", "callers(readRequest)", p.Pos(readReq.Pos()), "serveRequest", "readRequest callers: "+joinKeys(cs))
	cs = callerNames(p, serveReq)
	okS := len(cs) > 0
	for c := range cs {
		if c != "rpc.Server.ServeCodec" && c != "rpc.Server.ServeSingleRequest" {
			okS = false
		}
	}
	r.Check(okS, "C19-R5", "callers(serveRequest)", p.Pos(serveReq.Pos()), joinKeys(cs), "serveRequest callers: "+joinKeys(cs))
	// request headers are read only by readRequest (server side)
	for _, f := range fns {
		for _, c := range engine.Calls(f) {
			cc := c.Common()
			if cc.IsInvoke() && cc.Method.Name() == "ReadRequestHeaders" {
				r.Check(f == readReq, "C19-R5", engine.RelName(f)+"|ReadRequestHeaders", p.InstrPos(c), "read by readRequest", "request headers read outside readRequest")
			}
		}
	}
	// files excluded by build constraints: scan for the gated identifiers
	for _, gf := range pk.IgnoredFiles {
		if !strings.HasSuffix(gf, ".go") || strings.HasSuffix(gf, "_test.go") {
			continue
		}
		fset := token.NewFileSet()
		f, err := parseFile(fset, gf)
		if err != nil {
			r.Errorf("cannot parse ignored file %s: %v", gf, err)
			continue
		}
		bad := ""
		ast.Inspect(f, func(n ast.Node) bool {
			if id, ok := n.(*ast.Ident); ok {
				switch id.Name {
				case "handle", "exec", "execBatch", "readRequest", "apiKey", "serverRequest", "ReadRequestHeaders", "createSubscription":
					bad = id.Name
				}
			}
			return true
		})
		rel := strings.TrimPrefix(gf, p.Dir+"/")
		r.Check(bad == "", "C19-R5", "ignored file "+rel, rel, "no reference to gated identifiers (syntax scan)", "build-excluded file references "+bad)
	}
	r.Floor("C19-R5", 5, "read: 1 store + 2 caller sets + 1 header read + excluded files")
	c19R6(p, r)
}

// c19R6: the key every server is created with is the node's key. (a) every rpc.NewServer call gets a
// key that is, through parameters, a load of the configured RPC.APIKey — a constant key only in
// functions nothing calls; (b) every such load of RPC.APIKey happens after Config.SetApiKey (which
// determines the key the node runs with): in the function that performs the load or, if that function
// is only reachable through a *Node method, in the constructor that creates the Node.
func c19R6(p *engine.Prog, r *engine.Report) {
	ns := mustFunc(p, r, "rpc", "NewServer")
	setKey := mustFunc(p, r, "config", "Config.SetApiKey")
	if ns == nil || setKey == nil {
		return
	}
	isKeyLoad := func(v ssa.Value) bool {
		_, f, ok := engine.FieldOf(engine.Origin(v))
		return ok && f == "APIKey"
	}
	type site struct {
		fn   *ssa.Function
		call ssa.CallInstruction
		arg  ssa.Value
	}
	// walk keys upward through parameters
	var loads []site
	seen := map[ssa.Value]bool{}
	var up func(fn *ssa.Function, call ssa.CallInstruction, v ssa.Value, depth int)
	up = func(fn *ssa.Function, call ssa.CallInstruction, v ssa.Value, depth int) {
		v = engine.Origin(v)
		if seen[v] || depth > 8 {
			return
		}
		seen[v] = true
		switch x := v.(type) {
		case *ssa.Parameter:
			edges := p.Callers(fn)
			n := 0
			for _, e := range edges {
				if e.Site == nil || isTestish(p.InstrPos(e.Site)) {
					continue
				}
				idx := -1
				for i, par := range fn.Params {
					if par == x {
						idx = i
					}
				}
				args := e.Site.Common().Args
				if idx >= 0 && idx < len(args) {
					n++
					up(e.Caller.Func, e.Site, args[idx], depth+1)
				}
			}
			if n == 0 {
				r.Note("C19-R6", engine.RelName(fn)+"|no caller", p.Pos(fn.Pos()), "not called from non-test code: the key it would pass is not reachable")
			}
		case *ssa.Const:
			// a constant key: acceptable only in code nothing calls
			live := false
			for _, e := range p.Callers(fn) {
				if e.Site != nil && !isTestish(p.InstrPos(e.Site)) {
					live = true
				}
			}
			r.Check(!live, "C19-R6", engine.RelName(fn)+"|constant key only in unused code", p.InstrPos(call), "function has no non-test caller", "a reachable endpoint is created with the constant key "+x.String()+": requests are served without the node's key")
		default:
			if isKeyLoad(v) {
				loads = append(loads, site{fn, call, v})
				return
			}
			r.Bad("C19-R6", engine.RelName(fn)+"|key provenance", p.InstrPos(call), "the key passed down is neither the configured RPC.APIKey nor a parameter: "+engine.PathOf(v))
		}
	}
	nNew := 0
	for _, e := range p.Callers(ns) {
		if e.Site == nil || isTestish(p.InstrPos(e.Site)) {
			continue
		}
		nNew++
		up(e.Caller.Func, e.Site, e.Site.Common().Args[0], 0)
	}
	r.Check(nNew >= 3, "C19-R6", "NewServer call sites", p.Pos(ns.Pos()), fmt.Sprintf("%d", nNew), "fewer NewServer call sites than confirmed by reading (3)")
	// (b) each load after SetApiKey
	for _, l := range loads {
		key := engine.RelName(l.fn) + "|RPC.APIKey read only after Config.SetApiKey"
		ok, how := keyIsSetBefore(p, l.fn, l.call, setKey, 0)
		r.Check(ok, "C19-R6", key, p.InstrPos(l.call), how, "the endpoint is created with RPC.APIKey as it is before Config.SetApiKey ran ("+how+"): when no key was configured explicitly it is still empty and the server enforces nothing until the real endpoint replaces it")
	}
	// Config.SetApiKey establishes the key: when none is configured, every successful return has stored one
	{
		g := guardsWhere(setKey, func(cond ssa.Value) (bool, bool, string) {
			x, y, isEq, ok := eqCond(cond)
			if !ok {
				return false, false, ""
			}
			for _, pr := range [][2]ssa.Value{{x, y}, {y, x}} {
				if _, fld, okF := engine.FieldOf(engine.Origin(pr[0])); okF && fld == "APIKey" && isConstString(pr[1], "") {
					return true, isEq, "no key configured"
				}
			}
			return false, false, ""
		})
		ok := len(g) > 0
		if ok {
			stores := map[*ssa.BasicBlock]bool{}
			for _, b := range setKey.Blocks {
				for _, ins := range b.Instrs {
					if st, isSt := ins.(*ssa.Store); isSt {
						if _, fld, okF := engine.FieldOf(st.Addr); okF && fld == "APIKey" {
							stores[b] = true
						}
					}
				}
			}
			for _, gg := range g {
				pe := gg.PassEdge()
				start := pe.From.Succs[pe.Succ]
				if stores[start] {
					continue
				}
				for b := range engine.ReachAvoiding(setKey, start, nil, stores) {
					if len(b.Instrs) == 0 {
						continue
					}
					if ret, isRet := b.Instrs[len(b.Instrs)-1].(*ssa.Return); isRet && retErrKind(ret) != "nonnil" {
						ok = false
					}
				}
			}
		}
		r.Check(ok, "C19-R6", "Config.SetApiKey|with no key configured, success only after a key was stored", p.Pos(setKey.Pos()), "every success path of the empty-key branch stores RPC.APIKey", "SetApiKey can return successfully with RPC.APIKey still empty (e.g. the key found in api.key is not applied): the server then enforces nothing")
	}
	// ... and what it stores is never the empty string: every definition reaching the store is a
	// generated key or a value behind its own `!= ""` test
	for _, b := range setKey.Blocks {
		for _, ins := range b.Instrs {
			st, isSt := ins.(*ssa.Store)
			if !isSt {
				continue
			}
			if _, fld, okF := engine.FieldOf(st.Addr); !okF || fld != "APIKey" {
				continue
			}
			type leaf struct {
				v  ssa.Value
				at *ssa.BasicBlock
			}
			var leaves []leaf
			var walk func(v ssa.Value, at *ssa.BasicBlock, seen map[ssa.Value]bool)
			walk = func(v ssa.Value, at *ssa.BasicBlock, seen map[ssa.Value]bool) {
				v = engine.Unwrap(v)
				if ph, isPhi := v.(*ssa.Phi); isPhi && !seen[v] {
					seen[v] = true
					for i, e := range ph.Edges {
						walk(e, ph.Block().Preds[i], seen)
					}
					return
				}
				leaves = append(leaves, leaf{v, at})
			}
			walk(st.Val, b, map[ssa.Value]bool{})
			ok, why := true, ""
			for _, lf := range leaves {
				if c, isCall := lf.v.(*ssa.Call); isCall && engine.CallNameIs(c, "EncodeToString") {
					continue // freshly generated key
				}
				if k, isK := lf.v.(*ssa.Const); isK && k.Value != nil && k.Value.ExactString() != `""` {
					continue
				}
				g := guardsWhere(setKey, func(cond ssa.Value) (bool, bool, string) {
					x, y, isEq, okC := eqCond(cond)
					if !okC {
						return false, false, ""
					}
					for _, pr := range [][2]ssa.Value{{x, y}, {y, x}} {
						if engine.Unwrap(pr[0]) == lf.v && isConstString(pr[1], "") {
							return true, !isEq, "value != \"\""
						}
					}
					return false, false, ""
				})
				if len(g) == 0 || !engine.OnlyThroughPass(setKey, lf.at, g) {
					ok, why = false, lf.v.String()
				}
			}
			r.Check(ok && len(leaves) > 0, "C19-R6", "Config.SetApiKey|the stored key is never empty", p.InstrPos(st), "every value reaching the store is generated or tested != \"\"", "RPC.APIKey can be set to the empty string ("+why+" is stored without an emptiness test, e.g. a blank api.key file): NewServer(\"\") enforces nothing")
		}
	}
	r.Floor("C19-R6", 5, "3 NewServer sites + 2 key loads")
}

// keyIsSetBefore: at `at` in fn, Config.SetApiKey()==nil has happened: a dominating successful call in fn,
// or fn is a method of Node (the Node only exists after its constructor, which must pass SetApiKey), or
// every non-test call site of fn satisfies the same.
func keyIsSetBefore(p *engine.Prog, fn *ssa.Function, at ssa.Instruction, setKey *ssa.Function, depth int) (bool, string) {
	for _, c := range engine.Calls(fn) {
		cc, ok := c.(*ssa.Call)
		if !ok || cc.Call.StaticCallee() != setKey {
			continue
		}
		g := nilErrGuards(fn, cc)
		if len(g) > 0 && engine.OnlyThroughPass(fn, at.Block(), g) {
			return true, "behind SetApiKey()==nil in " + engine.RelName(fn)
		}
		return false, "SetApiKey is called in " + engine.RelName(fn) + " but does not dominate " + p.InstrPos(at)
	}
	if depth > 4 {
		return false, "no SetApiKey on the call chain"
	}
	if recv := fn.Signature.Recv(); recv != nil {
		if n := engine.NamedOf(recv.Type()); n != nil && n.Obj().Name() == "Node" {
			// the constructor(s) storing a *Node must pass SetApiKey before returning it
			okAll, n2 := true, 0
			for _, ctor := range funcsOfPkg(p, "node") {
				if ctor.Blocks == nil || isTestish(p.Pos(ctor.Pos())) {
					continue
				}
				for _, a := range allocsOf(ctor, "Node") {
					n2++
					if ok, _ := keyIsSetBefore(p, ctor, a, setKey, depth+1); !ok {
						okAll = false
					}
				}
			}
			if n2 > 0 && okAll {
				return true, "method of Node; every Node is allocated behind SetApiKey()==nil"
			}
			return false, "method of Node, but a Node can be allocated before SetApiKey succeeded"
		}
	}
	n := 0
	for _, e := range p.Callers(fn) {
		if e.Site == nil || isTestish(p.InstrPos(e.Site)) {
			continue
		}
		n++
		if ok, how := keyIsSetBefore(p, e.Caller.Func, e.Site, setKey, depth+1); !ok {
			return false, "called from " + engine.RelName(e.Caller.Func) + " at " + p.InstrPos(e.Site) + ": " + how
		}
	}
	if n == 0 {
		return false, "no caller establishes SetApiKey"
	}
	return true, "every call site is behind SetApiKey()==nil"
}

// keyMismatchPredicate: h is a method of Server taking a string k such that
//
//	h(k) == true  implies  s.apiKey != "" and k != s.apiKey   (a refusal is justified), and
//	h(k) == false implies  s.apiKey == "" or  k == s.apiKey   (a pass is exact),
//
// decided on h's own CFG. Returns the argument index of k.
func keyMismatchPredicate(h *ssa.Function) (int, bool) {
	if h.Blocks == nil || h.Signature.Recv() == nil || h.Signature.Results().Len() != 1 || len(h.Params) < 2 {
		return 0, false
	}
	if n := engine.NamedOf(h.Signature.Recv().Type()); n == nil || n.Obj().Name() != "Server" {
		return 0, false
	}
	if b, ok := h.Signature.Results().At(0).Type().Underlying().(*types.Basic); !ok || b.Kind() != types.Bool {
		return 0, false
	}
	recv := ssa.Value(h.Params[0])
	isKey := func(v ssa.Value) bool {
		base, ok := loadOfField(v, "Server", "apiKey")
		return ok && engine.Origin(base) == recv
	}
	for j := 1; j < len(h.Params); j++ {
		k := ssa.Value(h.Params[j])
		if b, ok := k.Type().Underlying().(*types.Basic); !ok || b.Kind() != types.String {
			continue
		}
		// atoms over comparisons
		cmp := func(v ssa.Value) (kind string, isEq bool, ok bool) {
			x, y, eq, okc := eqCond(v)
			if !okc {
				return "", false, false
			}
			for _, pr := range [][2]ssa.Value{{x, y}, {y, x}} {
				if !isKey(pr[0]) {
					continue
				}
				if isConstString(pr[1], "") {
					return "empty", eq, true
				}
				if engine.Origin(pr[1]) == k {
					return "same", eq, true
				}
			}
			return "", false, false
		}
		keySet := func(v ssa.Value) (bool, bool) { // atom: apiKey != ""
			kind, eq, ok := cmp(v)
			return ok && kind == "empty", !eq
		}
		differs := func(v ssa.Value) (bool, bool) { // atom: k != apiKey
			kind, eq, ok := cmp(v)
			return ok && kind == "same", !eq
		}
		allowed := func(v ssa.Value) (bool, bool) { // atom: apiKey == "" or k == apiKey
			_, eq, ok := cmp(v)
			return ok, eq
		}
		if returnsImply(h, true, keySet) && returnsImply(h, true, differs) && returnsImply(h, false, allowed) {
			return j, true
		}
	}
	return 0, false
}

// singleDefOf: id names a local variable of the enclosing function that is defined exactly once by
// `x := <expr>` (or `var x = <expr>`) and never assigned again; returns <expr>.
func singleDefOf(pk *packages.Package, stack []ast.Node, id *ast.Ident) ast.Expr {
	obj := pk.TypesInfo.Uses[id]
	if obj == nil {
		return nil
	}
	var fn ast.Node
	for i := len(stack) - 1; i >= 0; i-- {
		switch stack[i].(type) {
		case *ast.FuncDecl, *ast.FuncLit:
			fn = stack[i]
		}
		if fn != nil {
			break
		}
	}
	if fn == nil {
		return nil
	}
	var def ast.Expr
	nAssign := 0
	ast.Inspect(fn, func(n ast.Node) bool {
		switch x := n.(type) {
		case *ast.AssignStmt:
			for i, l := range x.Lhs {
				lid, ok := l.(*ast.Ident)
				if !ok {
					continue
				}
				if pk.TypesInfo.Defs[lid] == obj || pk.TypesInfo.Uses[lid] == obj {
					nAssign++
					if len(x.Lhs) == len(x.Rhs) {
						def = x.Rhs[i]
					} else {
						def = nil
					}
				}
			}
		case *ast.ValueSpec:
			for i, nm := range x.Names {
				if pk.TypesInfo.Defs[nm] == obj {
					nAssign++
					if i < len(x.Values) {
						def = x.Values[i]
					}
				}
			}
		case *ast.UnaryExpr:
			if x.Op == token.AND {
				if aid, ok := x.X.(*ast.Ident); ok && pk.TypesInfo.Uses[aid] == obj {
					nAssign += 2 // address taken: may be written elsewhere
				}
			}
		case *ast.IncDecStmt:
			if aid, ok := x.X.(*ast.Ident); ok && pk.TypesInfo.Uses[aid] == obj {
				nAssign++
			}
		}
		return true
	})
	if nAssign != 1 {
		return nil
	}
	return def
}
