package props

import (
	"bytes"
	"encoding/json"
	"fmt"
	"os"
	"os/exec"
	"path/filepath"
	"sort"
	"strings"
	"sync"

	"golang.org/x/tools/go/ssa"
	"idenaverif/internal/engine"
)

type ssaFunc = ssa.Function

// Mutant is a one-instance break of the pinned tree used to test that a rule fires
// (DESIGN §1.5). It is applied as a go/packages overlay; /repo is never touched. If the
// fragment is no longer present (the tree was edited) the witness is skipped, never failed:
// witnesses test the checker, they are not part of any verdict about /repo.
type Mutant struct {
	Name   string `json:"name"`
	File   string `json:"file"` // relative to repo root
	Old    string `json:"old"`
	New    string `json:"new"`
	Expect string `json:"expect"`          // substring of the violated obligation key
	Patch  string `json:"patch,omitempty"` // alternatively: a unified diff (absolute path) applied to copies of the files it touches
}

func MutantOverlay(path string) (map[string][]byte, error) {
	b, err := os.ReadFile(path)
	if err != nil {
		return nil, err
	}
	var m Mutant
	if err := json.Unmarshal(b, &m); err != nil {
		return nil, err
	}
	if m.Patch != "" {
		return patchOverlay(m.Patch)
	}
	abs := filepath.Join(engine.RepoDir(), m.File)
	src, err := os.ReadFile(abs)
	if err != nil {
		return nil, err
	}
	if n := bytes.Count(src, []byte(m.Old)); n != 1 {
		return nil, fmt.Errorf("fragment occurs %d times in %s (need exactly 1)", n, m.File)
	}
	return map[string][]byte{abs: bytes.Replace(src, []byte(m.Old), []byte(m.New), 1)}, nil
}

// patchOverlay applies a stored seeded change (unified diff, paths relative to the repo root) to
// copies of the files it touches and returns them as an overlay. /repo itself is never written.
func patchOverlay(patch string) (map[string][]byte, error) {
	pb, err := os.ReadFile(patch)
	if err != nil {
		return nil, err
	}
	var files []string
	for _, ln := range strings.Split(string(pb), "\n") {
		if strings.HasPrefix(ln, "+++ b/") {
			files = append(files, strings.TrimSpace(strings.TrimPrefix(ln, "+++ b/")))
		}
	}
	if len(files) == 0 {
		return nil, fmt.Errorf("no files in patch")
	}
	tmp, err := os.MkdirTemp("", "idenalint-patch")
	if err != nil {
		return nil, err
	}
	defer os.RemoveAll(tmp)
	for _, f := range files {
		src, err := os.ReadFile(filepath.Join(engine.RepoDir(), f))
		if err != nil {
			return nil, fmt.Errorf("patched file missing: %s", f)
		}
		dst := filepath.Join(tmp, f)
		os.MkdirAll(filepath.Dir(dst), 0o755)
		if err := os.WriteFile(dst, src, 0o644); err != nil {
			return nil, err
		}
	}
	cmd := exec.Command("patch", "-p1", "-s", "-f", "--no-backup-if-mismatch", "-i", patch)
	cmd.Dir = tmp
	if out, err := cmd.CombinedOutput(); err != nil {
		return nil, fmt.Errorf("patch does not apply to the current tree (%s)", strings.TrimSpace(strings.Split(string(out), "\n")[0]))
	}
	ov := map[string][]byte{}
	for _, f := range files {
		b, err := os.ReadFile(filepath.Join(tmp, f))
		if err != nil {
			return nil, err
		}
		ov[filepath.Join(engine.RepoDir(), f)] = b
	}
	return ov, nil
}

// RunWitnesses runs every mutant of the property in a subprocess (own memory) and records
// whether the expected obligation was reported violated.
func RunWitnesses(id string, r *engine.Report, vdir string) {
	b, err := os.ReadFile(filepath.Join(vdir, "witnesses", id+".json"))
	if err != nil {
		return
	}
	var ms []Mutant
	if err := json.Unmarshal(b, &ms); err != nil {
		r.Errorf("witnesses/%s.json: %v", id, err)
		return
	}
	// the stored seeded changes of this property (seeded/<id>-seedN/patch.diff) are replayed as
	// mutants too: any violation of one of the property's own rules counts
	if dirs, _ := filepath.Glob(filepath.Join(vdir, "seeded", id+"-seed*", "patch.diff")); len(dirs) > 0 && os.Getenv("VERIF_NO_SEED_REPLAY") == "" {
		sort.Strings(dirs)
		for _, d := range dirs {
			name := "seeded change " + filepath.Base(filepath.Dir(d))
			if mb, err := os.ReadFile(filepath.Join(filepath.Dir(d), "meta.json")); err == nil && bytes.Contains(mb, []byte(`"detected_by_check": false`)) {
				name += " (recorded miss, DESIGN 4.3)"
			}
			ms = append(ms, Mutant{Name: name, Patch: d, Expect: id})
		}
	}
	exe, err := os.Executable()
	if err != nil {
		r.Errorf("cannot locate own binary: %v", err)
		return
	}
	tmp, err := os.MkdirTemp("", "idenalint-mut")
	if err != nil {
		r.Errorf("tmpdir: %v", err)
		return
	}
	defer os.RemoveAll(tmp)
	res := make([]engine.Witness, len(ms))
	sem := make(chan struct{}, 5)
	var wg sync.WaitGroup
	for i, m := range ms {
		wg.Add(1)
		go func(i int, m Mutant) {
			defer wg.Done()
			sem <- struct{}{}
			defer func() { <-sem }()
			w := engine.Witness{Name: m.Name, Expect: m.Expect}
			mf := filepath.Join(tmp, fmt.Sprintf("m%d.json", i))
			mb, _ := json.Marshal(m)
			os.WriteFile(mf, mb, 0o644)
			cmd := exec.Command(exe, "-prop", id, "-tier", "quick", "-mutant", mf)
			cmd.Env = append(os.Environ(), "VERIF_DIR="+vdir)
			out, _ := cmd.CombinedOutput()
			code := cmd.ProcessState.ExitCode()
			var keys []string
			for _, ln := range strings.Split(string(out), "\n") {
				if strings.HasPrefix(ln, "MUTANT-VIOLATED ") {
					keys = append(keys, strings.TrimPrefix(ln, "MUTANT-VIOLATED "))
				}
				if strings.HasPrefix(ln, "MUTANT-SKIP:") {
					w.Skipped = strings.TrimSpace(strings.TrimPrefix(ln, "MUTANT-SKIP:"))
				}
				if strings.HasPrefix(ln, "CHECKER-ERROR") && w.Skipped == "" {
					// a mutant that no longer type-checks or breaks a floor/anchor: it is
					// detected (the check would exit 2 = broken), record as such
					keys = append(keys, "checker-error: "+ln)
				}
			}
			sort.Strings(keys)
			for _, k := range keys {
				if strings.Contains(k, m.Expect) {
					w.Killed = true
					w.Reported = k
					break
				}
			}
			if !w.Killed && len(keys) > 0 {
				w.Reported = "other: " + keys[0]
			}
			_ = code
			res[i] = w
		}(i, m)
	}
	wg.Wait()
	for _, w := range res {
		r.Witnesses = append(r.Witnesses, w)
		switch {
		case w.Skipped != "":
			fmt.Printf("   witness %-40s skipped (%s)\n", w.Name, w.Skipped)
		case w.Killed:
			fmt.Printf("   witness %-40s detected: %s\n", w.Name, w.Reported)
		default:
			fmt.Printf("   WITNESS-SURVIVED %s (expected a violation containing %q; got %q)\n", w.Name, w.Expect, w.Reported)
		}
	}
}
