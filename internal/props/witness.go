package props

import (
	"bytes"
	"encoding/json"
	"fmt"
	"os"
	"os/exec"
	"path/filepath"
	"sort"
	"strings"
	"sync"

	"golang.org/x/tools/go/ssa"
	"idenaverif/internal/engine"
)

type ssaFunc = ssa.Function

// Mutant is a one-instance break of the pinned tree used to test that a rule fires
// (DESIGN §1.5). It is applied as a go/packages overlay; /repo is never touched. If the
// fragment is no longer present (the tree was edited) the witness is skipped, never failed:
// witnesses test the checker, they are not part of any verdict about /repo.
type Mutant struct {
	Name   string `json:"name"`
	File   string `json:"file"` // relative to repo root
	Old    string `json:"old"`
	New    string `json:"new"`
	Expect string `json:"expect"` // substring of the violated obligation key
}

func MutantOverlay(path string) (map[string][]byte, error) {
	b, err := os.ReadFile(path)
	if err != nil {
		return nil, err
	}
	var m Mutant
	if err := json.Unmarshal(b, &m); err != nil {
		return nil, err
	}
	abs := filepath.Join(engine.RepoDir(), m.File)
	src, err := os.ReadFile(abs)
	if err != nil {
		return nil, err
	}
	if n := bytes.Count(src, []byte(m.Old)); n != 1 {
		return nil, fmt.Errorf("fragment occurs %d times in %s (need exactly 1)", n, m.File)
	}
	return map[string][]byte{abs: bytes.Replace(src, []byte(m.Old), []byte(m.New), 1)}, nil
}

// RunWitnesses runs every mutant of the property in a subprocess (own memory) and records
// whether the expected obligation was reported violated.
func RunWitnesses(id string, r *engine.Report, vdir string) {
	b, err := os.ReadFile(filepath.Join(vdir, "witnesses", id+".json"))
	if err != nil {
		return
	}
	var ms []Mutant
	if err := json.Unmarshal(b, &ms); err != nil {
		r.Errorf("witnesses/%s.json: %v", id, err)
		return
	}
	exe, err := os.Executable()
	if err != nil {
		r.Errorf("cannot locate own binary: %v", err)
		return
	}
	tmp, err := os.MkdirTemp("", "idenalint-mut")
	if err != nil {
		r.Errorf("tmpdir: %v", err)
		return
	}
	defer os.RemoveAll(tmp)
	res := make([]engine.Witness, len(ms))
	sem := make(chan struct{}, 5)
	var wg sync.WaitGroup
	for i, m := range ms {
		wg.Add(1)
		go func(i int, m Mutant) {
			defer wg.Done()
			sem <- struct{}{}
			defer func() { <-sem }()
			w := engine.Witness{Name: m.Name, Expect: m.Expect}
			mf := filepath.Join(tmp, fmt.Sprintf("m%d.json", i))
			mb, _ := json.Marshal(m)
			os.WriteFile(mf, mb, 0o644)
			cmd := exec.Command(exe, "-prop", id, "-tier", "quick", "-mutant", mf)
			cmd.Env = append(os.Environ(), "VERIF_DIR="+vdir)
			out, _ := cmd.CombinedOutput()
			code := cmd.ProcessState.ExitCode()
			var keys []string
			for _, ln := range strings.Split(string(out), "\n") {
				if strings.HasPrefix(ln, "MUTANT-VIOLATED ") {
					keys = append(keys, strings.TrimPrefix(ln, "MUTANT-VIOLATED "))
				}
				if strings.HasPrefix(ln, "MUTANT-SKIP:") {
					w.Skipped = strings.TrimSpace(strings.TrimPrefix(ln, "MUTANT-SKIP:"))
				}
				if strings.HasPrefix(ln, "CHECKER-ERROR") && w.Skipped == "" {
					// a mutant that no longer type-checks or breaks a floor/anchor: it is
					// detected (the check would exit 2 = broken), record as such
					keys = append(keys, "checker-error: "+ln)
				}
			}
			sort.Strings(keys)
			for _, k := range keys {
				if strings.Contains(k, m.Expect) {
					w.Killed = true
					w.Reported = k
					break
				}
			}
			if !w.Killed && len(keys) > 0 {
				w.Reported = "other: " + keys[0]
			}
			_ = code
			res[i] = w
		}(i, m)
	}
	wg.Wait()
	for _, w := range res {
		r.Witnesses = append(r.Witnesses, w)
		switch {
		case w.Skipped != "":
			fmt.Printf("   witness %-40s skipped (%s)\n", w.Name, w.Skipped)
		case w.Killed:
			fmt.Printf("   witness %-40s detected: %s\n", w.Name, w.Reported)
		default:
			fmt.Printf("   WITNESS-SURVIVED %s (expected a violation containing %q; got %q)\n", w.Name, w.Expect, w.Reported)
		}
	}
}
