package props

import (
	"go/token"
	"sort"
	"strings"

	"golang.org/x/tools/go/ssa"

	"idenaverif/internal/engine"
)

func init() { register("C08", C08) }

// successReturns lists returns that are not definite errors.
func successReturns(f *ssa.Function) []*ssa.Return {
	var out []*ssa.Return
	for _, ret := range engine.Returns(f) {
		if isRecoverBlock(ret.Block()) || retErrKind(ret) == "nonnil" {
			continue
		}
		out = append(out, ret)
	}
	return out
}

// C08 — a fork is adopted only if valid and certified.
func C08(p *engine.Prog, r *engine.Report) {
	r.Explanation = "Must-pass-through rules on the fork path: (R1) ForkResolver.applicableFork is stored non-nil only behind ValidateSubChain(h, blocks)==nil on the very values stored, and applyFork is fed only from it; (R2) ValidateSubChain completes a loop iteration only through validateBlock==nil on the check state, through (certificate empty or ValidateBlockCert==nil with this bundle's header/cert and the check state's validator cache) and through (no IdentityUpdate flag or certificate non-empty), and returns success only behind !Empty() of the LAST bundle's certificate (presence is Empty(), never a bare nil test); (R3) applyFork resets to the common height before adding, adds every block through AddBlock, writes each certificate after its block, and returns ResetTo's reverted transactions, which the engine hands to the mempool; (R4) AppState.ResetTo reloads validator and nonce views only after both trees were reset; (R5) the certificate acceptor itself (shared with C07-R1). Decides the gate shape; does not decide state equality with a clean sync or the fork-weight rule's semantics."
	r.Assumptions = []string{"AddBlock fully validates each block (C03)", "IAVL version reset semantics (trusted base)"}

	// ---------------- R1
	pb := mustFunc(p, r, "consensus", "ForkResolver.processBlocks")
	af := mustFunc(p, r, "consensus", "ForkResolver.applyFork")
	AF := mustFunc(p, r, "consensus", "ForkResolver.ApplyFork")
	vsc := mustFunc(p, r, "blockchain", "Blockchain.ValidateSubChain")
	if pb == nil || af == nil || AF == nil || vsc == nil {
		return
	}
	for _, f := range funcsOfPkg(p, "consensus") {
		for _, s := range storesToField([]*ssa.Function{f}, "ForkResolver", "applicableFork") {
			key := engine.RelName(f) + "|store applicableFork"
			if engine.IsNilConst(s.Val) {
				r.OK("C08-R1", key+" = nil", p.InstrPos(s), "clearing")
				continue
			}
			if f != pb {
				r.Bad("C08-R1", key, p.InstrPos(s), "applicableFork set outside processBlocks")
				continue
			}
			// guard: ValidateSubChain nil-error edge
			var gs []engine.Guard
			var vcall *ssa.Call
			for _, c := range callsTo(pb, "blockchain.Blockchain.ValidateSubChain") {
				vcall = c.(*ssa.Call)
				gs = append(gs, nilErrGuards(pb, vcall)...)
			}
			ok := vcall != nil && engine.OnlyThroughPass(pb, s.Block(), gs)
			r.Check(ok, "C08-R1", key+" behind ValidateSubChain==nil", p.InstrPos(s), "dominated by the nil-error edge", "a fork can be recorded as applicable without ValidateSubChain succeeding")
			// same values
			if a, isA := s.Val.(*ssa.Alloc); isA && vcall != nil {
				st := fieldStoresOn(a)
				okB := st["blocks"] != nil && engine.PathOf(st["blocks"].Val) == engine.PathOf(vcall.Call.Args[2])
				okH := st["commonHeight"] != nil && engine.PathOf(st["commonHeight"].Val) == engine.PathOf(vcall.Call.Args[1])
				r.Check(okB && okH, "C08-R1", key+" stores the validated (height, blocks)", p.InstrPos(s), "same values as passed to ValidateSubChain", "the stored fork differs from the one that was validated")
			} else {
				r.Und("C08-R1", key+" stores the validated (height, blocks)", p.InstrPos(s), "stored value is not a literal")
			}
		}
	}
	cs := callerNames(p, af)
	r.Check(len(cs) == 1 && cs["consensus.ForkResolver.ApplyFork"], "C08-R1", "callers(applyFork)", p.Pos(af.Pos()), joinKeys(cs), "applyFork callers: "+joinKeys(cs))
	for _, c := range callsTo(AF, "consensus.ForkResolver.applyFork") {
		a := c.Common().Args
		ok := false
		if b1, isF := loadOfField(a[1], "applicableFork", "commonHeight"); isF {
			if b2, isF2 := loadOfField(a[2], "applicableFork", "blocks"); isF2 {
				_, ok1 := loadOfField(b1, "ForkResolver", "applicableFork")
				_, ok2 := loadOfField(b2, "ForkResolver", "applicableFork")
				ok = ok1 && ok2
			}
		}
		r.Check(ok, "C08-R1", "ApplyFork|arguments from applicableFork", p.InstrPos(c), "commonHeight and blocks of the validated fork", "applyFork is fed with values other than the validated fork")
	}
	r.Floor("C08-R1", 5, "stores + callers + args")

	// ---------------- R2
	c08R2(p, r, vsc)

	// ---------------- R3
	c08R3(p, r, af)

	// ---------------- R4
	rt := mustFunc(p, r, "core/appstate", "AppState.ResetTo")
	if rt != nil {
		one := func(ids ...string) []ssa.Instruction {
			var out []ssa.Instruction
			for _, c := range callsTo(rt, ids...) {
				out = append(out, c)
			}
			return out
		}
		sReset := one("core/state.StateDB.ResetTo")
		iReset := one("core/state.IdentityStateDB.ResetTo")
		load := one("core/validators.ValidatorsCache.Load")
		reload := one("core/state.NonceCache.ReloadFallback")
		for _, ret := range successReturns(rt) {
			r.Check(engine.MustPassInstr(rt, ret, load), "C08-R4", "AppState.ResetTo|success passes ValidatorsCache.Load", p.InstrPos(ret), "on every path", "validator view not reloaded after a reset")
			r.Check(engine.MustPassInstr(rt, ret, reload), "C08-R4", "AppState.ResetTo|success passes NonceCache.ReloadFallback", p.InstrPos(ret), "on every path", "nonce view not reloaded after a reset")
		}
		for _, l := range load {
			ok := engine.MustPassInstr(rt, l, iReset) && engine.MustPassInstr(rt, l, sReset)
			r.Check(ok, "C08-R4", "AppState.ResetTo|Load after both trees reset", p.InstrPos(l), "IdentityState.ResetTo and State.ResetTo precede ValidatorsCache.Load", "validator cache reloaded before the identity tree was reset (stale view of the abandoned branch)")
			// and behind their nil-error edges
			okE := true
			for _, rs := range append(append([]ssa.Instruction{}, sReset...), iReset...) {
				if c, isC := rs.(*ssa.Call); isC {
					if !engine.OnlyThroughPass(rt, l.Block(), nilErrGuards(rt, c)) {
						okE = false
					}
				}
			}
			r.Check(okE, "C08-R4", "AppState.ResetTo|Load only after successful resets", p.InstrPos(l), "behind err == nil of both resets", "views reloaded although a tree reset failed")
		}
		for _, l := range reload {
			r.Check(engine.MustPassInstr(rt, l, sReset), "C08-R4", "AppState.ResetTo|nonce reload after State.ResetTo", p.InstrPos(l), "ordered", "nonce cache reloaded before the state tree reset")
		}
	}
	r.Floor("C08-R4", 5, "2 success obligations + 3 ordering")

	// ---------------- R5: the acceptor
	certAcceptorRules(p, r, "C08-R5")
	r.Floor("C08-R5", 15, "shared with C07-R1")
}

func c08R2(p *engine.Prog, r *engine.Report, vsc *ssa.Function) {
	pos := p.Pos(vsc.Pos())
	blocks := ssa.Value(vsc.Params[2])
	// check state
	var checkState ssa.Value
	for _, c := range callsTo(vsc, "core/appstate.AppState.ForCheckWithOverwrite", "core/appstate.AppState.ForCheck") {
		cc := c.(*ssa.Call)
		for _, ref := range *cc.Referrers() {
			if ex, ok := ref.(*ssa.Extract); ok && ex.Index == 0 {
				checkState = ex
			}
		}
		okH := engine.Origin(cc.Call.Args[1]) == ssa.Value(vsc.Params[1])
		r.Check(okH, "C08-R2", "ValidateSubChain|check state at startHeight", p.InstrPos(c), "private view at the common ancestor", "check state not created at the fork's start height")
	}
	if checkState == nil {
		r.Bad("C08-R2", "ValidateSubChain|private check state", pos, "no ForCheck* call")
		return
	}
	var vb, vc, commit []*ssa.Call
	for _, c := range engine.Calls(vsc) {
		cc, ok := c.(*ssa.Call)
		if !ok {
			continue
		}
		switch engine.CallID(c) {
		case "blockchain.Blockchain.validateBlock":
			vb = append(vb, cc)
		case "blockchain.Blockchain.ValidateBlockCert":
			vc = append(vc, cc)
		case "core/appstate.AppState.Commit", "core/appstate.AppState.FinalizePrecommit":
			commit = append(commit, cc)
		}
	}
	if len(vb) != 1 || len(vc) != 1 || len(commit) != 1 {
		r.Bad("C08-R2", "ValidateSubChain|loop calls", pos, "expected one validateBlock, one ValidateBlockCert and one commit of the check state")
		return
	}
	hdr := engine.LoopHeaderOf(vb[0].Block())
	if hdr == nil {
		r.Bad("C08-R2", "ValidateSubChain|loop", pos, "per-block loop not found")
		return
	}
	// bundle element: the value whose .Block is passed to validateBlock
	elemPath := func(v ssa.Value, field string) (string, bool) {
		base, ok := loadOfField(v, "BlockBundle", field)
		if !ok {
			return "", false
		}
		return engine.PathOf(base), true
	}
	bpath, okB := elemPath(vb[0].Call.Args[2], "Block")
	r.Check(okB && engine.Origin(vb[0].Call.Args[1]) == checkState, "C08-R2", "ValidateSubChain|validateBlock(checkState, b.Block, prev)", p.InstrPos(vb[0]), "on the private check state", "fork blocks are not validated on the private check state")
	// prevBlock is the running header: phi(GetBlockHeaderByHeight(startHeight), b.Block.Header)
	okPrev := false
	if ph, isPhi := engine.Unwrap(vb[0].Call.Args[3]).(*ssa.Phi); isPhi {
		seenInit, seenStep := false, false
		for _, e := range ph.Edges {
			if c, ok := engine.Unwrap(e).(*ssa.Call); ok && engine.CallIs(c, "blockchain.Blockchain.GetBlockHeaderByHeight") && engine.Origin(c.Call.Args[1]) == ssa.Value(vsc.Params[1]) {
				seenInit = true
			} else if b1, ok := loadOfField(e, "Block", "Header"); ok {
				if pth, ok := elemPath(b1, "Block"); ok && pth == bpath {
					seenStep = true
				}
			}
		}
		okPrev = seenInit && seenStep
	}
	r.Check(okPrev, "C08-R2", "ValidateSubChain|prevBlock chains ancestor -> previous fork block", p.InstrPos(vb[0]), "phi(header at startHeight, b.Block.Header)", "fork blocks are not validated against their own predecessor")
	// iteration completes only through validateBlock == nil and commit == nil
	gVB := nilErrGuards(vsc, vb[0])
	gCM := nilErrGuards(vsc, commit[0])
	r.Check(backEdgesGuarded(vsc, hdr, gVB), "C08-R2", "ValidateSubChain|iteration only via validateBlock==nil", p.InstrPos(vb[0]), "all back edges guarded", "a fork block can be skipped or accepted without full validation")
	r.Check(backEdgesGuarded(vsc, hdr, gCM) && engine.Origin(commit[0].Call.Args[0]) == checkState, "C08-R2", "ValidateSubChain|iteration only via checkState commit==nil", p.InstrPos(commit[0]), "all back edges guarded", "the check state is not advanced block by block")
	// validateBlock ends in AppState.Precommit, which drains the identity dirty set: the commit
	// that follows must reuse that diff (FinalizePrecommit, as full sync does); Commit would
	// precommit again and refresh the validator view from an empty diff.
	r.Check(engine.CallIs(commit[0], "core/appstate.AppState.FinalizePrecommit"), "C08-R2", "ValidateSubChain|check state committed with the precommitted diff", p.InstrPos(commit[0]), "FinalizePrecommit(block) after validateBlock (sibling: fullSync.applyDeferredBlocks)", "checkState.Commit after validateBlock re-precommits and hands an empty identity diff to ValidatorsCache.RefreshIfUpdated: later fork blocks are checked against the common ancestor's validator set")
	// Empty() guards
	type eg struct {
		g    engine.Guard // pass edge = certificate present (Empty()==false)
		path string
		call *ssa.Call
	}
	var egs []eg
	for _, i := range engine.Ifs(vsc) {
		c, neg := stripNot(i.Cond)
		cc, ok := c.(*ssa.Call)
		if !ok || !engine.CallIs(cc, "blockchain/types.BlockCert.Empty") {
			continue
		}
		pth, _ := elemPath(cc.Call.Args[0], "Cert")
		egs = append(egs, eg{engine.Guard{If: i, PassTrue: neg}, pth, cc})
	}
	// certificate validated whenever present
	gVC := nilErrGuards(vsc, vc[0])
	var gEmptyOrValid []engine.Guard
	gEmptyOrValid = append(gEmptyOrValid, gVC...)
	for _, e := range egs {
		if e.path == bpath {
			// "empty" edge passes
			gEmptyOrValid = append(gEmptyOrValid, engine.Guard{If: e.g.If, PassTrue: !e.g.PassTrue})
		}
	}
	r.Check(backEdgesGuarded(vsc, hdr, gEmptyOrValid), "C08-R2", "ValidateSubChain|iteration only via cert empty or ValidateBlockCert==nil", p.InstrPos(vc[0]), "all back edges guarded", "a present certificate can go unvalidated")
	// ValidateBlockCert arguments
	hp, okH := loadOfField(vc[0].Call.Args[2], "Block", "Header")
	hpath := ""
	if okH {
		hpath, _ = elemPath(hp, "Block")
	}
	cpath, _ := elemPath(vc[0].Call.Args[3], "Cert")
	vcBase, okVC := loadOfField(vc[0].Call.Args[4], "AppState", "ValidatorsCache")
	okArgs := okH && hpath == bpath && cpath == bpath && okVC && engine.Origin(vcBase) == checkState &&
		engine.PathOf(vc[0].Call.Args[1]) == engine.PathOf(vb[0].Call.Args[3])
	r.Check(okArgs, "C08-R2", "ValidateSubChain|ValidateBlockCert(prev, b.Block.Header, b.Cert, checkState.ValidatorsCache)", p.InstrPos(vc[0]), "this bundle's header and certificate, the check state's validator view", "certificate validated against another header/certificate/validator view")
	// identity update requires a certificate
	var gIU []engine.Guard
	for _, i := range engine.Ifs(vsc) {
		c, neg := stripNot(i.Cond)
		cc, ok := c.(*ssa.Call)
		if !ok || !engine.CallIs(cc, "blockchain/types.BlockFlag.HasFlag") {
			continue
		}
		if k, isK := engine.ConstInt(cc.Call.Args[1]); isK && k == flagConst(p, "IdentityUpdate") {
			gIU = append(gIU, engine.Guard{If: i, PassTrue: neg}) // pass = flag NOT set
		}
	}
	gIUorCert := append([]engine.Guard{}, gIU...)
	for _, e := range egs {
		if e.path == bpath {
			gIUorCert = append(gIUorCert, e.g)
		}
	}
	r.Check(len(gIU) > 0 && backEdgesGuarded(vsc, hdr, gIUorCert), "C08-R2", "ValidateSubChain|identity-update block requires a certificate", pos, "iteration only via !IdentityUpdate or !Cert.Empty()", "an identity-update block can pass without a certificate")
	// tip: success only behind !Empty() of the LAST bundle
	var gTip []engine.Guard
	for _, e := range egs {
		// receiver: blocks[len(blocks)-1].Cert
		base, ok := loadOfField(e.call.Call.Args[0], "BlockBundle", "Cert")
		if !ok {
			continue
		}
		ia, ok := base.(*ssa.IndexAddr)
		if !ok || engine.Origin(ia.X) != blocks {
			continue
		}
		sub, ok := ia.Index.(*ssa.BinOp)
		if !ok || sub.Op != token.SUB {
			continue
		}
		k, isK := engine.ConstInt(sub.Y)
		ln, isLen := sub.X.(*ssa.Call)
		if !isK || k != 1 || !isLen {
			continue
		}
		if bi, ok := ln.Call.Value.(*ssa.Builtin); !ok || bi.Name() != "len" || engine.Origin(ln.Call.Args[0]) != blocks {
			continue
		}
		gTip = append(gTip, e.g)
	}
	okTip := len(gTip) > 0
	nS := 0
	for _, ret := range successReturns(vsc) {
		nS++
		if !engine.OnlyThroughPassRet(vsc, ret, gTip) {
			okTip = false
		}
	}
	r.Check(okTip && nS > 0, "C08-R2", "ValidateSubChain|success only with a non-empty certificate on the last bundle", pos, "behind !blocks[len(blocks)-1].Cert.Empty()", "a fork whose tip certificate is nil or empty (no signatures) can be accepted; presence must be tested with Empty(), as everywhere else")
	r.Floor("C08-R2", 10, "read")
}

func flagConst(p *engine.Prog, name string) int64 {
	return constInt(p, "blockchain/types", name)
}

func c08R3(p *engine.Prog, r *engine.Report, af *ssa.Function) {
	var reset, add, wc []*ssa.Call
	for _, c := range engine.Calls(af) {
		cc, ok := c.(*ssa.Call)
		if !ok {
			continue
		}
		switch engine.CallID(c) {
		case "blockchain.Blockchain.ResetTo":
			reset = append(reset, cc)
		case "blockchain.Blockchain.AddBlock":
			add = append(add, cc)
		case "blockchain.Blockchain.WriteCertificate":
			wc = append(wc, cc)
		}
	}
	pos := p.Pos(af.Pos())
	if len(reset) != 1 || len(add) != 1 || len(wc) != 1 {
		r.Bad("C08-R3", "applyFork|calls", pos, "expected ResetTo, AddBlock, WriteCertificate once each")
		return
	}
	r.Check(engine.Origin(reset[0].Call.Args[1]) == ssa.Value(af.Params[1]), "C08-R3", "applyFork|ResetTo(commonHeight)", p.InstrPos(reset[0]), "resets to the validated common height", "reset target is not the fork's common height")
	gR := nilErrGuards(af, reset[0])
	r.Check(engine.OnlyThroughPass(af, add[0].Block(), gR), "C08-R3", "applyFork|AddBlock only after ResetTo==nil", p.InstrPos(add[0]), "dominated", "fork blocks can be added without a successful rollback")
	hdr := engine.LoopHeaderOf(add[0].Block())
	gA := nilErrGuards(af, add[0])
	r.Check(hdr != nil && backEdgesGuarded(af, hdr, gA), "C08-R3", "applyFork|iteration only via AddBlock==nil", p.InstrPos(add[0]), "all back edges guarded", "a failing fork block does not stop the switch")
	// certificate written after its block, same bundle
	okW := engine.OnlyThroughPass(af, wc[0].Block(), gA)
	b1, ok1 := loadOfField(add[0].Call.Args[1], "BlockBundle", "Block")
	b2, ok2 := loadOfField(wc[0].Call.Args[2], "BlockBundle", "Cert")
	okW = okW && ok1 && ok2 && engine.PathOf(b1) == engine.PathOf(b2) && sliceCallOn(wc[0].Call.Args[1], nil, "blockchain/types.Block.Hash")
	r.Check(okW, "C08-R3", "applyFork|WriteCertificate(bundle.Block.Hash(), bundle.Cert) after AddBlock==nil", p.InstrPos(wc[0]), "same bundle, after the block", "certificate not stored with its block")
	okEvery := hdr != nil
	if hdr != nil {
		// an iteration may skip the write only because this bundle carries no certificate: cut the
		// "absent" edge of a presence test (Empty()/nil) of the very certificate that is written
		cut := map[engine.Edge]bool{}
		certPath := renderVal(wc[0].Call.Args[2], 0)
		for _, i := range engine.Ifs(af) {
			cnd, neg := stripNot(i.Cond)
			if cc, ok := cnd.(*ssa.Call); ok && engine.CallNameIs(cc, "Empty") {
				if a := engine.CallArgs(cc); len(a) > 0 && renderVal(a[0], 0) == certPath {
					absent := 0 // Empty() == true
					if neg {
						absent = 1
					}
					cut[engine.Edge{From: i.Block(), Succ: absent}] = true
				}
			}
			if x, y, isEq, ok := eqCond(cnd); ok {
				for _, pr := range [][2]ssa.Value{{x, y}, {y, x}} {
					if k, isK := pr[1].(*ssa.Const); isK && k.IsNil() && renderVal(pr[0], 0) == certPath {
						absent := 1
						if isEq != neg {
							absent = 0
						}
						cut[engine.Edge{From: i.Block(), Succ: absent}] = true
					}
				}
			}
		}
		reach := engine.ReachAvoiding(af, hdr, cut, map[*ssa.BasicBlock]bool{wc[0].Block(): true})
		for _, pr := range hdr.Preds {
			if hdr.Dominates(pr) && pr != wc[0].Block() && reach[pr] {
				// a back edge that IS the "no certificate" edge is the allowed skip
				allowed := true
				for si, sc := range pr.Succs {
					if sc == hdr && !cut[engine.Edge{From: pr, Succ: si}] {
						allowed = false
					}
				}
				if !allowed {
					okEvery = false
				}
			}
		}
	}
	r.Check(okEvery, "C08-R3", "applyFork|every iteration writes the certificate", p.InstrPos(wc[0]), "on every loop path (skipped only for a bundle without a certificate)", "an iteration can skip a certificate the bundle carries")
	// success returns ResetTo's transactions
	okRet := false
	for _, ret := range successReturns(af) {
		sl := engine.BackSlice(ret.Results[0], engine.DefaultSlice)
		if sl[reset[0]] {
			okRet = true
		} else {
			okRet = false
			break
		}
	}
	r.Check(okRet, "C08-R3", "applyFork|returns ResetTo's reverted transactions", pos, "result slice contains the ResetTo call", "reverted transactions are dropped")
	// engine hands them to the mempool
	n := 0
	for _, f := range funcsOfPkg(p, "consensus") {
		for _, c := range callsTo(f, "consensus.ForkResolver.ApplyFork") {
			n++
			cc := c.(*ssa.Call)
			g := nilErrGuards(f, cc)
			ok := false
			for _, c2 := range engine.Calls(f) {
				if !engine.CallNameIs(c2, "AddExternalTxs") {
					continue
				}
				args := c2.Common().Args
				sl := engine.BackSlice(args[len(args)-1], engine.DefaultSlice)
				if sl[cc] && engine.OnlyThroughPass(f, c2.Block(), g) {
					ok = true
				}
			}
			r.Check(ok, "C08-R3", engine.RelName(f)+"|reverted txs handed to the mempool", p.InstrPos(c), "AddExternalTxs(…, revertedTxs...) on the nil-error edge", "transactions of the abandoned blocks are not handed back for re-inclusion")
		}
	}
	// Blockchain.ResetTo collects the abandoned blocks' transactions
	if rt := mustFunc(p, r, "blockchain", "Blockchain.ResetTo"); rt != nil {
		var asr []*ssa.Call
		for _, c := range callsTo(rt, "core/appstate.AppState.ResetTo") {
			asr = append(asr, c.(*ssa.Call))
		}
		okA := len(asr) == 1 && engine.Origin(asr[0].Call.Args[1]) == ssa.Value(rt.Params[1])
		for _, ret := range successReturns(rt) {
			if len(asr) == 1 && !engine.OnlyThroughPassRet(rt, ret, nilErrGuards(rt, asr[0])) {
				okA = false
			}
		}
		r.Check(okA, "C08-R3", "Blockchain.ResetTo|success only via appState.ResetTo(height)==nil", p.Pos(rt.Pos()), "dominated", "chain head can be rolled back without the state")
		// appended elements come from block.Body.Transactions of blocks read by canonical hash
		okT := false
		for _, c := range engine.Calls(rt) {
			if bi, ok := c.Common().Value.(*ssa.Builtin); ok && bi.Name() == "append" {
				sl := engine.BackSlice(c.Common().Args[1], engine.DefaultSlice)
				for v := range sl {
					if readsField(v, "Transactions", "Body") {
						okT = true
					}
				}
			}
		}
		r.Check(okT, "C08-R3", "Blockchain.ResetTo|collects Body.Transactions of removed blocks", p.Pos(rt.Pos()), "append from block.Body.Transactions", "reverted transactions are not collected")
		for _, id := range []string{"database.Repo.RemoveHeader", "database.Repo.RemoveCanonicalHash"} {
			r.Check(len(callsTo(rt, id)) > 0, "C08-R3", "Blockchain.ResetTo|"+id, p.Pos(rt.Pos()), "stored index of the abandoned block removed", "abandoned block's index entry is kept")
		}
	}
	// every abandoned height loses its header and canonical entry, whatever the block looks like: the
	// removals are controlled only by the presence of a canonical hash
	if rt := mustFunc(p, r, "blockchain", "Blockchain.ResetTo"); rt != nil {
		for _, c := range callsTo(rt, "database.Repo.RemoveHeader", "database.Repo.RemoveCanonicalHash") {
			var foreign []string
			hdr := engine.LoopHeaderOf(c.Block())
			if hdr == nil {
				r.Bad("C08-R3", "Blockchain.ResetTo|"+calleeShort(c)+" for every abandoned height with a canonical entry", p.InstrPos(c), "the removal is not inside the loop over the abandoned heights")
				continue
			}
			lb := loopBlocks(hdr)
			for _, iff := range engine.Ifs(rt) {
				if !lb[iff.Block()] || iff.Block() == hdr {
					continue
				}
				for s := 0; s < 2; s++ {
					// a branch that can reach the next iteration without the removal
					if iff.Block().Succs[s] == c.Block() || !engine.ReachAvoiding(rt, iff.Block().Succs[s], nil, map[*ssa.BasicBlock]bool{c.Block(): true})[hdr] {
						continue
					}
					// allowed conditions depend only on the canonical hash
					sl := engine.BackSlice(iff.Cond, engine.DefaultSlice)
					for v := range sl {
						if cc, ok := v.(*ssa.Call); ok {
							if engine.CallNameIs(cc, "GetBlock", "GetBlockByHeight", "IsEmpty", "GetBlockHeaderByHeight", "ReadBlockHeader") {
								foreign = append(foreign, calleeShort(cc)+" (branch at "+p.InstrPos(iff)+")")
							}
						}
					}
				}
			}
			sort.Strings(foreign)
			r.Check(len(foreign) == 0, "C08-R3", "Blockchain.ResetTo|"+calleeShort(c)+" for every abandoned height with a canonical entry", p.InstrPos(c), "controlled only by the canonical hash lookup", "the removal depends on the abandoned block itself ("+strings.Join(dedup(foreign), ", ")+"): some abandoned blocks keep their header / height entry — heights above a shorter adopted fork still resolve to phantom blocks")
		}
	}
	r.Floor("C08-R3", 12, "read")
	// ---------------- R6: while a fork is validated the validator view follows the fork; the stored diffs follow the adopted branch
	appStateRefreshRule(p, r, "C08-R6", map[string]bool{"AppState.FinalizePrecommit": true})
	insertBlockStoresDiffRule(p, r, "C08-R6")
	subChainOnCheckStateRule(p, r, "C08-R6")
	everyElementWrittenRule(p, r, "C08-R6", "blockchain", "Blockchain.WriteTxIndex", "database.Repo.WriteTxIndex", "some transaction of an inserted block gets no index record (e.g. because one exists already): after a reorg a transaction mined on both branches stays indexed to the abandoned block, whose header is gone — the stored indexes are not those of a node that followed the fork from the start")
	// the validator view a fork is judged against: built over the check state's own registry, rebuilt from empty
	importRules(p, r, "C10", map[string]string{"C10-R4": "C08-R7", "C10-R6": "C08-R7"})
	r.Floor("C08-R6", 3, "FinalizePrecommit, Precommit, insertBlock")
}
