package props

import (
	"fmt"
	"go/ast"
	"go/token"
	"go/types"
	"regexp"
	"sort"
	"strings"

	"golang.org/x/tools/go/ssa"

	"idenaverif/internal/engine"
)

// ---------------------------------------------------------------- analysis A (DESIGN §2.A)

type detSite struct {
	fn      *ssa.Function
	kind    string // maprange | unordered-slice | callback
	expr    string // ranged expression (access path)
	pos     string
	effects []string
	idiom   string // auto-discharging idiom, "" if none
	why     string
}

func (s *detSite) key() string { return engine.RelName(s.fn) + "|" + s.kind + " " + s.expr }

// detReach computes the reach set of the entries: static calls, interface invokes (CHA),
// closures lexically; log/ and stats/ are cut.
func detReach(p *engine.Prog, entries []*ssa.Function) map[*ssa.Function]bool {
	return p.Reach(entries, engine.ReachOpts{RepoOnly: true, NoFuncValueCHA: true, Cut: isNonConsensusSink})
}

// loopBlocks: natural loop of header h (blocks dominated by h that can reach h).
func loopBlocks(h *ssa.BasicBlock) map[*ssa.BasicBlock]bool {
	fn := h.Parent()
	out := map[*ssa.BasicBlock]bool{h: true}
	// blocks that reach a back-edge source
	for _, pr := range h.Preds {
		if !h.Dominates(pr) {
			continue
		}
		// backward walk from pr until h
		work := []*ssa.BasicBlock{pr}
		for len(work) > 0 {
			b := work[len(work)-1]
			work = work[:len(work)-1]
			if out[b] {
				continue
			}
			out[b] = true
			for _, q := range b.Preds {
				work = append(work, q)
			}
		}
	}
	_ = fn
	return out
}

// valueRootedIn: the address/value is rooted at an allocation made inside blocks.
func rootedInBlocks(v ssa.Value, blocks map[*ssa.BasicBlock]bool) bool {
	for i := 0; i < 30; i++ {
		switch x := v.(type) {
		case *ssa.Alloc:
			return blocks[x.Block()]
		case *ssa.FieldAddr:
			v = x.X
		case *ssa.IndexAddr:
			v = x.X
		case *ssa.UnOp:
			v = x.X
		case *ssa.MakeMap:
			return blocks[x.Block()]
		case *ssa.MakeSlice:
			return blocks[x.Block()]
		case *ssa.Call:
			// value produced by a call inside the loop (fresh object or loaded from state: unknown)
			return false
		case *ssa.Phi:
			return false
		default:
			return false
		}
	}
	return false
}

func describeAddr(v ssa.Value) string {
	switch x := v.(type) {
	case *ssa.Alloc:
		if x.Comment != "" {
			return "local:" + x.Comment
		}
		return "local"
	case *ssa.FreeVar:
		return "captured:" + x.Name()
	case *ssa.Global:
		return "global:" + x.Name()
	case *ssa.FieldAddr:
		o, f, _ := engine.FieldOf(x)
		return "field:" + o + "." + f
	case *ssa.IndexAddr:
		return "elem(" + describeAddr(x.X) + ")"
	case *ssa.UnOp:
		return describeAddr(x.X)
	}
	return "mem"
}

// effectsOf computes the order-relevant effects of the instructions in blocks (a loop body)
// or of a whole callback function (blocks == nil => all blocks; "outer" = free variables,
// parameters' pointees, globals).
func effectsOf(p *engine.Prog, fn *ssa.Function, blocks map[*ssa.BasicBlock]bool, header *ssa.BasicBlock) []string {
	sm := getStateModel(p)
	mm := mayMutate(p)
	eff := map[string]bool{}
	in := func(b *ssa.BasicBlock) bool { return blocks == nil || blocks[b] }
	local := func(v ssa.Value) bool {
		if blocks == nil {
			// callback: locals of the closure are per-invocation
			for i := 0; i < 30; i++ {
				switch x := v.(type) {
				case *ssa.Alloc:
					return true
				case *ssa.FieldAddr:
					v = x.X
					continue
				case *ssa.IndexAddr:
					v = x.X
					continue
				case *ssa.MakeMap, *ssa.MakeSlice:
					return true
				}
				return false
			}
			return false
		}
		return rootedInBlocks(v, blocks)
	}
	for _, b := range fn.Blocks {
		if !in(b) {
			continue
		}
		for _, ins := range b.Instrs {
			switch x := ins.(type) {
			case *ssa.Store:
				if local(x.Addr) {
					continue
				}
				if blocks != nil && iterationPrivateCell(x.Addr, blocks) {
					continue
				}
				if statsOwned(x.Addr) {
					continue
				}
				// spill of parameters / named results at entry is not an effect
				if _, isPar := x.Val.(*ssa.Parameter); isPar && blocks == nil {
					continue
				}
				d := describeAddr(x.Addr)
				if isFloat(x.Val.Type()) {
					d += ":float"
				}
				eff["store:"+d] = true
			case *ssa.MapUpdate:
				if local(x.Map) {
					continue
				}
				eff["mapupdate:"+describeAddr(x.Map)] = true
			case *ssa.Send:
				eff["chansend"] = true
			case *ssa.Go:
				eff["go"] = true
			case *ssa.Return:
				if blocks != nil {
					kind := "const"
					for _, rv := range x.Results {
						if _, isC := rv.(*ssa.Const); !isC {
							kind = "value"
						}
					}
					eff["exit:return("+kind+")"] = true
				}
			case ssa.CallInstruction:
				cc := x.Common()
				if bi, ok := cc.Value.(*ssa.Builtin); ok {
					switch bi.Name() {
					case "delete":
						if !local(cc.Args[0]) {
							eff["mapdelete:"+describeAddr(cc.Args[0])] = true
						}
					case "append":
						// effect is visible through the store / phi that takes the result
						if v, isV := ins.(ssa.Value); isV && escapesIteration(v, blocks, header) {
							eff["append"] = true
						}
					case "copy":
						if !local(cc.Args[0]) {
							eff["copy-into-outer"] = true
						}
					}
					continue
				}
				id := engine.CallID(x)
				if name, ws, ok := sm.mutatorCall(x); ok {
					kc := "other"
					if ps := engine.Params(x); len(ps) > 0 {
						for i := 0; i < len(ps) && i < 2; i++ {
							if blocks != nil && dependsOnIterVarIn(ps[i], blocks) {
								kc = "key"
							}
							if blocks == nil && dependsOnParam(ps[i], fn) {
								kc = "key"
							}
						}
					}
					perObject := true
					for _, w := range ws {
						if strings.HasPrefix(w, "Global.") && !strings.HasSuffix(w, "[]") || strings.HasPrefix(w, "IdentityStatusSwitch.") || strings.HasPrefix(w, "DelegationSwitch.") || strings.HasPrefix(w, "DelayedPenalties.") || strings.HasPrefix(w, "BurntCoins.") {
							perObject = false
						}
					}
					if kc == "key" && perObject {
						eff["mutkeyed:"+name] = true
					} else {
						eff["mut:"+name+"("+kc+"){"+strings.Join(ws, ",")+"}"] = true
					}
					continue
				}
				// a pseudo-random generator that lives across iterations: every draw depends on how many draws
				// earlier iterations made, i.e. on the iteration order
				for _, a := range engine.CallArgs(x) {
					if nn := engine.NamedOf(a.Type()); nn != nil && nn.Obj().Pkg() != nil && nn.Obj().Pkg().Path() == "math/rand" && nn.Obj().Name() == "Rand" && !local(a) {
						eff["sharedrng"] = true
					}
				}
				o := engine.CalleeObj(cc)
				if o != nil && o.Pkg() != nil {
					pp := o.Pkg().Path()
					switch {
					case pp == "math/big":
						args := engine.CallArgs(x)
						if len(args) > 0 && !local(args[0]) && bigMutating(o.Name()) {
							kind := "bigint-acc"
							if strings.Contains(args[0].Type().String(), "Float") {
								kind = "bigfloat-acc"
							}
							eff[kind+":"+o.Name()] = true
						}
						continue
					case pp == "github.com/deckarep/golang-set":
						switch o.Name() {
						case "Add", "Remove":
							if args := engine.CallArgs(x); len(args) > 0 && !local(args[0]) {
								eff["set"+strings.ToLower(o.Name())] = true
							}
						}
						continue
					case pp == "github.com/shopspring/decimal" || pp == "sort" || pp == "bytes" || pp == "strings" || pp == "fmt" || pp == "errors" || pp == "github.com/pkg/errors" || pp == "math" || pp == "encoding/binary" || pp == "encoding/hex" || pp == "strconv":
						continue
					case pp == "time":
						continue // judged by A1/A2
					}
					if !engine.IsRepoPkg(o.Pkg()) {
						// other third-party / std calls: not modelled
						if o.Name() == "Store" || o.Name() == "Set" || o.Name() == "Delete" || o.Name() == "Write" || o.Name() == "Remove" {
							eff["ext:"+id] = true
						}
						continue
					}
				}
				// repo callee
				if !cc.IsInvoke() && cc.StaticCallee() == nil {
					eff["callback"] = true
					continue
				}
				targets := p.SiteCallees(x)
				impure := ""
				for _, t := range targets {
					if isNonConsensusSink(t) || isPureUtility(sm, t) {
						continue
					}
					if isSortedInsertHelper(t) {
						impure = "sortedinsert:" + engine.RelName(t)
						continue
					}
					if mm[t] {
						impure = "callmut:" + engine.RelName(t)
						break
					}
					if writesOuter(p, t, 0, map[*ssa.Function]bool{}) {
						impure = "callw:" + engine.RelName(t)
						break
					}
				}
				if impure != "" {
					eff[impure] = true
				}
			}
		}
	}
	// loop-carried values
	if header != nil {
		for _, ins := range header.Instrs {
			ph, ok := ins.(*ssa.Phi)
			if !ok {
				continue
			}
			if strings.Contains(ph.Comment, "rangeindex") || strings.Contains(ph.Comment, "rangeiter") {
				continue
			}
			// combine the kinds of all in-loop edges (an edge that carries the phi itself leaves the value
			// unchanged on that path); independent of the order in which the builder lists the edges
			kinds := map[string]bool{}
			for i, e := range ph.Edges {
				if !blocks[header.Preds[i]] {
					continue
				}
				if e == ssa.Value(ph) {
					continue
				}
				if k := carriedKind(e, ph); k != "same" {
					kinds[k] = true
				}
			}
			kind := "same"
			if ks := sortedKeys(kinds); len(ks) == 1 {
				kind = ks[0]
			} else if len(ks) > 1 {
				kind = "mixed(" + strings.Join(ks, ",") + ")"
			}
			if kind == "same" {
				continue
			}
			eff["carried:"+kind] = true
		}
		// early exit: an exit edge from a block other than the header
		for b := range blocks {
			if b == header {
				continue
			}
			for _, s := range b.Succs {
				if !blocks[s] {
					eff["earlyexit"] = true
				}
			}
		}
	}
	var out []string
	for k := range eff {
		out = append(out, k)
	}
	sort.Strings(out)
	return out
}

// isPureUtility: callees that cannot change consensus-relevant memory: read accessors of
// the state DBs (they only fill object caches), value utilities, codecs, hashes.
func isPureUtility(sm *stateModel, f *ssa.Function) bool {
	pk := engine.FuncPkg(f)
	if pk == nil {
		return true
	}
	sp := engine.ShortPkg(pk.Path())
	switch sp {
	case "common", "common/math", "common/hexutil", "common/bitutil", "crypto", "crypto/sha3", "crypto/ecies", "crypto/vrf", "crypto/vrf/p256", "crypto/secp256k1", "rlp", "blockchain/types", "blockchain/attachments", "blockchain/fee", "config", "protobuf", "common/eventbus", "common/maputil", "ipfs", "secstore":
		return true
	case "core/state":
		if f.Signature.Recv() != nil {
			if rn := engine.NamedOf(f.Signature.Recv().Type()); rn != nil && (rn.Obj().Name() == "StateDB" || rn.Obj().Name() == "IdentityStateDB") {
				top := f
				isMut := false
				if sm != nil {
					_, isMut = sm.mutators[top]
				}
				if !isMut {
					switch f.Name() {
					case "Precommit", "Commit", "CommitTree", "Reset", "Clear", "AddDiff", "ResetTo", "Load", "SetPredefinedState", "RecoverSnapshot2", "CommitSnapshot2", "DropSnapshot2", "SwitchTree", "FlushToDisk":
						return false
					}
					return true
				}
			}
		}
	case "core/validators":
		// read accessors of the validators cache
		switch f.Name() {
		case "Load", "UpdateFromIdentityStateDiff", "RefreshIfUpdated", "loadValidNodes", "setApproved", "add", "Clone":
			return false
		}
		return true
	}
	return false
}

func bigMutating(name string) bool {
	switch name {
	case "Add", "Sub", "Mul", "Quo", "Div", "Set", "SetInt64", "SetUint64", "Neg", "Mod", "Exp", "SetFloat64", "SetInt", "SetBytes", "Sqrt", "Lsh", "Rsh", "Or", "And":
		return true
	}
	return false
}

func isFloat(t types.Type) bool {
	b, ok := t.Underlying().(*types.Basic)
	return ok && b.Info()&types.IsFloat != 0
}

// escapesIteration: the value flows to a header phi (loop-carried) or is stored outside.
func escapesIteration(v ssa.Value, blocks map[*ssa.BasicBlock]bool, header *ssa.BasicBlock) bool {
	if v.Referrers() == nil {
		return false
	}
	for _, ref := range *v.Referrers() {
		switch x := ref.(type) {
		case *ssa.Phi:
			return true
		case *ssa.Store:
			if x.Val == v && (blocks == nil || !rootedInBlocks(x.Addr, blocks)) && !statsOwned(x.Addr) {
				return true
			}
		case *ssa.MapUpdate:
			if x.Value == v {
				return true
			}
		case *ssa.Return:
			return true
		}
	}
	return false
}

func carriedKind(e ssa.Value, ph *ssa.Phi) string { return carriedKindD(e, ph, 0) }

func carriedKindD(e ssa.Value, ph *ssa.Phi, depth int) string {
	if depth > 6 {
		return "same"
	}
	switch x := e.(type) {
	case *ssa.BinOp:
		if isFloat(x.Type()) {
			return "float"
		}
		switch x.Op {
		case token.ADD, token.OR, token.AND, token.XOR, token.MUL:
			if b, ok := x.Type().Underlying().(*types.Basic); ok && b.Info()&(types.IsInteger|types.IsBoolean) != 0 {
				return "int"
			}
			if b, ok := x.Type().Underlying().(*types.Basic); ok && b.Info()&types.IsString != 0 {
				return "stringconcat"
			}
		}
		return "binop"
	case *ssa.Call:
		if bi, ok := x.Call.Value.(*ssa.Builtin); ok {
			return bi.Name()
		}
		if id := engine.CallID(x); id != "" {
			return "call:" + id
		}
		return "call"
	case *ssa.Phi:
		// nested join: look one level
		k := ""
		for _, e2 := range x.Edges {
			if e2 == ssa.Value(ph) {
				continue
			}
			if e2 == ssa.Value(x) {
				continue
			}
			k2 := carriedKindD(e2, ph, depth+1)
			if k2 == "same" {
				continue
			}
			if k == "" {
				k = k2
			} else if k != k2 {
				return "mixed(" + k + "," + k2 + ")"
			}
		}
		if k == "" {
			return "same"
		}
		return k
	case *ssa.Const:
		if isBasic(x.Type()) {
			if b := x.Type().Underlying().(*types.Basic); b.Info()&types.IsBoolean != 0 {
				return "int" // monotone flag
			}
		}
		return "const"
	}
	return "other"
}

func isBasic(t types.Type) bool {
	_, ok := t.Underlying().(*types.Basic)
	return ok
}

var woMemo = map[*ssa.Function]int{} // 0 unknown, 1 no, 2 yes

// writesOuter: the function (transitively, depth <= 4) stores to memory that is not a local
// allocation: fields of its receiver/parameters, globals, captured variables, outer maps.
func writesOuter(p *engine.Prog, f *ssa.Function, depth int, stack map[*ssa.Function]bool) bool {
	if v := woMemo[f]; v != 0 {
		return v == 2
	}
	if stack[f] || depth > 4 || len(f.Blocks) == 0 {
		return false
	}
	stack[f] = true
	defer delete(stack, f)
	res := false
	localRoot := func(v ssa.Value) bool {
		for i := 0; i < 30; i++ {
			switch x := v.(type) {
			case *ssa.Alloc:
				return true
			case *ssa.MakeMap, *ssa.MakeSlice:
				return true
			case *ssa.FieldAddr:
				v = x.X
				continue
			case *ssa.IndexAddr:
				v = x.X
				continue
			}
			return false
		}
		return false
	}
outer:
	for _, b := range f.Blocks {
		for _, ins := range b.Instrs {
			switch x := ins.(type) {
			case *ssa.Store:
				if !localRoot(x.Addr) {
					// atomic.Value caches (hash memo) are written through method calls, not stores
					res = true
					break outer
				}
			case *ssa.MapUpdate:
				if !localRoot(x.Map) {
					res = true
					break outer
				}
			case *ssa.Send:
				res = true
				break outer
			case ssa.CallInstruction:
				if bi, ok := x.Common().Value.(*ssa.Builtin); ok && bi.Name() == "delete" && !localRoot(x.Common().Args[0]) {
					res = true
					break outer
				}
				if o := engine.CalleeObj(x.Common()); o != nil && o.Pkg() != nil && o.Pkg().Path() == "math/big" && bigMutating(o.Name()) {
					if args := engine.CallArgs(x); len(args) > 0 && !localRoot(args[0]) {
						if _, isCall := args[0].(*ssa.Call); !isCall { // new(big.Int).Add(...) is fresh
							res = true
							break outer
						}
					}
				}
				for _, t := range p.SiteCallees(x) {
					if pk := engine.FuncPkg(t); pk == nil || !engine.IsRepoPkg(pk) || isNonConsensusSink(t) {
						continue
					}
					if writesOuter(p, t, depth+1, stack) {
						res = true
						break outer
					}
				}
			}
		}
	}
	if depth == 0 || res {
		if res {
			woMemo[f] = 2
		} else {
			woMemo[f] = 1
		}
	}
	return res
}

// isUnorderedSourceCall: calls whose result/callback order is unspecified.
func unorderedCallKind(c ssa.CallInstruction) string {
	o := engine.CalleeObj(c.Common())
	if o == nil || o.Pkg() == nil {
		return ""
	}
	switch o.Pkg().Path() {
	case "github.com/deckarep/golang-set":
		switch o.Name() {
		case "ToSlice":
			return "slice"
		case "Each":
			return "callback"
		case "Iter", "Iterator", "Pop":
			return "iter"
		}
	case "sync":
		if o.Name() == "Range" {
			return "callback"
		}
	}
	return ""
}

var astIndexCache = map[*engine.Prog]*astIndex{}

type astIndex struct {
	rangeAt map[token.Pos]*ast.RangeStmt
	callAt  map[token.Pos]*ast.CallExpr
	indexAt map[token.Pos]*ast.IndexExpr
}

func getASTIndex(p *engine.Prog) *astIndex {
	if ix, ok := astIndexCache[p]; ok {
		return ix
	}
	ix := &astIndex{rangeAt: map[token.Pos]*ast.RangeStmt{}, callAt: map[token.Pos]*ast.CallExpr{}, indexAt: map[token.Pos]*ast.IndexExpr{}}
	for _, pk := range p.Repo {
		for _, f := range pk.Syntax {
			ast.Inspect(f, func(n ast.Node) bool {
				switch x := n.(type) {
				case *ast.RangeStmt:
					ix.rangeAt[x.For] = x
				case *ast.CallExpr:
					ix.callAt[x.Lparen] = x
				case *ast.IndexExpr:
					ix.indexAt[x.Lbrack] = x
				}
				return true
			})
		}
	}
	astIndexCache[p] = ix
	return ix
}

// srcExprOfRange: source text of the ranged expression (stable under unrelated edits).
func srcExprOfRange(p *engine.Prog, r *ssa.Range) string {
	if rs := getASTIndex(p).rangeAt[r.Pos()]; rs != nil {
		return types.ExprString(rs.X)
	}
	return engine.PathOf(r.X)
}

// srcExprOfCallShort: callee expression only (callbacks have long literal arguments).
func srcExprOfCallShort(p *engine.Prog, c ssa.CallInstruction) string {
	if ce := getASTIndex(p).callAt[c.Pos()]; ce != nil {
		return types.ExprString(ce.Fun)
	}
	return engine.CallID(c)
}

var curRangeKey *ssa.Range

func srcExprOfCall(p *engine.Prog, c ssa.CallInstruction) string {
	if ce := getASTIndex(p).callAt[c.Pos()]; ce != nil {
		return types.ExprString(ce)
	}
	return engine.CallID(c)
}

// detSites enumerates the unordered-iteration sites of fn.
func detSites(p *engine.Prog, fn *ssa.Function, srcFuncs map[*ssa.Function]bool) []*detSite {
	var out []*detSite
	for _, b := range fn.Blocks {
		for _, ins := range b.Instrs {
			switch x := ins.(type) {
			case *ssa.Range:
				if _, isMap := x.X.Type().Underlying().(*types.Map); !isMap {
					continue
				}
				var hdr *ssa.BasicBlock
				for _, ref := range *x.Referrers() {
					if nx, ok := ref.(*ssa.Next); ok {
						hdr = nx.Block()
					}
				}
				if hdr == nil {
					continue
				}
				lb := loopBlocks(hdr)
				s := &detSite{fn: fn, kind: "maprange", expr: srcExprOfRange(p, x), pos: p.InstrPos(x)}
				curRangeKey = x
				s.effects = effectsOf(p, fn, lb, hdr)
				s.classify(p, lb, hdr)
				out = append(out, s)
			case ssa.CallInstruction:
				kind := unorderedCallKind(x)
				if kind == "" {
					if cal := x.Common().StaticCallee(); cal != nil && srcFuncs[cal] {
						kind = "slice"
					}
				}
				switch kind {
				case "slice":
					v, ok := ins.(ssa.Value)
					if !ok {
						continue
					}
					// loops indexing the returned slice
					hdrs := map[*ssa.BasicBlock]bool{}
					var visit func(v ssa.Value, d int)
					visit = func(v ssa.Value, d int) {
						if d > 3 || v.Referrers() == nil {
							return
						}
						for _, ref := range *v.Referrers() {
							switch y := ref.(type) {
							case *ssa.IndexAddr:
								if h := engine.LoopHeaderOf(y.Block()); h != nil {
									hdrs[h] = true
								}
							case *ssa.Index:
								if h := engine.LoopHeaderOf(y.Block()); h != nil {
									hdrs[h] = true
								}
							case *ssa.Extract, *ssa.ChangeType, *ssa.Slice, *ssa.Phi:
								visit(ref.(ssa.Value), d+1)
							case *ssa.Store:
								// stored into a local then reloaded
								if a, ok := y.Addr.(*ssa.Alloc); ok && y.Val == v {
									for _, r2 := range *a.Referrers() {
										if u, ok := r2.(*ssa.UnOp); ok {
											visit(u, d+1)
										}
									}
								}
							}
						}
					}
					visit(v, 0)
					name := srcExprOfCall(p, x)
					if len(hdrs) == 0 {
						// the unordered slice escapes (returned / passed on) without being iterated here
						s := &detSite{fn: fn, kind: "unordered-slice", expr: name + " (not iterated here)", pos: p.InstrPos(x)}
						s.effects = []string{"escapes"}
						if sortedAfter(fn, v) {
							s.idiom, s.why = "I1", "sorted before use"
						}
						out = append(out, s)
					}
					for h := range hdrs {
						lb := loopBlocks(h)
						s := &detSite{fn: fn, kind: "unordered-slice", expr: name, pos: p.InstrPos(x)}
						s.effects = effectsOf(p, fn, lb, h)
						s.classify(p, lb, h)
						if s.idiom == "" && sortedAfter(fn, v) {
							s.idiom, s.why = "I1", "slice sorted before the loop"
						}
						out = append(out, s)
					}
				case "callback", "iter":
					args := engine.CallArgs(x)
					s := &detSite{fn: fn, kind: "callback", expr: srcExprOfCallShort(p, x), pos: p.InstrPos(x)}
					var cb *ssa.Function
					for _, a := range args[1:] {
						switch y := a.(type) {
						case *ssa.MakeClosure:
							cb, _ = y.Fn.(*ssa.Function)
						case *ssa.Function:
							cb = y
						}
					}
					if cb != nil {
						s.effects = effectsOf(p, cb, nil, nil)
						// a callback returning false stops the iteration: early exit
						for _, ret := range engine.Returns(cb) {
							if len(ret.Results) == 1 {
								if bv, isB := engine.ConstBool(ret.Results[0]); !isB || !bv {
									s.effects = append(s.effects, "earlystop")
									break
								}
							}
						}
						sort.Strings(s.effects)
						s.classify(p, nil, nil)
					} else {
						s.effects = []string{"unknown-callback"}
					}
					out = append(out, s)
				}
			}
		}
	}
	return out
}

// sortedAfter: value v (a slice) is passed to a sort.* call in fn.
func sortedAfter(fn *ssa.Function, v ssa.Value) bool {
	for _, c := range engine.Calls(fn) {
		o := engine.CalleeObj(c.Common())
		if o == nil || o.Pkg() == nil || o.Pkg().Path() != "sort" {
			continue
		}
		args := c.Common().Args
		if len(args) == 0 {
			continue
		}
		sl := engine.BackSlice(args[0], engine.DefaultSlice)
		if sl[v] {
			return true
		}
	}
	return false
}

// classify sets idiom when the effect set is order-insensitive by construction.
func (s *detSite) classify(p *engine.Prog, lb map[*ssa.BasicBlock]bool, hdr *ssa.BasicBlock) {
	only := func(allowed func(e string) bool) bool {
		for _, e := range s.effects {
			if !allowed(e) {
				return false
			}
		}
		return true
	}
	pre := func(e string, ps ...string) bool {
		for _, x := range ps {
			if strings.HasPrefix(e, x) {
				return true
			}
		}
		return false
	}
	switch {
	case len(s.effects) == 0:
		s.idiom, s.why = "I0", "no effect outside the iteration"
	case only(func(e string) bool { return pre(e, "carried:int", "exit:return(const)", "earlyexit") }) && !hasEff(s.effects, "carried:int"):
		s.idiom, s.why = "I5", "pure search returning a constant"
	case only(func(e string) bool { return pre(e, "carried:int") }):
		s.idiom, s.why = "I0", "integer/boolean accumulation only (commutative)"
	case only(func(e string) bool {
		return pre(e, "mapupdate:", "mapdelete:", "setadd", "setremove", "carried:int", "bigint-acc:Add", "bigint-acc:Sub", "mutkeyed:")
	}):
		s.idiom, s.why = "I3", "keyed / idempotent / exact-integer writes only"
	case only(func(e string) bool { return pre(e, "append", "carried:append", "carried:int", "store:local") }) && s.sortedCollect(lb, hdr):
		s.idiom, s.why = "I1", "collect then sort"
	case hasEff(s.effects, "sortedinsert:") && only(func(e string) bool { return pre(e, "sortedinsert:", "carried:call", "carried:int", "store:local") }):
		s.idiom, s.why = "I2", "sorted insert (position found by sort.Search on the key): result independent of insertion order for distinct keys"
	}
}

func hasEff(es []string, prefix string) bool {
	for _, e := range es {
		if strings.HasPrefix(e, prefix) {
			return true
		}
	}
	return false
}

// sortedCollect: the slice(s) appended to in the loop reach a sort.* call after the loop.
func (s *detSite) sortedCollect(lb map[*ssa.BasicBlock]bool, hdr *ssa.BasicBlock) bool {
	if hdr == nil {
		return false
	}
	fn := s.fn
	// collected slices: header phis of slice type, and outer allocs stored with append results
	var collected []ssa.Value
	for _, ins := range hdr.Instrs {
		if ph, ok := ins.(*ssa.Phi); ok {
			if _, isSl := ph.Type().Underlying().(*types.Slice); isSl {
				collected = append(collected, ph)
			}
		}
	}
	for b := range lb {
		for _, ins := range b.Instrs {
			if st, ok := ins.(*ssa.Store); ok {
				if _, isSl := st.Val.Type().Underlying().(*types.Slice); isSl && !rootedInBlocks(st.Addr, lb) {
					collected = append(collected, st.Addr)
				}
			}
		}
	}
	if len(collected) == 0 {
		return false
	}
	for _, cv := range collected {
		found := false
		for _, c := range engine.Calls(fn) {
			o := engine.CalleeObj(c.Common())
			if o == nil || o.Pkg() == nil || o.Pkg().Path() != "sort" || lb[c.Block()] {
				continue
			}
			args := c.Common().Args
			if len(args) == 0 {
				continue
			}
			sl := engine.BackSlice(args[0], engine.DefaultSlice)
			if sl[cv] {
				found = true
			}
		}
		if !found {
			return false
		}
	}
	return true
}

// returnsUnsortedCollection: fn has an unordered loop whose collected slice is returned
// without a sort: fn is itself an unordered source for its callers.
func returnsUnordered(p *engine.Prog, fn *ssa.Function, sites []*detSite) bool {
	for _, s := range sites {
		if s.idiom != "" {
			continue
		}
		if !(hasEff(s.effects, "append") || hasEff(s.effects, "carried:append") || hasEff(s.effects, "escapes")) {
			continue
		}
		for _, ret := range engine.Returns(fn) {
			for _, rv := range ret.Results {
				if _, isSl := rv.Type().Underlying().(*types.Slice); isSl {
					return true
				}
			}
		}
	}
	return false
}

// detAnalyse runs A1-A3 over the reach set and compares every site with the frozen table.
var curRule string

func detAnalyse(p *engine.Prog, r *engine.Report, rule string, entries []*ssa.Function, floor int) {
	curRule = rule
	reach := detReach(p, entries)
	r.ReachSize = len(reach)
	fns := engine.SortedFuncs(reach)
	// unordered source functions (fixpoint, 3 rounds)
	srcFuncs := map[*ssa.Function]bool{}
	siteCache := map[*ssa.Function][]*detSite{}
	for round := 0; round < 3; round++ {
		changed := false
		for _, f := range fns {
			sites := detSites(p, f, srcFuncs)
			siteCache[f] = sites
			if !srcFuncs[f] && returnsUnordered(p, f, sites) {
				srcFuncs[f] = true
				changed = true
			}
		}
		if !changed {
			break
		}
	}
	// callback iterators: functions that invoke one of their own func parameters inside an
	// unordered iteration (directly, or by passing it on to another callback iterator)
	cbIters := map[*ssa.Function]bool{}
	for round := 0; round < 4; round++ {
		changed := false
		for _, f := range fns {
			if cbIters[f] || !hasFuncParam(f) {
				continue
			}
			is := false
			for _, s := range siteCache[f] {
				if hasEff(s.effects, "callback") && s.kind != "callback-via" {
					is = true
				}
			}
			for _, c := range engine.Calls(f) {
				for _, t := range p.SiteCallees(c) {
					if cbIters[t] && passesOwnFuncParam(c, f) {
						is = true
					}
				}
			}
			if is {
				cbIters[f] = true
				changed = true
			}
		}
		if !changed {
			break
		}
	}
	// call sites of callback iterators with a closure literal: judge the closure
	for _, f := range fns {
		for _, c := range engine.Calls(f) {
			isIter := false
			for _, t := range p.SiteCallees(c) {
				if cbIters[t] {
					isIter = true
				}
			}
			if !isIter {
				continue
			}
			for _, a := range c.Common().Args {
				var cb *ssa.Function
				switch y := a.(type) {
				case *ssa.MakeClosure:
					cb, _ = y.Fn.(*ssa.Function)
				case *ssa.Function:
					cb = y
				}
				if cb == nil {
					continue
				}
				s := &detSite{fn: f, kind: "callback-via", expr: srcExprOfCallShort(p, c), pos: p.InstrPos(c)}
				s.effects = effectsOf(p, cb, nil, nil)
				for _, ret := range engine.Returns(cb) {
					if len(ret.Results) == 1 {
						if bv, isB := engine.ConstBool(ret.Results[0]); !isB || bv {
							s.effects = append(s.effects, "earlystop")
							break
						}
					}
				}
				sort.Strings(s.effects)
				s.classify(p, nil, nil)
				siteCache[f] = append(siteCache[f], s)
			}
		}
	}
	n := 0
	for _, f := range fns {
		for _, s := range siteCache[f] {
			n++
			r.Fn(engine.FuncName(f))
			key := s.key()
			fp := strings.Join(s.effects, " ")
			if s.idiom != "" {
				r.OK(rule+"/A3", key, s.pos, s.idiom+": "+s.why+" ["+fp+"]")
				continue
			}
			if srcFuncs[f] && onlyCollects(s) {
				r.OK(rule+"/A3", key, s.pos, "I-src: collects into a returned slice in unspecified order; every loop over the result is judged as unordered at the callers ["+fp+"]")
				continue
			}
			if cbIters[f] && hasEff(s.effects, "callback") && onlyCallbackPlumbing(s) {
				r.OK(rule+"/A3", key, s.pos, "I-cb: invokes the caller's callback in unspecified order; the callbacks passed at the call sites are judged ["+fp+"]")
				continue
			}
			ents, ok := detTable[rule+":"+key]
			if !ok {
				ents, ok = detTable[key]
			}
			if ok {
				matched := false
				var fps []string
				for _, ent := range ents {
					fps = append(fps, ent.fp)
					if ent.fp == fp {
						r.OK(rule+"/A3", key, s.pos, "confirmed instance: "+ent.reason+" ["+fp+"]")
						matched = true
						break
					}
				}
				if !matched {
					r.Bad(rule+"/A3", key, s.pos, "effects of this unordered iteration changed since it was confirmed order-insensitive: now ["+fp+"], confirmed ["+strings.Join(fps, " | ")+"]")
				}
				continue
			}
			// a confirmed instance that moved (enclosing function extracted / renamed): the same loop is
			// recognised by its effect fingerprint (closure names normalised) together with either the same
			// ranged expression or a named callee in the fingerprint; anything else stays a new case
			if ent, from, okM := movedInstance(key, fp); okM {
				r.OK(rule+"/A3", key, s.pos, "confirmed instance (moved from "+from+"): "+ent.reason+" ["+fp+"]")
				continue
			}
			r.Bad(rule+"/A3", key, s.pos, "iteration in unspecified order with order-relevant effects ["+fp+"] (no sort / keyed-write idiom recognised, not a confirmed instance)")
		}
	}
	if floor > 0 {
		r.Floor(rule+"/A3", floor, "unordered-iteration sites in the reach set")
	}
	detSources(p, r, rule, fns)
	if len(srcFuncs) > 0 {
		var ns []string
		for f := range srcFuncs {
			ns = append(ns, engine.RelName(f))
		}
		sort.Strings(ns)
		r.Notes = append(r.Notes, fmt.Sprintf("%s: functions returning collections in unspecified order (their callers' loops are judged as unordered): %s", rule, strings.Join(ns, ", ")))
	}
}

type detEntry struct{ fp, reason string }

var closureNameRe = regexp.MustCompile(`[A-Za-z_][A-Za-z0-9_.]*\$[0-9]+`)

// movedInstance looks for a table entry that describes the same loop under another enclosing
// function: equal fingerprints after normalising closure names, plus the same "kind expr" part of the
// key or a named (non-closure) callee in the fingerprint.
func movedInstance(key, fp string) (detEntry, string, bool) {
	norm := func(x string) string { return closureNameRe.ReplaceAllString(x, "$$closure") }
	kindExpr := func(k string) string {
		if i := strings.Index(k, "|"); i >= 0 {
			return k[i+1:]
		}
		return k
	}
	named := false
	for _, tok := range strings.Fields(norm(fp)) {
		if (strings.HasPrefix(tok, "callmut:") || strings.HasPrefix(tok, "callw:")) && !strings.Contains(tok, "$closure") {
			named = true
		}
	}
	var keys []string
	for k := range detTable {
		keys = append(keys, k)
	}
	sort.Strings(keys)
	for _, k := range keys {
		for _, ent := range detTable[k] {
			if norm(ent.fp) != norm(fp) {
				continue
			}
			if kindExpr(k) == kindExpr(key) || named {
				return ent, k, true
			}
		}
	}
	return detEntry{}, "", false
}

// detTable: instances confirmed by reading (DESIGN appendix A); key = function|kind expr,
// fp = the effect fingerprint at confirmation time. A changed fingerprint re-opens the case.
var detTable = map[string][]detEntry{
	"Blockchain.switchPoolsToOffline|maprange lostPoolNodes": {{
		"callmut:switchOnePoolToOffline",
		"switchOnePoolToOffline(pool, nodes) writes only IdentityState.SetOnline(pool,false) for the range key and reads the validators cache, which is not modified in the loop; distinct pools are independent"}},
	"Blockchain.switchPoolsToOffline|unordered-slice appState.State.CollectKilledDelegators()": {{
		"callw:Blockchain.switchPoolsToOffline$1",
		"the closure appends addr to the per-pool list lostPoolNodes[pool]; the list is only counted by ValidatorsCache.PoolSizeExceptNodes (membership), so its internal order is irrelevant"}},
	"ValidationCeremony.ApplyNewEpoch|maprange applyingCache.epochApplyingResult": {{
		"callmut:applyOnState carried:int",
		"applyOnState writes only objects keyed by addr (balance/stake/state/score/birthday/delegation of addr, AddBalance to its delegatee is an exact commutative add); the one foreign read, State.Delegatee(*value.delegatee), depends on another iteration only along a delegation chain A->B->C->D of re-validated Suspended/Zombie/Candidate identities, which transaction validation does not allow to form (residual risk stated in DESIGN)"}},
	"ValidationCeremony.ApplyNewEpoch|maprange epochApplyingValues": {{
		"callmut:applyOnState carried:int mapupdate:mem",
		"same as the cached twin; pools[*pool] and nonValidatedStakes[addr] are keyed set/map writes"}},
	"ValidationCeremony.ApplyNewEpoch|maprange vc.shardCandidates": {{
		"callmut:applyOnState mapupdate:mem",
		"non-candidates are applied with missed=true, hence a state outside NewbieOrBetter (C17-R1): applyOnState then touches only addr's own objects; epochApplyingValues[addr] is keyed"}},
	"ValidationCeremony.analyzeAuthors|maprange badAuthors": {{
		"callw:reportersToReward.deleteFlip callw:reportersToReward.deleteReporter mapdelete:mem",
		"deletion-only (I7): delete(goodAuthors, author) is keyed, deleteReporter/deleteFlip only remove entries; monotone removals commute"}},
	"ValidationCeremony.analyzeAuthors|maprange nonQualifiedFlips": {{
		"mapupdate:mem store:field:AuthorResults.AllFlipsNotQualified",
		"every write is keyed by the range key author (badAuthors[author], authorResults[author].AllFlipsNotQualified, badAuthorsWithoutReport[author]) with constant values"}},
	"grades.deleteGrades|maprange g.byCandidate[candidateIdx]": {{
		"store:field:flipGrades.approveCnt store:field:flipGrades.cnt store:field:flipGrades.reportCnt store:field:flipGrades.totalScore",
		"integer decrements of the counters of g.byFlip[flipIdx], keyed by the range key; integer addition commutes"}},
	"UpgradeVotes.ToBytes|maprange uv.Dict": {{
		"append store:field:ProtoUpgradeVotes.Votes",
		"node-local bookkeeping of observed upgrade votes (database.Repo.WriteUpgradeVotes / ReadUpgradeVotes only): the decoder rebuilds the map, nothing hashes, signs or compares these bytes, so the element order of the encoding is unobservable"}},
	"GetAuthorsDistribution|maprange shards": {{
		"callw:appendAdditionalCandidates mapupdate:mem",
		"per-shard independent: shardLotteries[shardId] is keyed by the range key; appendAdditionalCandidates writes only the two maps created for this shard in this iteration and uses its own PRNG seeded from the lottery seed"}},
	"ValidationCeremony.calculateCeremonyCandidates|maprange vc.shardCandidates": {{
		"callw:GetFlipsDistribution store:field:candidatesOfShard.longFlipsPerCandidate store:field:candidatesOfShard.shortFlipsPerCandidate",
		"per-shard independent: the two result fields of the shard entry of the range key are assigned; GetFlipsDistribution writes only its own locals and uses a PRNG created per call from the lottery seed"}},
	"prepareBlockRewardCtx|unordered-slice finalCommittee.Original.ToSlice()": {{
		"sortedinsert:prepareBlockRewardCtx$2 store:field:blockRewardCtx.committee store:field:blockRewardCtx.totalStakeWeight",
		"committee is built by sorted insert on the address (I2). totalStakeWeight is a 256-bit big.Float sum accumulated in set order: the order can change the sum only by rounding in the last bits (<= n*2^-256 relative); no input that changes a reward after ToInt truncation could be exhibited, so this is a confirmed instance with stated residual risk, not a finding"}},
}

// detSources: A1 (nondeterminism sources) and A2 (host time zone).
func detSources(p *engine.Prog, r *engine.Report, rule string, fns []*ssa.Function) {
	zoneSensitive := map[string]bool{"Weekday": true, "Hour": true, "Minute": true, "Second": true, "Day": true, "Month": true, "Year": true, "YearDay": true, "Date": true, "Clock": true, "ISOWeek": true, "Format": true, "AppendFormat": true, "String": true, "Zone": true, "Local": true, "In": true, "Truncate": false}
	for _, f := range fns {
		for _, b := range f.Blocks {
			for _, ins := range b.Instrs {
				switch x := ins.(type) {
				case *ssa.Go:
					r.Check(detAllowed(rule, engine.RelName(f)+"|go"), rule+"/A1", engine.RelName(f)+"|go statement", p.InstrPos(x), "confirmed", "goroutine started on the state-transition path")
				case *ssa.Select:
					if len(x.States) > 1 {
						r.Check(detAllowed(rule, engine.RelName(f)+"|select"), rule+"/A1", engine.RelName(f)+"|select", p.InstrPos(x), "confirmed", "multi-way select on the state-transition path")
					}
				case ssa.CallInstruction:
					o := engine.CalleeObj(x.Common())
					if o == nil || o.Pkg() == nil {
						continue
					}
					pp, name := o.Pkg().Path(), o.Name()
					sig := o.Type().(*types.Signature)
					key := engine.RelName(f) + "|" + pp + "." + name
					switch {
					case pp == "time" && sig.Recv() == nil && (name == "Now" || name == "Since" || name == "Until" || name == "After" || name == "Tick" || name == "NewTimer" || name == "Sleep" || name == "NewTicker" || name == "AfterFunc"):
						ok, why := detAllowedWhy(rule, key)
						if ok {
							ok, why = srcSideCondition(p, key, f, fns)
						}
						if !ok {
							ok, why = timeOnlyToSinks(x), "value flows only to log/stats sinks"
						}
						r.Check(ok, rule+"/A1", key, p.InstrPos(x), why, "wall clock read on the state-transition path")
					case pp == "math/rand" && sig.Recv() == nil:
						switch name {
						case "New":
							// seeded iff source is rand.NewSource(x)
							src, isC := engine.Unwrap(x.Common().Args[0]).(*ssa.Call)
							ok := isC && engine.CallIs(src, "math/rand.NewSource")
							r.Check(ok, rule+"/A1", key, p.InstrPos(x), "PRNG seeded explicitly via rand.NewSource(seed)", "PRNG not seeded from an explicit source")
						case "NewSource":
							// seed must not come from the clock
							sl := engine.BackSlice(x.Common().Args[0], engine.DefaultSlice)
							ok := engine.SliceHasCall(sl, "time.Now") == nil
							r.Check(ok, rule+"/A1", key, p.InstrPos(x), "seed derived from data, not from the clock", "PRNG seeded from the wall clock")
						default:
							ok, why := detAllowedWhy(rule, key)
							if !ok && f.Parent() != nil && harmlessTaskClosure(p, f) {
								ok, why = true, "inside a deferred post-insert task closure whose only outer effect is a channel send (no state mutator reachable)"
							}
							r.Check(ok, rule+"/A1", key, p.InstrPos(x), why, "process-global math/rand source used on the state-transition path")
						}
					case pp == "crypto/rand":
						ok, why := detAllowedWhy(rule, key)
						r.Check(ok, rule+"/A1", key, p.InstrPos(x), why, "crypto/rand used on the state-transition path")
					case pp == "os" && (name == "Getenv" || name == "Hostname" || name == "Getpid"), pp == "runtime" && (name == "NumCPU" || name == "NumGoroutine" || name == "GOMAXPROCS"):
						ok, why := detAllowedWhy(rule, key)
						r.Check(ok, rule+"/A1", key, p.InstrPos(x), why, "host environment read on the state-transition path")
					case pp == "time" && sig.Recv() != nil && zoneSensitive[name]:
						// A2: receiver must be normalised to UTC
						recv := engine.CallArgs(x)[0]
						ok := utcNormalised(p, recv, f, 0)
						r.Check(ok, rule+"/A2", key, p.InstrPos(x), "receiver normalised to UTC", "zone-sensitive time.Time."+name+" on a value in the host's local zone (time.Unix yields local time): result differs between nodes in different time zones")
					}
				}
			}
		}
	}
}

// utcNormalised: the time value's backward slice (following parameters to callers) ends in
// .UTC(), .In(time.UTC) or time.Date(..., time.UTC).
func utcNormalised(p *engine.Prog, v ssa.Value, f *ssa.Function, depth int) bool {
	if depth > 4 {
		return false
	}
	v = engine.Origin(v)
	switch x := v.(type) {
	case *ssa.Call:
		id := engine.CallID(x)
		switch id {
		case "time.Time.UTC":
			return true
		case "time.Time.In", "time.Date":
			a := x.Call.Args
			if g, ok := engine.Origin(a[len(a)-1]).(*ssa.UnOp); ok {
				if gl, ok := g.X.(*ssa.Global); ok && gl.Name() == "UTC" {
					return true
				}
			}
			return false
		case "time.Time.Add", "time.Time.AddDate", "time.Time.Truncate", "time.Time.Round":
			return utcNormalised(p, x.Call.Args[0], f, depth)
		case "time.Unix", "time.Now", "time.UnixMilli":
			return false
		}
		// a repo function returning time.Time: all its returns must be normalised
		if cal := x.Call.StaticCallee(); cal != nil && engine.IsRepoPkg(engine.FuncPkg(cal)) {
			ok := false
			for _, ret := range engine.Returns(cal) {
				ok = true
				if !utcNormalised(p, ret.Results[0], cal, depth+1) {
					return false
				}
			}
			return ok
		}
		return false
	case *ssa.Parameter:
		args := p.ParamArgs(x)
		if len(args) == 0 {
			return false
		}
		for _, a := range args {
			par := a.Parent()
			if !utcNormalised(p, a, par, depth+1) {
				return false
			}
		}
		return true
	case *ssa.Phi:
		for _, e := range x.Edges {
			if !utcNormalised(p, e, f, depth+1) {
				return false
			}
		}
		return true
	}
	return false
}

// timeOnlyToSinks: the clock value is used only as an argument of log/stats calls (or
// time arithmetic whose result is).
func timeOnlyToSinks(c ssa.CallInstruction) bool {
	v, ok := c.(ssa.Value)
	if !ok {
		return false
	}
	seen := map[ssa.Value]bool{}
	var ok2 func(v ssa.Value, d int) bool
	ok2 = func(v ssa.Value, d int) bool {
		if d > 6 || seen[v] {
			return true
		}
		seen[v] = true
		if v.Referrers() == nil {
			return true
		}
		for _, ref := range *v.Referrers() {
			switch x := ref.(type) {
			case ssa.CallInstruction:
				if cal := x.Common().StaticCallee(); cal != nil && isNonConsensusSink(cal) && engine.FuncPkg(cal) != nil && engine.IsRepoPkg(engine.FuncPkg(cal)) {
					continue
				}
				o := engine.CalleeObj(x.Common())
				if o != nil && o.Pkg() != nil && o.Pkg().Path() == "time" {
					if rv, isV := ref.(ssa.Value); isV {
						if !ok2(rv, d+1) {
							return false
						}
						continue
					}
				}
				return false
			case *ssa.MakeInterface, *ssa.ChangeType, *ssa.Convert, *ssa.BinOp, *ssa.Extract:
				if !ok2(ref.(ssa.Value), d+1) {
					return false
				}
			case *ssa.DebugRef:
			default:
				return false
			}
		}
		return true
	}
	return ok2(v, 0)
}

type srcEntry struct {
	reason         string
	callersInReach []string // side condition: exactly these functions of the reach set call the function
}

// harmlessTaskClosure: the closure has no outer effect other than channel sends.
func harmlessTaskClosure(p *engine.Prog, f *ssa.Function) bool {
	for _, e := range effectsOf(p, f, nil, nil) {
		if e != "chansend" {
			return false
		}
	}
	return true
}

// srcSideCondition re-checks the who-may-call condition attached to a confirmed source.
func srcSideCondition(p *engine.Prog, key string, f *ssa.Function, fns []*ssa.Function) (bool, string) {
	e, _ := srcLookup(curRule, key)
	if e.callersInReach == nil {
		return true, "confirmed: " + e.reason
	}
	inReach := map[*ssa.Function]bool{}
	for _, g := range fns {
		inReach[g] = true
	}
	got := map[string]bool{}
	for _, ed := range p.Callers(f) {
		if inReach[ed.Caller.Func] {
			got[engine.RelName(ed.Caller.Func)] = true
		}
	}
	want := map[string]bool{}
	for _, w := range e.callersInReach {
		want[w] = true
	}
	if joinKeys(got) != joinKeys(want) {
		return false, "callers in the transition reach set changed: " + joinKeys(got)
	}
	return true, "confirmed: " + e.reason + " (callers in reach: " + joinKeys(got) + ")"
}

var detSrcTable = map[string]srcEntry{
	"validateBlockTimestamp|time.Now":                              {reason: "the timestamp window is by definition relative to the validator's clock; it decides acceptance of a candidate block, not the result of the transition (C03-R2)"},
	"ValidationCeremony.shouldInteractWithNetwork|time.Now":        {reason: "decides only whether to log / talk to the network; inside the transition reach set it is called solely by the log wrapper", callersInReach: []string{"ValidationCeremony.logInfoWithInteraction"}},
	"C16-R1:ValidationCeremony.shouldInteractWithNetwork|time.Now": {reason: "decides only whether to log and whether to pre-load the node's own flips into memory (local I/O); the lottery result (shardLotteries, flips per candidate) is computed before and independently of it", callersInReach: []string{"ValidationCeremony.calculateCeremonyCandidates", "ValidationCeremony.logInfoWithInteraction"}},
	"C16-R1:ValidationCeremony.calculateCeremonyCandidates|go":     {reason: "go vc.flipper.LoadInMemory(own flips): local pre-loading of flip content after the lottery result is final; the goroutines receive the already computed lists"},
}

func srcLookup(rule, key string) (srcEntry, bool) {
	if e, ok := detSrcTable[rule+":"+key]; ok {
		return e, true
	}
	e, ok := detSrcTable[key]
	return e, ok
}
func detAllowed(rule, key string) bool {
	_, ok := srcLookup(rule, key)
	return ok
}
func detAllowedWhy(rule, key string) (bool, string) {
	e, ok := srcLookup(rule, key)
	return ok, "confirmed: " + e.reason
}

// dependsOnIterVar: v's backward slice contains the iteration's element (the Next tuple of
// a map range, or an element load indexed by the loop's index phi).
func dependsOnIterVar(v ssa.Value, header *ssa.BasicBlock) bool {
	for x := range engine.BackSlice(v, engine.DefaultSlice) {
		switch y := x.(type) {
		case *ssa.Next:
			if y.Block() == header {
				return true
			}
		case *ssa.Phi:
			if y.Block() == header && (strings.Contains(y.Comment, "rangeindex")) {
				return true
			}
		}
	}
	return false
}

// dependsOnIterVarIn: v depends on the element of an unordered iteration inside blocks.
func dependsOnIterVarIn(v ssa.Value, blocks map[*ssa.BasicBlock]bool) bool {
	for x := range engine.BackSlice(v, engine.DefaultSlice) {
		switch y := x.(type) {
		case *ssa.Next:
			if blocks[y.Block()] {
				return true
			}
		case *ssa.Phi:
			if blocks[y.Block()] && strings.Contains(y.Comment, "rangeindex") {
				return true
			}
		}
	}
	return false
}

// dependsOnParam: v depends on a parameter of the callback fn (the iteration element).
func dependsOnParam(v ssa.Value, fn *ssa.Function) bool {
	for x := range engine.BackSlice(v, engine.DefaultSlice) {
		if par, ok := x.(*ssa.Parameter); ok && par.Parent() == fn {
			return true
		}
	}
	return false
}

func hasFuncParam(f *ssa.Function) bool {
	for _, par := range f.Params {
		if _, ok := par.Type().Underlying().(*types.Signature); ok {
			return true
		}
	}
	return false
}

func passesOwnFuncParam(c ssa.CallInstruction, f *ssa.Function) bool {
	for _, a := range c.Common().Args {
		if par, ok := engine.Origin(a).(*ssa.Parameter); ok && par.Parent() == f {
			if _, isSig := par.Type().Underlying().(*types.Signature); isSig {
				return true
			}
		}
		// wrapped in a closure that calls the parameter
		if mc, ok := a.(*ssa.MakeClosure); ok {
			for _, b := range mc.Bindings {
				if par, ok := engine.Origin(b).(*ssa.Parameter); ok && par.Parent() == f {
					if _, isSig := par.Type().Underlying().(*types.Signature); isSig {
						return true
					}
				}
				if al, ok := b.(*ssa.Alloc); ok {
					for _, st := range engine.StoresTo(al) {
						if par, ok := st.Val.(*ssa.Parameter); ok && par.Parent() == f {
							if _, isSig := par.Type().Underlying().(*types.Signature); isSig {
								return true
							}
						}
					}
				}
			}
		}
	}
	return false
}

func onlyCollects(s *detSite) bool {
	for _, e := range s.effects {
		if !(strings.HasPrefix(e, "append") || strings.HasPrefix(e, "carried:append") || strings.HasPrefix(e, "store:local") || e == "escapes" || strings.HasPrefix(e, "carried:int")) {
			return false
		}
	}
	return true
}

// onlyCallbackPlumbing: apart from invoking the callback the loop only keeps local
// bookkeeping (visited-key sets, gas accounting, early stop on the callback's request).
func onlyCallbackPlumbing(s *detSite) bool {
	for _, e := range s.effects {
		switch {
		case e == "callback", e == "earlyexit", e == "earlystop", strings.HasPrefix(e, "mapupdate:local"), strings.HasPrefix(e, "exit:return"), e == "callw:GasCounter.AddGas", strings.HasPrefix(e, "carried:int"):
		default:
			return false
		}
	}
	return true
}

// iterationPrivateCell: a local variable declared outside the loop only because of the
// language's per-loop variable semantics: every use of the cell is inside the loop.
func iterationPrivateCell(addr ssa.Value, blocks map[*ssa.BasicBlock]bool) bool {
	root := addr
	for {
		if fa, ok := root.(*ssa.FieldAddr); ok {
			root = fa.X
			continue
		}
		if ia, ok := root.(*ssa.IndexAddr); ok {
			root = ia.X
			continue
		}
		break
	}
	a, ok := root.(*ssa.Alloc)
	if !ok || a.Referrers() == nil {
		return false
	}
	var all func(v ssa.Value, d int) bool
	all = func(v ssa.Value, d int) bool {
		if d > 3 || v.Referrers() == nil {
			return true
		}
		for _, ref := range *v.Referrers() {
			if _, isDbg := ref.(*ssa.DebugRef); isDbg {
				continue
			}
			if !blocks[ref.Block()] {
				return false
			}
			switch y := ref.(type) {
			case *ssa.FieldAddr:
				if !all(y, d+1) {
					return false
				}
			case *ssa.IndexAddr:
				if !all(y, d+1) {
					return false
				}
			case *ssa.MakeClosure:
				return false
			}
		}
		return true
	}
	return all(a, 0)
}

// statsOwned: the written field belongs to a type declared in a stats package.
func statsOwned(addr ssa.Value) bool {
	for i := 0; i < 10; i++ {
		switch x := addr.(type) {
		case *ssa.FieldAddr:
			if n, _, ok := ownerNamed(x); ok && n.Obj().Pkg() != nil && strings.Contains(n.Obj().Pkg().Path(), "/stats") {
				return true
			}
			addr = x.X
		case *ssa.IndexAddr:
			addr = x.X
		case *ssa.UnOp:
			addr = x.X
		default:
			return false
		}
	}
	return false
}

// isSortedInsertHelper: the callee inserts into a slice at the position found by
// sort.Search (its only writes are append/copy/element stores).
func isSortedInsertHelper(f *ssa.Function) bool {
	hasSearch := false
	for _, c := range engine.CallsDeep(f) {
		if engine.CallIs(c, "sort.Search") {
			hasSearch = true
		}
	}
	if !hasSearch {
		return false
	}
	for _, b := range f.Blocks {
		for _, ins := range b.Instrs {
			switch x := ins.(type) {
			case *ssa.MapUpdate, *ssa.Send, *ssa.Go:
				return false
			case ssa.CallInstruction:
				if cal := x.Common().StaticCallee(); cal != nil {
					if pk := engine.FuncPkg(cal); pk != nil && engine.IsRepoPkg(pk) && cal.Parent() != f && !isPureUtility(nil, cal) {
						return false
					}
				}
			}
		}
	}
	return true
}

// srcExprOfMapUpdate: source text of the map expression of `m[k] = v`.
func srcExprOfMapUpdate(p *engine.Prog, mu *ssa.MapUpdate) string {
	if ie := getASTIndex(p).indexAt[mu.Pos()]; ie != nil {
		return types.ExprString(ie.X)
	}
	return varNameOf(mu.Map)
}
