package props

import (
	"go/token"
	"go/types"
	"sort"
	"strings"

	"golang.org/x/tools/go/ssa"

	"idenaverif/internal/engine"
)

func init() { register("C02", C02) }

// repoCallIDs: ids of repo (idena-go) callees in the backward slice of v, accessors excluded.
func derivationCallees(v ssa.Value) map[string]bool {
	out := map[string]bool{}
	for x := range engine.BackSlice(v, engine.DefaultSlice) {
		c, ok := x.(*ssa.Call)
		if !ok {
			continue
		}
		id := engine.CallID(c)
		if id == "" {
			if c.Call.IsInvoke() {
				id = "invoke." + c.Call.Method.Name()
			} else {
				continue
			}
		}
		if strings.Contains(id, "idena-go") || !strings.Contains(id, "/") || strings.HasPrefix(id, "blockchain") || strings.HasPrefix(id, "core/") || strings.HasPrefix(id, "ipfs") || strings.HasPrefix(id, "crypto") || strings.HasPrefix(id, "secstore") || strings.HasPrefix(id, "invoke.") || strings.HasPrefix(id, "common") {
			// short, comparable name
			n := id[strings.LastIndex(id, ".")+1:]
			switch n {
			case "Bytes", "Header", "Uint64", "String", "Hex":
				continue
			}
			out[n] = true
		}
	}
	return out
}

// C02 — every honestly built block is accepted by every honest validator (shape agreement).
func C02(p *engine.Prog, r *engine.Report) {
	r.Explanation = "Agreement of the SHAPE of the building path (ProposeBlock/filterTxs) and the validating path (validateBlock/processTxs): (R1) derivation agreement — for every proposed-header field that validateBlock checks against a recomputed value, the builder's stored value and the validator's other comparison operand share a derivation callee (DeriveSha, calculateTxBloom, calculateFlags, applyBlockOnState, Cid∘Body.ToBytes, Cid∘TxReceipts.ToBytes, getSeedData, FeePerGas, Hash, Height); (R2) per-transaction agreement — both loops call ValidateTx with the same constant mode and a minimum fee from GetFeePerGasForNetwork(NetworkSize()) of the loop's own state, both apply through applyTxOnState, both accumulate CalculateGas(tx)+receipt.GasUsed, and their block-gas conditions are the same set of (operator, operand shape, EnableUpgrade10 polarity, MaxBlockSize(EnableUpgrade11)); (R3) order of check-state effects — the sequence prepareBlockRewardCtx → transactions → applyHotfixToState → calculateFlags → applyBlockOnState is the same in ProposeBlock and validateBlock. Decides shape agreement only; agreement on every (state, mempool) pair is the behavioural property and is not decided (e.g. the deliberate tryExecuteTx asymmetry)."
	r.Assumptions = []string{"equal shapes compute equal values on equal inputs (C01 determinism)", "the mempool's candidate list (C14) is not part of this check"}
	pb := mustFunc(p, r, "blockchain", "Blockchain.ProposeBlock")
	vb := mustFunc(p, r, "blockchain", "Blockchain.validateBlock")
	ft := mustFunc(p, r, "blockchain", "Blockchain.filterTxs")
	pt := mustFunc(p, r, "blockchain", "Blockchain.processTxs")
	if pb == nil || vb == nil || ft == nil || pt == nil {
		return
	}
	// ---------------- R1
	builder := map[string]map[string]bool{}
	for _, s := range storesToField([]*ssa.Function{pb}, "ProposedHeader", "") {
		_, fld, _ := engine.FieldOf(s.Addr)
		if builder[fld] == nil {
			builder[fld] = map[string]bool{}
		}
		for k := range derivationCallees(s.Val) {
			builder[fld][k] = true
		}
	}
	m := newHdrModel(p)
	ctx := &c03ctx{p: p, r: r, m: m, memo: map[*ssa.Function]map[string][]engine.Guard{}}
	block := candParam(vb)
	want := []string{"TxHash", "TxBloom", "Flags", "Root", "IdentityRoot", "IpfsHash", "TxReceiptsCid", "FeePerGas"}
	gbf := ctx.guardsByField(vb)
	for _, f := range want {
		validator := map[string]bool{}
		for _, g := range gbf[f] {
			b, ok := g.If.Cond.(*ssa.BinOp)
			if !ok {
				continue
			}
			// direct comparison or bytes.Compare(a, b) != 0
			ops := []ssa.Value{b.X, b.Y}
			if c, isC := engine.Unwrap(b.X).(*ssa.Call); isC && (engine.CallIs(c, "bytes.Compare") || engine.CallIs(c, "math/big.Int.Cmp")) {
				ops = engine.CallArgs(c)
			}
			for _, op := range ops {
				fs := map[string]bool{}
				m.fieldsRead(op, block, 0, fs, map[ssa.Value]bool{})
				if fs[f] {
					continue // the candidate's own field
				}
				for k := range derivationCallees(op) {
					validator[k] = true
				}
			}
		}
		common := map[string]bool{}
		for k := range builder[f] {
			if validator[k] {
				common[k] = true
			}
		}
		r.Check(len(common) > 0, "C02-R1", "header."+f+"|builder and validator share a derivation", p.Pos(pb.Pos()), "common: "+joinKeys(common), "the proposer derives "+f+" through {"+joinKeys(builder[f])+"} but the validator recomputes it through {"+joinKeys(validator)+"}: an honest block can be rejected")
	}
	// seed: VrfEvaluate(getSeedData(head)) vs ProofToHash(getSeedData(prev), SeedProof)
	okSeed := false
	if vh, err := p.Func("blockchain", "Blockchain.ValidateHeader"); err == nil {
		a := len(callsTo(pb, "blockchain.getSeedData")) > 0
		b := len(callsTo(vh, "blockchain.getSeedData")) > 0
		okSeed = a && b && builder["BlockSeed"]["getSeedData"] && builder["SeedProof"]["getSeedData"]
	}
	r.Check(okSeed, "C02-R1", "header.BlockSeed/SeedProof|both sides evaluate the VRF over getSeedData(previous header)", p.Pos(pb.Pos()), "getSeedData on both sides", "proposer and validator feed the VRF with different seed data")
	// parent/height
	okPH := builder["ParentHash"]["Hash"] && builder["Height"]["Height"]
	r.Check(okPH, "C02-R1", "header.ParentHash/Height|from head.Hash() / head.Height()+1", p.Pos(pb.Pos()), "derived from the head", "parent link or height not derived from the head")
	r.Floor("C02-R1", 10, "8 recomputed fields + seed + parent/height")

	// ---------------- R2
	c02R2(p, r, ft, pt)
	// ---------------- R3
	seq := func(f *ssa.Function) []string {
		names := map[string]string{
			"blockchain.Blockchain.prepareBlockRewardCtx": "prepareBlockRewardCtx",
			"blockchain.Blockchain.filterTxs":             "txs", "blockchain.Blockchain.processTxs": "txs",
			"blockchain.applyHotfixToState":           "applyHotfixToState",
			"blockchain.Blockchain.calculateFlags":    "calculateFlags",
			"blockchain.Blockchain.applyBlockOnState": "applyBlockOnState",
			"blockchain.calculateTxBloom":             "calculateTxBloom",
		}
		var cs []ssa.CallInstruction
		for _, c := range engine.Calls(f) {
			if _, ok := names[engine.CallID(c)]; ok {
				cs = append(cs, c)
			}
		}
		sort.SliceStable(cs, func(i, j int) bool { return engine.InstrDominates(cs[i], cs[j]) })
		var out []string
		for _, c := range cs {
			out = append(out, names[engine.CallID(c)])
		}
		return out
	}
	sb, sv := seq(pb), seq(vb)
	// the empty-block arm of validateBlock has no such calls; compare the sequences
	r.Check(strings.Join(sb, ">") == strings.Join(sv, ">") && len(sb) >= 5, "C02-R3", "ProposeBlock vs validateBlock|order of check-state effects", p.Pos(pb.Pos()), strings.Join(sb, " > "), "builder: "+strings.Join(sb, " > ")+"; validator: "+strings.Join(sv, " > ")+" — the two paths read/mutate the check state in a different order (e.g. reward context taken after vs before the transactions)")
	// prepareBlockRewardCtx arguments: proposer address, same state, height, prev
	r.Floor("C02-R3", 1, "sequence")
	// ---------------- R4: in-memory memos on transactions
	c02R4(p, r)
	// ---------------- R5: both sides work from the header and parent they are given, not from this node's head
	var ents []*ssa.Function
	for _, n := range []string{"Blockchain.filterTxs", "Blockchain.processTxs", "Blockchain.validateBlock", "Blockchain.applyBlockOnState", "Blockchain.calculateFlags", "Blockchain.prepareBlockRewardCtx"} {
		if f := mustFunc(p, r, "blockchain", n); f != nil {
			ents = append(ents, f)
		}
	}
	c01R6(p, r, "C02-R5", ents)
	// ---------------- R6: the builder keeps working on its check state after a refused transaction, the validator aborts:
	// a refusal must leave that state untouched (every mutation behind the epoch and nonce gates)
	importRules(p, r, "C06", map[string]string{"C06-R1": "C02-R6"})
	// ---------------- R7: flags the proposer may choose are chosen under the validator's conditions
	offlineFlagsPeriodRule(p, r, "C02-R7")
	offlineFlagsAtomsRule(p, r, "C02-R7")
	timestampBoundaryRule(p, r, "C02-R7")
	gasLimitTestsAgreeRule(p, r, "C02-R7")
	// ---------------- R9: the builder's dry run leaves no trace; what it sends decodes to what it built
	dryRunNeutralRule(p, r, "C02-R9")
	signChecksCompleteRule(p, r, "C02-R9")
	c07R5(p, r, "C02-R9")
	importRules(p, r, "C14", map[string]string{"C14-R10": "C02-R7"})
	importRules(p, r, "C18", map[string]string{"C18-R1": "C02-R9", "C18-R2": "C02-R9"})
	// ---------------- R8: what the builder applies is what it includes
	if ft != nil {
		var ap *ssa.Call
		for _, c := range callsTo(ft, "blockchain.Blockchain.applyTxOnState") {
			ap, _ = c.(*ssa.Call)
		}
		if ap == nil {
			r.Und("C02-R8", "filterTxs|apply/include pairing", p.Pos(ft.Pos()), "applyTxOnState not called")
		} else {
			g := nilErrGuards(ft, ap)
			hdr := engine.LoopHeaderOf(ap.Block())
			// the append of the transaction to the result list
			incl := map[*ssa.BasicBlock]bool{}
			for _, c := range engine.Calls(ft) {
				if bi, ok := c.Common().Value.(*ssa.Builtin); ok && bi.Name() == "append" && len(c.Common().Args) == 2 {
					if sl, isS := c.Common().Args[1].(*ssa.Slice); isS {
						_ = sl
					}
					for v := range engine.BackSlice(c.Common().Args[1], engine.DefaultSlice) {
						if v == ssa.Value(ap.Call.Args[1]) || engine.Origin(v) == engine.Origin(ap.Call.Args[1]) {
							if nn := engine.NamedOf(sliceElem(c.Common().Args[0].Type())); nn != nil && nn.Obj().Name() == "Transaction" {
								incl[c.Block()] = true
							}
						}
					}
				}
			}
			// one obligation per configuration branch under which the applied transaction can be left out
			byBranch := map[string][]string{}
			if len(g) > 0 && hdr != nil && len(incl) > 0 {
				pe := g[0].PassEdge()
				start := pe.From.Succs[pe.Succ]
				lb := loopBlocks(hdr)
				if !incl[start] {
					// stay inside the iteration: blocks of the loop, not past an including block, not past the header
					stop := map[*ssa.BasicBlock]bool{hdr: true}
					for b := range incl {
						stop[b] = true
					}
					for _, b := range ft.Blocks {
						if !lb[b] {
							stop[b] = true
						}
					}
					reach := engine.ReachAvoiding(ft, start, nil, stop)
					for b := range reach {
						if stop[b] {
							continue
						}
						last := b.Instrs[len(b.Instrs)-1]
						leaves := false
						if _, isRet := last.(*ssa.Return); isRet {
							leaves = true
						}
						for _, s := range b.Succs {
							if !lb[s] || s == hdr {
								leaves = true
							}
						}
						if leaves {
							br := configBranchOf(b)
							byBranch[br] = append(byBranch[br], p.InstrPos(last))
						}
					}
				}
				if len(byBranch) == 0 {
					r.OK("C02-R8", "filterTxs|a transaction applied to the check state is included", p.InstrPos(ap), "result = append(result, tx) on every path after applyTxOnState==nil")
				}
				for _, br := range sortedKeys(keysOfLists(byBranch)) {
					sort.Strings(byBranch[br])
					r.Bad("C02-R8", "filterTxs|a transaction applied to the check state is included ["+br+"]", p.InstrPos(ap), "under ["+br+"] the iteration can end at "+strings.Join(dedup(byBranch[br]), ", ")+" after applyTxOnState succeeded without the transaction having been appended to the block: its effects stay in the state the proposed roots are taken from — the honestly built block has invalid roots")
				}
			} else {
				r.Und("C02-R8", "filterTxs|a transaction applied to the check state is included", p.InstrPos(ap), "anchors not found")
			}
		}
	}
}

func c02R2(p *engine.Prog, r *engine.Report, ft, pt *ssa.Function) {
	type side struct {
		f       *ssa.Function
		mode    string
		minFee  bool
		apply   bool
		gasAcc  bool
		conds   []string
		sameTx  bool
		stateOK bool
	}
	analyse := func(f *ssa.Function) side {
		s := side{f: f}
		var st ssa.Value
		// the arguments ValidateTx is given, in terms of f's own values — also when the call sits in a
		// same-package helper that f hands them to (the validation step extracted into a function)
		var vargs [][]ssa.Value
		for _, c := range callsTo(f, "blockchain/validation.ValidateTx") {
			vargs = append(vargs, c.Common().Args)
		}
		if len(vargs) == 0 {
			for _, hc := range engine.Calls(f) {
				h := hc.Common().StaticCallee()
				if h == nil || h.Blocks == nil || h.Pkg != f.Pkg {
					continue
				}
				for _, c := range callsTo(h, "blockchain/validation.ValidateTx") {
					var tr []ssa.Value
					for _, av := range c.Common().Args {
						t := av
						if par, ok := engine.Origin(av).(*ssa.Parameter); ok {
							for j, q := range h.Params {
								if q == par && j < len(hc.Common().Args) {
									t = hc.Common().Args[j]
								}
							}
						}
						tr = append(tr, t)
					}
					vargs = append(vargs, tr)
				}
			}
		}
		for _, a := range vargs {
			if k, ok := engine.ConstInt(a[3]); ok {
				s.mode = itoa(k)
			} else {
				s.mode = engine.PathOf(a[3])
			}
			st = engine.Origin(a[0])
			// min fee
			if sliceCallOn(a[2], nil, "blockchain/fee.GetFeePerGasForNetwork") {
				for v := range engine.BackSlice(a[2], engine.DefaultSlice) {
					if cc, ok := v.(*ssa.Call); ok && engine.CallIs(cc, "core/validators.ValidatorsCache.NetworkSize") {
						if base, isF := loadOfField(cc.Call.Args[0], "AppState", "ValidatorsCache"); isF && engine.Origin(base) == st {
							s.minFee = true
						}
					}
				}
			}
			for _, c2 := range callsTo(f, "blockchain.Blockchain.applyTxOnState") {
				s.apply = true
				if engine.Origin(c2.Common().Args[1]) == engine.Origin(a[1]) {
					s.sameTx = true
				}
				// the execution context carries the same state
				if al, ok := engine.Origin(c2.Common().Args[2]).(*ssa.Alloc); ok {
					if stt := fieldStoresOn(al)["appState"]; stt != nil && engine.Origin(stt.Val) == st {
						s.stateOK = true
					}
				}
			}
		}
		// gas accumulation: CalculateGas(tx) and receipt.GasUsed feed the compared quantity
		for _, i := range engine.Ifs(f) {
			b, ok := i.Cond.(*ssa.BinOp)
			if !ok {
				continue
			}
			switch b.Op {
			case token.GTR, token.GEQ, token.LSS, token.LEQ:
			default:
				continue
			}
			var other ssa.Value
			if sliceCallOn(b.Y, nil, "blockchain/types.MaxBlockSize") {
				other = b.X
			} else if sliceCallOn(b.X, nil, "blockchain/types.MaxBlockSize") {
				other = b.Y
			} else {
				continue
			}
			sl := engine.BackSlice(other, engine.DefaultSlice)
			hasGas := engine.SliceHasCall(sl, "blockchain/fee.CalculateGas") != nil
			hasUsed := false
			for v := range sl {
				if readsField(v, "GasUsed", "TxReceipt") {
					hasUsed = true
				}
			}
			if hasGas && hasUsed {
				s.gasAcc = true
			}
			shape := "v"
			if bo, isB := engine.Unwrap(other).(*ssa.BinOp); isB && bo.Op == token.ADD {
				shape = "a+b"
			}
			// MaxBlockSize argument
			arg := ""
			for v := range engine.BackSlice(b.Y, engine.DefaultSlice) {
				if _, fld, ok := engine.FieldOf(v); ok && strings.HasPrefix(fld, "EnableUpgrade") {
					arg = fld
				}
			}
			// dominating EnableUpgrade10 polarity
			pol := "any"
			for _, j := range engine.Ifs(f) {
				c, neg := stripNot(j.Cond)
				if _, fld, ok := engine.FieldOf(c); ok && fld == "EnableUpgrade10" {
					if engine.OnlyThroughPass(f, i.Block(), []engine.Guard{{If: j, PassTrue: !neg}}) {
						pol = "EnableUpgrade10"
					}
					if engine.OnlyThroughPass(f, i.Block(), []engine.Guard{{If: j, PassTrue: neg}}) {
						pol = "!EnableUpgrade10"
					}
				}
			}
			s.conds = append(s.conds, pol+": "+shape+" "+b.Op.String()+" MaxBlockSize("+arg+")")
		}
		sort.Strings(s.conds)
		return s
	}
	a, b := analyse(ft), analyse(pt)
	r.Check(a.mode == b.mode && a.mode != "", "C02-R2", "filterTxs vs processTxs|ValidateTx mode", p.Pos(ft.Pos()), "same constant mode "+a.mode, "builder validates with mode "+a.mode+", validator with "+b.mode)
	r.Check(a.minFee && b.minFee, "C02-R2", "filterTxs vs processTxs|min fee from GetFeePerGasForNetwork(own state's NetworkSize())", p.Pos(ft.Pos()), "both", "minimum fee derived differently on the two paths")
	r.Check(a.apply && b.apply && a.sameTx && b.sameTx && a.stateOK && b.stateOK, "C02-R2", "filterTxs vs processTxs|applyTxOnState on the validated tx and state", p.Pos(ft.Pos()), "both", "a path applies another tx/state than it validated")
	r.Check(a.gasAcc && b.gasAcc, "C02-R2", "filterTxs vs processTxs|gas = CalculateGas(tx) + receipt.GasUsed", p.Pos(ft.Pos()), "both", "block gas is accumulated differently on the two paths")
	r.Check(strings.Join(a.conds, "; ") == strings.Join(b.conds, "; ") && len(a.conds) == 2, "C02-R2", "filterTxs vs processTxs|block gas conditions", p.Pos(ft.Pos()), strings.Join(a.conds, "; "), "builder stops at {"+strings.Join(a.conds, "; ")+"}, validator rejects at {"+strings.Join(b.conds, "; ")+"}: a block the builder considers full-but-valid is rejected (or vice versa)")
	r.Floor("C02-R2", 5, "mode, min fee, apply, gas, conditions")
}

// c02R4: a transaction object carries in-memory memos that are not part of its wire form (the proposer
// holds the mempool object with the memo set, every validator a freshly decoded one without it). A
// validator may therefore skip on a memo hit only work whose outcome does not depend on the mutable
// state: in the region that a hit skips, the state is read only through the accessors frozen below.
var c02MemoStateReads = map[string]string{
	"FlipWordsSeed": "constant within an epoch; the transaction's epoch is checked by ValidateTx before the type validator runs",
}

func c02R4(p *engine.Prog, r *engine.Report) {
	n := 0
	for _, f := range funcsOfPkg(p, "blockchain/validation") {
		if f.Blocks == nil || isTestish(p.Pos(f.Pos())) {
			continue
		}
		for _, iff := range engine.Ifs(f) {
			c, neg := stripNot(iff.Cond)
			call, ok := c.(*ssa.Call)
			if !ok || call.Call.StaticCallee() == nil {
				continue
			}
			cal := call.Call.StaticCallee()
			// a memo read: a function of package types whose body loads an atomic/unserialised field of Transaction
			if !strings.HasSuffix(engine.FuncName(cal), "types.IsValidLongSessionAnswers") && !isTxMemoRead(cal) {
				continue
			}
			n++
			miss := 1
			if neg {
				miss = 0
			}
			region := engine.ReachAvoiding(f, iff.Block().Succs[miss], nil, nil)
			var bad []string
			var appState ssa.Value
			for _, par := range f.Params {
				if nn := engine.NamedOf(par.Type()); nn != nil && nn.Obj().Name() == "AppState" {
					appState = par
				}
			}
			for b := range region {
				for _, ins := range b.Instrs {
					cc, ok := ins.(ssa.CallInstruction)
					if !ok {
						continue
					}
					for i, a := range cc.Common().Args {
						if appState == nil {
							break
						}
						if engine.Origin(a) == appState {
							bad = append(bad, p.InstrPos(ins)+" passes the state to "+calleeShort(cc))
						} else if i == 0 && rootOf(a) == appState {
							if o := engine.CalleeObj(cc.Common()); o != nil {
								if _, okRead := c02MemoStateReads[o.Name()]; !okRead {
									bad = append(bad, p.InstrPos(ins)+" reads "+o.Name())
								}
							}
						}
					}
				}
			}
			sort.Strings(bad)
			r.Check(len(bad) == 0, "C02-R4", engine.RelName(f)+"|work skipped on a memo hit does not depend on mutable state", p.InstrPos(iff), "state read only through "+joinKeys(keysOf(c02MemoStateReads)), "a hit of the in-memory memo (set on the proposer's mempool object, absent on every validator's decoded copy) skips state-dependent checks: "+strings.Join(bad, "; ")+" — the proposer includes a transaction its validators reject")
		}
	}
	r.Floor("C02-R4", 1, "validateSubmitLongAnswersTx")
	_ = n
}

func keysOf(m map[string]string) map[string]bool {
	o := map[string]bool{}
	for k := range m {
		o[k] = true
	}
	return o
}

// isTxMemoRead: f (package blockchain/types) takes a *Transaction and returns a bool computed from a Load of
// one of its sync/atomic fields.
func isTxMemoRead(f *ssa.Function) bool {
	if f.Blocks == nil || !strings.Contains(engine.FuncName(f), "blockchain/types.") || f.Signature.Results().Len() != 1 {
		return false
	}
	if b, ok := f.Signature.Results().At(0).Type().Underlying().(*types.Basic); !ok || b.Kind() != types.Bool {
		return false
	}
	for _, c := range engine.Calls(f) {
		if o := engine.CalleeObj(c.Common()); o != nil && o.Pkg() != nil && o.Pkg().Path() == "sync/atomic" && o.Name() == "Load" && len(c.Common().Args) > 0 {
			if ow, _, ok := engine.FieldOf(c.Common().Args[0]); ok && ow == "Transaction" {
				return true
			}
		}
	}
	return false
}

func keysOfLists(m map[string][]string) map[string]bool {
	o := map[string]bool{}
	for k := range m {
		o[k] = true
	}
	return o
}

// configBranchOf names the consensus-configuration branch a block lies in: the boolean config fields tested by
// the branches that dominate it, with polarity (e.g. "!EnableUpgrade10").
func configBranchOf(b *ssa.BasicBlock) string {
	set := map[string]bool{}
	fn := b.Parent()
	for _, iff := range engine.Ifs(fn) {
		c, neg := stripNot(iff.Cond)
		_, fld, ok := engine.FieldOf(engine.Origin(c))
		if !ok || !strings.HasPrefix(fld, "Enable") {
			continue
		}
		for s := 0; s < 2; s++ {
			if engine.OnlyThroughPass(fn, b, []engine.Guard{{If: iff, PassTrue: s == 0}}) {
				on := (s == 0) != neg
				if on {
					set[fld] = true
				} else {
					set["!"+fld] = true
				}
			}
		}
	}
	if len(set) == 0 {
		return "any configuration"
	}
	return joinKeys(set)
}
