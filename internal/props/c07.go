package props

import (
	"go/token"
	"go/types"
	"sort"
	"strings"

	"golang.org/x/tools/go/ssa"

	"idenaverif/internal/engine"
)

func init() { register("C07", C07) }

// sliceCallOn: v's backward slice contains a call to one of ids whose receiver/first
// argument originates at recv.
func sliceCallOn(v ssa.Value, recv ssa.Value, ids ...string) bool {
	sl := engine.BackSlice(v, engine.DefaultSlice)
	for x := range sl {
		c, ok := x.(*ssa.Call)
		if !ok || !engine.CallIs(c, ids...) {
			continue
		}
		a := engine.CallArgs(c)
		if recv == nil || (len(a) > 0 && engine.Origin(a[0]) == recv) {
			return true
		}
	}
	return false
}

// readsField: v is (a conversion of) a load of a field named field (any owner in owners).
func readsField(v ssa.Value, field string, owners ...string) bool {
	o, f, ok := engine.FieldOf(engine.Unwrap(v))
	if !ok || f != field {
		return false
	}
	if len(owners) == 0 {
		return true
	}
	for _, w := range owners {
		if w == o {
			return true
		}
	}
	return false
}

// invokeOn: call instruction is an invoke/static call of method name on value recv.
func methodCallOn(c ssa.CallInstruction, recv ssa.Value, name string) bool {
	o := engine.CalleeObj(c.Common())
	if o == nil || o.Name() != name {
		return false
	}
	a := engine.CallArgs(c)
	return len(a) > 0 && engine.Origin(a[0]) == engine.Origin(recv)
}

// certAcceptorRules checks ValidateBlockCert (C07-R1; reused by C08).
func certAcceptorRules(p *engine.Prog, r *engine.Report, rule string) {
	f := mustFunc(p, r, "blockchain", "Blockchain.ValidateBlockCert")
	if f == nil {
		return
	}
	if len(f.Params) != 6 {
		r.Errorf("ValidateBlockCert signature changed")
		return
	}
	prevBlock, block, cert, vcache := ssa.Value(f.Params[1]), ssa.Value(f.Params[2]), ssa.Value(f.Params[3]), ssa.Value(f.Params[4])
	_ = cert
	pos := p.Pos(f.Pos())
	// committee
	var committee *ssa.Call
	for _, c := range callsTo(f, "core/validators.ValidatorsCache.GetOnlineValidators") {
		if cc, ok := c.(*ssa.Call); ok && engine.Origin(cc.Call.Args[0]) == vcache {
			committee = cc
		}
	}
	r.Check(committee != nil, rule, "ValidateBlockCert|committee from the given validators cache", pos, "GetOnlineValidators on the validatorsCache parameter", "committee is not drawn from the validatorsCache parameter")
	if committee == nil {
		return
	}
	// voters set
	var voters *ssa.Call
	for _, c := range callsTo(f, "github.com/deckarep/golang-set.NewSet") {
		voters, _ = c.(*ssa.Call)
	}
	if voters == nil {
		r.Bad(rule, "ValidateBlockCert|voters is a set", pos, "distinctness container (mapset.NewSet) not found")
		return
	}
	var adds []ssa.CallInstruction
	for _, c := range engine.Calls(f) {
		if methodCallOn(c, voters, "Add") {
			adds = append(adds, c)
		}
	}
	r.Check(len(adds) == 1, rule, "ValidateBlockCert|single Add into voters", pos, "one insertion site", "expected exactly one voters.Add site")
	// gates
	gate := func(match func(x, y ssa.Value) bool) []engine.Guard {
		var gs []engine.Guard
		for _, i := range engine.Ifs(f) {
			x, y, isEq, ok := eqCond(i.Cond)
			if !ok {
				continue
			}
			if match(x, y) || match(y, x) {
				gs = append(gs, engine.Guard{If: i, PassTrue: isEq})
			}
		}
		return gs
	}
	gRound := gate(func(x, y ssa.Value) bool {
		return readsField(x, "Round", "VoteHeader", "BlockCert") && sliceCallOn(y, block, "blockchain/types.Header.Height")
	})
	gHash := gate(func(x, y ssa.Value) bool {
		return readsField(x, "VotedHash", "VoteHeader", "BlockCert") && sliceCallOn(y, block, "blockchain/types.Header.Hash")
	})
	gParent := gate(func(x, y ssa.Value) bool {
		return readsField(x, "ParentHash", "VoteHeader") && sliceCallOn(y, prevBlock, "blockchain/types.Header.Hash")
	})
	var gApproved []engine.Guard
	var approvedArg ssa.Value
	for _, i := range engine.Ifs(f) {
		c, neg := stripNot(i.Cond)
		if cc, ok := c.(*ssa.Call); ok && methodCallOn(cc, committee, "Approved") {
			gApproved = append(gApproved, engine.Guard{If: i, PassTrue: !neg})
			approvedArg = engine.Params(cc)[0]
		}
	}
	for _, a := range adds {
		blk := a.Block()
		r.Check(engine.OnlyThroughPass(f, blk, gApproved), rule, "ValidateBlockCert|Add behind committee.Approved(addr)", p.InstrPos(a), "dominated", "a signature can be counted without its signer being an approved committee member")
		r.Check(engine.OnlyThroughPass(f, blk, gRound), rule, "ValidateBlockCert|Add behind Round == block.Height()", p.InstrPos(a), "dominated", "a signature can be counted without the round being compared with the block height")
		r.Check(engine.OnlyThroughPass(f, blk, gHash), rule, "ValidateBlockCert|Add behind VotedHash == block.Hash()", p.InstrPos(a), "dominated", "a signature can be counted without the voted hash being compared with THIS block's hash")
		r.Check(engine.OnlyThroughPass(f, blk, gParent), rule, "ValidateBlockCert|Add behind ParentHash == prevBlock.Hash()", p.InstrPos(a), "dominated", "a signature can be counted without the parent hash being compared")
		// the counted key is the recovered signer, the same value that was checked by Approved
		arg := engine.Params(a)[0]
		same := approvedArg != nil && engine.PathOf(arg) == engine.PathOf(approvedArg)
		rec := sliceCallOn(arg, nil, "blockchain/types.Vote.VoterAddr")
		if !rec {
			// through a same-package helper: every address it returns is recovered from the vote it
			// was given (VoterAddr on a parameter-derived vote) or is the zero value of a refusal
			for x := range engine.BackSlice(arg, engine.DefaultSlice) {
				hc, isCall := x.(*ssa.Call)
				if !isCall {
					continue
				}
				h := hc.Common().StaticCallee()
				if h == nil || h.Blocks == nil || h.Pkg != f.Pkg {
					continue
				}
				all, some := true, false
				for _, ret := range engine.Returns(h) {
					if len(ret.Results) == 0 {
						all = false
						continue
					}
					res := ret.Results[0]
					onParam := false
					for y := range engine.BackSlice(res, engine.DefaultSlice) {
						if vc, isVC := y.(*ssa.Call); isVC && engine.CallIs(vc, "blockchain/types.Vote.VoterAddr") {
							o := engine.Origin(rootOf(engine.CallArgs(vc)[0]))
							for _, prm := range h.Params {
								if o == ssa.Value(prm) {
									onParam = true
								}
							}
						}
					}
					if onParam {
						some = true
						continue
					}
					// zero value: a fresh local never stored to, or a nil/zero constant
					isZero := false
					switch z := engine.Unwrap(res).(type) {
					case *ssa.Const:
						isZero = true
					case *ssa.UnOp:
						if a, isA := z.X.(*ssa.Alloc); isA && len(engine.StoresTo(a)) == 0 {
							isZero = true
						}
					}
					if !isZero {
						all = false
					}
				}
				if all && some {
					rec = true
				}
			}
		}
		r.Check(same && rec, rule, "ValidateBlockCert|counted key = recovered signer checked by Approved", p.InstrPos(a), "voters.Add(addr) with addr from vote.VoterAddr(), same addr as Approved(addr)", "the counted key is not the recovered signer address that Approved() checked")
	}
	// quorum
	var gQ []engine.Guard
	for _, i := range engine.Ifs(f) {
		b, ok := i.Cond.(*ssa.BinOp)
		if !ok {
			continue
		}
		isCard := func(v ssa.Value) bool {
			c, ok := engine.Unwrap(v).(*ssa.Call)
			return ok && methodCallOn(c, voters, "Cardinality")
		}
		isThr := func(v ssa.Value) bool {
			sb, ok := engine.Unwrap(v).(*ssa.BinOp)
			if !ok || sb.Op != token.SUB {
				return false
			}
			return sliceCallOn(sb.X, nil, "blockchain.Blockchain.GetCommitteeVotesThreshold") && sliceCallOn(sb.Y, committee, "core/validators.StepValidators.VotesCountSubtrahend") && !sliceCallOn(sb.X, nil, "core/validators.StepValidators.VotesCountSubtrahend")
		}
		switch {
		case b.Op == token.LSS && isCard(b.X) && isThr(b.Y):
			gQ = append(gQ, engine.Guard{If: i, PassTrue: false})
		case b.Op == token.GEQ && isCard(b.X) && isThr(b.Y):
			gQ = append(gQ, engine.Guard{If: i, PassTrue: true})
		case b.Op == token.GTR && isThr(b.X) && isCard(b.Y):
			gQ = append(gQ, engine.Guard{If: i, PassTrue: false})
		case b.Op == token.LEQ && isThr(b.X) && isCard(b.Y):
			gQ = append(gQ, engine.Guard{If: i, PassTrue: true})
		}
	}
	okQ := len(gQ) > 0
	nSucc := 0
	for _, ret := range engine.Returns(f) {
		if isRecoverBlock(ret.Block()) || retErrKind(ret) == "nonnil" {
			continue
		}
		nSucc++
		if !engine.OnlyThroughPassRet(f, ret, gQ) {
			okQ = false
		}
	}
	r.Check(okQ && nSucc > 0, rule, "ValidateBlockCert|success only with |voters| >= threshold - subtrahend", pos, "every non-error return is behind the quorum comparison (distinct signer count vs GetCommitteeVotesThreshold - VotesCountSubtrahend)", "a certificate can be accepted without the distinct-signer quorum comparison")
	// thresholds use the same cache and the same finality flag as the committee draw
	for _, c := range callsTo(f, "blockchain.Blockchain.GetCommitteeVotesThreshold", "blockchain.Blockchain.GetCommitteeSize") {
		a := c.Common().Args
		okA := engine.Origin(a[1]) == vcache && isFinalFlagOf(a[2], committee.Call.Args[3])
		r.Check(okA, rule, "ValidateBlockCert|"+engine.CalleeObj(c.Common()).Name()+"(cache, step==Final)", p.InstrPos(c), "same cache, finality derived from the certificate step used for the draw", "threshold/size computed from another cache or finality flag than the committee draw")
	}
	// reconstructed vote header: all fields populated, from the right sources
	want := map[string]func(v ssa.Value) bool{
		"Step":        func(v ssa.Value) bool { return readsField(v, "Step", "BlockCert") },
		"Round":       func(v ssa.Value) bool { return readsField(v, "Round", "BlockCert") },
		"VotedHash":   func(v ssa.Value) bool { return readsField(v, "VotedHash", "BlockCert") },
		"ParentHash":  func(v ssa.Value) bool { return sliceCallOn(v, prevBlock, "blockchain/types.Header.Hash") },
		"TurnOffline": func(v ssa.Value) bool { return readsField(v, "TurnOffline", "BlockCertSignature") },
		"Upgrade":     func(v ssa.Value) bool { return readsField(v, "Upgrade", "BlockCertSignature") },
	}
	var vh *ssa.Alloc
	for _, a := range allocsOf(f, "VoteHeader") {
		vh = a
	}
	if vh == nil {
		r.Bad(rule, "ValidateBlockCert|vote header reconstruction", pos, "VoteHeader literal not found")
	} else {
		st := fieldStoresOn(vh)
		nt := engine.NamedOf(vh.Type())
		stt := nt.Underlying().(*types.Struct)
		for i := 0; i < stt.NumFields(); i++ {
			fn := stt.Field(i).Name()
			s, has := st[fn]
			ok := has
			if has {
				if chk, known := want[fn]; known {
					ok = chk(s.Val)
				}
			}
			r.Check(ok, rule, "ValidateBlockCert|VoteHeader."+fn+" source", p.InstrPos(vh), "populated from the certificate/prev block", "reconstructed vote header field "+fn+" missing or taken from the wrong source (signer recovery then binds the wrong data)")
		}
	}
}

// isFinalFlagOf: v is `step == Final` where step is the same value as stepArg (or the
// constant true when stepArg is the constant Final).
func isFinalFlagOf(v ssa.Value, stepArg ssa.Value) bool {
	if b, ok := engine.ConstBool(v); ok {
		k, isK := engine.ConstInt(stepArg)
		return isK && (k == 255) == b
	}
	bo, ok := v.(*ssa.BinOp)
	if !ok || bo.Op != token.EQL {
		return false
	}
	for _, pr := range [][2]ssa.Value{{bo.X, bo.Y}, {bo.Y, bo.X}} {
		if k, isK := engine.ConstInt(pr[1]); isK && k == 255 {
			if engine.PathOf(pr[0]) == engine.PathOf(stepArg) {
				return true
			}
		}
	}
	return false
}

// C07 — a certificate is accepted iff it holds a quorum of distinct committee votes.
func C07(p *engine.Prog, r *engine.Report) {
	r.Explanation = "Shape of the certificate acceptor, the vote counter (emitter) and the committee draw: (R1) in ValidateBlockCert the only counted key is the signer recovered from a vote header rebuilt from the certificate's own step/round/voted hash, the previous block's hash and the signature's own flags; the insertion into the distinct set is dominated by committee.Approved(addr), Round==block.Height(), VotedHash==block.Hash(), ParentHash==prevBlock.Hash(); every non-error return is behind |set| >= GetCommitteeVotesThreshold(cache, step==Final) - VotesCountSubtrahend; (R2) Engine.countVotes stores a vote in the per-hash, per-address map only behind ParentHash, Step and Approved checks and builds a certificate only behind len >= necessary - subtrahend (same subtrahend callee); (R3) every GetOnlineValidators call passes limit = GetCommitteeSize(same cache, step==Final) and a seed from a header's Seed(); (R5) the validators cache refreshes god address and height on every committed block and applies the diff on identity-update blocks; (R4) the draw itself contains no unordered iteration with order-dependent effect and only seeded PRNGs."
	r.Assumptions = []string{"signature recovery binds the rebuilt header (C18-R3 checks the signed fields)", "threshold arithmetic for all sizes is not decided", "mapset.Set semantic: Add is idempotent per key"}
	certAcceptorRules(p, r, "C07-R1")
	r.Floor("C07-R1", 15, "read: 5 gates + key + quorum + 2 threshold calls + 6 header fields")
	c07R2(p, r)
	c07R3(p, r)
	c07R4(p, r)
	c07R5(p, r, "C07-R5")
	r.Floor("C07-R5", 3, "god, height, diff")
	c07R8(p, r)
	c07R9(p, r)
	c07R10(p, r)
}

func c07R2(p *engine.Prog, r *engine.Report) {
	cv := mustFunc(p, r, "consensus", "Engine.countVotes")
	if cv == nil {
		return
	}
	// the closure passed to m.Range
	var cl *ssa.Function
	for _, a := range engine.Anon(cv) {
		if len(a.Params) == 2 && a.Signature.Results().Len() == 1 {
			cl = a
		}
	}
	if cl == nil {
		r.Errorf("countVotes: Range closure not found")
		return
	}
	r.Fn(engine.FuncName(cl))
	pos := p.Pos(cl.Pos())
	// the store roundVotes[vote.VoterAddr()] = vote
	var upd *ssa.MapUpdate
	for _, b := range cl.Blocks {
		for _, in := range b.Instrs {
			if mu, ok := in.(*ssa.MapUpdate); ok {
				if sliceCallOn(mu.Key, nil, "blockchain/types.Vote.VoterAddr") {
					upd = mu
				}
			}
		}
	}
	if upd == nil {
		r.Bad("C07-R2", "countVotes|store keyed by vote.VoterAddr()", pos, "per-address vote store not found (distinctness by signer)")
		return
	}
	r.OK("C07-R2", "countVotes|store keyed by vote.VoterAddr()", p.InstrPos(upd), "map keyed by recovered signer")
	gate := func(match func(x, y ssa.Value) bool) []engine.Guard {
		var gs []engine.Guard
		for _, i := range engine.Ifs(cl) {
			x, y, isEq, ok := eqCond(i.Cond)
			if ok && (match(x, y) || match(y, x)) {
				gs = append(gs, engine.Guard{If: i, PassTrue: isEq})
			}
		}
		return gs
	}
	isFree := func(v ssa.Value, name string) bool {
		o := engine.Origin(v)
		if fv, ok := o.(*ssa.FreeVar); ok {
			return fv.Name() == name
		}
		if par, ok := o.(*ssa.Parameter); ok {
			return par.Name() == name
		}
		if u, ok := o.(*ssa.UnOp); ok {
			if fv, ok := u.X.(*ssa.FreeVar); ok {
				return fv.Name() == name
			}
		}
		return false
	}
	gParent := gate(func(x, y ssa.Value) bool { return readsField(x, "ParentHash", "VoteHeader") && isFree(y, "parentHash") })
	gStep := gate(func(x, y ssa.Value) bool { return readsField(x, "Step", "VoteHeader") && isFree(y, "step") })
	var gAppr []engine.Guard
	for _, i := range engine.Ifs(cl) {
		c, neg := stripNot(i.Cond)
		if cc, ok := c.(*ssa.Call); ok && engine.CalleeObj(cc.Common()) != nil && engine.CalleeObj(cc.Common()).Name() == "Approved" {
			if sliceCallOn(engine.Params(cc)[0], nil, "blockchain/types.Vote.VoterAddr") {
				gAppr = append(gAppr, engine.Guard{If: i, PassTrue: !neg})
			}
		}
	}
	r.Check(engine.OnlyThroughPass(cl, upd.Block(), gParent), "C07-R2", "countVotes|store behind ParentHash == parentHash", p.InstrPos(upd), "dominated", "a vote for another parent can be counted")
	r.Check(engine.OnlyThroughPass(cl, upd.Block(), gStep), "C07-R2", "countVotes|store behind Step == step", p.InstrPos(upd), "dominated", "a vote of another step can be counted")
	r.Check(engine.OnlyThroughPass(cl, upd.Block(), gAppr), "C07-R2", "countVotes|store behind validators.Approved(voter)", p.InstrPos(upd), "dominated", "a vote of a non-committee member can be counted")
	// the per-hash bucket is selected by the vote's own VotedHash
	bucketOK := false
	sl := engine.BackSlice(upd.Map, engine.DefaultSlice)
	for v := range sl {
		if lk, ok := v.(*ssa.Lookup); ok && readsField(lk.Index, "VotedHash", "VoteHeader") {
			bucketOK = true
		}
	}
	r.Check(bucketOK, "C07-R2", "countVotes|bucket selected by vote.Header.VotedHash", p.InstrPos(upd), "byBlock[vote.Header.VotedHash]", "votes for different hashes can share a bucket")
	// certificate built only with len(bucket) >= necessary
	var certAllocs []ssa.Instruction
	for _, b := range cl.Blocks {
		for _, in := range b.Instrs {
			if st, ok := in.(*ssa.Store); ok {
				if _, isVotes := fieldAddrOf(st.Addr, "FullBlockCert", "Votes"); isVotes {
					certAllocs = append(certAllocs, st)
				}
			}
		}
	}
	var gLen []engine.Guard
	for _, i := range engine.Ifs(cl) {
		b, ok := i.Cond.(*ssa.BinOp)
		if !ok {
			continue
		}
		isLen := func(v ssa.Value) bool {
			c, ok := v.(*ssa.Call)
			if !ok {
				return false
			}
			bi, isB := c.Call.Value.(*ssa.Builtin)
			return isB && bi.Name() == "len" && engine.PathOf(c.Call.Args[0]) == engine.PathOf(upd.Map)
		}
		if b.Op == token.GEQ && isLen(b.X) && isFree(b.Y, "necessaryVotesCount") {
			gLen = append(gLen, engine.Guard{If: i, PassTrue: true})
		}
		if b.Op == token.LSS && isLen(b.X) && isFree(b.Y, "necessaryVotesCount") {
			gLen = append(gLen, engine.Guard{If: i, PassTrue: false})
		}
	}
	okC := len(certAllocs) > 0
	for _, c := range certAllocs {
		if !engine.OnlyThroughPass(cl, c.Block(), gLen) {
			okC = false
		}
	}
	r.Check(okC, "C07-R2", "countVotes|certificate built only with len(bucket) >= necessary", pos, "dominated by the quorum comparison on the same bucket", "a certificate can be emitted below the quorum")
	// necessary = param - validators.VotesCountSubtrahend(AgreementThreshold) (same callee as the acceptor)
	okSub := false
	for _, c := range callsTo(cv, "core/validators.StepValidators.VotesCountSubtrahend") {
		cc := c.(*ssa.Call)
		for _, ref := range *cc.Referrers() {
			if b, ok := ref.(*ssa.BinOp); ok && b.Op == token.SUB && b.Y == ssa.Value(cc) {
				okSub = true
			}
		}
	}
	r.Check(okSub, "C07-R2", "countVotes|necessary -= VotesCountSubtrahend", p.Pos(cv.Pos()), "same subtrahend callee as the acceptor", "emitter and acceptor disagree on the subtrahend")
	r.Floor("C07-R2", 7, "store + 3 gates + bucket + quorum + subtrahend")
}

func c07R3(p *engine.Prog, r *engine.Report) {
	n := 0
	for _, f := range p.AllFuncs() {
		pk := engine.FuncPkg(f)
		sp := engine.ShortPkg(pk.Path())
		if strings.HasPrefix(sp, "api") || strings.HasPrefix(sp, "cmd") || strings.HasPrefix(sp, "tests") {
			continue
		}
		for _, c := range callsTo(f, "core/validators.ValidatorsCache.GetOnlineValidators") {
			n++
			r.Fn(engine.FuncName(f))
			a := c.Common().Args // recv, seed, round, step, limit
			key := engine.RelName(f) + "|GetOnlineValidators"
			// limit
			lim, ok := engine.Unwrap(a[4]).(*ssa.Call)
			okL := ok && engine.CallIs(lim, "blockchain.Blockchain.GetCommitteeSize") &&
				engine.PathOf(lim.Call.Args[1]) == engine.PathOf(a[0]) && isFinalFlagOf(lim.Call.Args[2], a[3])
			r.Check(okL, "C07-R3", key+" limit", p.InstrPos(c), "GetCommitteeSize(same cache, step==Final)", "committee limit is not GetCommitteeSize(same validators cache, step == Final) for the step being drawn")
			// seed
			okS := sliceCallOn(a[1], nil, "blockchain/types.Header.Seed", "blockchain/types.Block.Seed")
			r.Check(okS, "C07-R3", key+" seed", p.InstrPos(c), "seed from a header's Seed()", "committee seed does not come from a block header seed")
		}
	}
	r.Floor("C07-R3", 8, "counted: 4 call sites x (limit, seed)")
	// ---------------- R6: the compressed certificate carries, per signature, that vote's own signed fields
	if f := mustFunc(p, r, "blockchain/types", "FullBlockCert.Compress"); f != nil {
		n := 0
		for _, a := range allocsOf(f, "BlockCertSignature") {
			hdr := engine.LoopHeaderOf(a.Block())
			if hdr == nil {
				continue
			}
			lb := loopBlocks(hdr)
			var flds []string
			st := fieldStoresOn(a)
			for fld := range st {
				flds = append(flds, fld)
			}
			sort.Strings(flds)
			for _, fld := range flds {
				n++
				r.Check(dependsOnLoopPosition(st[fld].Val, lb), "C07-R6", "FullBlockCert.Compress|signature."+fld+" taken from the vote being compressed", p.InstrPos(st[fld]), "depends on the loop's vote", "every compressed signature gets the same "+fld+" (taken outside the loop): the acceptor rebuilds the signed vote from it, so honest votes whose "+fld+" differs recover to garbage signers and a genuine quorum is rejected")
			}
		}
		if n == 0 {
			r.Und("C07-R6", "FullBlockCert.Compress|per-signature record", p.Pos(f.Pos()), "no BlockCertSignature built inside a loop")
		}
	}
	r.Floor("C07-R6", 3, "Signature, Upgrade, TurnOffline")
	// ---------------- R7: quorum inputs
	subChainOnCheckStateRule(p, r, "C07-R7")
	sameCommitteePopulationRule(p, r, "C07-R7")
	deletedArmCompleteRule(p, r, "C07-R7")
	r.Floor("C07-R7", 4, "population + containers")
}

func c07R4(p *engine.Prog, r *engine.Report) {
	// determinism of the draw: delegated to the shared effect analysis (analysis A)
	entries := []*ssa.Function{}
	for _, n := range []string{"ValidatorsCache.GetOnlineValidators", "ValidatorsCache.determineValidators"} {
		if f := mustFunc(p, r, "core/validators", n); f != nil {
			entries = append(entries, f)
		}
	}
	runDeterminism(p, r, "C07-R4", entries, 1)
}

// c07R5: the validators cache's god address and height follow every committed block
// (god-only committees are drawn from v.god).
func c07R5(p *engine.Prog, r *engine.Report, rule string) {
	f := mustFunc(p, r, "core/validators", "ValidatorsCache.RefreshIfUpdated")
	if f == nil {
		return
	}
	var godSt, hSt []ssa.Instruction
	for _, s := range storesToField([]*ssa.Function{f}, "ValidatorsCache", "god") {
		if engine.Origin(s.Val) == ssa.Value(f.Params[1]) {
			godSt = append(godSt, s)
		}
	}
	for _, s := range storesToField([]*ssa.Function{f}, "ValidatorsCache", "height") {
		if sliceCallOn(s.Val, f.Params[2], "blockchain/types.Block.Height") {
			hSt = append(hSt, s)
		}
	}
	okG, okH := len(godSt) > 0, len(hSt) > 0
	for _, ret := range engine.Returns(f) {
		if !engine.MustPassInstr(f, ret, godSt) {
			okG = false
		}
		if !engine.MustPassInstr(f, ret, hSt) {
			okH = false
		}
	}
	r.Check(okG, rule, "RefreshIfUpdated|god address refreshed on every block", p.Pos(f.Pos()), "v.god = godAddress on every path", "the cached god address is not refreshed on every committed block (god-only committee diverges from a rebuilt cache after ChangeGodAddressTx)")
	r.Check(okH, rule, "RefreshIfUpdated|height refreshed on every block", p.Pos(f.Pos()), "v.height = block.Height() on every path", "the cached height is not refreshed on every committed block (ForCheck clones a stale cache)")
	// identity-update blocks apply the diff
	var upd []ssa.CallInstruction
	upd = callsTo(f, "core/validators.ValidatorsCache.UpdateFromIdentityStateDiff")
	okU := len(upd) == 1 && engine.Origin(upd[0].Common().Args[1]) == ssa.Value(f.Params[3])
	if okU {
		// skipped only when the IdentityUpdate flag is not set
		var g []engine.Guard
		for _, i := range engine.Ifs(f) {
			c, neg := stripNot(i.Cond)
			if cc, ok := c.(*ssa.Call); ok && engine.CallIs(cc, "blockchain/types.BlockFlag.HasFlag") {
				if k, isK := engine.ConstInt(cc.Call.Args[1]); isK && k == flagConst(p, "IdentityUpdate") {
					g = append(g, engine.Guard{If: i, PassTrue: neg}) // pass = not an identity update
				}
			}
		}
		cut := map[*ssa.BasicBlock]bool{upd[0].Block(): true}
		cutE := map[engine.Edge]bool{}
		for _, x := range g {
			cutE[x.PassEdge()] = true
		}
		for _, ret := range engine.Returns(f) {
			if engine.ReachAvoiding(f, nil, cutE, cut)[ret.Block()] {
				okU = false
			}
		}
		okU = okU && len(g) > 0
	}
	r.Check(okU, rule, "RefreshIfUpdated|identity-update blocks apply the given diff", p.Pos(f.Pos()), "UpdateFromIdentityStateDiff(diff) unless the IdentityUpdate flag is unset", "an identity-update block can leave the validator view unchanged")
}

// c07R8: who counts as an approved committee member is decided per drawn slot by that slot's own
// record: a plain address by its own discrimination flag, a delegator's pool by the pool record.
func c07R8(p *engine.Prog, r *engine.Report) {
	f := mustFunc(p, r, "core/validators", "ValidatorsCache.determineValidators")
	if f == nil {
		return
	}
	r.Fn(engine.FuncName(f))
	rets := engine.Returns(f)
	if len(rets) == 0 || len(rets[0].Results) < 2 {
		r.Und("C07-R8", "determineValidators|approved set", p.Pos(f.Pos()), "second result not found")
		return
	}
	approved := engine.Origin(rets[0].Results[1])
	under := func(v ssa.Value) ssa.Value {
		v = engine.Unwrap(v)
		if mi, ok := v.(*ssa.MakeInterface); ok {
			return engine.Unwrap(mi.X)
		}
		return v
	}
	// ownFlag(cond, x): cond is v.discriminatedAddresses.Contains(x), directly or through a helper
	// whose only result is that call on its parameter
	var ownFlag func(cond ssa.Value, x ssa.Value, depth int) bool
	ownFlag = func(cond ssa.Value, x ssa.Value, depth int) bool {
		c, ok := engine.Unwrap(cond).(*ssa.Call)
		if !ok {
			return false
		}
		args := engine.CallArgs(c)
		if engine.CallNameIs(c, "Contains") && len(args) >= 2 {
			if _, isFld := loadOfField(args[0], "ValidatorsCache", "discriminatedAddresses"); isFld {
				for _, a := range args[1:] {
					if under(a) == x || engine.Origin(under(a)) == engine.Origin(x) {
						return true
					}
					// variadic: the element stored into the argument slice
					for v := range engine.BackSlice(a, engine.DefaultSlice) {
						if under(v) == x {
							return true
						}
					}
				}
			}
			return false
		}
		if cal := c.Common().StaticCallee(); cal != nil && depth < 2 && cal.Blocks != nil && len(engine.Returns(cal)) == 1 {
			// helper(v, addr): its single result is the own-flag test on the parameter it received x in
			for i, a := range c.Common().Args {
				if under(a) == x && i < len(cal.Params) {
					return ownFlag(engine.Returns(cal)[0].Results[0], cal.Params[i], depth+1)
				}
			}
		}
		return false
	}
	poolFlag := func(cond ssa.Value, x ssa.Value) bool {
		c, ok := engine.Unwrap(cond).(*ssa.Call)
		if !ok || !engine.CallNameIs(c, "discriminated") {
			return false
		}
		for v := range engine.BackSlice(engine.CallArgs(c)[0], engine.DefaultSlice) {
			if lk, isLk := v.(*ssa.Lookup); isLk {
				if _, isPools := loadOfField(lk.X, "ValidatorsCache", "pools"); isPools && engine.Unwrap(lk.Index) == x {
					return true
				}
			}
		}
		return false
	}
	n := 0
	for _, c := range engine.Calls(f) {
		if !engine.CallNameIs(c, "Add") {
			continue
		}
		args := engine.CallArgs(c)
		if len(args) < 2 || engine.Origin(args[0]) != approved {
			continue
		}
		x := under(args[1])
		for v := range engine.BackSlice(args[1], engine.DefaultSlice) {
			if _, isMI := v.(*ssa.MakeInterface); isMI {
				x = under(v)
			}
		}
		// delegatee arm: x comes out of the delegations lookup
		fromDelegations := false
		for v := range engine.BackSlice(x, engine.DefaultSlice) {
			if lk, isLk := v.(*ssa.Lookup); isLk {
				if _, isD := loadOfField(lk.X, "ValidatorsCache", "delegations"); isD {
					fromDelegations = true
				}
			}
		}
		n++
		g := guardsWhere(f, func(cond ssa.Value) (bool, bool, string) {
			cnd, neg := stripNot(cond)
			if fromDelegations {
				if poolFlag(cnd, x) {
					return true, neg, "!pools[delegatee].discriminated()"
				}
				return false, false, ""
			}
			if ownFlag(cnd, x, 0) {
				return true, neg, "!discriminatedAddresses.Contains(addr)"
			}
			return false, false, ""
		})
		arm := map[bool]string{true: "a delegator's pool is approved by the pool record of that very pool", false: "a plain slot is approved by the address's own discrimination flag"}[fromDelegations]
		r.Check(len(g) > 0 && engine.OnlyThroughPass(f, c.Block(), g), "C07-R8", uniq(r, "determineValidators|"+arm), p.InstrPos(c), "behind the flag of the member being added",
			"the approved set gains a member without testing that member's own record (another predicate, another key, or none): an ineligible (discriminated) identity counts towards the quorum, and nodes disagree on which certificates are valid")
	}
	if n == 0 {
		r.Und("C07-R8", "determineValidators|approved.Add", p.Pos(f.Pos()), "no addition to the approved set found")
	}
	r.Floor("C07-R8", 2, "plain arm + delegator arm")
}

// c07R9: the quorum is never truncated: where the vote threshold is computed in floating point
// (committee size x agreement threshold), the conversion to int takes the result of a rounding call
// (Round / Ceil …), not the bare product — int(x) drops the fraction, the quorum loses a vote for
// every committee size whose product has a fraction of .5 or more, and the acceptor admits
// certificates one vote short. (Integer arithmetic has no such conversion and is not constrained.)
func c07R9(p *engine.Prog, r *engine.Report) {
	n := 0
	for _, name := range []string{"Blockchain.GetCommitteeVotesThreshold", "Blockchain.GetCommitteeSize"} {
		f := mustFunc(p, r, "blockchain", name)
		if f == nil {
			continue
		}
		r.Fn(engine.FuncName(f))
		for _, b := range f.Blocks {
			for _, ins := range b.Instrs {
				cv, ok := ins.(*ssa.Convert)
				if !ok {
					continue
				}
				from, isB := cv.X.Type().Underlying().(*types.Basic)
				to, isB2 := cv.Type().Underlying().(*types.Basic)
				if !isB || !isB2 || from.Info()&types.IsFloat == 0 || to.Info()&types.IsInteger == 0 {
					continue
				}
				n++
				okR := false
				if c, isC := engine.Unwrap(cv.X).(*ssa.Call); isC {
					if o := engine.CalleeObj(&c.Call); o != nil {
						switch o.Name() {
						case "Round", "Ceil", "RoundToEven":
							okR = true
						}
					}
				}
				r.Check(okR, "C07-R9", uniq(r, strings.TrimPrefix(name, "Blockchain.")+"|a threshold computed in floating point is rounded, not truncated"), p.InstrPos(cv), "int(Round(…))", "the float result is converted to int without a rounding call: the fraction is dropped and the quorum is one vote lower for some committee sizes — a certificate short of the quorum is accepted (and the node's own vote counter emits such certificates)")
			}
		}
	}
	if n == 0 {
		r.OK("C07-R9", "thresholds|no floating point conversion in the threshold functions", "", "integer arithmetic only")
	}
}

// c07R10: (a) a header is valid only with EXACTLY one of its two parts: with both set, Hash/Height
// read the proposed part while Seed/Flags/Root read the empty part and ValidateHeader skips the seed
// proof — the certificate would be checked over one block while the next committee is drawn from a
// seed the sender chose; decided by evaluating Header.IsValid for the four nil/non-nil combinations;
// (b) every caller of determineValidators binds its first result to Validators and its second to
// ApprovedValidators (swapped results make every member "approved").
func c07R10(p *engine.Prog, r *engine.Report) {
	if f := mustFunc(p, r, "blockchain/types", "Header.IsValid"); f != nil {
		r.Fn(engine.FuncName(f))
		// possible truth of a value under an assignment of the two "is nil" facts
		type tri int // 1 = false possible, 2 = true possible, 3 = both
		var eval func(v ssa.Value, eNil, pNil bool, at *ssa.BasicBlock, depth int) tri
		var feasible func(eNil, pNil bool) (map[engine.Edge]bool, map[*ssa.BasicBlock]bool)
		memo := map[[2]bool][2]interface{}{}
		isNilOf := func(v ssa.Value) (string, bool) {
			if _, fld, ok := engine.FieldOf(engine.Origin(v)); ok && (fld == "EmptyBlockHeader" || fld == "ProposedHeader") {
				return fld, true
			}
			return "", false
		}
		eval = func(v ssa.Value, eNil, pNil bool, at *ssa.BasicBlock, depth int) tri {
			if depth > 12 {
				return 3
			}
			switch x := v.(type) {
			case *ssa.Const:
				if x.Value != nil && x.Value.ExactString() == "true" {
					return 2
				}
				return 1
			case *ssa.UnOp:
				if x.Op == token.NOT {
					t := eval(x.X, eNil, pNil, at, depth+1)
					switch t {
					case 1:
						return 2
					case 2:
						return 1
					}
					return 3
				}
			case *ssa.BinOp:
				if x.Op == token.EQL || x.Op == token.NEQ {
					for _, pr := range [][2]ssa.Value{{x.X, x.Y}, {x.Y, x.X}} {
						if k, isK := pr[1].(*ssa.Const); isK && k.IsNil() {
							if fld, ok := isNilOf(pr[0]); ok {
								n := pNil
								if fld == "EmptyBlockHeader" {
									n = eNil
								}
								if (x.Op == token.EQL) == n {
									return 2
								}
								return 1
							}
						}
					}
				}
			case *ssa.Phi:
				// short-circuit && / ||: only the edges that are taken under the assignment
				cutE, reach := feasible(eNil, pNil)
				var out tri
				for i, e := range x.Edges {
					pred := x.Block().Preds[i]
					if !reach[pred] {
						continue
					}
					taken := false
					for si, sc := range pred.Succs {
						if sc == x.Block() && !cutE[engine.Edge{From: pred, Succ: si}] {
							taken = true
						}
					}
					if taken {
						out |= eval(e, eNil, pNil, pred, depth+1)
					}
				}
				if out == 0 {
					return 3
				}
				return out
			}
			return 3
		}
		// edges cut and blocks reachable under the assignment (conditions here are plain nil tests)
		feasible = func(eNil, pNil bool) (map[engine.Edge]bool, map[*ssa.BasicBlock]bool) {
			if m, ok := memo[[2]bool{eNil, pNil}]; ok {
				return m[0].(map[engine.Edge]bool), m[1].(map[*ssa.BasicBlock]bool)
			}
			cut := map[engine.Edge]bool{}
			for _, i := range engine.Ifs(f) {
				if _, isPhi := i.Cond.(*ssa.Phi); isPhi {
					continue
				}
				switch eval(i.Cond, eNil, pNil, i.Block(), 0) {
				case 1:
					cut[engine.Edge{From: i.Block(), Succ: 0}] = true
				case 2:
					cut[engine.Edge{From: i.Block(), Succ: 1}] = true
				}
			}
			reach := engine.ReachAvoiding(f, nil, cut, nil)
			memo[[2]bool{eNil, pNil}] = [2]interface{}{cut, reach}
			return cut, reach
		}
		canBeTrue := func(eNil, pNil bool) bool {
			_, reach := feasible(eNil, pNil)
			for _, ret := range engine.Returns(f) {
				if !reach[ret.Block()] {
					continue
				}
				if eval(ret.Results[0], eNil, pNil, ret.Block(), 0)&2 != 0 {
					return true
				}
			}
			return false
		}
		r.Check(!canBeTrue(false, false), "C07-R10", "Header.IsValid|false for a header with both parts set", p.Pos(f.Pos()), "exactly one part", "Header.IsValid can return true for a header carrying an empty AND a proposed part: its hash and certificate are those of the proposed part while seed, flags and roots are read from the empty part and ValidateHeader skips the seed proof — the committee of the next round is drawn from a seed the sender chose")
		r.Check(!canBeTrue(true, true), "C07-R10", "Header.IsValid|false for a header with no part", p.Pos(f.Pos()), "exactly one part", "Header.IsValid can return true for a header with neither part")
		r.Check(canBeTrue(true, false) && canBeTrue(false, true), "C07-R10", "Header.IsValid|true for each single part", p.Pos(f.Pos()), "both kinds of block are valid", "Header.IsValid refuses every proposed (or every empty) header")
	}
	n := 0
	for _, f := range funcsOfPkg(p, "core/validators") {
		if f.Blocks == nil || isTestish(p.Pos(f.Pos())) {
			continue
		}
		for _, c := range callsTo(f, "core/validators.ValidatorsCache.determineValidators") {
			cv, ok := c.(*ssa.Call)
			if !ok || cv.Referrers() == nil {
				continue
			}
			n++
			// where each result ends up: the field of StepValidators it is stored into
			dest := map[int]string{}
			for _, ref := range *cv.Referrers() {
				ex, isEx := ref.(*ssa.Extract)
				if !isEx || ex.Referrers() == nil {
					continue
				}
				for _, r2 := range *ex.Referrers() {
					if st, isSt := r2.(*ssa.Store); isSt {
						if o, fld, okF := engine.FieldOf(st.Addr); okF && o == "StepValidators" {
							dest[ex.Index] = fld
						}
					}
				}
			}
			r.Check(dest[0] == "Validators" && dest[1] == "ApprovedValidators", "C07-R10", uniq(r, engine.RelName(f)+"|results of determineValidators bound in order"), p.InstrPos(c), "#0 -> Validators, #1 -> ApprovedValidators", "the results of determineValidators are stored as #0 -> "+dest[0]+", #1 -> "+dest[1]+": with the two swapped every drawn member counts as approved (discriminated members fill the quorum) and the threshold is not reduced for them")
		}
	}
	if n == 0 {
		r.Und("C07-R10", "determineValidators|callers", "", "no caller found")
	}
	r.Floor("C07-R10", 4, "3 IsValid combinations + callers")
}
