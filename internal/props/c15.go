package props

import (
	"go/token"
	"sort"
	"strings"

	"golang.org/x/tools/go/ssa"

	"idenaverif/internal/engine"
)

func init() { register("C15", C15) }

// envCacheResetRule: every per-transaction cache that <typ>.Commit writes back (ranges over)
// is re-created by <typ>.Reset.
func envCacheResetRule(p *engine.Prog, r *engine.Report, rule, pkg, typ string) {
	commit := mustFunc(p, r, pkg, typ+".Commit")
	reset := mustFunc(p, r, pkg, typ+".Reset")
	if commit == nil || reset == nil {
		return
	}
	ranged := map[string]bool{}
	for _, b := range commit.Blocks {
		for _, ins := range b.Instrs {
			if rg, ok := ins.(*ssa.Range); ok {
				if o, fld, ok := engine.FieldOf(rg.X); ok && o == typ {
					ranged[fld] = true
				}
			}
		}
	}
	// the event buffer returned by Commit
	for _, ret := range engine.Returns(commit) {
		for _, rv := range ret.Results {
			if o, fld, ok := engine.FieldOf(engine.Origin(rv)); ok && o == typ {
				ranged[fld] = true
			}
		}
	}
	cleared := map[string]bool{}
	for _, s := range storesToField([]*ssa.Function{reset}, typ, "") {
		_, fld, _ := engine.FieldOf(s.Addr)
		// the reset is unconditional: it happens on every path through Reset (a "nothing to do" fast
		// path that tests some caches and skips all resets leaves the untested ones behind)
		everyPath := true
		for _, ret := range engine.Returns(reset) {
			if !isRecoverBlock(ret.Block()) && !s.Block().Dominates(ret.Block()) {
				everyPath = false
			}
		}
		if !everyPath {
			continue
		}
		switch engine.Unwrap(s.Val).(type) {
		case *ssa.MakeMap, *ssa.Const, *ssa.Slice, *ssa.MakeSlice:
			cleared[fld] = true
		}
	}
	for _, fld := range sortedKeys(ranged) {
		r.Check(cleared[fld], rule, typ+".Reset clears "+fld, p.Pos(reset.Pos()), "fresh per transaction", typ+".Commit writes back "+fld+" but Reset does not clear it on every path: what a failed (uncommitted) transaction buffered is applied by the next successful one in the block")
	}
}

// C15 — contract execution is atomic, pays for itself, cannot overspend.
func C15(p *engine.Prog, r *engine.Report) {
	r.Explanation = "(R1) buffered effects: inside vm/env and vm/wasm, state mutators are called only from EnvImp.Commit / WasmEnv.Commit (who-may-call); (R2) commit only on success: in VmImpl.Run the env commit is behind err == nil and commitToState, Reset precedes every embedded execution, in WasmVM.Run the commit is behind err == nil and vm.commitToState; every cache that Commit writes back is re-created by Reset (a failed transaction's buffer cannot leak into the next one of the block); (R3) escrow symmetry: the pre-run pair SubBalance(sender,a)/AddBalance(contract,a) under shouldAddPayAmount has the mirrored pair under !receipt.Success && shouldAddPayAmount with the same three values; (R4) gas plumbing: both vm.Run call sites pass chain.getGasLimit(appState, tx), whose result derives from tx.MaxFeeOrZero() minus getTxFee; both Run implementations clamp the reported gas with min(used, limit), bypassed only for a negative limit (estimation mode); GasCost = GetGasCost(state, receipt.GasUsed) is what is added to the fee; (R5) guarded, self-funded debits (C04-R3, C05-R4). Decides atomicity/fee-cap plumbing; does not decide fee arithmetic, conservation as a sum, or the WASM runtime's metering."
	r.Assumptions = []string{"the Rust WASM runtime honours the gas limit it is given", "decimal/big-int arithmetic of getGasLimit is not decided"}
	sm := getStateModel(p)
	// ---------------- R1
	n1 := 0
	for _, pkg := range []string{"vm/env", "vm/wasm", "vm/embedded", "vm/helpers", "vm"} {
		for _, f := range funcsOfPkg(p, pkg) {
			for _, c := range engine.Calls(f) {
				name, _, ok := sm.mutatorCall(c)
				if !ok {
					continue
				}
				n1++
				fn := engine.RelName(f)
				okC := fn == "EnvImp.Commit" || fn == "WasmEnv.Commit"
				r.Check(okC, "C15-R1", fn+"|"+name, p.InstrPos(c), "inside the env's Commit", "contract code writes consensus state directly, outside the buffered commit: a failing call leaves a trace")
			}
		}
	}
	r.Floor("C15-R1", 10, "mutator calls of the two Commit functions")

	// ---------------- R2
	if run := mustFunc(p, r, "vm", "VmImpl.Run"); run != nil {
		var commit, reset ssa.CallInstruction
		var execs []ssa.CallInstruction
		for _, c := range engine.Calls(run) {
			o := engine.CalleeObj(c.Common())
			if o == nil {
				continue
			}
			switch {
			case o.Name() == "Commit" && strings.Contains(engine.CallID(c), "vm/env"):
				commit = c
			case o.Name() == "Reset" && strings.Contains(engine.CallID(c), "vm/env"):
				reset = c
			case engine.CallIs(c, "vm.VmImpl.deploy", "vm.VmImpl.call", "vm.VmImpl.terminate"):
				execs = append(execs, c)
			}
		}
		if commit == nil || reset == nil || len(execs) != 3 {
			r.Bad("C15-R2", "VmImpl.Run|anchors", p.Pos(run.Pos()), "env.Commit / env.Reset / deploy,call,terminate not found")
		} else {
			// err is a cell / phi fed by the three executions
			gErr := guardsWhere(run, func(cond ssa.Value) (bool, bool, string) {
				x, nonNilOnTrue, ok := engine.NilCheck(cond)
				if !ok || !isErrorType(x.Type()) {
					return false, false, ""
				}
				sl := engine.BackSlice(x, engine.DefaultSlice)
				for _, e := range execs {
					if v, isV := e.(ssa.Value); isV && sl[v] {
						return true, !nonNilOnTrue, "err == nil"
					}
				}
				return false, false, ""
			})
			gCommitFlag := guardsWhere(run, func(cond ssa.Value) (bool, bool, string) {
				c, neg := stripNot(cond)
				if par, ok := engine.Origin(c).(*ssa.Parameter); ok && par.Name() == "commitToState" {
					return true, !neg, "commitToState"
				}
				return false, false, ""
			})
			r.Check(engine.OnlyThroughPass(run, commit.Block(), gErr), "C15-R2", "VmImpl.Run|Commit only if err == nil", p.InstrPos(commit), "dominated", "a failed embedded-contract execution is committed")
			r.Check(engine.OnlyThroughPass(run, commit.Block(), gCommitFlag), "C15-R2", "VmImpl.Run|Commit only if commitToState", p.InstrPos(commit), "dominated", "dry runs (estimation / tryExecute) are committed")
			okReset := true
			for _, e := range execs {
				if !engine.InstrDominates(reset, e) {
					okReset = false
				}
			}
			r.Check(okReset, "C15-R2", "VmImpl.Run|env.Reset precedes every execution", p.InstrPos(reset), "dominates deploy/call/terminate", "an execution can start on the previous transaction's buffers")
		}
	}
	if run := mustFunc(p, r, "vm/wasm", "WasmVM.Run"); run != nil {
		var commit ssa.CallInstruction
		for _, c := range engine.Calls(run) {
			if engine.CallIs(c, "vm/wasm.WasmEnv.InternalCommit", "vm/wasm.WasmEnv.Commit") {
				commit = c
			}
		}
		if commit == nil {
			r.Bad("C15-R2", "WasmVM.Run|commit", p.Pos(run.Pos()), "commit call not found")
		} else {
			gErr := guardsWhere(run, func(cond ssa.Value) (bool, bool, string) {
				x, nonNilOnTrue, ok := engine.NilCheck(cond)
				if ok && isErrorType(x.Type()) {
					return true, !nonNilOnTrue, ""
				}
				return false, false, ""
			})
			gFlag := guardsWhere(run, func(cond ssa.Value) (bool, bool, string) {
				c, neg := stripNot(cond)
				if _, ok := loadOfField(c, "WasmVM", "commitToState"); ok {
					return true, !neg, ""
				}
				return false, false, ""
			})
			r.Check(engine.OnlyThroughPass(run, commit.Block(), gErr), "C15-R2", "WasmVM.Run|commit only if err == nil", p.InstrPos(commit), "dominated", "a failed WASM execution is committed")
			r.Check(engine.OnlyThroughPass(run, commit.Block(), gFlag), "C15-R2", "WasmVM.Run|commit only if commitToState", p.InstrPos(commit), "dominated", "WASM dry runs are committed")
		}
	}
	envCacheResetRule(p, r, "C15-R2", "vm/env", "EnvImp")
	r.Floor("C15-R2", 10, "5 gates + 6 caches")

	// ---------------- R3 escrow symmetry
	c15R3(p, r, sm)
	// ---------------- R4 gas plumbing
	c15R4(p, r)
	// ---------------- R5
	c04R3(p, r)
	// rename: R5 obligations were recorded under C04-R3 ids; keep as is (shared rule)
	c15R7(p, r)
}

func c15R3(p *engine.Prog, r *engine.Report, sm *stateModel) {
	for _, fname := range []string{"Blockchain.applyTxOnState", "Blockchain.tryExecuteTx"} {
		f := mustFunc(p, r, "blockchain", fname)
		if f == nil {
			continue
		}
		tx := ssa.Value(f.Params[1])
		sender := senderOf(f, tx)
		type mv struct {
			c    ssa.CallInstruction
			name string
			addr ssa.Value
			amt  ssa.Value
		}
		var moves []mv
		isContract := func(v ssa.Value) bool {
			c, ok := engine.Origin(v).(*ssa.Call)
			return ok && c.Call.Method != nil && c.Call.Method.Name() == "ContractAddr"
		}
		for _, c := range engine.Calls(f) {
			name, _, ok := sm.mutatorCall(c)
			if !ok || (name != "StateDB.SubBalance" && name != "StateDB.AddBalance") {
				continue
			}
			ps := engine.Params(c)
			moves = append(moves, mv{c, name, ps[0], ps[1]})
		}
		// escrow pair: Sub(sender,a) + Add(contract,a) in one block
		found := false
		for _, m1 := range moves {
			if m1.name != "StateDB.SubBalance" || engine.Origin(m1.addr) != sender {
				continue
			}
			for _, m2 := range moves {
				if m2.name != "StateDB.AddBalance" || !isContract(m2.addr) || m2.c.Block() != m1.c.Block() || engine.PathOf(m1.amt) != engine.PathOf(m2.amt) {
					continue
				}
				found = true
				// mirrored pair: Add(sender,a) + Sub(contract,a) in one later block
				mirrored := false
				var mirrorBlock *ssa.BasicBlock
				for _, m3 := range moves {
					if m3.name != "StateDB.AddBalance" || engine.Origin(m3.addr) != sender || engine.PathOf(m3.amt) != engine.PathOf(m1.amt) {
						continue
					}
					for _, m4 := range moves {
						if m4.name == "StateDB.SubBalance" && engine.Origin(m4.addr) == engine.Origin(m2.addr) && m4.c.Block() == m3.c.Block() && engine.PathOf(m4.amt) == engine.PathOf(m1.amt) {
							mirrored = true
							mirrorBlock = m3.c.Block()
						}
					}
				}
				key := engine.RelName(f) + "|escrow of the pay amount"
				r.Check(mirrored, "C15-R3", key+" has a mirrored refund", p.InstrPos(m1.c), "AddBalance(sender,a)/SubBalance(contract,a) with the same values", "the pay amount moved to the contract before the run is not moved back by a mirrored pair")
				if mirrored && fname == "Blockchain.applyTxOnState" {
					gFail := guardsWhere(f, func(cond ssa.Value) (bool, bool, string) {
						c2, neg := stripNot(cond)
						if _, isS := loadOfField(c2, "TxReceipt", "Success"); isS {
							return true, neg, ""
						}
						return false, false, ""
					})
					// same condition value as the escrow
					var same []engine.Guard
					for _, i := range engine.Ifs(f) {
						if engine.OnlyThroughPass(f, m1.c.Block(), []engine.Guard{{If: i, PassTrue: true}}) {
							for _, j := range engine.Ifs(f) {
								if j.Cond == i.Cond {
									same = append(same, engine.Guard{If: j, PassTrue: true})
								}
							}
						}
					}
					r.Check(engine.OnlyThroughPass(f, mirrorBlock, gFail), "C15-R3", key+" refunded only if !receipt.Success", p.Pos(f.Pos()), "dominated by !receipt.Success", "the pay amount is returned although the call succeeded (or kept although it failed)")
					r.Check(engine.OnlyThroughPass(f, mirrorBlock, same), "C15-R3", key+" refunded only if it was escrowed", p.Pos(f.Pos()), "same shouldAddPayAmount value", "refund happens under another condition than the escrow")
					// and every failed+escrowed path passes the refund: cut the refund block; the
					// function's success return must then be unreachable through (fail edge of Success) ∧ escrow
				}
			}
		}
		r.Check(found, "C15-R3", engine.RelName(f)+"|escrow pair present", p.Pos(f.Pos()), "SubBalance(sender,a)+AddBalance(contract,a)", "escrow pair not found")
	}
	r.Floor("C15-R3", 5, "2 functions")
}

func c15R4(p *engine.Prog, r *engine.Report) {
	// call sites of vm.Run on the apply paths
	for _, fname := range []string{"Blockchain.applyTxOnState", "Blockchain.tryExecuteTx"} {
		f := mustFunc(p, r, "blockchain", fname)
		if f == nil {
			continue
		}
		for _, c := range engine.Calls(f) {
			cc := c.Common()
			if !cc.IsInvoke() || cc.Method.Name() != "Run" {
				continue
			}
			lim, ok := engine.Unwrap(cc.Args[2]).(*ssa.Call)
			okL := ok && engine.CallIs(lim, "blockchain.Blockchain.getGasLimit") && engine.Origin(lim.Call.Args[2]) == ssa.Value(f.Params[1])
			r.Check(okL, "C15-R4", engine.RelName(f)+"|vm.Run gas limit = getGasLimit(appState, tx)", p.InstrPos(c), "limit bought by the declared maximum fee of this tx", "contract runs with a gas limit not derived from the transaction's max fee")
		}
	}
	if gl := mustFunc(p, r, "blockchain", "Blockchain.getGasLimit"); gl != nil {
		ok := false
		for _, ret := range engine.Returns(gl) {
			sl := engine.BackSlice(ret.Results[0], engine.DefaultSlice)
			if engine.SliceHasCall(sl, "blockchain/types.Transaction.MaxFeeOrZero") != nil && engine.SliceHasCall(sl, "blockchain.Blockchain.getTxFee") != nil {
				ok = true
			}
		}
		r.Check(ok, "C15-R4", "getGasLimit|(MaxFee - txFee) / gas cost", p.Pos(gl.Pos()), "result derives from MaxFeeOrZero and getTxFee", "gas limit is not what the max fee buys after the size fee")
		// the budget is never rounded up: one gas unit more than was paid for is charged above MaxFee
		roundsUp := map[string]bool{"DivRound": true, "Round": true, "RoundUp": true, "RoundCeil": true, "RoundBank": true, "RoundCash": true, "RoundHalfUp": true, "Ceil": true}
		bad := ""
		for _, ret := range engine.Returns(gl) {
			for v := range engine.BackSlice(ret.Results[0], engine.DefaultSlice) {
				if c, isCall := v.(*ssa.Call); isCall {
					if obj := engine.CalleeObj(c.Common()); obj != nil && roundsUp[obj.Name()] {
						bad = obj.FullName() + " at " + p.InstrPos(c)
					}
				}
			}
		}
		r.Check(bad == "", "C15-R4", "getGasLimit|the quotient is never rounded up", p.Pos(gl.Pos()), "no rounding-up call on the way to the result", "the gas budget goes through "+bad+": when the remainder is at least half a gas price the VM gets one unit more than MaxFee buys and the sender is charged above the declared maximum")
	}
	// clamp
	for _, x := range []struct{ pkg, fn, limName string }{{"vm", "VmImpl.Run", "gasLimit"}, {"vm/wasm", "WasmVM.Run", "wasmGasLimit"}} {
		run := mustFunc(p, r, x.pkg, x.fn)
		if run == nil {
			continue
		}
		var lim ssa.Value
		for _, par := range run.Params {
			if par.Name() == x.limName {
				lim = par
			}
		}
		var clamp *ssa.Call
		for _, c := range callsTo(run, "common/math.Min") {
			cc := c.(*ssa.Call)
			sl := engine.BackSlice(cc.Call.Args[1], engine.DefaultSlice)
			if lim != nil && sl[lim] {
				clamp = cc
			}
		}
		key := x.fn + "|reported gas clamped by the limit"
		if clamp == nil {
			r.Bad("C15-R4", key, p.Pos(run.Pos()), "min(usedGas, limit) not found")
			continue
		}
		// both sides of the clamp are in the same unit: a unit conversion (costs.WasmGasToGas /
		// GasToWasmGas) is applied to both operands or to neither
		conv := func(v ssa.Value) string {
			var names []string
			for y := range engine.BackSlice(v, engine.DefaultSlice) {
				if cc, ok := y.(*ssa.Call); ok {
					if o := engine.CalleeObj(&cc.Call); o != nil && (o.Name() == "WasmGasToGas" || o.Name() == "GasToWasmGas") {
						names = append(names, o.Name())
					}
				}
			}
			sort.Strings(names)
			return strings.Join(dedup(names), ",")
		}
		ca, cb := conv(clamp.Call.Args[0]), conv(clamp.Call.Args[1])
		r.Check(ca == cb, "C15-R4", x.fn+"|used gas and limit are clamped in the same unit", p.InstrPos(clamp), "conversions: used {"+ca+"}, limit {"+cb+"}", "the clamp compares a value converted by {"+ca+"} with a limit converted by {"+cb+"}: gas in one unit is capped by a limit in another (100x), the receipt reports — and the sender is charged for — more gas than MaxFee buys")
		// the only way around the clamp: limit < 0. With the clamp block and the (limit < 0) edges
		// of the exact guards cut, the store of receipt.GasUsed must be unreachable.
		cutE := map[engine.Edge]bool{}
		for _, i := range engine.Ifs(run) {
			bo, isB := i.Cond.(*ssa.BinOp)
			if !isB || engine.Origin(bo.X) != lim {
				continue
			}
			k, isK := engine.ConstInt(bo.Y)
			if isK && ((bo.Op == token.GEQ && k == 0) || (bo.Op == token.GTR && k == -1)) {
				cutE[engine.Edge{From: i.Block(), Succ: 1}] = true
			}
			if isK && ((bo.Op == token.LSS && k == 0) || (bo.Op == token.LEQ && k == -1)) {
				cutE[engine.Edge{From: i.Block(), Succ: 0}] = true
			}
		}
		reach := engine.ReachAvoiding(run, nil, cutE, map[*ssa.BasicBlock]bool{clamp.Block(): true})
		bypassOK := true
		nStores := 0
		for _, s := range storesToField([]*ssa.Function{run}, "TxReceipt", "GasUsed") {
			if !engine.BackSlice(s.Val, engine.DefaultSlice)[clamp] {
				continue
			}
			nStores++
			if reach[s.Block()] {
				bypassOK = false
			}
		}
		bypassOK = bypassOK && nStores > 0
		r.Check(bypassOK, "C15-R4", key+" (bypass only for limit < 0)", p.InstrPos(clamp), "with the clamp and the limit<0 edges cut the receipt is unreachable", "the clamp is skipped for some non-negative limit: a transaction whose fee buys that much gas is charged for the overshoot (more than MaxFee)")
		// the receipt's GasUsed is the clamped value
		okUse := false
		for _, s := range storesToField([]*ssa.Function{run}, "TxReceipt", "GasUsed") {
			sl := engine.BackSlice(s.Val, engine.DefaultSlice)
			if sl[clamp] {
				okUse = true
			}
		}
		r.Check(okUse, "C15-R4", x.fn+"|receipt.GasUsed is the clamped value", p.InstrPos(clamp), "stored value derives from the clamp", "receipt reports unclamped gas")
	}
	// GasCost from GasUsed, added to the fee
	if f, err := p.Func("blockchain", "Blockchain.applyTxOnState"); err == nil {
		okCost := false
		for _, s := range storesToField([]*ssa.Function{f}, "TxReceipt", "GasCost") {
			c, isC := engine.Unwrap(s.Val).(*ssa.Call)
			if isC && engine.CallIs(c, "blockchain.Blockchain.GetGasCost") {
				if _, isU := loadOfField(c.Call.Args[2], "TxReceipt", "GasUsed"); isU {
					okCost = true
				}
			}
		}
		r.Check(okCost, "C15-R4", "applyTxOnState|receipt.GasCost = GetGasCost(state, receipt.GasUsed)", p.Pos(f.Pos()), "cost of exactly the reported gas", "gas cost is not computed from the reported (clamped) gas")
	}
	gasLimitFeeRateRule(p, r, "C15-R4")
	r.Floor("C15-R4", 8, "2 call sites + limit + 2x2 clamp + cost")
	// ---------------- R6: buffered balances — reads go through the buffer (shared with C04-R7) and a
	// read-modify-write of a balance is not interleaved with another write of the buffer
	c04R7rule(p, r, "C15-R6")
	{
		n := 0
		for _, pkg := range []string{"vm/env", "vm/wasm"} {
			for _, f := range funcsOfPkg(p, pkg) {
				if f.Blocks == nil || isTestish(p.Pos(f.Pos())) {
					continue
				}
				var sets []ssa.CallInstruction
				for _, c := range engine.Calls(f) {
					if cal := c.Common().StaticCallee(); cal != nil && cal.Name() == "setBalance" {
						sets = append(sets, c)
					}
				}
				for _, sc := range sets {
					args := sc.Common().Args
					// a fresh environment being initialised is not the buffer of this transaction step
					if a, isA := engine.Origin(args[0]).(*ssa.Alloc); isA && a.Parent() == f {
						continue
					}
					for v := range engine.BackSlice(args[len(args)-1], engine.DefaultSlice) {
						gc, ok := v.(*ssa.Call)
						if !ok || gc.Call.StaticCallee() == nil || gc.Call.StaticCallee().Name() != "getBalance" {
							continue
						}
						n++
						var between []string
						for _, other := range sets {
							if other != sc && reachesInstr(gc, other) && reachesInstr(other, sc) {
								between = append(between, p.InstrPos(other))
							}
						}
						r.Check(len(between) == 0, "C15-R6", uniq(r, engine.RelName(f)+"|balance written from a read that no other write follows"), p.InstrPos(sc), "getBalance → setBalance with no other setBalance in between", "the balance written here was read before another buffer write at "+strings.Join(between, ", ")+": when both concern the same address (a contract paying itself) the second write overwrites the first with a stale value — coins appear from nothing")
					}
				}
			}
		}
		_ = n
	}
	r.Floor("C15-R6", 6, "2 cache-through reads + 4 read-modify-write helpers")
}

// c15R7: a sub-environment never reads a balance from the committed state itself: WasmEnv.getBalance
// reaches State.GetBalance only for the root (parent == nil); every nested environment asks its
// parent, so a pending debit anywhere up the call chain is seen at any depth.
func c15R7(p *engine.Prog, r *engine.Report) {
	f := mustFunc(p, r, "vm/wasm", "WasmEnv.getBalance")
	if f == nil {
		return
	}
	r.Fn(engine.FuncName(f))
	g := guardsWhere(f, func(cond ssa.Value) (bool, bool, string) {
		x, y, isEq, ok := eqCond(cond)
		if !ok {
			return false, false, ""
		}
		for _, pr := range [][2]ssa.Value{{x, y}, {y, x}} {
			if k, isK := pr[1].(*ssa.Const); isK && k.IsNil() {
				if _, fld, okF := engine.FieldOf(engine.Origin(pr[0])); okF && fld == "parent" {
					return true, isEq, "parent == nil"
				}
			}
		}
		return false, false, ""
	})
	n := 0
	for _, c := range callsTo(f, "core/state.StateDB.GetBalance") {
		n++
		r.Check(len(g) > 0 && engine.OnlyThroughPass(f, c.Block(), g), "C15-R7", "WasmEnv.getBalance|the committed balance is read only by the root environment", p.InstrPos(c), "behind parent == nil", "a nested environment can fall back to the committed balance without asking its whole parent chain: at depth three a grandchild does not see the grandparent's pending debit, starts from the stale balance and its Commit overwrites the debit — coins are created")
	}
	if n == 0 {
		r.Und("C15-R7", "WasmEnv.getBalance|state read", p.Pos(f.Pos()), "State.GetBalance not called")
	}
	// the delegation goes through the parent's own accessor (not its raw cache)
	del := false
	for _, c := range callsTo(f, "vm/wasm.WasmEnv.getBalance") {
		if _, fld, okF := engine.FieldOf(engine.Origin(engine.CallArgs(c)[0])); okF && fld == "parent" {
			del = true
		}
	}
	r.Check(del, "C15-R7", "WasmEnv.getBalance|a nested environment asks its parent's accessor", p.Pos(f.Pos()), "w.parent.getBalance(address)", "no recursive call on the parent: the lookup stops at the direct parent's cache")
}
