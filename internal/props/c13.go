package props

import (
	"fmt"
	"go/types"
	"sort"
	"strings"

	"golang.org/x/tools/go/ssa"

	"idenaverif/internal/engine"
)

func init() { register("C13", C13) }

// C13 — speculative and historical views are isolated and exact.
func C13(p *engine.Prog, r *engine.Report) {
	r.Explanation = "(R1) views are copy-on-write and share no mutable buffer: in StateDB/IdentityStateDB.ForCheck and ForCheckWithOverwrite the tree is built on database.NewBackedMemDb(s.db) and that same value is stored as the view's db; every map-typed field of the returned object is freshly made (never the receiver's); Readonly views only LazyLoad; (R2) no write-through: no method of BackedMemDb, backedMemBatch or the merged iterator calls a mutating tm-db method on the value of field permanent (positive control: the reads of permanent are found); (R3) read-your-writes shape: every direct writer reaches touch(key) on every nil-returning path after the inner write succeeded, Get/Has branch on touched.Contains between inner and permanent, batch writers only stage keys and mark them touched after a successful Write/WriteSync (never at staging time), sibling pairs Set/SetSync, Delete/DeleteSync, Write/WriteSync have the same shape; (R4) speculative callers touch the canonical state only to derive a private view (shared with C03-R3a). Decides isolation shape; does not decide merged-iterator equivalence to a reference store or exactness of historical values (IAVL)."
	r.Assumptions = []string{"tm-db MemDB and IAVL behave as documented", "merged iterator ordering/shadowing is not decided (model-based, runtime)"}
	// ---------------- R1
	for _, x := range []struct{ typ, fn string }{{"StateDB", "ForCheck"}, {"StateDB", "ForCheckWithOverwrite"}, {"IdentityStateDB", "ForCheck"}, {"IdentityStateDB", "ForCheckWithOverwrite"}} {
		f := mustFunc(p, r, "core/state", x.typ+"."+x.fn)
		if f == nil {
			continue
		}
		recv := ssa.Value(f.Params[0])
		var backed *ssa.Call
		for _, c := range callsTo(f, "database.NewBackedMemDb") {
			cc := c.(*ssa.Call)
			if base, ok := loadOfField(cc.Call.Args[0], x.typ, "db"); ok && engine.Origin(base) == recv {
				backed = cc
			}
		}
		key := x.typ + "." + x.fn
		r.Check(backed != nil, "C13-R1", key+"|NewBackedMemDb(s.db)", p.Pos(f.Pos()), "copy-on-write layer over the receiver's db", "view is not built on a copy-on-write layer over the receiver's db")
		if backed == nil {
			continue
		}
		okTree := false
		for _, c := range callsTo(f, "core/state.NewMutableTree") {
			if engine.Origin(c.Common().Args[0]) == ssa.Value(backed) {
				okTree = true
			} else {
				okTree = false
				break
			}
		}
		r.Check(okTree, "C13-R1", key+"|tree on the copy-on-write db", p.Pos(f.Pos()), "NewMutableTree(backed)", "the view's tree writes into another db than the copy-on-write layer (e.g. the canonical one)")
		for _, a := range allocsOf(f, x.typ) {
			st := fieldStoresOn(a)
			okDb := st["db"] != nil && engine.Origin(st["db"].Val) == ssa.Value(backed)
			r.Check(okDb, "C13-R1", key+"|view.db is the copy-on-write db", p.InstrPos(a), "same value", "the view object keeps another db handle than the copy-on-write layer")
			nt := engine.NamedOf(a.Type())
			stt, _ := nt.Underlying().(*types.Struct)
			for i := 0; stt != nil && i < stt.NumFields(); i++ {
				fld := stt.Field(i)
				if _, isMap := fld.Type().Underlying().(*types.Map); !isMap {
					continue
				}
				s, has := st[fld.Name()]
				fresh := false
				if has {
					_, fresh = engine.Unwrap(s.Val).(*ssa.MakeMap)
				}
				r.Check(has && fresh, "C13-R1", key+"|fresh "+fld.Name(), p.InstrPos(a), "make(map…) per view", "the view shares (or leaves nil) the mutable map "+fld.Name()+" with its parent: writes in a speculative view leak into the canonical state or sibling views")
			}
		}
	}
	for _, x := range []struct{ typ string }{{"StateDB"}, {"IdentityStateDB"}} {
		f := mustFunc(p, r, "core/state", x.typ+".Readonly")
		if f == nil {
			continue
		}
		bad := ""
		for _, c := range engine.Calls(f) {
			o := engine.CalleeObj(c.Common())
			if o == nil {
				continue
			}
			switch o.Name() {
			case "LoadVersionForOverwriting", "LoadVersion", "Load", "SaveVersion", "SaveVersionAt", "DeleteVersion", "Set", "Remove":
				bad = o.Name()
			}
		}
		r.Check(bad == "" && len(callsToName(f, "LazyLoad")) > 0, "C13-R1", x.typ+".Readonly|LazyLoad only", p.Pos(f.Pos()), "read-only load of the version", "a read-only view uses a loading mode that can prune or overwrite versions: "+bad)
	}
	viewConstructorsAgreeRule(p, r, "C13-R1")
	r.Floor("C13-R1", 30, "4 constructors x (3 + map fields) + 2 readonly")

	// ---------------- R2
	nReads, nBad := 0, 0
	for _, f := range funcsOfPkg(p, "database") {
		if f.Signature.Recv() == nil {
			continue
		}
		rn := engine.NamedOf(f.Signature.Recv().Type())
		if rn == nil {
			continue
		}
		switch rn.Obj().Name() {
		case "BackedMemDb", "backedMemBatch", "iterator":
		default:
			continue
		}
		for _, c := range engine.CallsDeep(f) {
			cc := c.Common()
			if !cc.IsInvoke() {
				continue
			}
			// receiver loaded from field permanent (directly or via it.db.permanent)
			if _, isPerm := loadOfField(cc.Value, "BackedMemDb", "permanent"); !isPerm {
				continue
			}
			switch cc.Method.Name() {
			case "Set", "SetSync", "Delete", "DeleteSync", "NewBatch", "Close":
				nBad++
				r.Bad("C13-R2", engine.RelName(f)+"|permanent."+cc.Method.Name(), p.InstrPos(c), "the copy-on-write layer writes through to (or closes) the underlying store")
			default:
				nReads++
				r.Ctl("C13-R2", engine.RelName(f)+"|permanent."+cc.Method.Name()+" (read)", p.InstrPos(c), "positive control")
			}
		}
	}
	r.Check(nReads >= 4, "C13-R2", "control|reads of permanent found", "database", "Get/Has/Iterator/ReverseIterator", "the rule no longer sees the accesses to field permanent")
	if nBad == 0 {
		r.OK("C13-R2", "BackedMemDb|no mutating call on permanent", "database", "0 write-through sites among all methods of BackedMemDb/backedMemBatch/iterator")
	}
	r.Floor("C13-R2", 5, "4 reads + verdict")

	c13R3(p, r)

	// ---------------- R4
	vb, _ := p.Func("blockchain", "Blockchain.validateBlock")
	if vb != nil {
		c03R3a(p, r, "C13-R4")
	}
	// ---------------- R7: reset completeness of the speculative state's object caches
	resetCompletenessRule(p, r, "C13-R7", "core/state", "StateDB", "Clear", map[string]string{
		"db":                 "storage handle, re-pointed only by CommitSnapshot/SwitchToPreliminary — not cached data",
		"tree":               "storage handle, re-pointed only by CommitSnapshot/SwitchToPreliminary — not cached data",
		"identityUpdateHook": "configuration (ProvideIdentityUpdateHook), not per-block data",
	}, "what a rejected or abandoned block wrote into this cache is seen by the next block evaluated on the same state object (Reset/ResetTo/ForCheck all rely on Clear)")
	resetCompletenessRule(p, r, "C13-R7", "core/state", "IdentityStateDB", "Clear", map[string]string{
		"db":   "storage handle, re-pointed only by SwitchToPreliminary — not cached data",
		"tree": "storage handle, re-pointed only by SwitchToPreliminary — not cached data",
	}, "what a rejected or abandoned block wrote into this cache is seen by the next block evaluated on the same state object")
	r.Floor("C13-R7", 18, "20 StateDB cache fields + 2 IdentityStateDB on the pinned tree")
	// ---------------- R5 (cont.): the cache is keyed by height only, so every rewind of the trees drops it
	if rt := mustFunc(p, r, "core/appstate", "AppState.ResetTo"); rt != nil {
		r.Fn(engine.FuncName(rt))
		var drop *ssa.Store
		for _, st := range storesToField([]*ssa.Function{rt}, "AppState", "readonlyStateCache") {
			drop = st
		}
		ok := drop != nil
		if ok {
			// before the trees are touched: the store dominates every call that rewinds a tree
			for _, c := range engine.Calls(rt) {
				if engine.CallNameIs(c, "ResetTo") && !(drop.Block() == c.Block() || drop.Block().Dominates(c.Block())) {
					ok = false
				}
			}
		}
		r.Check(ok, "C13-R5", "AppState.ResetTo|the read-only cache is dropped before the trees are rewound", p.Pos(rt.Pos()), "readonlyStateCache reset under its mutex", "AppState.ResetTo keeps the cached read-only view: after the block at a height was replaced, Readonly(height) keeps returning the abandoned version's state (the mempool validates against it; with pruning its tree nodes are gone)")
	}
	// ---------------- R8: the view's validator cache belongs to the view (shared with C10); a key deleted
	// on the view masks the base entry in range iteration exactly as it does in point reads
	importRules(p, r, "C10", map[string]string{"C10-R6": "C13-R8"})
	for _, x := range []struct{ pkg, fn string }{{"core/state", "StateDB.IterateContractStore"}, {"vm/env", "EnvImp.Iterate"}} {
		f, _ := p.Func(x.pkg, x.fn)
		if f == nil {
			r.Und("C13-R8", x.fn+"|masking set", "", "function not found")
			continue
		}
		r.Fn(engine.FuncName(f))
		n := 0
		for _, b := range f.Blocks {
			for _, ins := range b.Instrs {
				mu, ok := ins.(*ssa.MapUpdate)
				if !ok {
					continue
				}
				mt, isM := mu.Map.Type().Underlying().(*types.Map)
				if !isM {
					continue
				}
				if st, isS := mt.Elem().Underlying().(*types.Struct); !isS || st.NumFields() != 0 {
					continue
				}
				n++
				bad := ""
				for _, c := range controlSig(b) {
					if strings.Contains(c, ".removed") {
						bad = c
					}
				}
				r.Check(bad == "", "C13-R8", uniq(r, x.fn+"|a buffered key masks the base entry whether it is a write or a delete"), p.InstrPos(mu), "recorded unconditionally", "the key is recorded as visited only under {"+bad+"}: a key deleted on the view is not masked, the range iteration returns the base value that point reads on the same view no longer see")
			}
		}
		if n == 0 {
			r.Und("C13-R8", x.fn+"|masking set", p.Pos(f.Pos()), "no set of visited keys found")
		}
	}

}

func callsToName(f *ssa.Function, name string) []ssa.CallInstruction {
	var out []ssa.CallInstruction
	for _, c := range engine.Calls(f) {
		if o := engine.CalleeObj(c.Common()); o != nil && o.Name() == name {
			out = append(out, c)
		}
	}
	return out
}

func c13R3(p *engine.Prog, r *engine.Report) {
	// direct writers
	shape := map[string]string{}
	for _, name := range []string{"Set", "SetSync", "Delete", "DeleteSync"} {
		f := mustFunc(p, r, "database", "BackedMemDb."+name)
		if f == nil {
			continue
		}
		key := ssa.Value(f.Params[1])
		var inner *ssa.Call
		for _, c := range engine.Calls(f) {
			cc := c.Common()
			if cc.IsInvoke() && cc.Method.Name() == name {
				if _, isInner := loadOfField(cc.Value, "BackedMemDb", "inner"); isInner {
					inner, _ = c.(*ssa.Call)
				}
			}
		}
		var touches []ssa.Instruction
		for _, c := range callsTo(f, "database.BackedMemDb.touch") {
			if engine.Origin(c.Common().Args[1]) == key {
				touches = append(touches, c)
			}
		}
		ok := inner != nil && len(touches) > 0
		if ok {
			g := nilErrGuards(f, inner)
			for _, ret := range successReturns(f) {
				if !engine.MustPassInstr(f, ret, touches) {
					ok = false
				}
			}
			for _, t := range touches {
				if !engine.OnlyThroughPass(f, t.Block(), g) {
					ok = false
				}
			}
		}
		r.Check(ok, "C13-R3", "BackedMemDb."+name+"|inner write, then touch(key) on every success path", p.Pos(f.Pos()), "read-your-writes", "a key written in the view is not marked touched on some success path (reads fall through to the base) or is marked although the inner write failed")
		shape[name] = calleeShape(f)
	}
	for _, pr := range [][2]string{{"Set", "SetSync"}, {"Delete", "DeleteSync"}} {
		a, b := strings.ReplaceAll(shape[pr[0]], "Sync", ""), strings.ReplaceAll(shape[pr[1]], "Sync", "")
		r.Check(a == b && a != "", "C13-R3", "BackedMemDb."+pr[0]+"~"+pr[1]+"|sibling shape", "database", a, "siblings disagree: "+shape[pr[0]]+" vs "+shape[pr[1]])
	}
	// readers
	for _, name := range []string{"Get", "Has"} {
		f := mustFunc(p, r, "database", "BackedMemDb."+name)
		if f == nil {
			continue
		}
		ok := false
		for _, i := range engine.Ifs(f) {
			c, neg := stripNot(i.Cond)
			cc, isC := c.(*ssa.Call)
			if !isC || !cc.Call.IsInvoke() || cc.Call.Method.Name() != "Contains" {
				continue
			}
			if _, isT := loadOfField(cc.Call.Value, "BackedMemDb", "touched"); !isT {
				continue
			}
			tb, fb := i.Block().Succs[0], i.Block().Succs[1]
			if neg {
				tb, fb = fb, tb
			}
			callsOn := func(b *ssa.BasicBlock, field string) bool {
				for _, ins := range b.Instrs {
					if c2, ok := ins.(ssa.CallInstruction); ok && c2.Common().IsInvoke() && c2.Common().Method.Name() == name {
						if _, isF := loadOfField(c2.Common().Value, "BackedMemDb", field); isF {
							return true
						}
					}
				}
				return false
			}
			if callsOn(tb, "inner") && callsOn(fb, "permanent") {
				ok = true
			}
		}
		r.Check(ok, "C13-R3", "BackedMemDb."+name+"|touched ? inner : permanent", p.Pos(f.Pos()), "reads its own writes, else the base", "read does not choose between the view's own store and the base by the touched set")
	}
	// batch
	for _, name := range []string{"Set", "Delete"} {
		f := mustFunc(p, r, "database", "backedMemBatch."+name)
		if f == nil {
			continue
		}
		// stages the key, never marks it touched
		marks := false
		for _, b := range f.Blocks {
			for _, ins := range b.Instrs {
				if u, ok := ins.(*ssa.UnOp); ok {
					if _, isT := loadOfField(u, "backedMemBatch", "touch"); isT {
						marks = true
					}
				}
			}
		}
		stages := len(storesToField([]*ssa.Function{f}, "backedMemBatch", "touched")) > 0
		r.Check(stages && !marks, "C13-R3", "backedMemBatch."+name+"|stages the key only", p.Pos(f.Pos()), "append to b.touched; no touch before Write", "a key staged in a batch is marked touched before the batch is written: an abandoned batch masks the base value")
	}
	for _, name := range []string{"Write", "WriteSync"} {
		f := mustFunc(p, r, "database", "backedMemBatch."+name)
		if f == nil {
			continue
		}
		var inner *ssa.Call
		for _, c := range engine.Calls(f) {
			cc := c.Common()
			if cc.IsInvoke() && cc.Method.Name() == name {
				inner, _ = c.(*ssa.Call)
			}
		}
		// the touch call: call of the func value loaded from b.touch, inside a loop over b.touched
		var touchCall ssa.CallInstruction
		for _, c := range engine.Calls(f) {
			if _, isT := loadOfField(c.Common().Value, "backedMemBatch", "touch"); isT {
				touchCall = c
			}
		}
		ok := inner != nil && touchCall != nil
		if ok {
			hdr := engine.LoopHeaderOf(touchCall.Block())
			ok = hdr != nil && engine.OnlyThroughPass(f, touchCall.Block(), nilErrGuards(f, inner))
			if ok {
				// every success return is reached through the loop header (i.e. after the loop)
				for _, ret := range successReturns(f) {
					if !engine.MustPassBlocks(f, ret.Block(), map[*ssa.BasicBlock]bool{hdr: true}) {
						ok = false
					}
				}
				// loop ranges over b.touched and passes the element
				ok = ok && dependsOnIterVarIn(touchCall.Common().Args[0], loopBlocks(hdr))
			}
		}
		r.Check(ok, "C13-R3", "backedMemBatch."+name+"|touch every staged key after a successful write", p.Pos(f.Pos()), "loop over b.touched behind err == nil", "keys written by a batch are not all marked touched after the write (reads fall through to the base)")
	}
	r.Floor("C13-R3", 12, "4 writers + 2 siblings + 2 readers + 4 batch")
	// ---------------- R5: a cached view is stored under the key it is looked up by
	if f := mustFunc(p, r, "core/appstate", "AppState.Readonly"); f != nil {
		h := ssa.Value(f.Params[1])
		nLook, nStore, ok := 0, 0, true
		var detail []string
		for _, b := range f.Blocks {
			for _, ins := range b.Instrs {
				switch x := ins.(type) {
				case *ssa.Lookup:
					if _, fld, okF := engine.FieldOf(engine.Origin(x.X)); okF && fld == "readonlyStateCache" {
						nLook++
						if engine.Origin(engine.Unwrap(x.Index)) != h {
							ok = false
							detail = append(detail, "looked up by "+engine.PathOf(x.Index))
						}
					}
				case *ssa.MapUpdate:
					// the map that ends up in the cache field: updated in place or a fresh map stored into it
					target := false
					if _, fld, okF := engine.FieldOf(engine.Origin(x.Map)); okF && fld == "readonlyStateCache" {
						target = true
					}
					if mm, isMk := engine.Origin(x.Map).(*ssa.MakeMap); isMk && mm.Referrers() != nil {
						for _, ref := range *mm.Referrers() {
							if st, isSt := ref.(*ssa.Store); isSt && st.Val == ssa.Value(mm) {
								if _, fld, okF := engine.FieldOf(st.Addr); okF && fld == "readonlyStateCache" {
									target = true
								}
							}
						}
					}
					if target {
						nStore++
						if engine.Origin(engine.Unwrap(x.Key)) != h {
							ok = false
							detail = append(detail, "stored under "+engine.PathOf(x.Key))
						}
					}
				}
			}
		}
		r.Check(ok && nLook >= 1 && nStore >= 1, "C13-R5", "AppState.Readonly|view cached under the requested height", p.Pos(f.Pos()), fmt.Sprintf("%d lookups and %d stores keyed by the height parameter", nLook, nStore), "the cache is not keyed by the requested height ("+strings.Join(detail, "; ")+"): a later request for another height is answered with this view")
	}
	r.Floor("C13-R5", 1, "Readonly")
	// ---------------- R6: the merged iterator never skips a live base key: the base cursor advances only
	// past a key that was emitted, that equals the emitted view key (shadowed) or that the view touched
	if f := mustFunc(p, r, "database", "iterator.Next"); f != nil {
		isPermKey := func(v ssa.Value) bool {
			for x := range engine.BackSlice(v, engine.DefaultSlice) {
				if c, ok := x.(*ssa.Call); ok && c.Call.IsInvoke() && c.Call.Method.Name() == "Key" {
					if _, fld, okF := engine.FieldOf(engine.Origin(c.Call.Value)); okF && fld == "permanentIter" {
						return true
					}
				}
			}
			return false
		}
		gEq := guardsWhere(f, func(cond ssa.Value) (bool, bool, string) {
			x, y, isEq, ok := eqCond(cond)
			if !ok {
				return false, false, ""
			}
			for _, pr := range [][2]ssa.Value{{x, y}, {y, x}} {
				k, isK := engine.ConstInt(pr[1])
				c, isC := engine.Unwrap(pr[0]).(*ssa.Call)
				if isK && k == 0 && isC && (engine.CallIs(c, "bytes.Compare") || engine.CallIs(c, "bytes.Equal")) && (isPermKey(c.Call.Args[0]) || isPermKey(c.Call.Args[1])) {
					return true, isEq, "view key == base key"
				}
			}
			return false, false, ""
		})
		gTouched := guardsWhere(f, func(cond ssa.Value) (bool, bool, string) {
			c, neg := stripNot(cond)
			cc, ok := c.(*ssa.Call)
			if !ok || !engine.CallNameIs(cc, "Contains") {
				return false, false, ""
			}
			args := engine.CallArgs(cc)
			if len(args) < 2 {
				return false, false, ""
			}
			if _, fld, okF := engine.FieldOf(engine.Origin(args[0])); !okF || fld != "touched" {
				return false, false, ""
			}
			for _, a := range args[1:] {
				if isPermKey(a) {
					return true, !neg, "base key touched by the view"
				}
			}
			return false, false, ""
		})
		n := 0
		for _, c := range callsTo(f, "database.iterator.nextPermanent") {
			n++
			emitted := false
			for _, ins := range c.Block().Instrs {
				if ins == ssa.Instruction(c) {
					break
				}
				if st, ok := ins.(*ssa.Store); ok {
					if _, fld, okF := engine.FieldOf(st.Addr); okF && fld == "key" && isPermKey(st.Val) {
						emitted = true
					}
				}
			}
			ok := emitted || (len(gEq) > 0 && engine.OnlyThroughPass(f, c.Block(), gEq)) || (len(gTouched) > 0 && engine.OnlyThroughPass(f, c.Block(), gTouched))
			r.Check(ok, "C13-R6", uniq(r, "iterator.Next|base cursor advances only past an emitted, shadowed or touched key"), p.InstrPos(c), "emit / view key == base key / touched.Contains(base key)", "the base cursor advances although its current key was neither emitted nor shadowed nor touched: range iteration over the view silently skips a live key of the base store (Get still finds it)")
		}
		if n < 3 {
			r.Und("C13-R6", "iterator.Next|advances of the base cursor", p.Pos(f.Pos()), fmt.Sprintf("%d found (3 confirmed by reading)", n))
		}
	}
	r.Floor("C13-R6", 3, "three advances in Next")
}

// calleeShape: the sorted multiset of resolved callee names of f (shape signature for siblings).
func calleeShape(f *ssa.Function) string {
	var out []string
	for _, c := range engine.Calls(f) {
		if o := engine.CalleeObj(c.Common()); o != nil {
			out = append(out, o.Name())
		}
	}
	sort.Strings(out)
	return strings.Join(out, ",")
}
