package props

import (
	"go/token"
	"go/types"
	"os"
	"sort"
	"strings"

	"golang.org/x/tools/go/ssa"

	"idenaverif/internal/engine"
)

// derefBeforeNilTest lists, for fn, the pointer values that are dereferenced at an instruction
// which dominates a nil test of the very same SSA value (Engler et al.: a belief contradiction —
// either the test is dead or the dereference can panic). SSA values are single-assignment, so a
// re-assigned variable is a different value and never matches.
type contradiction struct {
	Deref ssa.Instruction
	Test  *ssa.If
	Val   ssa.Value
}

func derefBeforeNilTest(fn *ssa.Function) []contradiction {
	var out []contradiction
	if fn.Blocks == nil {
		return nil
	}
	pos := map[ssa.Instruction]int{}
	for _, b := range fn.Blocks {
		for i, ins := range b.Instrs {
			pos[ins] = i
		}
	}
	for _, b := range fn.Blocks {
		if len(b.Instrs) == 0 {
			continue
		}
		iff, ok := b.Instrs[len(b.Instrs)-1].(*ssa.If)
		if !ok {
			continue
		}
		cond, _ := stripNot(iff.Cond)
		x, y, _, okE := eqCond(cond)
		if !okE {
			continue
		}
		var v ssa.Value
		if k, isK := y.(*ssa.Const); isK && k.IsNil() {
			v = x
		} else if k, isK := x.(*ssa.Const); isK && k.IsNil() {
			v = y
		}
		if v == nil {
			continue
		}
		if _, isPtr := v.Type().Underlying().(*types.Pointer); !isPtr {
			continue
		}
		if v.Referrers() == nil {
			continue
		}
		// the same field path loaded again (`x.f.g > 0 && x.f != nil`): every load of that path counts,
		// provided the function never stores to that field
		cands := []ssa.Value{v}
		if ld, isLd := v.(*ssa.UnOp); isLd && ld.Op == token.MUL {
			if fa, isFA := ld.X.(*ssa.FieldAddr); isFA {
				key := fieldPathKey(fa)
				if key != "" && !storesToSameField(fn, fa) {
					for _, b2 := range fn.Blocks {
						for _, ins2 := range b2.Instrs {
							if l2, ok2 := ins2.(*ssa.UnOp); ok2 && l2.Op == token.MUL && ssa.Value(l2) != v {
								if fa2, okF := l2.X.(*ssa.FieldAddr); okF && fieldPathKey(fa2) == key {
									cands = append(cands, l2)
								}
							}
						}
					}
				}
			}
		}
		for _, cv := range cands {
			if cv.Referrers() == nil {
				continue
			}
			for _, ref := range *cv.Referrers() {
				v := cv
				isDeref := false
				switch d := ref.(type) {
				case *ssa.FieldAddr:
					isDeref = d.X == v
				case *ssa.UnOp:
					isDeref = d.Op == token.MUL && d.X == v
				case *ssa.IndexAddr:
					isDeref = d.X == v
				}
				if !isDeref || ref.Parent() != fn {
					continue
				}
				db := ref.Block()
				before := (db == b && pos[ref] < pos[ssa.Instruction(iff)]) || (db != b && db.Dominates(b))
				if before {
					out = append(out, contradiction{Deref: ref, Test: iff, Val: v})
				}
			}
		}
	}
	sort.Slice(out, func(i, j int) bool { return out[i].Deref.Pos() < out[j].Deref.Pos() })
	return out
}

func init() {
	if os.Getenv("VERIF_RESET_PROBE") == "" {
		return
	}
	register("XNIL", func(p *engine.Prog, r *engine.Report) {
		for _, f := range p.AllFuncs() {
			if pk := engine.FuncPkg(f); pk == nil || !engine.IsRepoPkg(pk) || f.Synthetic != "" || isTestish(p.Pos(f.Pos())) {
				continue
			}
			for _, c := range derefBeforeNilTest(f) {
				r.Note("XNIL", engine.RelName(f), p.InstrPos(c.Deref), "dereferenced before the nil test at "+p.InstrPos(c.Test))
			}
		}
	})
}

// droppedErrors lists call sites in fn whose callee is a repo function returning an error as its
// last result, where that error is never looked at (call used as a statement, or the error
// component extracted by nobody).
func droppedErrors(fn *ssa.Function) []ssa.CallInstruction {
	var out []ssa.CallInstruction
	for _, b := range fn.Blocks {
		for _, ins := range b.Instrs {
			c, ok := ins.(*ssa.Call)
			if !ok {
				continue
			}
			obj := engine.CalleeObj(&c.Call)
			if obj == nil || obj.Pkg() == nil || !engine.IsRepoPkg(obj.Pkg()) {
				continue
			}
			res := obj.Type().(*types.Signature).Results()
			if res.Len() == 0 || res.At(res.Len()-1).Type().String() != "error" {
				continue
			}
			used := false
			if c.Referrers() != nil {
				for _, ref := range *c.Referrers() {
					if res.Len() == 1 {
						if _, isDbg := ref.(*ssa.DebugRef); !isDbg {
							used = true
						}
						continue
					}
					if ex, isEx := ref.(*ssa.Extract); isEx && ex.Index == res.Len()-1 {
						if ex.Referrers() != nil && len(*ex.Referrers()) > 0 {
							used = true
						}
					}
				}
			}
			if !used {
				out = append(out, c)
			}
		}
	}
	return out
}

func init() {
	if os.Getenv("VERIF_RESET_PROBE") == "" {
		return
	}
	register("XERR", func(p *engine.Prog, r *engine.Report) {
		for _, f := range p.AllFuncs() {
			if pk := engine.FuncPkg(f); pk == nil || !engine.IsRepoPkg(pk) || f.Synthetic != "" || f.Blocks == nil || isTestish(p.Pos(f.Pos())) {
				continue
			}
			for _, c := range droppedErrors(f) {
				r.Note("XERR", engine.RelName(f)+"|"+engine.CallID(c), p.InstrPos(c), "error dropped")
			}
		}
	})
}

// fieldPathKey identifies a field address by its root SSA value and the chain of field indexes
// ("" if the path is not a pure field chain from a parameter, free variable or single value).
func fieldPathKey(fa *ssa.FieldAddr) string {
	key := ""
	var cur ssa.Value = fa
	for depth := 0; depth < 6; depth++ {
		switch x := cur.(type) {
		case *ssa.FieldAddr:
			key = "." + itoa(int64(x.Field)) + key
			cur = x.X
		case *ssa.UnOp:
			if x.Op != token.MUL {
				return ""
			}
			key = "*" + key
			cur = x.X
		case *ssa.Parameter, *ssa.FreeVar:
			return x.Name() + key
		default:
			return ""
		}
	}
	return ""
}

// storesToSameField: fn (or a closure of it) stores to the same field of the same struct type, or
// passes the struct's address to a call between — approximated by "any store to that field index of
// that struct type anywhere in fn".
func storesToSameField(fn *ssa.Function, fa *ssa.FieldAddr) bool {
	st := fa.X.Type()
	for _, b := range fn.Blocks {
		for _, ins := range b.Instrs {
			if s, ok := ins.(*ssa.Store); ok {
				if f2, ok2 := s.Addr.(*ssa.FieldAddr); ok2 && f2.Field == fa.Field && types.Identical(f2.X.Type(), st) {
					return true
				}
			}
		}
	}
	return false
}

// sharedLoopVarCapture: a goroutine (or deferred / stored closure) created inside a loop captures a
// variable that the loop assigns on every iteration but that is allocated once outside it (range and
// for-clause variables under the module's language version, go < 1.22): all goroutines read the
// value of whichever iteration runs last.
type loopCapture struct {
	At  ssa.Instruction
	Var *ssa.Alloc
}

func sharedLoopVarCaptures(fn *ssa.Function) []loopCapture {
	var out []loopCapture
	if fn.Blocks == nil {
		return nil
	}
	for _, b := range fn.Blocks {
		for _, ins := range b.Instrs {
			g, isGo := ins.(*ssa.Go)
			if !isGo {
				continue
			}
			mc, isMC := g.Call.Value.(*ssa.MakeClosure)
			if !isMC {
				continue
			}
			hdr := enclosingLoopHeader(b)
			if hdr == nil {
				continue
			}
			inLoop := loopBlocks(hdr)
			for _, bind := range mc.Bindings {
				a, isA := bind.(*ssa.Alloc)
				if !isA || inLoop[a.Block()] {
					continue
				}
				// assigned inside the loop
				for _, st := range engine.StoresTo(a) {
					if inLoop[st.Block()] {
						out = append(out, loopCapture{At: g, Var: a})
						break
					}
				}
			}
		}
	}
	return out
}

func init() {
	if os.Getenv("VERIF_RESET_PROBE") == "" {
		return
	}
	register("XLOOP", func(p *engine.Prog, r *engine.Report) {
		for _, f := range p.AllFuncs() {
			if pk := engine.FuncPkg(f); pk == nil || !engine.IsRepoPkg(pk) || f.Synthetic != "" || f.Blocks == nil || isTestish(p.Pos(f.Pos())) {
				continue
			}
			for _, c := range sharedLoopVarCaptures(f) {
				r.Note("XLOOP", engine.RelName(f)+"|"+c.Var.Comment, p.InstrPos(c.At), "goroutine captures a loop variable shared by all iterations")
			}
		}
	})
}

// poolUseAfterPut: typestate of sync.Pool objects. A value handed back with Put (directly or by a
// deferred Put) must not leave the function through a result, and a direct Put must not be followed
// by another use of the value.
func poolUseAfterPut(fn *ssa.Function) []ssa.Instruction {
	var out []ssa.Instruction
	if fn.Blocks == nil {
		return nil
	}
	under := func(v ssa.Value) ssa.Value {
		v = engine.Unwrap(v)
		if mi, ok := v.(*ssa.MakeInterface); ok {
			return engine.Unwrap(mi.X)
		}
		return v
	}
	for _, b := range fn.Blocks {
		for idx, ins := range b.Instrs {
			var cc *ssa.CallCommon
			deferred := false
			switch x := ins.(type) {
			case *ssa.Call:
				cc = &x.Call
			case *ssa.Defer:
				cc, deferred = &x.Call, true
			default:
				continue
			}
			obj := engine.CalleeObj(cc)
			if obj == nil || obj.Name() != "Put" || obj.Pkg() == nil || obj.Pkg().Path() != "sync" {
				continue
			}
			args := cc.Args
			if len(args) < 2 {
				continue
			}
			v := under(args[1])
			// (a) escapes through a result
			for _, ret := range engine.Returns(fn) {
				for _, res := range ret.Results {
					if under(res) == v || engine.BackSlice(res, engine.SliceOpts{ThroughLoads: true, MaxNodes: 200})[v] {
						if _, isPtrOrIface := res.Type().Underlying().(*types.Basic); !isPtrOrIface {
							if _, isArr := res.Type().Underlying().(*types.Array); !isArr {
								out = append(out, ins)
							}
						}
					}
				}
			}
			// (b) used after a direct Put
			if !deferred && v.Referrers() != nil {
				for _, ref := range *v.Referrers() {
					if ref == ins || ref.Parent() != fn {
						continue
					}
					if _, isDbg := ref.(*ssa.DebugRef); isDbg {
						continue
					}
					after := false
					if ref.Block() == b {
						for j := idx + 1; j < len(b.Instrs); j++ {
							if b.Instrs[j] == ref {
								after = true
							}
						}
					} else if b.Dominates(ref.Block()) {
						after = true
					}
					if after {
						out = append(out, ref)
					}
				}
			}
		}
	}
	return out
}

func init() {
	if os.Getenv("VERIF_RESET_PROBE") == "" {
		return
	}
	register("XPOOL", func(p *engine.Prog, r *engine.Report) {
		for _, f := range p.AllFuncs() {
			if pk := engine.FuncPkg(f); pk == nil || !engine.IsRepoPkg(pk) || f.Synthetic != "" || f.Blocks == nil || isTestish(p.Pos(f.Pos())) {
				continue
			}
			for _, c := range poolUseAfterPut(f) {
				r.Note("XPOOL", engine.RelName(f), p.InstrPos(c), "pooled value used after / escapes past Put")
			}
		}
	})
}

// useBeforeErrCheck: for a call returning (v, err) whose err IS tested somewhere in fn, a use of v
// at a point that dominates every test of that err (the author believes the call can fail, yet v is
// consumed first). Uses that only pass v to the error test itself / to a log call do not count.
type errOrder struct {
	Use  ssa.Instruction
	Call *ssa.Call
	Test *ssa.If
}

func useBeforeErrCheck(fn *ssa.Function) []errOrder {
	var out []errOrder
	if fn.Blocks == nil {
		return nil
	}
	pos := map[ssa.Instruction]int{}
	for _, b := range fn.Blocks {
		for i, ins := range b.Instrs {
			pos[ins] = i
		}
	}
	for _, b := range fn.Blocks {
		for _, ins := range b.Instrs {
			c, ok := ins.(*ssa.Call)
			if !ok {
				continue
			}
			tup, isTup := c.Type().(*types.Tuple)
			if !isTup || tup.Len() < 2 || tup.At(tup.Len()-1).Type().String() != "error" {
				continue
			}
			var errEx *ssa.Extract
			var vals []*ssa.Extract
			if c.Referrers() == nil {
				continue
			}
			for _, ref := range *c.Referrers() {
				if ex, isEx := ref.(*ssa.Extract); isEx {
					if ex.Index == tup.Len()-1 {
						errEx = ex
					} else {
						vals = append(vals, ex)
					}
				}
			}
			if errEx == nil || errEx.Referrers() == nil {
				continue
			}
			// tests of this err
			var tests []*ssa.If
			for _, ref := range *errEx.Referrers() {
				bo, isB := ref.(*ssa.BinOp)
				if !isB || bo.Referrers() == nil {
					continue
				}
				for _, r2 := range *bo.Referrers() {
					if iff, isIf := r2.(*ssa.If); isIf {
						tests = append(tests, iff)
					}
				}
			}
			if len(tests) == 0 {
				continue
			}
			for _, vx := range vals {
				if vx.Referrers() == nil {
					continue
				}
				for _, use := range *vx.Referrers() {
					if _, isDbg := use.(*ssa.DebugRef); isDbg || use.Parent() != fn {
						continue
					}
					if _, isPhi := use.(*ssa.Phi); isPhi {
						continue
					}
					if _, isRet := use.(*ssa.Return); isRet {
						continue
					}
					if _, isSt := use.(*ssa.Store); isSt {
						continue // assignment to a named result / variable is not consumption
					}
					before := true
					var first *ssa.If
					for _, t := range tests {
						tb := t.Block()
						ub := use.Block()
						dom := (ub == tb && pos[use] < pos[ssa.Instruction(t)]) || (ub != tb && ub.Dominates(tb))
						if !dom {
							before = false
						}
						first = t
					}
					if before {
						out = append(out, errOrder{Use: use, Call: c, Test: first})
					}
				}
			}
		}
	}
	return out
}

func init() {
	if os.Getenv("VERIF_RESET_PROBE") == "" {
		return
	}
	register("XORD", func(p *engine.Prog, r *engine.Report) {
		for _, f := range p.AllFuncs() {
			if pk := engine.FuncPkg(f); pk == nil || !engine.IsRepoPkg(pk) || f.Synthetic != "" || f.Blocks == nil || isTestish(p.Pos(f.Pos())) {
				continue
			}
			for _, c := range useBeforeErrCheck(f) {
				r.Note("XORD", engine.RelName(f)+"|"+engine.CallID(c.Call), p.InstrPos(c.Use), "result used before the error test at "+p.InstrPos(c.Test))
			}
		}
	})
}

// sharedBufferRetained: inside a loop a byte slice is handed to a call that keeps it by reference
// (tree.Set(key, value): IAVL stores the key slice in the node), although the slice's backing array
// was allocated once outside the loop and is rewritten in every iteration (passed to another call or
// stored into in the loop body). Every node then holds the same, last-written key.
type sharedBuf struct {
	At  ssa.CallInstruction
	Buf ssa.Value
}

func sharedBufferRetained(fn *ssa.Function, retains func(c ssa.CallInstruction) []int) []sharedBuf {
	var out []sharedBuf
	if fn.Blocks == nil {
		return nil
	}
	for _, b := range fn.Blocks {
		hdr := enclosingLoopHeader(b)
		if hdr == nil {
			continue
		}
		body := loopBlocks(hdr)
		for _, ins := range b.Instrs {
			c, ok := ins.(ssa.CallInstruction)
			if !ok {
				continue
			}
			for _, ai := range retains(c) {
				args := engine.CallArgs(c)
				if ai >= len(args) {
					continue
				}
				// the allocation behind the argument
				v := engine.Unwrap(args[ai])
				for d := 0; d < 4; d++ {
					if sl, isSl := v.(*ssa.Slice); isSl {
						v = engine.Unwrap(sl.X)
						continue
					}
					break
				}
				var alloc ssa.Value
				switch x := v.(type) {
				case *ssa.MakeSlice:
					alloc = x
				case *ssa.Alloc:
					alloc = x
				}
				if alloc == nil {
					continue
				}
				ai2, _ := alloc.(ssa.Instruction)
				if ai2 == nil || body[ai2.Block()] {
					continue // allocated in this iteration
				}
				// rewritten inside the loop: handed to another call, or stored into
				rewritten := false
				// the buffer and every slice of it (wherever the slice expression sits)
				derived := []ssa.Value{alloc}
				for k := 0; k < len(derived) && k < 16; k++ {
					if derived[k].Referrers() == nil {
						continue
					}
					for _, ref := range *derived[k].Referrers() {
						if sl, isSl := ref.(*ssa.Slice); isSl && sl.X == derived[k] {
							derived = append(derived, sl)
						}
					}
				}
				for _, dv := range derived {
					if dv.Referrers() == nil {
						continue
					}
					for _, ref := range *dv.Referrers() {
						if !body[ref.Block()] || ref == ins {
							continue
						}
						switch y := ref.(type) {
						case ssa.CallInstruction:
							rewritten = true
						case *ssa.IndexAddr:
							if y.Referrers() != nil {
								for _, r2 := range *y.Referrers() {
									if _, isSt := r2.(*ssa.Store); isSt && body[r2.Block()] {
										rewritten = true
									}
								}
							}
						}
					}
				}
				if rewritten {
					out = append(out, sharedBuf{At: c, Buf: alloc})
				}
			}
		}
	}
	return out
}

// treeSetRetains: argument indexes (receiver = 0) that a tree/db write keeps by reference.
func treeSetRetains(c ssa.CallInstruction) []int {
	o := engine.CalleeObj(c.Common())
	if o == nil || o.Name() != "Set" {
		return nil
	}
	recv := ""
	if sig, ok := o.Type().(*types.Signature); ok && sig.Recv() != nil {
		recv = sig.Recv().Type().String()
	}
	if strings.Contains(recv, "iavl") || strings.Contains(recv, "MutableTree") || strings.Contains(recv, "core/state.Tree") {
		return []int{1}
	}
	return nil
}

// drainBoundedByShrinkingLen: `for i := 0; i < len(ch); i++ { x := <-ch … }` — the bound is read
// again on every iteration while the body shortens the channel and the index grows: the loop stops
// after about half of the elements. Reported for every loop whose header compares a value with
// len(c) of a channel c that the loop body receives from.
func drainBoundedByShrinkingLen(fn *ssa.Function) []ssa.Instruction {
	var out []ssa.Instruction
	if fn.Blocks == nil {
		return nil
	}
	for _, h := range fn.Blocks {
		isHdr := false
		for _, pr := range h.Preds {
			if h.Dominates(pr) {
				isHdr = true
			}
		}
		if !isHdr || len(h.Instrs) == 0 {
			continue
		}
		iff, ok := h.Instrs[len(h.Instrs)-1].(*ssa.If)
		if !ok {
			continue
		}
		body := loopBlocks(h)
		// len(c) in the header condition
		var chans []string
		for v := range engine.BackSlice(iff.Cond, engine.SliceOpts{ThroughLoads: false, MaxNodes: 40}) {
			c, isC := v.(*ssa.Call)
			if !isC {
				continue
			}
			if bi, isB := c.Call.Value.(*ssa.Builtin); !isB || bi.Name() != "len" {
				continue
			}
			if _, isCh := c.Call.Args[0].Type().Underlying().(*types.Chan); !isCh {
				continue
			}
			if c.Block() != h {
				continue // evaluated once before the loop: a fixed bound is fine
			}
			chans = append(chans, renderVal(c.Call.Args[0], 0))
		}
		if len(chans) == 0 {
			continue
		}
		for b := range body {
			for _, ins := range b.Instrs {
				var from ssa.Value
				switch x := ins.(type) {
				case *ssa.UnOp:
					if x.Op == token.ARROW {
						from = x.X
					}
				case *ssa.Select:
					for _, st := range x.States {
						if st.Dir == types.RecvOnly {
							from = st.Chan
						}
					}
				}
				if from == nil {
					continue
				}
				for _, c := range chans {
					if renderVal(from, 0) == c {
						out = append(out, ins)
					}
				}
			}
		}
	}
	return out
}

// unguardedDecimalDivision: a decimal division (panics on a zero divisor) whose divisor is built from
// a run-time value v is reached only behind a test that v is not zero (v != 0, v > 0, v.Sign() != 0,
// or the zero edge of v == 0 / v.Sign() == 0 leaving). Constants are not constrained.
type divSite struct {
	Call *ssa.Call
	Of   string
}

func unguardedDecimalDivisions(fn *ssa.Function) []divSite {
	var out []divSite
	if fn.Blocks == nil {
		return nil
	}
	for _, c0 := range engine.Calls(fn) {
		c, ok := c0.(*ssa.Call)
		if !ok {
			continue
		}
		o := engine.CalleeObj(&c.Call)
		if o == nil || o.Pkg() == nil || !strings.HasSuffix(o.Pkg().Path(), "shopspring/decimal") || (o.Name() != "Div" && o.Name() != "DivRound") {
			continue
		}
		args := engine.CallArgs(c)
		if len(args) < 2 {
			continue
		}
		// the run-time value behind the divisor
		var v ssa.Value
		if mk, isC := engine.Unwrap(args[1]).(*ssa.Call); isC {
			if mo := engine.CalleeObj(&mk.Call); mo != nil && strings.HasPrefix(mo.Name(), "New") && len(mk.Call.Args) > 0 {
				v = mk.Call.Args[0]
			}
		}
		if v == nil {
			v = args[1]
		}
		for {
			if cv, isCv := v.(*ssa.Convert); isCv {
				v = cv.X
				continue
			}
			break
		}
		if _, isK := v.(*ssa.Const); isK {
			continue
		}
		// `new(big.Int).SetUint64(x)` and the like: look through to x
		base := map[ssa.Value]bool{v: true}
		if inner, isC := v.(*ssa.Call); isC {
			for _, a := range inner.Call.Args {
				aa := a
				for {
					if cv, isCv := aa.(*ssa.Convert); isCv {
						aa = cv.X
						continue
					}
					break
				}
				base[aa] = true
			}
		}
		g := guardsWhere(fn, func(cond ssa.Value) (bool, bool, string) {
			cnd, neg := stripNot(cond)
			bo, isB := cnd.(*ssa.BinOp)
			if !isB {
				return false, false, ""
			}
			for _, pr := range [][2]ssa.Value{{bo.X, bo.Y}, {bo.Y, bo.X}} {
				k, isK := pr[1].(*ssa.Const)
				if !isK || k.Value == nil || (k.Value.ExactString() != "0") {
					continue
				}
				x := pr[0]
				for {
					if cv, isCv := x.(*ssa.Convert); isCv {
						x = cv.X
						continue
					}
					break
				}
				is := base[x]
				if sc, isC := x.(*ssa.Call); isC && engine.CallNameIs(sc, "Sign") && len(sc.Call.Args) > 0 && base[sc.Call.Args[0]] {
					is = true
				}
				if !is {
					continue
				}
				nonZeroOnTrue := false
				switch bo.Op {
				case token.NEQ, token.GTR:
					nonZeroOnTrue = pr[0] == bo.X || bo.Op == token.NEQ
				case token.LSS:
					nonZeroOnTrue = pr[0] == bo.Y // 0 < v
				case token.EQL, token.LEQ:
					nonZeroOnTrue = false
				default:
					continue
				}
				return true, nonZeroOnTrue != neg, "divisor != 0"
			}
			return false, false, ""
		})
		if len(g) == 0 || !engine.OnlyThroughPass(fn, c.Block(), g) {
			out = append(out, divSite{Call: c, Of: renderVal(v, 0)})
		}
	}
	return out
}

func init() {
	if os.Getenv("VERIF_RESET_PROBE") == "" {
		return
	}
	register("XDIV", func(p *engine.Prog, r *engine.Report) {
		for _, f := range p.AllFuncs() {
			if pk := engine.FuncPkg(f); pk == nil || !engine.IsRepoPkg(pk) || f.Synthetic != "" || f.Blocks == nil || isTestish(p.Pos(f.Pos())) {
				continue
			}
			for _, d := range unguardedDecimalDivisions(f) {
				r.Note("XDIV", engine.RelName(f), p.InstrPos(d.Call), "decimal division by "+d.Of+" without a non-zero test")
			}
		}
	})
}
