package props

import (
	"fmt"
	"go/types"
	"sort"
	"strings"

	"golang.org/x/tools/go/ssa"

	"idenaverif/internal/engine"
)

func init() { register("C20", C20) }

// C20 — push/pull fetches each announced item once, falling back to the next announcer.
// Decided: the guard shape of every pull emission, the bound/pairing shape of the registries, item
// identity agreement, and the lock discipline of tracker and manager. Not decided: timing (pull delay,
// "at most N at a time" as a count over time) and boundedness as a number.
func C20(p *engine.Prog, r *engine.Report) {
	r.Explanation = "(R1) every pull emission is behind the miss edge of holder.Has(hash) for the item being requested: both emissions of PushPullManager.addPush (the first additionally behind the double-checked counter miss under the manager's mutex and paired with counter creation, the second behind cnt < holder.MaxParallelPulls()), the deferred registration AddPendingPush, and the fallback emission of DefaultPushTracker.loop; the announcement counter is keyed by the same identity (type and hash) that selects holder and tracker; every immediate emission is paired with RegisterPull; (R2) registries are bounded and cleaned: pendingPushes.Add only behind the size guard and an active pull for the hash, DefaultHolder.Add reaches RemovePull for the stored hash, gc deletes expired active pulls, both go-cache registries are created with a non-zero expiry; (R3) lock discipline over DefaultPushTracker, sortedPendingPushes, PushPullManager, DefaultHolder: pairwise guarded-by, no re-entrant acquisition, acyclic order, nothing blocking under ppMutex/list lock/manager mutex, release on every path; (R4) check-then-act atomicity: an index-based Remove/MoveWithNewTime on the pending list acts on the element obtained by Peek in the same ppMutex critical section. Not decided: pull-delay timing, numeric bounds, fairness between announcers."
	r.Assumptions = []string{"go-cache and sync.Map are internally synchronised (trusted)", "lock identity per struct type and field", "holders are registered (AddEntryHolder/SetHolder) before Run starts the goroutines"}
	c20R1(p, r)
	c20R2(p, r)
	c20R3(p, r)
	c20R4(p, r)
	// ---------------- R5: one forwarding goroutine per holder — a goroutine started in a loop does not
	// capture a variable the loop re-assigns (module language version < 1.22: one variable for all iterations)
	{
		scanned := 0
		for _, pkg := range []string{"protocol", "common/pushpull"} {
			for _, f := range funcsOfPkg(p, pkg) {
				if f.Blocks == nil || isTestish(p.Pos(f.Pos())) {
					continue
				}
				scanned++
				for _, c := range sharedLoopVarCaptures(f) {
					r.Bad("C20-R5", uniq(r, engine.RelName(f)+"|goroutine started in a loop captures "+c.Var.Comment), p.InstrPos(c.At), "the goroutine reads a loop variable that all iterations share: every goroutine started by this loop works with the value of the last iteration — e.g. every tracker's requests are forwarded for one holder only, announcers of all other item types are never asked")
				}
			}
		}
		r.OK("C20-R5", "protocol, common/pushpull|goroutines started in loops capture no shared loop variable", "", itoa(int64(scanned))+" functions scanned")
	}

}

// hasGuards: branches on holder.Has(x) where x is `hash` (Origin-equal or the same access path); pass =
// the miss edge. Short-circuit forms are ordinary control flow in SSA.
func hasGuards(f *ssa.Function, sameHash func(v ssa.Value) bool) []engine.Guard {
	return guardsWhere(f, func(cond ssa.Value) (bool, bool, string) {
		c, neg := stripNot(cond)
		call, ok := engine.Unwrap(c).(*ssa.Call)
		if !ok || !call.Call.IsInvoke() || call.Call.Method.Name() != "Has" || len(call.Call.Args) != 1 {
			return false, false, ""
		}
		if n := engine.NamedOf(call.Call.Value.Type()); n == nil || n.Obj().Name() != "Holder" {
			return false, false, ""
		}
		if !sameHash(call.Call.Args[0]) {
			return false, false, ""
		}
		// cond true means "has" unless negated; pass edge = does not have
		return true, neg, "!holder.Has(hash)"
	})
}

func c20R1(p *engine.Prog, r *engine.Report) {
	ap := mustFunc(p, r, "protocol", "PushPullManager.addPush")
	lp := mustFunc(p, r, "common/pushpull", "DefaultPushTracker.loop")
	app := mustFunc(p, r, "common/pushpull", "DefaultPushTracker.AddPendingPush")
	if ap == nil || lp == nil || app == nil {
		return
	}
	// ---- addPush
	hashPar := ap.Params[2]
	sameAsParHash := func(v ssa.Value) bool {
		// hash.Hash of the parameter
		f, ok := fieldOfParam(v, hashPar)
		return ok && f == "Hash"
	}
	gHas := hasGuards(ap, sameAsParHash)
	// emission sites: makeRequest itself, or a same-type helper that hands one of its parameters to
	// makeRequest as the hash (and may register the pull itself)
	hashArgOf := map[ssa.CallInstruction]ssa.Value{}
	regInside := map[ssa.CallInstruction]bool{}
	var emis []ssa.CallInstruction
	for _, c := range engine.Calls(ap) {
		if engine.CallIs(c, "protocol.PushPullManager.makeRequest") {
			emis = append(emis, c)
			hashArgOf[c] = c.Common().Args[2]
			continue
		}
		w := c.Common().StaticCallee()
		if w == nil || w.Blocks == nil || w.Pkg != ap.Pkg || w == ap {
			continue
		}
		for _, mc := range callsTo(w, "protocol.PushPullManager.makeRequest") {
			for k, prm := range w.Params {
				if isParam(mc.Common().Args[2], prm) && k < len(c.Common().Args) {
					emis = append(emis, c)
					hashArgOf[c] = c.Common().Args[k]
					for _, b := range w.Blocks {
						for _, ins := range b.Instrs {
							if rc, ok := ins.(*ssa.Call); ok && rc.Call.IsInvoke() && rc.Call.Method.Name() == "RegisterPull" {
								if f, okF := fieldOfParam(rc.Call.Args[0], prm); okF && f == "Hash" && engine.InstrDominates(mc, rc) {
									regInside[c] = true
								}
							}
						}
					}
				}
			}
		}
	}
	sort.Slice(emis, func(i, j int) bool { return emis[i].Pos() < emis[j].Pos() })
	for i, c := range emis {
		okArg := isParam(hashArgOf[c], hashPar)
		r.Check(len(gHas) > 0 && okArg && engine.OnlyThroughPass(ap, c.Block(), gHas), "C20-R1", fmt.Sprintf("addPush|emission #%d only for an item the holder lacks", i+1), p.InstrPos(c), "behind !holder.Has(hash.Hash), requests the announced hash", "a pull request is emitted for an item that is already stored (or for another hash than the announced one)")
		// paired with RegisterPull on the same hash, when the holder supports pending requests
		paired := regInside[c]
		for _, b := range ap.Blocks {
			for _, ins := range b.Instrs {
				rc, ok := ins.(*ssa.Call)
				if !ok || !rc.Call.IsInvoke() || rc.Call.Method.Name() != "RegisterPull" {
					continue
				}
				if sameAsParHash(rc.Call.Args[0]) && engine.InstrDominates(c, rc) && sameRegion(c, rc) {
					paired = true
				}
			}
		}
		r.Check(paired, "C20-R1", fmt.Sprintf("addPush|emission #%d registers the pull", i+1), p.InstrPos(c), "RegisterPull(hash.Hash) follows", "an immediate pull is not registered as active: later announcers are dropped by AddPendingPush and never asked")
	}
	if len(emis) != 2 {
		r.Und("C20-R1", "addPush|two emission sites", p.Pos(ap.Pos()), fmt.Sprintf("%d makeRequest calls (2 confirmed by reading)", len(emis)))
	} else {
		// first: double-checked miss under the mutex, paired with SetDefault(key)
		var gets []*ssa.Call
		var setd *ssa.Call
		for _, c := range engine.Calls(ap) {
			cc, ok := c.(*ssa.Call)
			if !ok {
				continue
			}
			if engine.CallNameIs(cc, "Get") && strings.Contains(engine.CallID(cc), "go-cache") {
				gets = append(gets, cc)
			}
			if engine.CallNameIs(cc, "SetDefault") && strings.Contains(engine.CallID(cc), "go-cache") {
				setd = cc
			}
		}
		la := lockAnalysis(p)
		okFirst := len(gets) == 2 && setd != nil
		if okFirst {
			sort.Slice(gets, func(i, j int) bool { return gets[i].Pos() < gets[j].Pos() })
			second := gets[1]
			var okv ssa.Value
			for _, ref := range *second.Referrers() {
				if ex, isEx := ref.(*ssa.Extract); isEx && ex.Index == 1 {
					okv = ex
				}
			}
			g := guardsWhere(ap, func(cond ssa.Value) (bool, bool, string) {
				c, neg := stripNot(cond)
				if c == okv && okv != nil {
					return true, neg, "counter miss (re-checked)"
				}
				return false, false, ""
			})
			okFirst = len(g) > 0 && engine.OnlyThroughPass(ap, emis[0].Block(), g) &&
				la.HeldAt(second).Has("PushPullManager.mutex") && la.HeldAt(emis[0]).Has("PushPullManager.mutex") && la.HeldAt(setd).Has("PushPullManager.mutex") &&
				engine.InstrDominates(setd, emis[0]) && setd.Block() == emis[0].Block() &&
				engine.Origin(second.Call.Args[1]) == engine.Origin(setd.Call.Args[1]) && engine.Origin(gets[0].Call.Args[1]) == engine.Origin(setd.Call.Args[1])
		}
		r.Check(okFirst, "C20-R1", "addPush|first emission only on a re-checked counter miss under the mutex, with the counter created", p.InstrPos(emis[0]), "Get(key) miss → Lock → Get(key) miss → SetDefault(key) → makeRequest, one key", "two concurrent first announcements can both count as first (or the counter is created under another key): more parallel pulls than configured / announcers lost")
		// second: behind cnt < MaxParallelPulls()
		g2 := guardsWhere(ap, func(cond ssa.Value) (bool, bool, string) {
			b, ok := cond.(*ssa.BinOp)
			if !ok {
				return false, false, ""
			}
			isMax := func(v ssa.Value) bool {
				c, ok := engine.Unwrap(v).(*ssa.Call)
				return ok && c.Call.IsInvoke() && c.Call.Method.Name() == "MaxParallelPulls"
			}
			isCnt := func(v ssa.Value) bool {
				c, ok := engine.Unwrap(v).(*ssa.Call)
				return ok && engine.CallIs(c, "sync/atomic.AddUint32")
			}
			switch b.Op.String() {
			case ">=":
				if isCnt(b.X) && isMax(b.Y) {
					return true, false, "cnt < max"
				}
			case "<":
				if isCnt(b.X) && isMax(b.Y) {
					return true, true, "cnt < max"
				}
			case "<=":
				if isMax(b.X) && isCnt(b.Y) {
					return true, false, "cnt < max"
				}
			case ">":
				if isMax(b.X) && isCnt(b.Y) {
					return true, true, "cnt < max"
				}
			}
			return false, false, ""
		})
		r.Check(len(g2) > 0 && engine.OnlyThroughPass(ap, emis[1].Block(), g2), "C20-R1", "addPush|further emission only while the atomically incremented count is below MaxParallelPulls()", p.InstrPos(emis[1]), "behind atomic.AddUint32(&cnt,1) < holder.MaxParallelPulls()", "an announcement beyond the parallel limit triggers an immediate pull instead of being deferred")
		// deferred registration on the other edge
		okDef := false
		for _, c := range engine.Calls(ap) {
			cc, ok := c.(*ssa.Call)
			if ok && cc.Call.IsInvoke() && cc.Call.Method.Name() == "AddPendingPush" && sameAsParHash(cc.Call.Args[1]) && len(g2) > 0 {
				// reachable only through the fail edge of the limit test
				var fg []engine.Guard
				for _, g := range g2 {
					fg = append(fg, engine.Guard{If: g.If, PassTrue: !g.PassTrue})
				}
				okDef = engine.OnlyThroughPass(ap, cc.Block(), fg) && engine.OnlyThroughPass(ap, cc.Block(), gHas)
			}
		}
		r.Check(okDef, "C20-R1", "addPush|announcers beyond the limit are deferred to the tracker", p.Pos(ap.Pos()), "AddPendingPush(id, hash.Hash) on the limit edge", "announcers beyond the limit are neither pulled nor remembered")
	}
	// identity: key derived from the whole pushPullHash; holder selected by its Type
	okKey := false
	var keyV ssa.Value
	for _, c := range engine.Calls(ap) {
		cc, ok := c.(*ssa.Call)
		if ok && engine.CallNameIs(cc, "SetDefault") && strings.Contains(engine.CallID(cc), "go-cache") {
			keyV = cc.Call.Args[1]
		}
	}
	if keyV != nil {
		if kc, ok := engine.Origin(keyV).(*ssa.Call); ok && kc.Call.StaticCallee() != nil {
			cal := kc.Call.StaticCallee()
			recvOK := len(kc.Call.Args) > 0 && isParam(kc.Call.Args[0], hashPar)
			reads := map[string]bool{}
			for _, b := range cal.Blocks {
				for _, ins := range b.Instrs {
					if fa, ok := ins.(*ssa.FieldAddr); ok {
						if o, f, ok := engine.FieldOf(fa); ok && o == "pushPullHash" {
							reads[f] = true
						}
					}
					if fv, ok := ins.(*ssa.Field); ok {
						if o, f, ok := engine.FieldOf(fv); ok && o == "pushPullHash" {
							reads[f] = true
						}
					}
				}
			}
			okKey = recvOK && reads["Type"] && reads["Hash"]
		}
	}
	holderByType := false
	for _, b := range ap.Blocks {
		for _, ins := range b.Instrs {
			if lk, ok := ins.(*ssa.Lookup); ok {
				if _, isH := loadOfField(lk.X, "PushPullManager", "entryHolders"); isH {
					if f, ok := fieldOfParam(lk.Index, hashPar); ok && f == "Type" {
						holderByType = true
					}
				}
			}
		}
	}
	r.Check(okKey && holderByType, "C20-R1", "addPush|announcement counter keyed by the identity that selects holder and tracker (type and hash)", p.Pos(ap.Pos()), "key = hash.String() over Type and Hash; holder = entryHolders[hash.Type]", "the per-item counter is keyed differently from the holder/tracker selection: items of different kinds with equal hashes share a counter and first announcers are dropped")

	// ---- AddPendingPush
	hp := app.Params[2]
	gA := hasGuards(app, func(v ssa.Value) bool { return engine.Origin(v) == ssa.Value(hp) })
	var addc *ssa.Call
	for _, c := range callsTo(app, "common/pushpull.sortedPendingPushes.Add") {
		addc, _ = c.(*ssa.Call)
	}
	if addc == nil {
		r.Bad("C20-R1", "AddPendingPush|registration", p.Pos(app.Pos()), "pendingPushes.Add not called")
	} else {
		r.Check(len(gA) > 0 && engine.OnlyThroughPass(app, addc.Block(), gA), "C20-R1", "AddPendingPush|announcer remembered only for an item the holder lacks", p.InstrPos(addc), "behind !holder.Has(hash)", "announcements of known items are queued for a later pull")
	}
	// ---- loop
	var send *ssa.Send
	for _, b := range lp.Blocks {
		for _, ins := range b.Instrs {
			if s, ok := ins.(*ssa.Send); ok {
				if _, isReq := loadOfField(s.Chan, "DefaultPushTracker", "requests"); isReq {
					send = s
				}
			}
		}
	}
	if send == nil {
		r.Bad("C20-R1", "loop|fallback emission", p.Pos(lp.Pos()), "no send on d.requests")
	} else {
		// the hash tested is the hash of the element sent: same local cell (.req.Hash / .req)
		cellOf := func(v ssa.Value) ssa.Value {
			for i := 0; i < 6; i++ {
				switch x := v.(type) {
				case *ssa.UnOp:
					v = x.X
				case *ssa.FieldAddr:
					v = x.X
				default:
					return v
				}
			}
			return v
		}
		sent := cellOf(send.X)
		gL := hasGuards(lp, func(v ssa.Value) bool {
			return cellOf(v) == sent && strings.HasSuffix(engine.PathOf(v), ".Hash")
		})
		r.Check(len(gL) > 0 && engine.OnlyThroughPass(lp, send.Block(), gL), "C20-R1", "loop|fallback emission only for an item the holder lacks", p.InstrPos(send), "behind !holder.Has(obj.req.Hash) on the element sent", "a queued announcer is pulled although the item has been stored (holders that do not call RemovePull, e.g. the tx pool, are only observable through Has)")
		reg := false
		for _, c := range callsTo(lp, "common/pushpull.DefaultPushTracker.RegisterPull") {
			if cellOf(c.Common().Args[1]) == sent && send.Block() == c.Block() {
				reg = true
			}
		}
		r.Check(reg, "C20-R1", "loop|fallback emission registers the pull", p.InstrPos(send), "RegisterPull(obj.req.Hash) follows", "the fallback pull is not registered: remaining announcers are discarded as inactive")
	}
	r.Floor("C20-R1", 10, "addPush ×7, AddPendingPush, loop ×2")
}

// sameRegion: b follows a without an intervening return (same straight-line tail or dominated block).
func sameRegion(a, b ssa.Instruction) bool {
	if a.Block() == b.Block() {
		return true
	}
	// b's block must be reachable from a's block and every path from a's block to a return passes…
	// keep it simple: b's block is a successor chain of a's block guarded only by SupportPendingRequests
	seen := engine.ReachAvoiding(a.Parent(), a.Block(), nil, nil)
	return seen[b.Block()]
}

func c20R2(p *engine.Prog, r *engine.Report) {
	app := mustFunc(p, r, "common/pushpull", "DefaultPushTracker.AddPendingPush")
	gc := mustFunc(p, r, "common/pushpull", "DefaultPushTracker.gc")
	da := mustFunc(p, r, "common/pushpull", "DefaultHolder.Add")
	if app == nil || gc == nil || da == nil {
		return
	}
	maxPending := constInt(p, "common/pushpull", "maxPendingPushes")
	var addc *ssa.Call
	for _, c := range callsTo(app, "common/pushpull.sortedPendingPushes.Add") {
		addc, _ = c.(*ssa.Call)
	}
	if addc != nil {
		gSize := guardsWhere(app, func(cond ssa.Value) (bool, bool, string) {
			b, ok := cond.(*ssa.BinOp)
			if !ok {
				return false, false, ""
			}
			isLen := func(v ssa.Value) bool {
				c, ok := engine.Unwrap(v).(*ssa.Call)
				return ok && engine.CallIs(c, "common/pushpull.sortedPendingPushes.Len")
			}
			if k, isC := engine.ConstInt(b.Y); isC && isLen(b.X) && k <= maxPending && k > 0 {
				switch b.Op.String() {
				case ">", ">=":
					return true, false, "len within bound"
				case "<", "<=":
					return true, true, "len within bound"
				}
			}
			return false, false, ""
		})
		r.Check(len(gSize) > 0 && maxPending > 0 && engine.OnlyThroughPass(app, addc.Block(), gSize), "C20-R2", "AddPendingPush|pending list grows only below maxPendingPushes", p.InstrPos(addc), fmt.Sprintf("behind Len() <= %d", maxPending), "the pending-announcer list can grow without bound")
		hp := app.Params[2]
		gAct := guardsWhere(app, func(cond ssa.Value) (bool, bool, string) {
			c, neg := stripNot(cond)
			ex, ok := c.(*ssa.Extract)
			if !ok || ex.Index != 1 {
				return false, false, ""
			}
			ld, ok := ex.Tuple.(*ssa.Call)
			if !ok || !engine.CallIs(ld, "sync.Map.Load") {
				return false, false, ""
			}
			if _, isAP := loadOfField(ld.Call.Args[0], "DefaultPushTracker", "activePulls"); !isAP {
				return false, false, ""
			}
			mi, ok := ld.Call.Args[1].(*ssa.MakeInterface)
			if !ok || engine.Origin(mi.X) != ssa.Value(hp) {
				return false, false, ""
			}
			return true, !neg, "active pull exists"
		})
		r.Check(len(gAct) > 0 && engine.OnlyThroughPass(app, addc.Block(), gAct), "C20-R2", "AddPendingPush|announcer remembered only while a pull for that hash is active", p.InstrPos(addc), "behind activePulls.Load(hash) present", "announcers are queued for hashes nobody is pulling: the queue fills with entries that are never served or cleaned")
	}
	// DefaultHolder.Add → RemovePull(hash)
	okRm := false
	for _, c := range engine.Calls(da) {
		cc, ok := c.(*ssa.Call)
		if ok && cc.Call.IsInvoke() && cc.Call.Method.Name() == "RemovePull" && engine.Origin(cc.Call.Args[0]) == ssa.Value(da.Params[1]) {
			// guarded only by the tracker's presence
			okRm = true
			for _, ret := range engine.Returns(da) {
				g := guardsWhere(da, func(cond ssa.Value) (bool, bool, string) {
					x, nonNilOnTrue, ok := engine.NilCheck(cond)
					if !ok {
						return false, false, ""
					}
					if _, isT := loadOfField(x, "DefaultHolder", "pushTracker"); isT {
						return true, !nonNilOnTrue, "no tracker"
					}
					return false, false, ""
				})
				// with the "no tracker" edge cut, every return passes RemovePull
				cut := map[engine.Edge]bool{}
				for _, gg := range g {
					cut[gg.PassEdge()] = true
				}
				reach := engine.ReachAvoiding(da, da.Blocks[0], cut, map[*ssa.BasicBlock]bool{cc.Block(): true})
				if reach[ret.Block()] && ret.Block() != cc.Block() {
					okRm = false
				}
			}
		}
	}
	r.Check(okRm, "C20-R2", "DefaultHolder.Add|storing an item ends its active pull", p.Pos(da.Pos()), "RemovePull(hash) on every path with a tracker", "a stored item stays registered as being pulled: queued announcers keep being asked")
	// gc
	okGc := false
	for _, a := range gc.AnonFuncs {
		for _, c := range engine.Calls(a) {
			if engine.CallIs(c, "sync.Map.Delete") {
				okGc = true
			}
		}
	}
	rng := false
	for _, c := range engine.Calls(gc) {
		if engine.CallIs(c, "sync.Map.Range") {
			rng = true
		}
	}
	r.Check(okGc && rng, "C20-R2", "gc|expired active pulls are deleted", p.Pos(gc.Pos()), "activePulls.Range + Delete", "active-pull entries of items that never arrive are kept forever")
	run := mustFunc(p, r, "common/pushpull", "DefaultPushTracker.Run")
	if run != nil {
		nGo := map[string]bool{}
		for _, b := range run.Blocks {
			for _, ins := range b.Instrs {
				if g, ok := ins.(*ssa.Go); ok {
					if cal := g.Call.StaticCallee(); cal != nil {
						nGo[cal.Name()] = true
					}
				}
			}
		}
		r.Check(nGo["loop"] && nGo["gc"], "C20-R2", "Run|starts the fallback loop and the collector", p.Pos(run.Pos()), "go loop(); go gc()", "the tracker never serves queued announcers or never expires pulls")
	}
	// caches with expiry
	for _, spec := range []struct{ pkg, fn, what string }{{"protocol", "NewPushPullManager", "announcement counters"}, {"common/pushpull", "NewDefaultHolder", "stored entries"}} {
		f := mustFunc(p, r, spec.pkg, spec.fn)
		if f == nil {
			continue
		}
		ok := false
		for _, c := range engine.Calls(f) {
			if engine.CallNameIs(c, "New") && strings.Contains(engine.CallID(c), "go-cache") {
				a := c.Common().Args
				d1, ok1 := engine.ConstInt(a[0])
				d2, ok2 := engine.ConstInt(a[1])
				ok = ok1 && ok2 && d1 > 0 && d2 > 0
			}
		}
		r.Check(ok, "C20-R2", spec.fn+"|"+spec.what+" expire", p.Pos(f.Pos()), "cache.New(expiry>0, cleanup>0)", "registry entries never expire: unbounded growth under announcement floods")
	}
	r.Floor("C20-R2", 7, "size guard, active guard, RemovePull, gc, Run, 2 caches")
}

func c20R3(p *engine.Prog, r *engine.Report) {
	la := lockAnalysis(p)
	owners := map[string]bool{"DefaultPushTracker": true, "sortedPendingPushes": true, "PushPullManager": true, "DefaultHolder": true, "pendingPush": true}
	roots := func(f *ssa.Function) bool {
		n := engine.FuncName(f)
		switch {
		case strings.HasSuffix(n, "node.Node.StartWithHeight"), f.Parent() == nil && strings.HasPrefix(f.Name(), "New") && f.Signature.Recv() == nil, f.Name() == "init":
			return true
		case f.Parent() == nil && f.Signature.Recv() == nil && strings.HasPrefix(f.Name(), "new"):
			return true
		}
		return false
	}
	initPhase := initPhaseFuncs(p, la, roots)
	acc := fieldAccesses(p, la, owners, initPhase)
	guardedBy(p, r, "C20-R3", acc, nil)
	var fns []*ssa.Function
	for _, pk := range []string{"common/pushpull", "protocol"} {
		for _, f := range funcsOfPkg(p, pk) {
			if f.Blocks == nil || f.Synthetic != "" || isTestish(p.Pos(f.Pos())) {
				continue
			}
			if pk == "protocol" && !strings.Contains(p.Pos(f.Pos()), "protocol/pushpull.go") {
				continue
			}
			fns = append(fns, f)
			r.Fn(engine.FuncName(f))
		}
	}
	track := func(id string) bool {
		for o := range owners {
			if strings.HasPrefix(id, o+".") {
				return true
			}
		}
		return false
	}
	lockOrder(p, la, r, "C20-R3", fns, track, nil)
	// the tracker calls into its holder (Has) under ppMutex and the holders report arrivals
	// (RemovePull / Add) under their own locks: the acquired-while-holding graph over the tracker's
	// AND the holders' locks must be acyclic as well
	{
		wide := append([]*ssa.Function(nil), fns...)
		for _, pk := range []string{"core/mempool", "pengings", "core/flip"} {
			for _, f := range funcsOfPkg(p, pk) {
				if f.Blocks != nil && !isTestish(p.Pos(f.Pos())) {
					wide = append(wide, f)
				}
			}
		}
		trackWide := func(id string) bool {
			if track(id) {
				return true
			}
			for _, o := range []string{"KeysPool.", "TxPool.", "Votes.", "Proposals.", "Flipper.", "AsyncTxPool.", "AsyncKeysPool."} {
				if strings.HasPrefix(id, o) {
					return true
				}
			}
			return false
		}
		r2 := engine.NewReport("C20", r.Tier, r.Seed)
		lockOrder(p, la, r2, "C20-R3w", wide, trackWide, map[string]string{"txMap.mutex": "distinct instances"})
		bad := ""
		for _, o := range r2.Obls {
			if o.Status == engine.Violated && strings.Contains(o.Key+o.Detail, "cycle") && (strings.Contains(o.Detail, "ppMutex") || strings.Contains(o.Detail, "DefaultPushTracker") || strings.Contains(o.Detail, "sortedPendingPushes")) {
				bad = o.Detail
			}
		}
		r.Check(bad == "", "C20-R3", "tracker and holders|acquired-while-holding graph is acyclic", "", "no cycle through a tracker lock", "lock-order cycle between the tracker and a holder: "+bad+" — the tracker loop (Has under ppMutex) and an arriving item (RemovePull under the holder's lock) wait for each other: no fallback pull is ever issued again")
	}
	noBlockingUnderLock(p, la, r, "C20-R3", fns, track, nil)
	releasedOnAllPaths(p, la, r, "C20-R3", fns, track)
	r.Floor("C20-R3", 10, "fields, order ×2, blocking, release per locking function")
}

// c20R4: index-based mutations of the pending list act on the element peeked in the same critical section.
func c20R4(p *engine.Prog, r *engine.Report) {
	la := lockAnalysis(p)
	n := 0
	for _, f := range funcsOfPkg(p, "common/pushpull") {
		if f.Blocks == nil || isTestish(p.Pos(f.Pos())) {
			continue
		}
		// only functions outside sortedPendingPushes itself
		if recv := f.Signature.Recv(); recv != nil {
			if nn := engine.NamedOf(recv.Type()); nn != nil && nn.Obj().Name() == "sortedPendingPushes" {
				continue
			}
		}
		var peeks []*ssa.Call
		for _, c := range callsTo(f, "common/pushpull.sortedPendingPushes.Peek") {
			if cc, ok := c.(*ssa.Call); ok {
				peeks = append(peeks, cc)
			}
		}
		for _, c := range callsTo(f, "common/pushpull.sortedPendingPushes.Remove", "common/pushpull.sortedPendingPushes.MoveWithNewTime") {
			n++
			idx := c.Common().Args[1]
			key := engine.RelName(f) + "|" + calleeShort(c) + " acts on the element peeked in the same critical section"
			ok := false
			why := "no Peek of that index in this function"
			for _, pk := range peeks {
				if !sameIndex(pk.Call.Args[1], idx) || !engine.InstrDominates(pk, c) {
					continue
				}
				why = "Peek at " + p.InstrPos(pk) + " holds " + la.HeldAt(pk).String() + ", the mutation holds " + la.HeldAt(c).String()
				if !la.HeldAt(pk).Has("DefaultPushTracker.ppMutex") || !la.HeldAt(c).Has("DefaultPushTracker.ppMutex") {
					continue
				}
				// no release of ppMutex between the two
				released := false
				for _, b := range f.Blocks {
					for _, ins := range b.Instrs {
						u, isC := ins.(*ssa.Call)
						if !isC {
							continue
						}
						if op, isOp := engine.LockOpOf(u); isOp && !op.Acquire && op.ID == "DefaultPushTracker.ppMutex" && reachesInstr(pk, u) && reachesInstr(u, c) && !passesAgain(u, pk, c) {
							released = true
						}
					}
				}
				if !released {
					ok = true
				}
			}
			r.Check(ok, "C20-R4", uniq(r, key), p.InstrPos(c), "Peek and mutation under one ppMutex section", "the element at that index can change between Peek and the mutation ("+why+"): an announcer inserted in between is removed unserved and the peeked one is requested twice")
		}
	}
	if n == 0 {
		r.Und("C20-R4", "index-based mutations", "", "none found")
	}
	r.Floor("C20-R4", 2, "index-based mutations in loop (4 today)")
}

// passesAgain: the path from u to c necessarily passes pk again (u belongs to an earlier iteration).
func passesAgain(u, pk, c ssa.Instruction) bool {
	if u.Block() == pk.Block() {
		return engine.InstrIndex(u) < engine.InstrIndex(pk)
	}
	if u.Block() == c.Block() && engine.InstrIndex(u) < engine.InstrIndex(c) {
		return false
	}
	// c reachable from u's successors while avoiding pk's block?
	avoid := map[*ssa.BasicBlock]bool{pk.Block(): true}
	for _, s := range u.Block().Succs {
		if avoid[s] {
			continue
		}
		if engine.ReachAvoiding(u.Parent(), s, nil, avoid)[c.Block()] {
			return false
		}
	}
	return true
}

func sameIndex(a, b ssa.Value) bool {
	if x, ok := engine.ConstInt(a); ok {
		if y, ok2 := engine.ConstInt(b); ok2 {
			return x == y
		}
		return false
	}
	return engine.Origin(a) == engine.Origin(b)
}

var _ = types.Typ

// cellOfParam: v is the parameter itself or the local cell it was spilled to (address taken).
func cellOfParam(v ssa.Value, par *ssa.Parameter) bool {
	if v == ssa.Value(par) {
		return true
	}
	if a, ok := v.(*ssa.Alloc); ok {
		st := engine.StoresTo(a)
		return len(st) == 1 && st[0].Val == ssa.Value(par)
	}
	return false
}

// isParam: v denotes the (by-value) parameter: the parameter, a load of its cell, or the cell's address.
func isParam(v ssa.Value, par *ssa.Parameter) bool {
	v = engine.Unwrap(v)
	if cellOfParam(v, par) {
		return true
	}
	if u, ok := v.(*ssa.UnOp); ok && u.Op.String() == "*" {
		return cellOfParam(u.X, par)
	}
	return engine.Origin(v) == ssa.Value(par)
}

// fieldOfParam: v is a load of field f of the parameter (through its spill cell if any).
func fieldOfParam(v ssa.Value, par *ssa.Parameter) (string, bool) {
	v = engine.Unwrap(v)
	switch x := v.(type) {
	case *ssa.UnOp:
		if fa, ok := x.X.(*ssa.FieldAddr); ok && x.Op.String() == "*" && cellOfParam(fa.X, par) {
			if _, f, ok := engine.FieldOf(fa); ok {
				return f, true
			}
		}
	case *ssa.Field:
		if isParam(x.X, par) {
			if _, f, ok := engine.FieldOf(x); ok {
				return f, true
			}
		}
	}
	return "", false
}
