package props

import (
	"fmt"
	"go/ast"
	"go/constant"
	"go/token"
	"go/types"
	"os"
	"sort"
	"strings"

	"golang.org/x/tools/go/ssa"

	"idenaverif/internal/engine"
)

// Rules written in round 6 (second half). Each is a structural necessary condition of the property
// it is registered under; the text of every rule says which behaviour depends on it.

// ---------------------------------------------------------------------------------------------
// C09-R5: the start-up path replays the upgrade of the stored head. AddBlock writes the head before
// tryUpgrade persists the consensus version and switches the rules, so a process that dies in between
// comes back on the upgrade block with the old rules; the call in InitializeChain is the only repair.
func startupUpgradeRule(p *engine.Prog, r *engine.Report, rule string) {
	f := mustFunc(p, r, "blockchain", "Blockchain.InitializeChain")
	if f == nil {
		return
	}
	sets := callsTo(f, "blockchain.Blockchain.setCurrentHead")
	if len(sets) == 0 {
		r.Bad(rule, "InitializeChain|stored head adopted", p.Pos(f.Pos()), "setCurrentHead is not called: anchor moved")
		return
	}
	set := sets[0]
	cut := map[*ssa.BasicBlock]bool{}
	same := false
	for _, u := range callsTo(f, "blockchain.Blockchain.tryUpgrade") {
		args := engine.CallArgs(u)
		if len(args) < 2 || engine.Origin(args[1]) != engine.Origin(engine.CallArgs(set)[1]) {
			continue
		}
		if u.Block() == set.Block() {
			same = true
		}
		cut[u.Block()] = true
	}
	ok := same
	if !ok && len(cut) > 0 {
		ok = true
		reach := engine.ReachAvoiding(f, set.Block(), nil, cut)
		for _, ret := range engine.Returns(f) {
			if reach[ret.Block()] && ret.Block() != set.Block() {
				ok = false
			}
		}
	}
	r.Check(ok, rule, "InitializeChain|the stored head's upgrade is replayed at start-up", p.InstrPos(set), "setCurrentHead(head) is followed by tryUpgrade(head) on every path", "InitializeChain adopts the stored head without calling tryUpgrade on it: AddBlock writes the head before the new consensus version is persisted, so a node that died in between restarts on the upgrade block under the old rules (and never repairs itself) while a node that did not crash runs the new ones")
}

// ---------------------------------------------------------------------------------------------
// C10-R8: in applyDelegationSwitch every removal of a delegation from the identity registry is
// reported in the returned undelegations under no other condition than the presence of the ledger
// delegatee: the registry removal itself is unconditional, so a report that depends on a consensus
// flag leaves the emptied pool online in the registry under the other rule set.
func undelegationReportedRule(p *engine.Prog, r *engine.Report, rule string) {
	f := mustFunc(p, r, "blockchain", "Blockchain.applyDelegationSwitch")
	if f == nil {
		return
	}
	var appends []*ssa.Call
	for _, c := range engine.Calls(f) {
		cc, ok := c.(*ssa.Call)
		if !ok {
			continue
		}
		if b, isB := cc.Call.Value.(*ssa.Builtin); isB && b.Name() == "append" && strings.Contains(cc.Type().String(), "state.Delegation") {
			appends = append(appends, cc)
		}
	}
	n := 0
	for _, rm := range callsTo(f, "core/state.IdentityStateDB.RemoveDelegatee") {
		n++
		base := map[string]bool{}
		for _, s := range controlSig(rm.Block()) {
			base[s] = true
		}
		ok := false
		why := "no append to the returned undelegations follows the registry removal"
		for _, a := range appends {
			if !rm.Block().Dominates(a.Block()) {
				continue
			}
			extra := []string{}
			for _, s := range controlSig(a.Block()) {
				if !base[s] {
					extra = append(extra, s)
				}
			}
			flag := ""
			for _, s := range extra {
				if strings.Contains(s, "Enable") || strings.Contains(s, "Consensus") {
					flag = s
				}
			}
			if flag == "" && len(extra) <= 1 {
				ok = true
			} else {
				if flag == "" {
					flag = fmt.Sprint(len(extra)) + " further conditions"
				}
				why = "the report of the undelegation additionally depends on " + flag
			}
		}
		r.Check(ok, rule, uniq(r, "applyDelegationSwitch|a registry undelegation is always reported to switchPoolsToOffline"), p.InstrPos(rm), "append under the delegatee presence test only", why+": the registry delegation is removed unconditionally, so under the other rule set a pool that lost its last delegator is never switched offline — it stays online in the stored registry although it is neither validated nor a pool")
	}
	if n == 0 {
		r.Bad(rule, "applyDelegationSwitch|registry removal", p.Pos(f.Pos()), "IdentityState.RemoveDelegatee is not called: anchor moved")
	}
}

// ---------------------------------------------------------------------------------------------
// loopSharedAddrStored: the address of a variable declared outside a loop is stored into a field,
// element or map of another object inside the loop while the variable is rewritten in that loop —
// every object ends up pointing at the same variable and sees the value of the last iteration.
type sharedAddr struct {
	alloc *ssa.Alloc
	store ssa.Instruction
}

func loopSharedAddrStored(fn *ssa.Function) []sharedAddr {
	var out []sharedAddr
	for _, b := range fn.Blocks {
		for _, ins := range b.Instrs {
			st, ok := ins.(*ssa.Store)
			if !ok {
				continue
			}
			a, isA := st.Val.(*ssa.Alloc)
			if !isA || !a.Heap {
				continue
			}
			switch st.Addr.(type) {
			case *ssa.FieldAddr, *ssa.IndexAddr:
			default:
				continue
			}
			if base := engine.Origin(st.Addr); base == ssa.Value(a) {
				continue
			}
			h := enclosingLoopHeader(b)
			if h == nil {
				continue
			}
			body := loopBlocks(h)
			if body[a.Block()] {
				continue
			}
			// rewritten in the loop?
			rewritten := false
			for _, ref := range *a.Referrers() {
				if ref == ins || !body[ref.Block()] {
					continue
				}
				switch x := ref.(type) {
				case *ssa.Store:
					if x.Addr == ssa.Value(a) {
						rewritten = true
					}
				case ssa.CallInstruction:
					if len(x.Common().Args) > 0 && x.Common().Args[0] == ssa.Value(a) {
						rewritten = true
					}
				case *ssa.FieldAddr, *ssa.IndexAddr:
					rewritten = true
				}
			}
			if rewritten {
				out = append(out, sharedAddr{a, ins})
			}
		}
	}
	return out
}

func loopSharedAddrRule(p *engine.Prog, r *engine.Report, rule string, pkgs []string, floorFn string, bad string) {
	n := 0
	for _, pk := range pkgs {
		for _, f := range funcsOfPkg(p, pk) {
			if f.Blocks == nil || isTestish(p.Pos(f.Pos())) {
				continue
			}
			n++
			for _, s := range loopSharedAddrStored(f) {
				r.Bad(rule, uniq(r, engine.RelName(f)+"|a pointer stored per iteration points to a per-iteration variable"), p.InstrPos(s.store), "the address of "+s.alloc.Comment+" (declared outside the loop, rewritten inside it) is stored into another object on every iteration: all of them alias one variable and see the last value. "+bad)
			}
		}
	}
	if f := mustFunc(p, r, pkgs[0], floorFn); f != nil {
		// positive control: the anchor stores the address of a fresh variable inside its loop
		found := false
		for _, b := range f.Blocks {
			for _, ins := range b.Instrs {
				if st, ok := ins.(*ssa.Store); ok {
					if a, isA := st.Val.(*ssa.Alloc); isA && a.Heap && enclosingLoopHeader(b) != nil && loopBlocks(enclosingLoopHeader(b))[a.Block()] {
						if _, isF := st.Addr.(*ssa.FieldAddr); isF {
							found = true
						}
					}
				}
			}
		}
		if found {
			r.OK(rule, floorFn+"|per-iteration pointer (control)", p.Pos(f.Pos()), "a fresh variable's address is stored per iteration")
		} else {
			r.Note(rule, floorFn+"|per-iteration pointer (control)", p.Pos(f.Pos()), "the confirmed per-iteration pointer store is not found any more (informational)")
		}
	}
	r.OK(rule, "scan|functions scanned for loop-shared addresses", "", fmt.Sprint(n))
}

// ---------------------------------------------------------------------------------------------
// C11-R6: WriteIdentityStateDiff leaves no path on which the entry stored at that height survives a
// block that has no diff: every return is behind the write, the removal, or the "nothing stored" edge.
func identityDiffAlwaysSettledRule(p *engine.Prog, r *engine.Report, rule string) {
	f := mustFunc(p, r, "blockchain", "Blockchain.WriteIdentityStateDiff")
	if f == nil {
		return
	}
	cutB := map[*ssa.BasicBlock]bool{}
	for _, c := range engine.Calls(f) {
		if engine.CallNameIs(c, "WriteIdentityStateDiff", "RemoveIdentityStateDiff") {
			cutB[c.Block()] = true
		}
	}
	cutE := map[engine.Edge]bool{}
	for _, iff := range engine.Ifs(f) {
		x, nonNilOnTrue, ok := engine.NilCheck(iff.Cond)
		if !ok {
			// len(read) == 0 style
			continue
		}
		if c, isC := engine.Unwrap(x).(*ssa.Call); isC && engine.CallNameIs(c, "ReadIdentityStateDiff") {
			if nonNilOnTrue {
				cutE[engine.Edge{From: iff.Block(), Succ: 1}] = true
			} else {
				cutE[engine.Edge{From: iff.Block(), Succ: 0}] = true
			}
		}
	}
	reach := engine.ReachAvoiding(f, nil, cutE, cutB)
	ok := len(cutB) >= 2
	for _, ret := range engine.Returns(f) {
		if reach[ret.Block()] && !cutB[ret.Block()] {
			ok = false
		}
	}
	r.Check(ok, rule, "WriteIdentityStateDiff|every call settles the entry of that height", p.Pos(f.Pos()), "write, remove, or nothing stored", "WriteIdentityStateDiff can return without writing the diff, removing the stored one or finding none stored (e.g. an early return for a nil diff, which is what the fast-sync path passes for a block without identity changes): the diff of an abandoned block at that height survives and is served next to the canonical header — replaying it does not give that header's identity root")
}

// C11-R7: LoadPreliminary falls back to the highest stored version that is not above the requested
// height — the bound is inclusive. Accepted idioms: a scan guarded by `v <= height`; a library search
// for the first version above the height (sort.Search with `v > height`, sort.SearchInts(height+1))
// followed by the element before it.
func preliminaryVersionBoundRule(p *engine.Prog, r *engine.Report, rule string) {
	f := mustFunc(p, r, "core/state", "IdentityStateDB.LoadPreliminary")
	if f == nil {
		return
	}
	height := ssa.Value(f.Params[1])
	visited := map[*ssa.Function]bool{}
	fromHeight := func(v ssa.Value) (bool, bool) { // derives from height, plus one
		plus := false
		is := false
		for x := range engine.BackSlice(v, engine.SliceOpts{ThroughLoads: true, MaxNodes: 200}) {
			if x == height {
				is = true
			}
			if b, ok := x.(*ssa.BinOp); ok && b.Op == token.ADD {
				if c, ok := engine.ConstInt(b.Y); ok && c == 1 {
					plus = true
				}
			}
		}
		return is, plus
	}
	fromVersions := func(v ssa.Value) bool {
		for x := range engine.BackSlice(v, engine.DefaultSlice) {
			if c, ok := x.(*ssa.Call); ok && engine.CallNameIs(c, "AvailableVersions") {
				return true
			}
		}
		return false
	}
	verdict, detail := "", ""
	scan := func(fn *ssa.Function, inClosure bool) {
		for _, b := range fn.Blocks {
			for _, ins := range b.Instrs {
				switch x := ins.(type) {
				case *ssa.BinOp:
					var el, hv ssa.Value
					op := x.Op
					hx, _ := fromHeight(x.X)
					hy, _ := fromHeight(x.Y)
					if inClosure {
						// the height is a captured variable in a closure
						for _, v := range []ssa.Value{x.X, x.Y} {
							for s := range engine.BackSlice(v, engine.SliceOpts{ThroughLoads: true, MaxNodes: 50}) {
								if fv, ok := s.(*ssa.FreeVar); ok && strings.Contains(fv.Name(), "height") {
									if v == x.X {
										hx = true
									} else {
										hy = true
									}
								}
							}
						}
					}
					switch {
					case hy && !hx && (fromVersions(x.X) || inClosure):
						el, hv = x.X, x.Y
					case hx && !hy && (fromVersions(x.Y) || inClosure):
						el, hv = x.Y, x.X
						switch op {
						case token.LEQ:
							op = token.GEQ
						case token.GEQ:
							op = token.LEQ
						case token.LSS:
							op = token.GTR
						case token.GTR:
							op = token.LSS
						}
					default:
						continue
					}
					_, _ = el, hv
					switch op {
					case token.LEQ, token.GTR: // v <= height (scan) / v > height (search for the first above)
						if verdict == "" {
							verdict, detail = "ok", "version "+op.String()+" height"
						}
					case token.LSS, token.GEQ:
						verdict, detail = "bad", "version "+op.String()+" height excludes the version equal to the height"
					}
				case *ssa.Call:
					if o := engine.CalleeObj(&x.Call); o != nil && o.Pkg() != nil && o.Pkg().Path() == "sort" && strings.HasPrefix(o.Name(), "Search") && o.Name() != "Search" {
						if len(x.Call.Args) == 2 {
							is, plus := fromHeight(x.Call.Args[1])
							if is && plus {
								if verdict == "" {
									verdict, detail = "ok", "sort."+o.Name()+"(versions, height+1)"
								}
							} else if is {
								verdict, detail = "bad", "sort."+o.Name()+"(versions, height) finds the first version >= height; the element before it is strictly below the height"
							}
						}
					}
				}
			}
		}
	}
	var scanAll func(fn *ssa.Function)
	scanAll = func(fn *ssa.Function) {
		if visited[fn] {
			return
		}
		visited[fn] = true
		scan(fn, false)
		for _, an := range engine.Anon(fn) {
			scan(an, true)
		}
		// a same-package helper that is handed the height (the search extracted into a function)
		for _, c := range engine.Calls(fn) {
			h := c.Common().StaticCallee()
			if h == nil || h.Blocks == nil || h.Pkg != fn.Pkg || visited[h] {
				continue
			}
			for i, a := range c.Common().Args {
				if is, _ := fromHeight(a); is && i < len(h.Params) {
					saved := height
					height = h.Params[i]
					scanAll(h)
					height = saved
					break
				}
			}
		}
	}
	scanAll(f)
	if verdict == "" {
		r.Und(rule, "LoadPreliminary|fallback version is the highest one not above the height", p.Pos(f.Pos()), "no comparison between a stored version and the requested height was recognised (accepted idioms: scan with v <= height, sort.Search with v > height, sort.SearchInts(versions, height+1))")
		return
	}
	r.Check(verdict == "ok", rule, "LoadPreliminary|fallback version is the highest one not above the height", p.Pos(f.Pos()), detail, detail+": when the preliminary tree holds a version equal to the requested height below newer leftovers (a crash between dropping the preliminary head and the tree, or between CommitTree and the header write), fast sync resumes from a base one identity-changing block too old and no honest peer's diffs reproduce the canonical identity roots")
}

// ---------------------------------------------------------------------------------------------
// C13-R9: the clone of the validators cache that every ForCheck view receives shares no mutable
// container with the canonical cache: every field of reference kind in the clone literal is the
// result of a copying call, never the receiver's own field value (frozen exceptions: read-only
// handles).
func deepCloneRule(p *engine.Prog, r *engine.Report, rule, pkg, typ, method string, keep map[string]string, bad string) {
	f := mustFunc(p, r, pkg, typ+"."+method)
	if f == nil {
		return
	}
	recv := ssa.Value(f.Params[0])
	n := 0
	for _, a := range allocsOf(f, typ) {
		st := fieldStoresOn(a)
		names := []string{}
		for k := range st {
			names = append(names, k)
		}
		sort.Strings(names)
		for _, name := range names {
			s := st[name]
			switch s.Val.Type().Underlying().(type) {
			case *types.Map, *types.Slice, *types.Pointer, *types.Interface, *types.Chan:
			default:
				continue
			}
			n++
			base, isLoad := loadOfField(s.Val, typ, name)
			shared := isLoad && engine.Origin(base) == recv
			if !shared {
				// any other field of the receiver handed over as is
				if u, ok := engine.Unwrap(s.Val).(*ssa.UnOp); ok && u.Op == token.MUL {
					if fa, ok := u.X.(*ssa.FieldAddr); ok && engine.Origin(fa.X) == recv {
						shared = true
					}
				}
			}
			if why, kept := keep[name]; kept {
				r.OK(rule, typ+"."+method+"|"+name+" (shared by design)", p.InstrPos(s), why)
				continue
			}
			r.Check(!shared, rule, typ+"."+method+"|"+name+" is copied", p.InstrPos(s), "result of a copying call", "the clone takes the receiver's "+name+" as is: "+bad)
		}
	}
	r.Floor(rule, 5, "reference-kind fields of "+typ+"."+method)
	_ = n
}

// ---------------------------------------------------------------------------------------------
// C14-R11: a lookup that can come back empty is tested before it is used. For every call in the
// scope to a same-package function that returns a nil pointer on some path, a use of the result as
// the receiver of a field access (directly or in the entry block of the called method) is only
// reachable through a non-nil test of that very result.
func mayReturnNil(fn *ssa.Function) bool {
	if fn == nil || fn.Blocks == nil || fn.Signature.Results().Len() != 1 {
		return false
	}
	if _, ok := fn.Signature.Results().At(0).Type().Underlying().(*types.Pointer); !ok {
		return false
	}
	for _, ret := range engine.Returns(fn) {
		if len(ret.Results) != 1 {
			continue
		}
		seen := map[ssa.Value]bool{}
		var nilable func(v ssa.Value) bool
		nilable = func(v ssa.Value) bool {
			if seen[v] {
				return false
			}
			seen[v] = true
			v = engine.Unwrap(v)
			if engine.IsNilConst(v) {
				return true
			}
			switch x := v.(type) {
			case *ssa.Phi:
				for _, e := range x.Edges {
					if nilable(e) {
						return true
					}
				}
			case *ssa.UnOp:
				if a, ok := x.X.(*ssa.Alloc); ok && x.Op == token.MUL {
					sts := engine.StoresTo(a)
					if len(sts) == 0 {
						return true // named result never assigned on this path: zero value
					}
					for _, s := range sts {
						if nilable(s.Val) {
							return true
						}
					}
					// a named result is nil until assigned
					if strings.HasPrefix(a.Comment, "") && isNamedResult(fn, a) {
						return true
					}
				}
			}
			return false
		}
		if nilable(ret.Results[0]) {
			return true
		}
	}
	return false
}

func isNamedResult(fn *ssa.Function, a *ssa.Alloc) bool {
	res := fn.Signature.Results()
	for i := 0; i < res.Len(); i++ {
		if res.At(i).Name() != "" && res.At(i).Name() == a.Comment {
			return true
		}
	}
	return false
}

func derefsReceiverAtEntry(m *ssa.Function) bool {
	if m == nil || len(m.Blocks) == 0 || len(m.Params) == 0 {
		return false
	}
	for _, ins := range m.Blocks[0].Instrs {
		if fa, ok := ins.(*ssa.FieldAddr); ok && fa.X == ssa.Value(m.Params[0]) {
			return true
		}
	}
	return false
}

type nilDeref struct {
	call *ssa.Call
	use  ssa.Instruction
}

func unguardedNilableUses(fn *ssa.Function, callee func(*ssa.Function) bool) (sites int, out []nilDeref) {
	for _, c := range engine.Calls(fn) {
		cc, ok := c.(*ssa.Call)
		if !ok {
			continue
		}
		sc := cc.Call.StaticCallee()
		if sc == nil || !callee(sc) {
			continue
		}
		sites++
		guards := guardsWhere(fn, func(cond ssa.Value) (bool, bool, string) {
			x, nonNilOnTrue, ok := engine.NilCheck(cond)
			if !ok || engine.Unwrap(x) != ssa.Value(cc) {
				return false, false, ""
			}
			return true, nonNilOnTrue, "non-nil"
		})
		for _, ref := range *cc.Referrers() {
			deref := false
			switch x := ref.(type) {
			case *ssa.FieldAddr:
				deref = x.X == ssa.Value(cc)
			case *ssa.UnOp:
				deref = x.Op == token.MUL && x.X == ssa.Value(cc)
			case ssa.CallInstruction:
				if len(x.Common().Args) > 0 && x.Common().Args[0] == ssa.Value(cc) && !x.Common().IsInvoke() {
					if m := x.Common().StaticCallee(); m != nil && m.Signature.Recv() != nil && derefsReceiverAtEntry(m) {
						deref = true
					}
				}
			}
			if !deref {
				continue
			}
			if len(guards) == 0 || !engine.OnlyThroughPass(fn, ref.Block(), guards) {
				out = append(out, nilDeref{cc, ref})
			}
		}
	}
	return
}

func nilableLookupRule(p *engine.Prog, r *engine.Report, rule string, pkgs []string, lookups []string, except map[string]string, bad string) {
	want := map[string]bool{}
	for _, l := range lookups {
		want[l] = true
	}
	confirmed := map[string]bool{}
	sites := 0
	for _, pk := range pkgs {
		for _, f := range funcsOfPkg(p, pk) {
			if f.Blocks == nil || isTestish(p.Pos(f.Pos())) {
				continue
			}
			n, bads := unguardedNilableUses(f, func(c *ssa.Function) bool {
				if !want[engine.RelName(c)] {
					return false
				}
				if mayReturnNil(c) {
					confirmed[engine.RelName(c)] = true
					return true
				}
				return false
			})
			sites += n
			for _, b := range bads {
				if why, ok := except[engine.RelName(f)]; ok {
					r.OK(rule, uniq(r, engine.RelName(f)+"|unchecked by a confirmed invariant"), p.InstrPos(b.use), why)
					continue
				}
				r.Bad(rule, uniq(r, engine.RelName(f)+"|result of "+engine.RelName(b.call.Call.StaticCallee())+" is tested before use"), p.InstrPos(b.use), "the result of "+engine.RelName(b.call.Call.StaticCallee())+" (nil when nothing is stored) is dereferenced on a path that does not pass its non-nil test: "+bad)
			}
		}
	}
	for _, l := range lookups {
		r.Check(confirmed[l], rule, "lookup|"+l+" can return nil (control)", "", "returns nil on some path and is called in scope", "the lookup "+l+" is not recognised as nil-returning any more (or is not called in scope): the rule would pass vacuously")
	}
	r.OK(rule, "scan|call sites of nil-returning lookups", "", fmt.Sprint(sites))
}

// ---------------------------------------------------------------------------------------------
// C14-R12: a position in a sender's queue is found by looking at the queue, never computed from
// nonces: removals leave holes, so "nonce - first nonce" is not the position of a transaction.
func queueIndexNotFromNonceRule(p *engine.Prog, r *engine.Report, rule string) {
	n := 0
	for _, f := range funcsOfPkg(p, "core/mempool") {
		if f.Blocks == nil || f.Signature.Recv() == nil || !strings.Contains(f.Signature.Recv().Type().String(), "sortedTxs") {
			continue
		}
		r.Fn(engine.FuncName(f))
		for _, b := range f.Blocks {
			for _, ins := range b.Instrs {
				var idx []ssa.Value
				switch x := ins.(type) {
				case *ssa.IndexAddr:
					idx = []ssa.Value{x.Index}
				case *ssa.Slice:
					idx = []ssa.Value{x.Low, x.High}
				default:
					continue
				}
				for _, iv := range idx {
					if iv == nil {
						continue
					}
					n++
					bad := false
					for v := range engine.BackSlice(iv, engine.SliceOpts{ThroughLoads: true, ThroughFields: false, MaxNodes: 400}) {
						if u, ok := v.(*ssa.UnOp); ok && u.Op == token.MUL {
							if _, fld, ok := engine.FieldOf(u.X); ok && fld == "AccountNonce" {
								bad = true
							}
						}
					}
					r.Check(!bad, rule, uniq(r, engine.RelName(f)+"|queue position is not computed from nonces"), p.InstrPos(ins), "index from a search / the length", "an index into the sender's queue is computed from AccountNonce values: once a transaction in the middle was removed the queue has a hole, later removals compute the wrong position, fail the hash comparison and leave mined or consumed transactions in the executable queue (still proposed, unknown to GetTx)")
				}
			}
		}
	}
	r.Floor(rule, 4, "index expressions in sortedTxs methods")
	_ = n
}

// ---------------------------------------------------------------------------------------------
// C15-R8: the transaction types whose in-block affordability is checked against the declared maximum
// fee (validation.contractTxs) are exactly the types the block processor hands to the VM with a gas
// limit derived from that maximum fee.
func contractTypeSetsAgreeRule(p *engine.Prog, r *engine.Report, rule string) {
	pk := repoPkg(p, r, "blockchain/validation")
	if pk == nil {
		return
	}
	declared := map[string]bool{}
	var pos token.Pos
	for _, file := range pk.Syntax {
		ast.Inspect(file, func(n ast.Node) bool {
			vs, ok := n.(*ast.ValueSpec)
			if !ok {
				return true
			}
			for i, nm := range vs.Names {
				if nm.Name != "contractTxs" || i >= len(vs.Values) {
					continue
				}
				cl, ok := vs.Values[i].(*ast.CompositeLit)
				if !ok {
					continue
				}
				pos = cl.Pos()
				for _, el := range cl.Elts {
					if kv, ok := el.(*ast.KeyValueExpr); ok {
						if tv, ok := pk.TypesInfo.Types[kv.Key]; ok && tv.Value != nil {
							declared[tv.Value.ExactString()] = true
						}
					}
				}
			}
			return true
		})
	}
	if len(declared) == 0 {
		r.Bad(rule, "validation.contractTxs|declared", "", "the set literal was not found: anchor moved")
		return
	}
	for _, name := range []string{"Blockchain.applyTxOnState", "Blockchain.tryExecuteTx"} {
		f, err := p.Func("blockchain", name)
		if err != nil {
			continue
		}
		r.Fn(engine.FuncName(f))
		var run ssa.CallInstruction
		for _, c := range engine.Calls(f) {
			if engine.CallNameIs(c, "Run") && c.Common().IsInvoke() {
				run = c
			}
		}
		if run == nil {
			continue
		}
		executed := map[string]bool{}
		for _, iff := range engine.Ifs(f) {
			b, ok := iff.Cond.(*ssa.BinOp)
			if !ok || b.Op != token.EQL {
				continue
			}
			c, isC := b.Y.(*ssa.Const)
			if !isC || c.Value == nil || c.Value.Kind() != constant.Int {
				continue
			}
			if _, fld, ok := engine.FieldOf(engine.Unwrap(b.X)); !ok || fld != "Type" {
				if u, isU := engine.Unwrap(b.X).(*ssa.UnOp); !isU {
					continue
				} else if _, fld, ok := engine.FieldOf(u.X); !ok || fld != "Type" {
					continue
				}
			}
			if s := iff.Block().Succs[0]; s == run.Block() || s.Dominates(run.Block()) {
				executed[c.Value.ExactString()] = true
			}
		}
		ok := len(executed) == len(declared)
		for k := range executed {
			if !declared[k] {
				ok = false
			}
		}
		r.Check(ok, rule, strings.TrimPrefix(name, "Blockchain.")+"|types run by the VM = types checked against the maximum fee", p.InstrPos(run), "same set "+joinKeys(executed), "the VM runs transaction types {"+joinKeys(executed)+"} with a gas limit derived from the declared maximum fee, but the in-block cost check uses the maximum fee only for {"+joinKeys(declared)+"} ("+p.Pos(pos)+"): a type missing there is admitted into a block with a balance below what its execution charges — the sender's balance goes negative (stored as its absolute value) and coins appear from nowhere")
	}
	r.Floor(rule, 1, "VM call sites switched on the transaction type")
}

// ---------------------------------------------------------------------------------------------
// C16-R8: a slice that is filled by append starts empty: make([]T, n) with a non-zero length followed
// only by appends yields n zero elements in front of the real ones.
type lenAppend struct {
	mk  ssa.Instruction
	app ssa.Instruction
}

// addrKey identifies a field address by its root value (any SSA value) and the chain of field indexes.
func addrKey(fa *ssa.FieldAddr) string {
	key := ""
	var cur ssa.Value = fa
	for depth := 0; depth < 6; depth++ {
		switch x := cur.(type) {
		case *ssa.FieldAddr:
			key = fmt.Sprintf(".%d", x.Field) + key
			cur = x.X
		case *ssa.UnOp:
			if x.Op != token.MUL {
				return ""
			}
			key = "*" + key
			cur = x.X
		default:
			return fmt.Sprintf("%p", cur) + key
		}
	}
	return ""
}

func makeLenThenAppend(fn *ssa.Function) []lenAppend {
	var out []lenAppend
	for _, b := range fn.Blocks {
		for _, ins := range b.Instrs {
			mk, ok := ins.(*ssa.MakeSlice)
			if !ok {
				continue
			}
			if c, isC := engine.ConstInt(mk.Len); isC && c == 0 {
				continue
			}
			// every use: stored somewhere and later appended to, never indexed
			indexed := false
			var app ssa.Instruction
			seen := map[ssa.Value]bool{}
			var walk func(v ssa.Value, depth int)
			walk = func(v ssa.Value, depth int) {
				if seen[v] || depth > 4 {
					return
				}
				seen[v] = true
				refs := v.Referrers()
				if refs == nil {
					return
				}
				for _, ref := range *refs {
					switch x := ref.(type) {
					case *ssa.IndexAddr:
						indexed = true
					case *ssa.Slice:
						indexed = true
					case *ssa.Call:
						if bi, isB := x.Call.Value.(*ssa.Builtin); isB {
							switch bi.Name() {
							case "append":
								if len(x.Call.Args) > 0 && x.Call.Args[0] == v {
									if app == nil {
										app = x
									}
								} else {
									indexed = true // appended as the tail of another slice: its elements are meant
								}
							case "copy":
								indexed = true
							case "len", "cap":
							default:
								indexed = true
							}
						} else {
							indexed = true // handed to a function that may fill it
						}
					case *ssa.Store:
						if x.Val == v {
							// follow the loads of the same address in this function
							switch ad := x.Addr.(type) {
							case *ssa.Alloc:
								for _, r2 := range *ad.Referrers() {
									if u, ok := r2.(*ssa.UnOp); ok && u.Op == token.MUL {
										walk(u, depth+1)
									}
								}
							case *ssa.FieldAddr:
								key := addrKey(ad)
								for _, bb := range fn.Blocks {
									for _, i2 := range bb.Instrs {
										if fa, ok := i2.(*ssa.FieldAddr); ok && fa != ad && key != "" && addrKey(fa) == key {
											for _, r3 := range *fa.Referrers() {
												if u, ok := r3.(*ssa.UnOp); ok && u.Op == token.MUL {
													walk(u, depth+1)
												}
											}
										}
									}
								}
								for _, r3 := range *ad.Referrers() {
									if u, ok := r3.(*ssa.UnOp); ok && u.Op == token.MUL {
										walk(u, depth+1)
									}
								}
							default:
								indexed = true
							}
						}
					case *ssa.Phi:
						walk(x, depth+1)
					case *ssa.Return, *ssa.MakeInterface, *ssa.MapUpdate, *ssa.Send, *ssa.MakeClosure:
						indexed = true // escapes: the zero elements may be meant
					case *ssa.Range, *ssa.Extract, *ssa.DebugRef:
					default:
						if _, isV := ref.(ssa.Value); isV {
							indexed = true
						}
					}
				}
			}
			walk(mk, 0)
			if app != nil && !indexed {
				out = append(out, lenAppend{mk, app})
			}
		}
	}
	return out
}

func makeLenThenAppendRule(p *engine.Prog, r *engine.Report, rule string, pkgs []string, anchorPkg, anchor string, bad string) {
	n := 0
	for _, pk := range pkgs {
		for _, f := range funcsOfPkg(p, pk) {
			if f.Blocks == nil || isTestish(p.Pos(f.Pos())) {
				continue
			}
			n++
			for _, s := range makeLenThenAppend(f) {
				r.Bad(rule, uniq(r, engine.RelName(f)+"|a slice filled by append starts empty"), p.InstrPos(s.mk), "make with a non-zero length, then only append ("+p.InstrPos(s.app)+"): the result carries that many zero elements in front of the real ones. "+bad)
			}
		}
	}
	if f := mustFunc(p, r, anchorPkg, anchor); f != nil {
		found := false
		fns := append([]*ssa.Function{f}, engine.Anon(f)...)
		for _, g := range fns {
			for _, b := range g.Blocks {
				for _, ins := range b.Instrs {
					if mk, ok := ins.(*ssa.MakeSlice); ok {
						if c, isC := engine.ConstInt(mk.Len); isC && c == 0 {
							if _, isC2 := engine.ConstInt(mk.Cap); !isC2 {
								found = true
							}
						}
					}
				}
			}
		}
		if found {
			r.OK(rule, anchor+"|make(…, 0, n) then append (control)", p.Pos(f.Pos()), "found")
		} else {
			r.Note(rule, anchor+"|make(…, 0, n) then append (control)", p.Pos(f.Pos()), "the confirmed make-with-capacity site is not found in this function any more (informational: the scan covers every function of the packages)")
		}
	}
	r.OK(rule, "scan|functions scanned for make-len-then-append", "", fmt.Sprint(n))
}

// ---------------------------------------------------------------------------------------------
// C16-R9: the slot a solver looks up in an author's key package is the position of the solver in the
// author's recipient list, for every recipient the encrypter made a slot for: (a) the encrypter's
// recipient list takes every element of candidatesPerAuthor[author]; (b) the lookup answers "absent"
// only when an index is absent (a comparison with a constant / a failed map lookup) or the list is
// exhausted — no other condition (self-assignment, status …) removes a recipient.
func keyPackageSlotRule(p *engine.Prog, r *engine.Report, rule string) {
	if f := mustFunc(p, r, "core/ceremony", "ValidationCeremony.getPrivateKeyPackageIndex"); f != nil {
		cut := map[engine.Edge]bool{}
		for _, iff := range engine.Ifs(f) {
			cond, neg := stripNot(iff.Cond)
			b, ok := cond.(*ssa.BinOp)
			if ok && (b.Op == token.EQL || b.Op == token.NEQ) {
				_, cx := b.X.(*ssa.Const)
				_, cy := b.Y.(*ssa.Const)
				if cx != cy {
					eqTrue := (b.Op == token.EQL) != neg
					if eqTrue {
						cut[engine.Edge{From: iff.Block(), Succ: 0}] = true
					} else {
						cut[engine.Edge{From: iff.Block(), Succ: 1}] = true
					}
					continue
				}
			}
			if ex, ok := cond.(*ssa.Extract); ok && ex.Index == 1 {
				// v, ok := m[k]
				if neg {
					cut[engine.Edge{From: iff.Block(), Succ: 0}] = true
				} else {
					cut[engine.Edge{From: iff.Block(), Succ: 1}] = true
				}
				continue
			}
			// loop exit of a range over the list
			if h := enclosingLoopHeader(iff.Block()); h == iff.Block() {
				body := loopBlocks(h)
				for i, s := range iff.Block().Succs {
					if !body[s] {
						cut[engine.Edge{From: iff.Block(), Succ: i}] = true
					}
				}
			}
		}
		reach := engine.ReachAvoiding(f, nil, cut, nil)
		ok := true
		n := 0
		for _, ret := range engine.Returns(f) {
			if len(ret.Results) != 1 {
				continue
			}
			c, isC := engine.ConstInt(ret.Results[0])
			if !isC || c >= 0 {
				if ph, isPhi := ret.Results[0].(*ssa.Phi); isPhi {
					for i, e := range ph.Edges {
						if cv, isC := engine.ConstInt(e); isC && cv < 0 {
							n++
							if reach[ph.Block().Preds[i]] {
								ok = false
							}
						}
					}
				}
				continue
			}
			n++
			if reach[ret.Block()] {
				ok = false
			}
		}
		r.Check(ok && n > 0, rule, "getPrivateKeyPackageIndex|absent only when not in the author's list", p.Pos(f.Pos()), "every negative return is behind an absent-index test or the end of the list", "getPrivateKeyPackageIndex answers \"absent\" on a path that is neither an absent-index test nor the end of the author's recipient list: the encrypter still makes a slot for that recipient (e.g. an author assigned its own flips in a small shard), but the solver is told it has none and cannot extract the key of a flip it was assigned")
	}
	if f := mustFunc(p, r, "core/ceremony", "ValidationCeremony.PrivateEncryptionKeyCandidates"); f != nil {
		var app *ssa.Call
		for _, c := range engine.Calls(f) {
			if cc, ok := c.(*ssa.Call); ok {
				if b, isB := cc.Call.Value.(*ssa.Builtin); isB && b.Name() == "append" && enclosingLoopHeader(cc.Block()) != nil {
					app = cc
				}
			}
		}
		ok := app != nil
		if ok {
			hdr := enclosingLoopHeader(app.Block())
			reach := engine.ReachAvoiding(f, hdr, nil, map[*ssa.BasicBlock]bool{app.Block(): true})
			for _, pr := range hdr.Preds {
				if hdr.Dominates(pr) && pr != app.Block() && reach[pr] {
					ok = false
				}
			}
		}
		r.Check(ok, rule, "PrivateEncryptionKeyCandidates|one slot per element of the author's list", p.Pos(f.Pos()), "no iteration skips the append", "the recipient list of the key package skips elements of candidatesPerAuthor: slot numbers no longer match the positions the solver looks up")
	}
}

// ---------------------------------------------------------------------------------------------
// C17-R12: at start-up the persisted ceremony data is read back before anything rewrites it: in
// ValidationCeremony.Initialize no call that reaches qualification.persist (which rewrites the whole
// answers record from memory) runs before restoreState.
// reachesByCalls: target is reachable from fn through calls that are executed when fn runs (static
// and interface calls, deferred calls, closures invoked on the spot) — a closure that fn merely
// creates and registers somewhere (an event subscription) is not entered.
func reachesByCalls(p *engine.Prog, fn, target *ssa.Function) bool {
	seen := map[*ssa.Function]bool{}
	work := []*ssa.Function{fn}
	for len(work) > 0 {
		f := work[len(work)-1]
		work = work[:len(work)-1]
		if f == nil || seen[f] || f.Blocks == nil {
			continue
		}
		seen[f] = true
		if f == target {
			return true
		}
		for _, c := range engine.Calls(f) {
			if _, isGo := c.(*ssa.Go); isGo {
				continue
			}
			if sc := c.Common().StaticCallee(); sc != nil {
				if engine.IsRepoPkg(engine.FuncPkg(sc)) {
					work = append(work, sc)
				}
				continue
			}
			if c.Common().IsInvoke() {
				for _, g := range p.SiteCallees(c) {
					if engine.IsRepoPkg(engine.FuncPkg(g)) {
						work = append(work, g)
					}
				}
			}
		}
	}
	return seen[target]
}

func restoreBeforePersistRule(p *engine.Prog, r *engine.Report, rule string) {
	f := mustFunc(p, r, "core/ceremony", "ValidationCeremony.Initialize")
	persist := mustFunc(p, r, "core/ceremony", "qualification.persist")
	if f == nil || persist == nil {
		return
	}
	rs := callsTo(f, "core/ceremony.ValidationCeremony.restoreState")
	if len(rs) == 0 {
		r.Bad(rule, "Initialize|restoreState", p.Pos(f.Pos()), "restoreState is not called from Initialize: anchor moved")
		return
	}
	n := 0
	for _, c := range engine.Calls(f) {
		if _, isGo := c.(*ssa.Go); isGo {
			continue
		}
		sc := c.Common().StaticCallee()
		if sc == nil || !engine.IsRepoPkg(engine.FuncPkg(sc)) || sc == rs[0].Common().StaticCallee() {
			continue
		}
		if !reachesByCalls(p, sc, persist) {
			continue
		}
		n++
		ok := engine.InstrDominates(rs[0], c)
		r.Check(ok, rule, uniq(r, "Initialize|"+engine.RelName(sc)+" runs after restoreState"), p.InstrPos(c), "dominated by restoreState()", engine.RelName(sc)+" rewrites the persisted answers from memory (qualification.persist) and runs before restoreState read them back: after a restart in a ceremony period whose head block carries an answers transaction, everything persisted before the shutdown is overwritten — earlier senders count as having missed the session on this node only, and the loss is on disk")
	}
	r.Check(n > 0, rule, "Initialize|a persisting call exists (control)", p.Pos(f.Pos()), fmt.Sprint(n), "no call of Initialize reaches qualification.persist any more: the ordering rule is vacuous")
}

// ---------------------------------------------------------------------------------------------
// C18-R8: a decoder that only overwrites what the message carries (optional fields assigned when
// present, repeated fields appended) decodes into a zero value: the receiver of every FromBytes call
// on such a type is a variable of that very function activation and, inside a loop, of that iteration.
func additiveDecoder(fn *ssa.Function) bool {
	if fn == nil || fn.Blocks == nil || len(fn.Params) == 0 {
		return false
	}
	recv := ssa.Value(fn.Params[0])
	for _, b := range fn.Blocks {
		for _, ins := range b.Instrs {
			st, ok := ins.(*ssa.Store)
			if !ok {
				continue
			}
			fa, isF := st.Addr.(*ssa.FieldAddr)
			if !isF || engine.Origin(fa.X) != recv {
				continue
			}
			// appended to its own previous value
			if c, isC := engine.Unwrap(st.Val).(*ssa.Call); isC {
				if bi, isB := c.Call.Value.(*ssa.Builtin); isB && bi.Name() == "append" {
					for v := range engine.BackSlice(c.Call.Args[0], engine.SliceOpts{ThroughLoads: false, MaxNodes: 20}) {
						if u, ok := v.(*ssa.UnOp); ok && u.Op == token.MUL {
							if fa2, ok := u.X.(*ssa.FieldAddr); ok && fieldPathKey(fa2) == fieldPathKey(fa) {
								return true
							}
						}
					}
				}
			}
			// assigned only on some paths (a presence test) — the store does not dominate every return
			dominatesAll := true
			for _, ret := range engine.Returns(fn) {
				if k := retErrKind(ret); k == "nonnil" {
					continue
				}
				if !b.Dominates(ret.Block()) {
					dominatesAll = false
				}
			}
			if !dominatesAll && enclosingLoopHeader(b) == nil {
				return true
			}
		}
	}
	return false
}

func freshDecodeTargetRule(p *engine.Prog, r *engine.Report, rule string, pkgs []string, bad string) {
	n, add := 0, 0
	cache := map[*ssa.Function]bool{}
	for _, pk := range pkgs {
		for _, f := range funcsOfPkg(p, pk) {
			if f.Blocks == nil || isTestish(p.Pos(f.Pos())) {
				continue
			}
			for _, c := range engine.Calls(f) {
				if !engine.CallNameIs(c, "FromBytes") || c.Common().IsInvoke() {
					continue
				}
				m := c.Common().StaticCallee()
				if m == nil || m.Signature.Recv() == nil {
					continue
				}
				n++
				isAdd, seen := cache[m]
				if !seen {
					isAdd = additiveDecoder(m)
					cache[m] = isAdd
				}
				if !isAdd {
					continue
				}
				add++
				recv := engine.Origin(c.Common().Args[0])
				ok := true
				why := ""
				switch x := recv.(type) {
				case *ssa.Alloc:
					if h := enclosingLoopHeader(c.Block()); h != nil && !loopBlocks(h)[x.Block()] {
						ok, why = false, "the target is declared outside the loop that decodes into it"
					}
					if x.Parent() != f {
						ok, why = false, "the target belongs to another function activation"
					}
				case *ssa.FreeVar:
					ok, why = false, "the target is a variable captured from the enclosing function: it is shared by every invocation of the callback"
				case *ssa.Parameter:
					// a method decoding into its own receiver/argument: the caller owns freshness
				default:
					if _, isCall := recv.(*ssa.Call); isCall {
						// new(T) through a constructor
					} else if _, isG := recv.(*ssa.Global); isG {
						ok, why = false, "the target is a package-level variable"
					}
				}
				r.Check(ok, rule, uniq(r, engine.RelName(f)+"|"+engine.RelName(m)+" decodes into a fresh value"), p.InstrPos(c), "fresh per activation/iteration", why+": "+engine.RelName(m)+" assigns optional fields only when present and appends repeated ones, so a record inherits what earlier records left in the shared target and no longer re-encodes to its stored bytes. "+bad)
			}
		}
	}
	r.Check(add >= 3, rule, "scan|additive decoders called (control)", "", fmt.Sprintf("%d FromBytes calls, %d on additive decoders", n, add), fmt.Sprintf("only %d calls of additive decoders recognised (%d FromBytes calls): the rule would pass vacuously", add, n))
}

// ---------------------------------------------------------------------------------------------
// C18-R9: an object that memoises its own hash / sender is never copied as a whole: a struct copy
// carries the memo of the source into an object whose content then changes (signature replaced …),
// so Hash() no longer is the hash of the encoding and Sender no longer the signer.
func noMemoCopyRule(p *engine.Prog, r *engine.Report, rule string) {
	pk := repoPkg(p, r, "blockchain/types")
	if pk == nil {
		return
	}
	memo := map[*types.Named][]string{}
	sc := pk.Types.Scope()
	for _, nm := range sc.Names() {
		tn, ok := sc.Lookup(nm).(*types.TypeName)
		if !ok {
			continue
		}
		named, ok := tn.Type().(*types.Named)
		if !ok {
			continue
		}
		st, ok := named.Underlying().(*types.Struct)
		if !ok {
			continue
		}
		for i := 0; i < st.NumFields(); i++ {
			if strings.HasSuffix(st.Field(i).Type().String(), "atomic.Value") {
				memo[named] = append(memo[named], st.Field(i).Name())
			}
		}
	}
	names := []string{}
	for n := range memo {
		names = append(names, n.Obj().Name())
	}
	sort.Strings(names)
	r.Check(len(memo) >= 2, rule, "types|memoising types found (control)", "", strings.Join(names, ","), "fewer than two types with memo fields found in blockchain/types: the rule would pass vacuously")
	n := 0
	for _, f := range p.AllFuncs() {
		if f.Blocks == nil || !engine.IsRepoPkg(engine.FuncPkg(f)) || isTestish(p.Pos(f.Pos())) {
			continue
		}
		for _, b := range f.Blocks {
			for _, ins := range b.Instrs {
				u, ok := ins.(*ssa.UnOp)
				if !ok || u.Op != token.MUL {
					continue
				}
				named, ok := u.Type().(*types.Named)
				if !ok || memo[named] == nil {
					continue
				}
				n++
				// a load of a freshly zeroed local (var x T; … ; return x) is not a copy of a live object
				if a, isA := u.X.(*ssa.Alloc); isA && len(engine.StoresTo(a)) == 0 {
					continue
				}
				r.Bad(rule, uniq(r, engine.RelName(f)+"|no whole-struct copy of "+named.Obj().Name()), p.InstrPos(u), "a "+named.Obj().Name()+" is copied by value: the copy carries the memoised "+strings.Join(memo[named], "/")+" of the source, so after any field of the copy changes (a new signature, cleared flags) Hash() is not the hash of its encoding and the cached sender is not the signer — other nodes, which decode the bytes, compute different ones")
			}
		}
	}
	r.OK(rule, "scan|by-value loads of memoising types", "", fmt.Sprint(n))
}

// ---------------------------------------------------------------------------------------------
// C07-R11 / C08-R8b: the number of votes taken off the quorum for discriminated committee members is
// rounded to the nearest integer, the rounding every node applies: rounded up, the quorum is one vote
// lower for some member counts and an under-quorum certificate is accepted; rounded down, this node
// refuses certificates the others accept.
func quorumSubtrahendRule(p *engine.Prog, r *engine.Report, rule string) {
	f := mustFunc(p, r, "core/validators", "StepValidators.VotesCountSubtrahend")
	if f == nil {
		return
	}
	n := 0
	for _, b := range f.Blocks {
		for _, ins := range b.Instrs {
			cv, ok := ins.(*ssa.Convert)
			if !ok {
				continue
			}
			from, isB := cv.X.Type().Underlying().(*types.Basic)
			to, isB2 := cv.Type().Underlying().(*types.Basic)
			if !isB || !isB2 || from.Info()&types.IsFloat == 0 || to.Info()&types.IsInteger == 0 {
				continue
			}
			n++
			mode := "truncation"
			if c, isC := engine.Unwrap(cv.X).(*ssa.Call); isC {
				if o := engine.CalleeObj(&c.Call); o != nil {
					mode = o.Name()
					if o.Name() == "Floor" && len(c.Call.Args) == 1 {
						if bo, ok := c.Call.Args[0].(*ssa.BinOp); ok && bo.Op == token.ADD {
							if fv, ok := ssaConstFloat(bo.Y); ok && fv == 0.5 {
								mode = "Round"
							}
						}
					}
				}
			}
			r.Check(mode == "Round", rule, uniq(r, "VotesCountSubtrahend|rounded to nearest"), p.InstrPos(cv), "int(Round(…))", "the votes taken off the quorum are converted with "+mode+" instead of rounding to nearest: for some numbers of discriminated committee members the required quorum differs by one vote from what every other node requires — rounded up, a certificate one vote short (on a fork block, too) is accepted")
		}
	}
	if n == 0 {
		r.OK(rule, "VotesCountSubtrahend|no floating point conversion", "", "integer arithmetic only")
	}
}

// ---------------------------------------------------------------------------------------------
func init() {
	extend("C07", func(p *engine.Prog, r *engine.Report) {
		r.Explanation += " (R11) the votes taken off the quorum for discriminated members (StepValidators.VotesCountSubtrahend) are rounded to nearest."
		quorumSubtrahendRule(p, r, "C07-R11")
	})
	extend("C08", func(p *engine.Prog, r *engine.Report) {
		r.Explanation += " (R8) the state a fork is validated on carries the same behaviour hooks as the one blocks are applied on: StateDB.ForCheck, ForCheckWithOverwrite and Readonly hand over the same parent fields; the quorum subtrahend is rounded to nearest (shared with C07-R11)."
		viewConstructorsAgreeRule(p, r, "C08-R8")
		quorumSubtrahendRule(p, r, "C08-R8")
	})
	extend("C09", func(p *engine.Prog, r *engine.Report) {
		r.Explanation += " (R5) InitializeChain replays tryUpgrade on the stored head (the repair for a crash between the head write and the persisted consensus version)."
		startupUpgradeRule(p, r, "C09-R5")
	})
	extend("C10", func(p *engine.Prog, r *engine.Report) {
		r.Explanation += " (R8) every registry undelegation in applyDelegationSwitch is reported to switchPoolsToOffline under the delegatee presence test only (no consensus flag); (R9) no function of core/state, core/appstate, core/validators stores the address of a loop-invariant, loop-rewritten variable into per-iteration objects (predefined-state import: every delegator would get the last delegatee)."
		undelegationReportedRule(p, r, "C10-R8")
		loopSharedAddrRule(p, r, "C10-R9", []string{"core/state", "core/appstate", "core/validators"}, "IdentityStateDB.SetPredefinedIdentities", "In the predefined-state import every delegator loaded from the dump gets the delegatee of the last one: the registry disagrees with the ledger from the genesis block on, and every view rebuilt from it has wrong pools and committees")
	})
	extend("C11", func(p *engine.Prog, r *engine.Report) {
		r.Explanation += " (R6) WriteIdentityStateDiff settles the entry of the height on every path (write, remove, or nothing stored); (R7) LoadPreliminary falls back to the highest stored version not above the height (inclusive bound; enumerated idioms)."
		identityDiffAlwaysSettledRule(p, r, "C11-R6")
		preliminaryVersionBoundRule(p, r, "C11-R7")
	})
	extend("C13", func(p *engine.Prog, r *engine.Report) {
		r.Explanation += " (R9) ValidatorsCache.Clone, which gives every ForCheck view its validators cache, copies every container (frozen exceptions: read-only handles); sibling view constructors of StateDB hand over the same parent fields."
		deepCloneRule(p, r, "C13-R9", "core/validators", "ValidatorsCache", "Clone", map[string]string{
			"identityState": "the registry handle: ForCheck replaces the cache when heights differ; observed, see DESIGN 4.2",
			"log":           "logger",
			"god":           "pointer-free value on this tree; listed in case it becomes a pointer",
		}, "every ForCheck view shares that container with the canonical cache, so committing an identity-update block on a view alone (a losing proposal, a rejected block, a dry run) rewrites the canonical validators cache although roots and stored versions stay intact")
	})
	extend("C14", func(p *engine.Prog, r *engine.Report) {
		r.Explanation += " (R11) the result of a nil-returning account lookup (StateDB.getStateAccount) is dereferenced only behind its non-nil test in core/state and core/mempool; (R12) no index into a sender's queue (sortedTxs) is computed from nonce arithmetic."
		nilableLookupRule(p, r, "C14-R11", []string{"core/state", "core/mempool"}, []string{"StateDB.getStateAccount", "StateDB.getStateIdentity"}, map[string]string{
			"StateDB.DropContract": "called only by the embedded contracts' termination of the contract that is executing (its account exists); outside the submission path",
		}, "a sender without an account record (zero balance, first transactions are free ceremony ones) makes the nonce cache panic after the transaction was already stored — add() reports an error for a transaction that sits in the pool, and GetNonce panics unrecovered")
		queueIndexNotFromNonceRule(p, r, "C14-R12")
	})
	extend("C15", func(p *engine.Prog, r *engine.Report) {
		r.Explanation += " (R8) the types checked against the declared maximum fee inside a block (validation.contractTxs) are exactly the types the block processor runs in the VM."
		contractTypeSetsAgreeRule(p, r, "C15-R8")
	})
	extend("C16", func(p *engine.Prog, r *engine.Report) {
		r.Explanation += " (R8) no slice in database, core/ceremony, core/flip is made with a non-zero length and then only appended to (restored lottery identities would carry empty flips in front of the real ones); (R9) the key-package slot lookup answers absent only for an absent index or at the end of the author's list, and the recipient list skips no element."
		makeLenThenAppendRule(p, r, "C16-R8", []string{"database", "core/ceremony", "core/flip"}, "database", "EpochDb.ReadLotteryIdentities", "A node restoring the lottery mid-ceremony rebuilds flips/flipsPerAuthor with non-existent empty flips: indexes shift and the assignment differs from the one before the restart and from other nodes")
		keyPackageSlotRule(p, r, "C16-R9")
	})
	extend("C17", func(p *engine.Prog, r *engine.Report) {
		r.Explanation += " (R12) ValidationCeremony.Initialize reads the persisted ceremony data back (restoreState) before any call that reaches qualification.persist."
		restoreBeforePersistRule(p, r, "C17-R12")
	})
	extend("C18", func(p *engine.Prog, r *engine.Report) {
		r.Explanation += " (R8) every additive decoder (FromBytes that assigns optional fields when present / appends repeated ones) decodes into a value fresh for that activation and iteration; (R9) no type of blockchain/types that memoises hash/sender (atomic.Value fields) is copied by value."
		freshDecodeTargetRule(p, r, "C18-R8", []string{"core/state", "core/ceremony", "blockchain", "blockchain/types", "core/flip", "core/mempool", "protocol", "database", "vm/env", "core/upgrade", "deferredtx", "consensus"}, "")
		noMemoCopyRule(p, r, "C18-R9")
	})
}

// ---------------------------------------------------------------------------------------------
// C12-R13: where the executor of a transaction type dereferences the result of a lookup that can come
// back empty without testing it (it relies on admission), the validator of that type refuses the
// transaction on every path on which that very lookup is empty — not only under some consensus flag.
func validatorEstablishesRule(p *engine.Prog, r *engine.Report, rule string, pairs [][5]string, bad string) {
	n := 0
	for _, pr := range pairs {
		e, err := p.Func(pr[0], pr[1])
		if err != nil {
			r.Errorf("anchor unresolved: %v", err)
			continue
		}
		v := mustFunc(p, r, pr[2], pr[3])
		if v == nil {
			continue
		}
		lookup := pr[4]
		_, bads := unguardedNilableUses(e, func(c *ssa.Function) bool { return c.Name() == lookup })
		key := pr[1] + "|" + lookup + " established by " + pr[3]
		if len(bads) == 0 {
			r.OK(rule, key, p.Pos(e.Pos()), "the executor tests the lookup itself (or does not use it)")
			continue
		}
		n++
		var guards []engine.Guard
		for _, c := range engine.Calls(v) {
			cc, ok := c.(*ssa.Call)
			if !ok || !engine.CallNameIs(c, lookup) {
				continue
			}
			guards = append(guards, guardsWhere(v, func(cond ssa.Value) (bool, bool, string) {
				x, nonNilOnTrue, ok := engine.NilCheck(cond)
				if !ok || engine.Unwrap(x) != ssa.Value(cc) {
					return false, false, ""
				}
				return true, nonNilOnTrue, lookup + " != nil"
			})...)
		}
		ok := len(guards) > 0
		for _, ret := range successReturns(v) {
			if !engine.OnlyThroughPassRet(v, ret, guards) {
				ok = false
			}
		}
		r.Check(ok, rule, key, p.InstrPos(bads[0].use), "every accepting path of the validator passes the non-nil test", pr[3]+" accepts a transaction on a path that does not pass the non-nil test of "+lookup+" (e.g. the test sits under a consensus flag), while "+pr[1]+" dereferences that lookup unchecked: "+bad)
	}
	r.Check(n > 0, rule, "pairs|an executor relies on admission (control)", "", fmt.Sprint(n), "no executor dereferences a lookup unchecked any more: the pairing is vacuous")
}

// C12-R14: a position in a peer-delivered list of block bundles is bounded by that list's length:
// every non-constant index into a []types.BlockBundle on the fork path is a range position, len-c,
// tested against the length on the way, or computed behind a test that makes the length agree with
// the count it is derived from (a refusal when `len(list) != last-first+1`).
func bundleIndexBoundedRule(p *engine.Prog, r *engine.Report, rule string) {
	n := 0
	for _, pk := range []string{"consensus", "blockchain", "protocol"} {
		for _, f := range funcsOfPkg(p, pk) {
			if f.Blocks == nil || f.Parent() != nil || isTestish(p.Pos(f.Pos())) {
				continue
			}
			for _, u := range countedIndexUnbounded(f) {
				if !strings.Contains(u.at.X.Type().String(), "types.BlockBundle") {
					continue
				}
				n++
				r.Fn(engine.FuncName(f))
				sl := renderVal(u.at.X, 0)
				agreed := false
				for _, d := range f.Blocks {
					if len(d.Instrs) == 0 || !d.Dominates(u.at.Block()) || d == u.at.Block() {
						continue
					}
					iff, ok := d.Instrs[len(d.Instrs)-1].(*ssa.If)
					if !ok {
						continue
					}
					cond, _ := stripNot(iff.Cond)
					bo, ok := cond.(*ssa.BinOp)
					if !ok || (bo.Op != token.EQL && bo.Op != token.NEQ) {
						continue
					}
					for v := range engine.BackSlice(bo, engine.SliceOpts{ThroughLoads: true, MaxNodes: 60}) {
						if c, ok := v.(*ssa.Call); ok {
							if b, isB := c.Call.Value.(*ssa.Builtin); isB && b.Name() == "len" && renderVal(c.Call.Args[0], 0) == sl {
								if _, isConst := bo.Y.(*ssa.Const); !isConst {
									agreed = true
								}
							}
						}
					}
				}
				r.Check(agreed, rule, uniq(r, engine.RelName(f)+"|a counted position in the peer's bundle list is bounded by its length"), p.InstrPos(u.at), "behind a length agreement test", "the index is computed by counting (block heights), and nothing on the way compares it — or the count it follows — with the length of the list the peer delivered: a block range with a gap in its heights runs the index past the list and the goroutine that resolves forks panics (no recover)")
			}
		}
	}
	if n == 0 {
		r.OK(rule, "scan|no counted index into a bundle list", "", "range / constant / len-relative positions only")
	}
}

// C12-R16: a header flag that makes the block processor dereference Header.OfflineAddr() (nil when the
// header carries none) is refused without an address by the header check every path runs
// (ValidateHeader): some error return of ValidateHeader is controlled by HasFlag(mask ∋ flag) and by
// the nil side of a test of OfflineAddr(). The offline detector applies that rule to proposals only;
// fork and sync blocks reach applyGlobalParams through validateBlock without it.
func offlineAddrEstablishedRule(p *engine.Prog, r *engine.Report, rule string) {
	vh := mustFunc(p, r, "blockchain", "Blockchain.ValidateHeader")
	if vh == nil {
		return
	}
	commit := constInt(p, "blockchain/types", "OfflineCommit")
	established := false
	for _, iff := range engine.Ifs(vh) {
		x, nonNilOnTrue, ok := engine.NilCheck(iff.Cond)
		if !ok {
			continue
		}
		c, isC := engine.Unwrap(x).(*ssa.Call)
		if !isC || !engine.CallNameIs(c, "OfflineAddr") {
			continue
		}
		nilSucc := iff.Block().Succs[0]
		if nonNilOnTrue {
			nilSucc = iff.Block().Succs[1]
		}
		refuses := false
		for _, ins := range nilSucc.Instrs {
			if ret, ok := ins.(*ssa.Return); ok && retErrKind(ret) == "nonnil" {
				refuses = true
			}
		}
		if !refuses {
			continue
		}
		// controlled by HasFlag(mask) with the commit bit in the mask
		for _, d := range vh.Blocks {
			if len(d.Instrs) == 0 {
				continue
			}
			di, ok := d.Instrs[len(d.Instrs)-1].(*ssa.If)
			if !ok || len(d.Succs) < 1 || !(d.Succs[0] == iff.Block() || d.Succs[0].Dominates(iff.Block())) || len(d.Succs[0].Preds) != 1 {
				continue
			}
			hc, isC := engine.Unwrap(di.Cond).(*ssa.Call)
			if !isC || !engine.CallNameIs(hc, "HasFlag") {
				continue
			}
			for _, a := range hc.Call.Args {
				if m, ok := engine.ConstInt(a); ok && commit != 0 && m&commit != 0 {
					established = true
				}
			}
		}
	}
	n := 0
	for _, pk := range []string{"blockchain"} {
		for _, f := range funcsOfPkg(p, pk) {
			if f.Blocks == nil || isTestish(p.Pos(f.Pos())) {
				continue
			}
			_, bads := unguardedNilableUses(f, func(c *ssa.Function) bool { return c.Name() == "OfflineAddr" })
			for _, b := range bads {
				n++
				r.Fn(engine.FuncName(f))
				r.Check(established, rule, uniq(r, engine.RelName(f)+"|the offline address it dereferences is established by ValidateHeader"), p.InstrPos(b.use), "ValidateHeader refuses an Offline* flag without an address", engine.RelName(f)+" dereferences Header.OfflineAddr() unchecked and ValidateHeader — the only header check on the fork and sync paths — does not refuse a header whose OfflineCommit flag is set without an address (only the offline detector does, for proposals): a fork block with the flag and no address, from any identity allowed to propose, reaches the dereference through ValidateSubChain -> validateBlock -> applyBlockOnState before any certificate check, in a goroutine without recover")
			}
		}
	}
	r.Check(n > 0, rule, "sites|an unchecked dereference of OfflineAddr() exists (control)", "", fmt.Sprint(n), "no function of package blockchain dereferences OfflineAddr() unchecked any more: the pairing is vacuous")
}

// C12-R17: IdentityStateDB.AddDiff — fed with a diff a peer delivered during fast sync — refuses an
// entry that is neither deleted nor carries a value before the tree is touched: the tree panics on
// a nil value, and an omitted protobuf bytes field decodes to nil.
func peerDiffValueTestedRule(p *engine.Prog, r *engine.Report, rule string) {
	f := mustFunc(p, r, "core/state", "IdentityStateDB.AddDiff")
	if f == nil {
		return
	}
	isValueField := func(v ssa.Value) bool {
		for x := range engine.BackSlice(v, engine.SliceOpts{ThroughLoads: true, MaxNodes: 30}) {
			if u, ok := x.(*ssa.UnOp); ok && u.Op == token.MUL {
				if _, fld, ok := engine.FieldOf(u.X); ok && fld == "Value" {
					return true
				}
			}
		}
		return false
	}
	var check *ssa.If
	for _, iff := range engine.Ifs(f) {
		cond, _ := stripNot(iff.Cond)
		bo, ok := cond.(*ssa.BinOp)
		if !ok {
			continue
		}
		if x, _, isNil := engine.NilCheck(cond); isNil && isValueField(x) {
			check = iff
			continue
		}
		if c, isC := engine.ConstInt(bo.Y); isC && c == 0 {
			if lc, isCall := engine.Unwrap(bo.X).(*ssa.Call); isCall {
				if b, isB := lc.Call.Value.(*ssa.Builtin); isB && b.Name() == "len" && isValueField(lc.Call.Args[0]) {
					check = iff
				}
			}
		}
	}
	var writes []ssa.CallInstruction
	for _, c := range engine.Calls(f) {
		if engine.CallNameIs(c, "updateStateIdentityObjectRaw", "Set") {
			writes = append(writes, c)
		}
	}
	if len(writes) == 0 {
		r.Bad(rule, "AddDiff|raw value written", p.Pos(f.Pos()), "no raw write found in AddDiff: anchor moved")
		return
	}
	for _, w := range writes {
		ok := false
		if check != nil {
			cb := check.Block()
			if h := enclosingLoopHeader(cb); h != nil && !loopBlocks(h)[w.Block()] && h.Dominates(w.Block()) {
				ok = true // a validation pass over all entries before the first write
			}
			if cb.Dominates(w.Block()) && cb != w.Block() {
				ok = true // tested per entry on the way to the write
			}
		}
		r.Check(ok, rule, uniq(r, "AddDiff|a peer's diff value is tested for emptiness before it reaches the tree"), p.InstrPos(w), "refused before any write", "AddDiff hands the raw value of a diff entry to the tree without testing it: the diff comes from a peer's BlocksRange answer during fast sync (applied before the identity root is compared), an entry with deleted=false and the value omitted decodes to nil, and the tree panics on a nil value — in the block consumer goroutine, which has no recover")
	}
}

// C12-R18: the VRF verifier never hands absent coordinates to the curve: ScalarMult/ScalarBaseMult
// answer (nil, nil) for a scalar that is zero or not below the group order, and the scalars are the
// first 64 bytes of a proof any peer sends; every curve.Add in crypto/vrf/p256 whose operands come
// from such a call is reachable only through a nil test of each of them. The curve's own Add treats
// equal points and the point at infinity (no modular inverse) without dereferencing nil.
func vrfScalarResultsTestedRule(p *engine.Prog, r *engine.Report, rule string) {
	n := 0
	for _, f := range funcsOfPkg(p, "crypto/vrf/p256") {
		if f.Blocks == nil || isTestish(p.Pos(f.Pos())) {
			continue
		}
		for _, c := range engine.Calls(f) {
			if !engine.CallNameIs(c, "Add") || len(c.Common().Args) < 4 {
				continue
			}
			srcs := map[*ssa.Call]bool{}
			for _, a := range c.Common().Args {
				if ex, ok := engine.Unwrap(a).(*ssa.Extract); ok {
					if sc, ok := ex.Tuple.(*ssa.Call); ok && engine.CallNameIs(sc, "ScalarMult", "ScalarBaseMult") {
						srcs[sc] = true
					}
				}
			}
			if len(srcs) == 0 {
				continue
			}
			n++
			r.Fn(engine.FuncName(f))
			ok := true
			for sc := range srcs {
				sc := sc
				guards := guardsWhere(f, func(cond ssa.Value) (bool, bool, string) {
					x, nonNilOnTrue, isNil := engine.NilCheck(cond)
					if !isNil {
						return false, false, ""
					}
					if ex, isEx := engine.Unwrap(x).(*ssa.Extract); isEx && ex.Tuple == ssa.Value(sc) {
						return true, nonNilOnTrue, "coordinate != nil"
					}
					return false, false, ""
				})
				if len(guards) == 0 || !engine.OnlyThroughPass(f, c.Block(), guards) {
					ok = false
				}
			}
			r.Check(ok, rule, uniq(r, engine.RelName(f)+"|scalar multiplication results are tested before they are added"), p.InstrPos(c), "behind nil tests of every operand's source", "curve.Add receives the result of a scalar multiplication that is (nil, nil) for a scalar that is zero or not below the group order — the scalars are bytes 0..63 of the proof in a ProposeProof / ProposeBlock message any peer can send (129 bytes, any throw-away key): the peer's read goroutine dereferences nil, no recover")
		}
	}
	r.Check(n >= 2, rule, "scan|curve additions of scalar products (control)", "", fmt.Sprint(n), "fewer than two such additions found in crypto/vrf/p256: anchor moved")
	if f := mustFunc(p, r, "crypto/secp256k1", "BitCurve.affineFromJacobian"); f != nil {
		var inv ssa.CallInstruction
		for _, c := range engine.Calls(f) {
			if engine.CallNameIs(c, "ModInverse") {
				inv = c
			}
		}
		ok := false
		if inv != nil {
			z := ssa.Value(f.Params[len(f.Params)-1])
			for _, iff := range engine.Ifs(f) {
				if !iff.Block().Dominates(inv.Block()) || iff.Block() == inv.Block() {
					continue
				}
				for v := range engine.BackSlice(iff.Cond, engine.SliceOpts{ThroughCalls: true, MaxNodes: 20}) {
					if v == z {
						ok = true
					}
				}
			}
		}
		r.Check(ok, rule, "affineFromJacobian|the point at infinity is handled before the inverse is taken", p.Pos(f.Pos()), "z tested before ModInverse", "ModInverse answers nil when z is zero (the sum of opposite points — a sender who signs with key k picks t = -s*k) and the nil is multiplied right away: nil dereference on a peer's proof")
	}
	if f := mustFunc(p, r, "crypto/secp256k1", "BitCurve.Add"); f != nil {
		ok := false
		for _, c := range engine.Calls(f) {
			if engine.CallNameIs(c, "doubleJacobian") && len(controlSig(c.Block())) > 0 {
				ok = true
			}
		}
		r.Check(ok, rule, "BitCurve.Add|equal points are doubled, not added", p.Pos(f.Pos()), "doubleJacobian behind an equality test", "addJacobian is not defined for equal points (z3 = 0, no inverse): a sender who signs with key k picks t = s*k and the verifier's Add dereferences nil")
	}
}

// C12-R19: the block processor dereferences tx.To unchecked for many transaction types; for every
// such type the validator registered for it refuses an absent recipient on every accepting path.
func recipientEstablishedRule(p *engine.Prog, r *engine.Report, rule string) {
	pk := repoPkg(p, r, "blockchain/validation")
	at := mustFunc(p, r, "blockchain", "Blockchain.applyTxOnState")
	if pk == nil || at == nil {
		return
	}
	// type constant -> validator name, from the registry literal
	reg := map[string]string{}
	names := map[string]string{}
	for _, file := range pk.Syntax {
		ast.Inspect(file, func(n ast.Node) bool {
			cl, ok := n.(*ast.CompositeLit)
			if !ok {
				return true
			}
			for _, el := range cl.Elts {
				kv, ok := el.(*ast.KeyValueExpr)
				if !ok {
					continue
				}
				id, ok := kv.Value.(*ast.Ident)
				if !ok || !strings.HasPrefix(id.Name, "validate") {
					continue
				}
				if tv, ok := pk.TypesInfo.Types[kv.Key]; ok && tv.Value != nil {
					reg[tv.Value.ExactString()] = id.Name
					names[tv.Value.ExactString()] = types.ExprString(kv.Key)
				}
			}
			return true
		})
	}
	if len(reg) < 10 {
		r.Bad(rule, "validators|registry literal", "", "the validator registry literal was not found: anchor moved")
		return
	}
	isToLoad := func(v ssa.Value) bool {
		u, ok := engine.Unwrap(v).(*ssa.UnOp)
		if !ok || u.Op != token.MUL {
			return false
		}
		owner, fld, ok := engine.FieldOf(u.X)
		return ok && fld == "To" && strings.Contains(owner, "Transaction")
	}
	toGuards := func(f *ssa.Function) []engine.Guard {
		return guardsWhere(f, func(cond ssa.Value) (bool, bool, string) {
			x, nonNilOnTrue, ok := engine.NilCheck(cond)
			if !ok || !isToLoad(x) {
				return false, false, ""
			}
			return true, nonNilOnTrue, "tx.To != nil"
		})
	}
	// types whose case body dereferences tx.To unchecked
	need := map[string]ssa.Instruction{}
	own := toGuards(at)
	for _, b := range at.Blocks {
		for _, ins := range b.Instrs {
			u, ok := ins.(*ssa.UnOp)
			if !ok || u.Op != token.MUL || !isToLoad(u.X) {
				continue
			}
			if len(own) > 0 && engine.OnlyThroughPass(at, b, own) {
				continue
			}
			for _, iff := range engine.Ifs(at) {
				bo, ok := iff.Cond.(*ssa.BinOp)
				if !ok || bo.Op != token.EQL {
					continue
				}
				c, isC := bo.Y.(*ssa.Const)
				if !isC || c.Value == nil || c.Value.Kind() != constant.Int {
					continue
				}
				lu, isU := engine.Unwrap(bo.X).(*ssa.UnOp)
				if !isU {
					continue
				}
				if _, fld, ok := engine.FieldOf(lu.X); !ok || fld != "Type" {
					continue
				}
				if s := iff.Block().Succs[0]; s == b || s.Dominates(b) {
					if _, seen := need[c.Value.ExactString()]; !seen {
						need[c.Value.ExactString()] = ins
					}
				}
			}
		}
	}
	keys := []string{}
	for k := range need {
		keys = append(keys, k)
	}
	sort.Strings(keys)
	for _, k := range keys {
		vn, ok := reg[k]
		if !ok {
			r.Bad(rule, "type "+k+"|has a validator", p.InstrPos(need[k]), "applyTxOnState dereferences tx.To for a transaction type that has no registered validator")
			continue
		}
		v := mustFunc(p, r, "blockchain/validation", vn)
		if v == nil {
			continue
		}
		guards := toGuards(v)
		good := len(guards) > 0
		for _, ret := range successReturns(v) {
			if !engine.OnlyThroughPassRet(v, ret, guards) {
				good = false
			}
		}
		r.Check(good, rule, names[k]+"|"+vn+" refuses an absent recipient", p.InstrPos(need[k]), "every accepting path passes tx.To != nil", vn+" accepts a "+names[k]+" on a path that does not pass the tx.To != nil test, while the "+names[k]+" case of applyTxOnState dereferences tx.To unchecked: a decodable transaction without recipient in a block (or the mempool) makes the node panic instead of returning a verdict")
	}
	r.Floor(rule, 6, "transaction types whose processing dereferences tx.To")
}

// C12-R20: no panic statement is reachable from a peer-message entry point except the triaged ones:
// every explicit panic(...) in a repo function reachable (resolved call graph, repo only) from the
// gossip handler, the fork loader or the sync batch processors is in a frozen table with the reason
// why peer data cannot reach it. A new panic on such a path (e.g. panic(err) where an error used to be
// returned) is reported. Compiler-generated panics of blocking selects are skipped.
var triagedPanics = map[string]string{
	"BitCurve.ScalarMult":                            "scalars on the peer path are 32-byte slices of a length-checked proof or own keys",
	"EnvImp.Event":                                   "contract code runs behind the VM's recover (deploy/call/terminate)",
	"EnvImp.SetValue":                                "contract code runs behind the VM's recover",
	"GasCounter.AddGas":                              "out-of-gas is signalled by panic and recovered by the VM",
	"IdentityStateDB.CommitTree":                     "local database failure while pruning versions, not input dependent",
	"StateDB.CommitTree":                             "local database failure while pruning versions, not input dependent",
	"StateDB.CommitSnapshot":                         "local database failure, not input dependent",
	"IdentityStateDB.updateStateIdentityObject":      "encoding of the node's own object cannot fail",
	"StateDB.updateStateAccountObject":               "encoding of the node's own object cannot fail",
	"StateDB.updateStateIdentityObject":              "encoding of the node's own object cannot fail",
	"StateDB.updateStateGlobalObject":                "encoding of the node's own object cannot fail",
	"StateDB.updateStateStatusSwitchObject":          "encoding of the node's own object cannot fail",
	"StateDB.updateStateDelegationSwitchObject":      "encoding of the node's own object cannot fail",
	"StateDB.updateStateDelayedOfflinePenaltyObject": "encoding of the node's own object cannot fail",
	"StateDB.updateStateBurntCoinsObject":            "encoding of the node's own object cannot fail",
	"StateDB.updateDiscriminationStatusSwitchObject": "encoding of the node's own object cannot fail",
	"ImmutableTree.AvailableVersions":                "call-graph artefact: read-only trees are never written (Tree interface)",
	"ImmutableTree.DeleteVersion":                    "call-graph artefact: read-only trees are never written",
	"ImmutableTree.ExistVersion":                     "call-graph artefact: read-only trees are never written",
	"ImmutableTree.LoadVersionForOverwriting":        "call-graph artefact: read-only trees are never written",
	"ImmutableTree.Remove":                           "call-graph artefact: read-only trees are never written",
	"ImmutableTree.Rollback":                         "call-graph artefact: read-only trees are never written",
	"ImmutableTree.SaveVersionAt":                    "call-graph artefact: read-only trees are never written",
	"ImmutableTree.Set":                              "call-graph artefact: read-only trees are never written",
	"NewMutableTree":                                 "constructor error only for a non-positive cache size (constant)",
	"PushPullManager.addPush":                        "every type inside pushPullHash.IsValid's range has a holder registered at start-up",
	"ReadContextImpl.Caller":                         "read-only call context, API only",
	"ReadContextImpl.PayAmount":                      "read-only call context, API only",
	"VmImpl.ContractAddr":                            "callers switch on the three contract types first",
	"assertNoError":                                  "local database failure, not input dependent",
	"fastSync.processBatch":                          "constructor invariant (fast sync is created with its manifest)",
	"httpConn.Write":                                 "call-graph artefact (io.Writer)",
	"makeMsg":                                        "encoding of the node's own outgoing message",
	"memoryIpfs.LoadTo":                              "test double",
	"state.Write":                                    "hash API misuse, not input dependent",
}

func peerPathPanicsRule(p *engine.Prog, r *engine.Report, rule string) {
	var entries []*ssa.Function
	for _, e := range [][2]string{{"protocol", "IdenaGossipHandler.handle"}, {"consensus", "ForkResolver.loadAndVerifyFork"}, {"protocol", "fullSync.processBatch"}, {"protocol", "fastSync.processBatch"}, {"protocol", "fastSync.preConsuming"}, {"protocol", "fastSync.postConsuming"}} {
		if f := mustFunc(p, r, e[0], e[1]); f != nil {
			entries = append(entries, f)
		}
	}
	reach := p.Reach(entries, engine.ReachOpts{RepoOnly: true, NoFuncValueCHA: true})
	n := 0
	for _, f := range engine.SortedFuncs(reach) {
		if f.Blocks == nil || isTestish(p.Pos(f.Pos())) {
			continue
		}
		for _, b := range f.Blocks {
			for _, ins := range b.Instrs {
				pn, ok := ins.(*ssa.Panic)
				if !ok {
					continue
				}
				if mi, isMI := pn.X.(*ssa.MakeInterface); isMI && isConstString(mi.X, "blocking select matched no case") {
					continue
				}
				n++
				name := engine.RelName(topParent(f))
				why, known := triagedPanics[name]
				r.Check(known, rule, uniq(r, name+"|panic reachable from a message handler is triaged"), p.InstrPos(pn), why, "a panic statement in "+engine.RelName(f)+" is reachable from a peer-message entry point (gossip handler, fork loader or sync batch processor) and is not in the triaged table: if peer data can steer execution there, one message ends the process (the handlers run without recover) — return an error instead, or add the function to the table with the reason it cannot be reached by input")
			}
		}
	}
	r.Floor(rule, 30, "explicit panics reachable from the peer entry points (triaged by reading)")
	_ = n
}

// C12-R21: the tree importer is fed with the nodes of a downloaded snapshot file (chosen by the peer
// that advertised the manifest) only by a function that checks Add's error and runs under its own
// deferred recover: the importer hashes a node before it validates it and panics on a malformed
// sequence (an inner node whose children were not imported), and the root is compared only afterwards.
func importerFedSafelyRule(p *engine.Prog, r *engine.Report, rule string) {
	n := 0
	for _, f := range funcsOfPkg(p, "core/state") {
		if f.Blocks == nil || isTestish(p.Pos(f.Pos())) {
			continue
		}
		for _, c := range engine.Calls(f) {
			o := engine.CalleeObj(c.Common())
			if o == nil || o.Name() != "Add" || o.Pkg() == nil || !strings.HasSuffix(o.Pkg().Path(), "/iavl") {
				continue
			}
			sig, _ := o.Type().(*types.Signature)
			if sig == nil || sig.Recv() == nil || !strings.Contains(sig.Recv().Type().String(), "Importer") {
				continue
			}
			n++
			r.Fn(engine.FuncName(f))
			// (a) error result tested
			tested := false
			if cv, ok := c.(*ssa.Call); ok {
				tested = len(nilErrGuards(f, cv)) > 0
			}
			r.Check(tested, rule, uniq(r, engine.RelName(f)+"|the importer's refusal of a node is not dropped"), p.InstrPos(c), "Add's error is tested", "the error of Importer.Add is dropped: a node the importer refused is skipped silently and the import goes on with a stack that no longer matches the file")
			// (b) deferred recover in the same function (top-level parent)
			top := topParent(f)
			rec := false
			for _, b := range top.Blocks {
				for _, ins := range b.Instrs {
					d, ok := ins.(*ssa.Defer)
					if !ok {
						continue
					}
					var body *ssa.Function
					if mc, ok := d.Call.Value.(*ssa.MakeClosure); ok {
						body, _ = mc.Fn.(*ssa.Function)
					} else if fn, ok := d.Call.Value.(*ssa.Function); ok {
						body = fn
					}
					if body == nil {
						continue
					}
					for _, cc := range engine.Calls(body) {
						if bi, ok := cc.Common().Value.(*ssa.Builtin); ok && bi.Name() == "recover" {
							rec = true
						}
					}
				}
			}
			r.Check(rec, rule, uniq(r, engine.RelName(f)+"|a snapshot file is imported under a recover"), p.InstrPos(c), "deferred recover in "+engine.RelName(top), "Importer.Add hashes a node before validating it and panics (\"Found an empty child hash\") for an inner node whose children were not imported; the nodes come from a snapshot file fetched by the CID of a manifest any peer can advertise, the root is compared only after the import, and "+engine.RelName(top)+" has no recover: the consensus engine goroutine dies — before the manifest is blacklisted, so again on every restart")
		}
	}
	r.Check(n > 0, rule, "scan|Importer.Add call sites (control)", "", fmt.Sprint(n), "no call of the tree importer found in core/state: anchor moved")
}

func init() {
	extend("C12", func(p *engine.Prog, r *engine.Report) {
		bundleIndexBoundedRule(p, r, "C12-R14")
		recipientEstablishedRule(p, r, "C12-R19")
		peerPathPanicsRule(p, r, "C12-R20")
		importerFedSafelyRule(p, r, "C12-R21")
		offlineAddrEstablishedRule(p, r, "C12-R16")
		peerDiffValueTestedRule(p, r, "C12-R17")
		vrfScalarResultsTestedRule(p, r, "C12-R18")
		nilableLookupRule(p, r, "C12-R15", []string{"consensus"}, []string{"Blockchain.GetBlockByHeight"}, nil, "the height comes from a block range a peer delivered: for a height this node does not store (below the first block of a fast-synced node, height 0) the lookup is empty and the goroutine that resolves forks dereferences nil — no recover on that path")
		r.Explanation += " (R13) where an executor dereferences an empty-able lookup unchecked (VmImpl.terminate: GetCodeHash; applyTxOnState: the attachment parsers), the matching validator refuses the transaction on every path on which that lookup is empty; (R15) in package consensus the result of Blockchain.GetBlockByHeight (empty for a height this node does not store) is used only behind its non-nil test; (R21) the tree importer is fed with snapshot nodes only by a function that tests Add's error and has its own deferred recover; (R20) every explicit panic statement reachable (repo-only call graph) from the gossip handler, the fork loader and the sync batch processors is in a triaged table (function + reason); (R19) for every transaction type whose case in applyTxOnState dereferences tx.To unchecked, the registered validator refuses an absent recipient on every accepting path; (R16) an Offline* flag without an address is refused by ValidateHeader wherever OfflineAddr() is dereferenced unchecked; (R17) IdentityStateDB.AddDiff tests a peer's diff values for emptiness before any tree write; (R18) the VRF verifier tests scalar-multiplication results before adding them and the curve handles equal points / the point at infinity; (R14) a non-constant index into a peer-delivered []BlockBundle is bounded by the list's length (range, len-relative, tested, or behind a length agreement test)."
		validatorEstablishesRule(p, r, "C12-R13", [][5]string{
			{"vm", "VmImpl.terminate", "blockchain/validation", "validateTerminateContractTx", "GetCodeHash"},
			{"blockchain", "Blockchain.applyTxOnState", "blockchain/validation", "validateBurnTx", "ParseBurnAttachment"},
			{"blockchain", "Blockchain.applyTxOnState", "blockchain/validation", "validateChangeProfileTx", "ParseChangeProfileAttachment"},
			{"blockchain", "Blockchain.applyTxOnState", "blockchain/validation", "validateDeleteFlipTx", "ParseDeleteFlipAttachment"},
			{"blockchain", "Blockchain.applyTxOnState", "blockchain/validation", "validateSubmitFlipTx", "ParseFlipSubmitAttachment"},
			{"vm", "VmImpl.IsWasm", "blockchain/validation", "validateDeployContractTx", "ParseDeployContractAttachment"},
			{"vm", "VmImpl.deploy", "blockchain/validation", "validateDeployContractTx", "ParseDeployContractAttachment"},
		}, "a block or a mempool transaction of that kind makes the node hit a nil dereference instead of returning a verdict (before any recover is installed)")
	})
	if os.Getenv("VERIF_RESET_PROBE") == "" {
		return
	}
	register("XPANIC", func(p *engine.Prog, r *engine.Report) {
		var entries []*ssa.Function
		for _, e := range [][2]string{{"protocol", "IdenaGossipHandler.handle"}, {"consensus", "ForkResolver.loadAndVerifyFork"}, {"protocol", "fullSync.processBatch"}, {"protocol", "fastSync.processBatch"}, {"protocol", "fastSync.preConsuming"}, {"protocol", "fastSync.postConsuming"}} {
			if f, err := p.Func(e[0], e[1]); err == nil {
				entries = append(entries, f)
			} else {
				r.Note("XPANIC", "entry "+e[1], "", err.Error())
			}
		}
		reach := p.Reach(entries, engine.ReachOpts{RepoOnly: true, NoFuncValueCHA: true})
		for _, f := range engine.SortedFuncs(reach) {
			if f.Blocks == nil || isTestish(p.Pos(f.Pos())) {
				continue
			}
			hasRecover := false
			for _, c := range engine.CallsDeep(f) {
				if b, ok := c.Common().Value.(*ssa.Builtin); ok && b.Name() == "recover" {
					hasRecover = true
				}
			}
			for _, b := range f.Blocks {
				for _, ins := range b.Instrs {
					if pn, ok := ins.(*ssa.Panic); ok {
						r.Note("XPANIC", uniq(r, engine.RelName(f)+"|panic"), p.InstrPos(pn), fmt.Sprintf("recover-in-func=%v %s", hasRecover, renderVal(pn.X, 0)))
					}
				}
			}
		}
	})
	register("XALLOC", func(p *engine.Prog, r *engine.Report) {
		for _, f := range p.AllFuncs() {
			if f.Blocks == nil || !engine.IsRepoPkg(engine.FuncPkg(f)) || isTestish(p.Pos(f.Pos())) {
				continue
			}
			for _, b := range f.Blocks {
				for _, ins := range b.Instrs {
					mk, ok := ins.(*ssa.MakeSlice)
					if !ok {
						continue
					}
					for _, ln := range []ssa.Value{mk.Len, mk.Cap} {
						if _, isC := ln.(*ssa.Const); isC {
							continue
						}
						src := ""
						for v := range engine.BackSlice(ln, engine.SliceOpts{ThroughLoads: true, ThroughCalls: true, MaxNodes: 60}) {
							switch x := v.(type) {
							case *ssa.Call:
								if o := engine.CalleeObj(&x.Call); o != nil {
									n := o.Name()
									if strings.HasPrefix(n, "Uint") || strings.HasPrefix(n, "Varint") || strings.HasPrefix(n, "Uvarint") || n == "DecodedLen" || n == "ReadByte" {
										src = n
									}
								}
							case *ssa.UnOp:
								if x.Op == token.MUL {
									if owner, fld, ok := engine.FieldOf(x.X); ok && strings.Contains(owner, "Proto") {
										if bt, isB := x.Type().Underlying().(*types.Basic); isB && bt.Info()&types.IsInteger != 0 {
											src = owner + "." + fld
										}
									}
								}
							}
						}
						if src != "" {
							r.Note("XALLOC", uniq(r, engine.RelName(f)+"|make sized by decoded number"), p.InstrPos(mk), src)
						}
					}
				}
			}
		}
	})
	register("XCREATE", func(p *engine.Prog, r *engine.Report) {
		vt, err := p.Func("blockchain/validation", "ValidateTx")
		if err != nil {
			r.Note("XCREATE", "entry", "", err.Error())
			return
		}
		entries := []*ssa.Function{vt}
		for _, f := range funcsOfPkg(p, "blockchain/validation") {
			if strings.HasPrefix(f.Name(), "validate") {
				entries = append(entries, f)
			}
		}
		reach := p.Reach(entries, engine.ReachOpts{RepoOnly: true, NoFuncValueCHA: true})
		for _, f := range engine.SortedFuncs(reach) {
			if f.Blocks == nil {
				continue
			}
			for _, c := range engine.Calls(f) {
				if engine.CallNameIs(c, "GetOrNewIdentityObject", "GetOrNewAccountObject", "createIdentity", "createAccount") {
					callers := []string{}
					for _, e := range p.Callers(f) {
						if reach[e.Caller.Func] && strings.Contains(engine.FuncName(e.Caller.Func), "validation") {
							callers = append(callers, e.Caller.Func.Name())
						}
					}
					sort.Strings(callers)
					r.Note("XCREATE", uniq(r, engine.RelName(f)+"|creating accessor"), p.InstrPos(c), strings.Join(callers, ","))
				}
			}
		}
	})
	register("XLOCK", func(p *engine.Prog, r *engine.Report) {
		la := engine.NewLockAnalysis(p)
		var fns []*ssa.Function
		for _, f := range p.AllFuncs() {
			if f.Blocks == nil || !engine.IsRepoPkg(engine.FuncPkg(f)) || isTestish(p.Pos(f.Pos())) {
				continue
			}
			fns = append(fns, f)
		}
		releasedOnAllPaths(p, la, r, "XLOCK", fns, func(id string) bool { return !strings.HasPrefix(id, "local:") })
	})
	register("XMK", func(p *engine.Prog, r *engine.Report) {
		for _, f := range p.AllFuncs() {
			if f.Blocks == nil || !engine.IsRepoPkg(engine.FuncPkg(f)) || isTestish(p.Pos(f.Pos())) {
				continue
			}
			for _, s := range makeLenThenAppend(f) {
				r.Note("XMK", uniq(r, engine.RelName(f)+"|make-len-append"), p.InstrPos(s.mk), "")
			}
			for _, s := range loopSharedAddrStored(f) {
				r.Note("XMK", uniq(r, engine.RelName(f)+"|loop-shared-addr"), p.InstrPos(s.store), s.alloc.Comment)
			}
			for _, u := range countedIndexUnbounded(f) {
				r.Note("XMK", uniq(r, engine.RelName(f)+"|unbounded-index"), p.InstrPos(u.at), u.why)
			}
			_, bads := unguardedNilableUses(f, mayReturnNil)
			for _, b := range bads {
				r.Note("XMK", uniq(r, engine.RelName(f)+"|nilable "+engine.RelName(b.call.Call.StaticCallee())), p.InstrPos(b.use), "")
			}
		}
	})
}

// ---------------------------------------------------------------------------------------------
// countedIndexUnbounded: an index into a slice that is neither a constant, nor len(x)-c, nor tested
// against len(x) on the way (a dominating `idx < len(x)` / range loop) — the position is computed by
// counting something else (heights, nonces) and runs past the slice when the two disagree.
type unboundedIdx struct {
	at  *ssa.IndexAddr
	why string
}

func countedIndexUnbounded(fn *ssa.Function) []unboundedIdx {
	var out []unboundedIdx
	lenOf := func(v ssa.Value) (string, bool) {
		c, ok := engine.Unwrap(v).(*ssa.Call)
		if !ok {
			return "", false
		}
		if b, isB := c.Call.Value.(*ssa.Builtin); isB && b.Name() == "len" {
			return renderVal(c.Call.Args[0], 0), true
		}
		return "", false
	}
	for _, b := range fn.Blocks {
		for _, ins := range b.Instrs {
			ia, ok := ins.(*ssa.IndexAddr)
			if !ok {
				continue
			}
			if _, isSlice := ia.X.Type().Underlying().(*types.Slice); !isSlice {
				continue
			}
			if _, isC := ia.Index.(*ssa.Const); isC {
				continue
			}
			sl := renderVal(ia.X, 0)
			// len(x) - c
			if bo, isB := engine.Unwrap(ia.Index).(*ssa.BinOp); isB && bo.Op == token.SUB {
				if s, ok := lenOf(bo.X); ok && s == sl {
					continue
				}
			}
			bounded := false
			for _, d := range fn.Blocks {
				if len(d.Instrs) == 0 || !d.Dominates(b) {
					continue
				}
				iff, ok := d.Instrs[len(d.Instrs)-1].(*ssa.If)
				if !ok {
					continue
				}
				cond, neg := stripNot(iff.Cond)
				bo, ok := cond.(*ssa.BinOp)
				if !ok {
					continue
				}
				var idx, ln ssa.Value
				op := bo.Op
				if s, ok := lenOf(bo.Y); ok && s == sl {
					idx, ln = bo.X, bo.Y
				} else if s, ok := lenOf(bo.X); ok && s == sl {
					idx, ln = bo.Y, bo.X
					switch op {
					case token.LSS:
						op = token.GTR
					case token.GTR:
						op = token.LSS
					case token.LEQ:
						op = token.GEQ
					case token.GEQ:
						op = token.LEQ
					}
				} else {
					continue
				}
				_ = ln
				if engine.Unwrap(idx) != engine.Unwrap(ia.Index) && renderVal(idx, 0) != renderVal(ia.Index, 0) {
					continue
				}
				// which edge keeps idx < len ?
				var want int
				switch op {
				case token.LSS:
					want = 0
				case token.GEQ:
					want = 1
				default:
					continue
				}
				if neg {
					want = 1 - want
				}
				s := d.Succs[want]
				if s == b || s.Dominates(b) {
					bounded = true
				}
			}
			if !bounded {
				out = append(out, unboundedIdx{ia, sl + "[" + renderVal(ia.Index, 0) + "]"})
			}
		}
	}
	return out
}

// ---------------------------------------------------------------------------------------------
// Round 7.

// C07-R12: a vote's signature binds every field of its header (round, step, hashes, flags): the
// certificate acceptor rebuilds each vote from the certificate's own step/round/hash and relies on the
// recovered signer changing when any of them differs. Decided by the signature-coverage rule of C18
// (run on a scratch report; only the obligations of type Vote are taken).
func voteSignatureBindsHeaderRule(p *engine.Prog, r *engine.Report, rule string) {
	scratch := engine.NewReport("C18", r.Tier, r.Seed)
	c18R3(p, scratch, codecTypes(p))
	n := 0
	for _, o := range scratch.Obls {
		key := strings.TrimPrefix(o.Key, o.Rule+"|")
		if !strings.HasPrefix(key, "Vote|") {
			continue
		}
		n++
		switch o.Status {
		case engine.Discharged:
			r.OK(rule, key, o.Pos, o.Detail)
		case engine.Violated:
			r.Bad(rule, key, o.Pos, o.Detail+" — signatures collected in one step (reduction votes are gossiped to everybody) can be re-packaged as a certificate of another step, e.g. Final, for the same round and hash")
		case engine.Undecided:
			r.Und(rule, key, o.Pos, o.Detail)
		}
	}
	for _, e := range scratch.Errors {
		r.Errorf("%s (from the signature coverage rule): %s", rule, e)
	}
	r.Check(n >= 4, rule, "Vote|header fields found (control)", "", fmt.Sprint(n), "fewer than four signed fields of Vote were enumerated: anchor moved")
}

// C18-R10: every function that recovers the signer (address or public key) of the same signed type
// chooses the signed hash the same way: the hash-producing calls that feed the recovery primitive,
// together with the conditions that select between them (legacy RLP flag), agree between siblings.
func recoverySiblingsAgreeRule(p *engine.Prog, r *engine.Report, rule string) {
	type rec struct {
		f   *ssa.Function
		sig string
	}
	groups := map[string][]rec{}
	for _, f := range funcsOfPkg(p, "blockchain/types") {
		if f.Blocks == nil || f.Parent() != nil || isTestish(p.Pos(f.Pos())) || len(f.Params) == 0 {
			continue
		}
		var recovery ssa.CallInstruction
		for _, c := range engine.Calls(f) {
			if engine.CallNameIs(c, "Ecrecover", "recoverPlain", "SigToPub") {
				recovery = c
			}
		}
		if recovery == nil || f.Name() == "recoverPlain" {
			continue
		}
		srcs := map[string]bool{}
		args := recovery.Common().Args
		for v := range engine.BackSlice(args[0], engine.SliceOpts{ThroughLoads: true, ThroughCalls: false, MaxNodes: 80}) {
			c, ok := v.(*ssa.Call)
			if !ok {
				continue
			}
			o := engine.CalleeObj(&c.Call)
			if o == nil || o.Pkg() == nil || !engine.IsRepoPkg(o.Pkg()) {
				continue
			}
			conds := []string{}
			for _, s := range controlSig(c.Block()) {
				if strings.Contains(s, "UseRlp") {
					conds = append(conds, s)
				}
			}
			srcs[o.Name()+"@"+strings.Join(conds, "&")] = true
		}
		tn := engine.NamedOf(f.Params[0].Type())
		if tn == nil {
			continue
		}
		groups[tn.Obj().Name()] = append(groups[tn.Obj().Name()], rec{f, joinKeys(srcs)})
	}
	n := 0
	names := []string{}
	for k := range groups {
		names = append(names, k)
	}
	sort.Strings(names)
	for _, k := range names {
		g := groups[k]
		if len(g) < 2 {
			continue
		}
		sort.Slice(g, func(i, j int) bool { return g[i].f.Name() < g[j].f.Name() })
		for _, x := range g[1:] {
			n++
			r.Fn(engine.FuncName(x.f))
			r.Check(x.sig == g[0].sig, rule, k+"|"+engine.RelName(x.f)+" chooses the signed hash like "+engine.RelName(g[0].f), p.Pos(x.f.Pos()), x.sig, engine.RelName(x.f)+" recovers over {"+x.sig+"} while "+engine.RelName(g[0].f)+" recovers over {"+g[0].sig+"}: for some objects (e.g. a transaction signed in the legacy RLP form) the recovered public key is not the key of the recovered sender — recovery over the wrong hash silently yields an unrelated valid key")
		}
	}
	r.Check(n >= 1, rule, "scan|sibling recovery functions (control)", "", fmt.Sprint(n), "no sibling pair of signer recovery functions found: anchor moved")
}

// C18-R11: the snapshot writer marks exactly the values the reader has to materialise: proto3 cannot
// tell an empty bytes field from an absent one, so WriteTreeTo2 sets EmptyValue from an emptiness test
// of the exported value (len(value) == 0) and ReadTreeFrom2 replaces the value by an empty slice when
// the marker is set.
func snapshotEmptyValueRule(p *engine.Prog, r *engine.Report, rule string) {
	w := mustFunc(p, r, "core/state", "WriteTreeTo2")
	rd := mustFunc(p, r, "core/state", "ReadTreeFrom2")
	if w == nil || rd == nil {
		return
	}
	okW := false
	var pos ssa.Instruction
	for _, st := range storesToField([]*ssa.Function{w}, "ProtoSnapshotNodes_Node", "EmptyValue") {
		pos = st
		for v := range engine.BackSlice(st.Val, engine.SliceOpts{ThroughLoads: true, MaxNodes: 60}) {
			bo, ok := v.(*ssa.BinOp)
			if !ok || bo.Op != token.EQL {
				continue
			}
			if c, isC := engine.ConstInt(bo.Y); !isC || c != 0 {
				continue
			}
			lc, isCall := engine.Unwrap(bo.X).(*ssa.Call)
			if !isCall {
				continue
			}
			if b, isB := lc.Call.Value.(*ssa.Builtin); isB && b.Name() == "len" {
				if u, isU := engine.Unwrap(lc.Call.Args[0]).(*ssa.UnOp); isU {
					if _, fld, ok := engine.FieldOf(u.X); ok && fld == "Value" {
						okW = true
					}
				}
			}
		}
	}
	if pos == nil {
		r.Bad(rule, "WriteTreeTo2|EmptyValue written", p.Pos(w.Pos()), "the writer does not set the EmptyValue marker at all: anchor moved or marker dropped")
	} else {
		r.Check(okW, rule, "WriteTreeTo2|the marker is set from the emptiness of the exported value", p.InstrPos(pos), "len(node.Value) == 0", "the EmptyValue marker does not depend on len(node.Value) == 0: a leaf with a zero-length value is exported without the marker, decodes as nil and the importer refuses the whole snapshot (\"value cannot be nil for leaf node\") — a valid state cannot be restored by any other node")
	}
	okR := false
	for _, iff := range engine.Ifs(rd) {
		u, ok := engine.Unwrap(iff.Cond).(*ssa.UnOp)
		if !ok || u.Op != token.MUL {
			continue
		}
		if _, fld, ok := engine.FieldOf(u.X); !ok || fld != "EmptyValue" {
			continue
		}
		for _, ins := range iff.Block().Succs[0].Instrs {
			if st, ok := ins.(*ssa.Store); ok {
				if _, fld, ok := engine.FieldOf(st.Addr); ok && fld == "Value" {
					switch mk := engine.Unwrap(st.Val).(type) {
					case *ssa.MakeSlice:
						if c, isC := engine.ConstInt(mk.Len); isC && c == 0 {
							okR = true
						}
					case *ssa.Slice:
						// make([]byte, 0) with constant size: a slice of a fresh [0]byte
						if a, isA := mk.X.(*ssa.Alloc); isA {
							if pt, ok := a.Type().Underlying().(*types.Pointer); ok {
								if at, ok := pt.Elem().Underlying().(*types.Array); ok && at.Len() == 0 {
									okR = true
								}
							}
						}
					}
				}
			}
		}
	}
	r.Check(okR, rule, "ReadTreeFrom2|a marked value is materialised as an empty slice", p.Pos(rd.Pos()), "if EmptyValue { Value = make([]byte, 0) }", "the reader does not turn a marked value into an empty slice: zero-length leaves come back nil")
}

func init() {
	extend("C07", func(p *engine.Prog, r *engine.Report) {
		r.Explanation += " (R12) a vote's signature covers every field of its header (shared with C18-R3)."
		voteSignatureBindsHeaderRule(p, r, "C07-R12")
	})
	extend("C18", func(p *engine.Prog, r *engine.Report) {
		r.Explanation += " (R10) sibling signer-recovery functions of one signed type choose the signed hash the same way; (R11) the snapshot writer sets the EmptyValue marker from len(value)==0 and the reader materialises an empty slice for it."
		recoverySiblingsAgreeRule(p, r, "C18-R10")
		snapshotEmptyValueRule(p, r, "C18-R11")
	})
}

// C10-R10 / C13-R10: the clone helpers of the validators cache copy the elements of every slice they
// hand to the clone: a slice stored into a freshly built object (or map entry) is the result of an
// append onto a zero-capacity slice / a make, never a re-slice or the plain value of the source's own
// slice — pool.add/remove shift delegators in place, so a shared backing array lets the canonical cache
// and its views rewrite each other's lists.
func cloneCopiesSlicesRule(p *engine.Prog, r *engine.Report, rule string) {
	n := 0
	for _, f := range funcsOfPkg(p, "core/validators") {
		if f.Blocks == nil || isTestish(p.Pos(f.Pos())) || !(strings.HasPrefix(strings.ToLower(f.Name()), "clone")) {
			continue
		}
		r.Fn(engine.FuncName(f))
		fromParam := func(v ssa.Value) bool {
			for x := range engine.BackSlice(v, engine.SliceOpts{ThroughLoads: true, ThroughFields: true, MaxNodes: 60}) {
				if _, ok := x.(*ssa.Parameter); ok {
					return true
				}
			}
			return false
		}
		for _, b := range f.Blocks {
			for _, ins := range b.Instrs {
				st, ok := ins.(*ssa.Store)
				if !ok {
					continue
				}
				if _, isSl := st.Val.Type().Underlying().(*types.Slice); !isSl {
					continue
				}
				if _, isF := st.Addr.(*ssa.FieldAddr); !isF {
					continue
				}
				n++
				bad := ""
				switch x := engine.Unwrap(st.Val).(type) {
				case *ssa.Slice:
					if fromParam(x.X) {
						bad = "a re-slice of the source's own slice (same backing array)"
					}
				case *ssa.UnOp:
					if fromParam(x) {
						bad = "the source's own slice value"
					}
				case *ssa.Call:
					if bi, isB := x.Call.Value.(*ssa.Builtin); isB && bi.Name() == "append" {
						if sl, isS := engine.Unwrap(x.Call.Args[0]).(*ssa.Slice); isS && fromParam(sl.X) {
							if c, isC := engine.ConstInt(sl.Max); sl.Max == nil || !isC || c != 0 {
								bad = "an append onto the source's own slice without a zero capacity (writes into the shared backing array)"
							}
						}
					}
				}
				r.Check(bad == "", rule, uniq(r, engine.RelName(f)+"|a cloned slice has its own backing array"), p.InstrPos(st), "copied", "the clone is handed "+bad+": pool.add and pool.remove shift the delegator list in place, so the long-running cache and every ForCheck/Readonly view taken from it corrupt each other's lists — the view no longer equals the registry rebuilt from the stored identities")
			}
		}
	}
	r.Check(n >= 2, rule, "scan|slices stored by clone helpers (control)", "", fmt.Sprint(n), "fewer than two slice stores found in the clone helpers of core/validators: anchor moved")
}

// C16-R10: the "lottery not yet computed" marker agrees between the guard and the reset: every field
// whose nil-ness makes calculateCeremonyCandidates return at once is set to nil (not to an empty
// container) by completeEpoch — otherwise the lottery of every later epoch of the process is skipped.
func lotteryMarkerResetRule(p *engine.Prog, r *engine.Report, rule string) {
	calc := mustFunc(p, r, "core/ceremony", "ValidationCeremony.calculateCeremonyCandidates")
	done := mustFunc(p, r, "core/ceremony", "ValidationCeremony.completeEpoch")
	if calc == nil || done == nil {
		return
	}
	n := 0
	for _, iff := range engine.Ifs(calc) {
		x, nonNilOnTrue, ok := engine.NilCheck(iff.Cond)
		if !ok {
			continue
		}
		u, isU := engine.Unwrap(x).(*ssa.UnOp)
		if !isU {
			continue
		}
		owner, fld, isF := engine.FieldOf(u.X)
		if !isF || owner != "ValidationCeremony" {
			continue
		}
		nonNil := iff.Block().Succs[1]
		if nonNilOnTrue {
			nonNil = iff.Block().Succs[0]
		}
		returns := false
		for _, ins := range nonNil.Instrs {
			if _, ok := ins.(*ssa.Return); ok {
				returns = true
			}
		}
		if !returns {
			continue
		}
		n++
		sts := storesToField([]*ssa.Function{done}, "ValidationCeremony", fld)
		ok2 := len(sts) > 0
		for _, st := range sts {
			if !engine.IsNilConst(engine.Unwrap(st.Val)) {
				ok2 = false
			}
		}
		r.Check(ok2, rule, "completeEpoch|"+fld+" is reset to the value the lottery guard tests for", p.Pos(done.Pos()), "nil", "calculateCeremonyCandidates returns at once while "+fld+" is not nil, but completeEpoch does not reset it to nil (an empty container is not nil): after the first epoch switch of a process the lottery is silently skipped — no flips to solve, no key packages, for every later ceremony")
	}
	r.Check(n >= 1, rule, "calculateCeremonyCandidates|a nil-marker guard exists (control)", p.Pos(calc.Pos()), fmt.Sprint(n), "the lottery guard on a nil marker was not found: anchor moved")
}

// C16-R11: slot i of an author's key package belongs to entry i of the recipient list on both sides of
// the encoding: EncryptPrivateKeysPackage appends exactly one entry per recipient on every path of an
// iteration (an empty one where the public key cannot be parsed), and keysArray.ToBytes hands every
// pair to the encoding (a plain copy, or a loop in which no iteration skips the append).
func packageSlotsAlignedRule(p *engine.Prog, r *engine.Report, rule string) {
	appendsIn := func(f *ssa.Function) []*ssa.Call {
		var out []*ssa.Call
		for _, c := range engine.Calls(f) {
			if cc, ok := c.(*ssa.Call); ok {
				if b, isB := cc.Call.Value.(*ssa.Builtin); isB && b.Name() == "append" {
					out = append(out, cc)
				}
			}
		}
		return out
	}
	everyIteration := func(f *ssa.Function, apps []*ssa.Call) (bool, bool) {
		inLoop := false
		blocks := map[*ssa.BasicBlock]bool{}
		var hdr *ssa.BasicBlock
		for _, a := range apps {
			if h := enclosingLoopHeader(a.Block()); h != nil {
				inLoop = true
				hdr = h
				blocks[a.Block()] = true
			}
		}
		if !inLoop {
			return false, true
		}
		reach := engine.ReachAvoiding(f, hdr, nil, blocks)
		for _, pr := range hdr.Preds {
			if hdr.Dominates(pr) && !blocks[pr] && reach[pr] {
				return true, false
			}
		}
		return true, true
	}
	if f := mustFunc(p, r, "core/mempool", "EncryptPrivateKeysPackage"); f != nil {
		loop, ok := everyIteration(f, appendsIn(f))
		r.Check(loop && ok, rule, "EncryptPrivateKeysPackage|one entry per recipient on every path", p.Pos(f.Pos()), "no iteration completes without an append", "an iteration of the recipient loop can finish without appending an entry (or the loop is gone): every later recipient's slot number no longer matches its position in the author's list and it extracts a ciphertext made for somebody else")
	}
	if f := mustFunc(p, r, "core/mempool", "keysArray.ToBytes"); f != nil {
		apps := appendsIn(f)
		loop, ok := everyIteration(f, apps)
		if !loop {
			// the plain copy: append(zero-cap, pairs...) of the receiver's Pairs
			ok = false
			for _, a := range apps {
				if len(a.Call.Args) == 2 {
					if u, isU := engine.Unwrap(a.Call.Args[1]).(*ssa.UnOp); isU {
						if _, fld, isF := engine.FieldOf(u.X); isF && fld == "Pairs" {
							ok = true
						}
					}
				}
			}
			for _, st := range storesToField([]*ssa.Function{f}, "ProtoFlipPrivateKeys", "Keys") {
				if u, isU := engine.Unwrap(st.Val).(*ssa.UnOp); isU {
					if _, fld, isF := engine.FieldOf(u.X); isF && fld == "Pairs" {
						ok = true
					}
				}
			}
		}
		r.Check(ok, rule, "keysArray.ToBytes|every pair is encoded at its own position", p.Pos(f.Pos()), "verbatim copy", "the package serializer can leave a pair out (e.g. the empty placeholder of a recipient whose key could not be parsed): the slots behind it shift and their recipients cannot decrypt the flip key they were assigned")
	}
}

// C14-R13: the executable queue removes an element only if it is the very transaction it was asked to
// remove: the removal in sortedTxs.Remove is behind an equality test between the hash of the element
// found and the hash of the argument (the search finds the first element with a nonce not below).
func queueRemovalGuardedRule(p *engine.Prog, r *engine.Report, rule string) {
	f := mustFunc(p, r, "core/mempool", "sortedTxs.Remove")
	if f == nil {
		return
	}
	arg := ssa.Value(f.Params[1])
	guards := guardsWhere(f, func(cond ssa.Value) (bool, bool, string) {
		x, y, isEq, ok := eqCond(cond)
		if !ok {
			return false, false, ""
		}
		isHash := func(v ssa.Value) (*ssa.Call, bool) {
			c, ok := engine.Unwrap(v).(*ssa.Call)
			return c, ok && engine.CallNameIs(c, "Hash")
		}
		cx, okx := isHash(x)
		cy, oky := isHash(y)
		if !okx || !oky {
			return false, false, ""
		}
		ax := engine.Origin(cx.Call.Args[0]) == arg
		ay := engine.Origin(cy.Call.Args[0]) == arg
		if ax == ay {
			return false, false, ""
		}
		return true, isEq, "element.Hash() == tx.Hash()"
	})
	n := 0
	var removals []ssa.Instruction
	for _, st := range storesToField([]*ssa.Function{f}, "sortedTxs", "txs") {
		removals = append(removals, st)
	}
	// the cut extracted into a helper method of the queue
	for _, c := range engine.Calls(f) {
		if h := c.Common().StaticCallee(); h != nil && h.Blocks != nil && h.Pkg == f.Pkg && h.Signature.Recv() != nil &&
			len(storesToField([]*ssa.Function{h}, "sortedTxs", "txs")) > 0 {
			removals = append(removals, c)
		}
	}
	for _, st := range removals {
		n++
		ok := len(guards) > 0 && engine.OnlyThroughPass(f, st.Block(), guards)
		r.Check(ok, rule, uniq(r, "sortedTxs.Remove|only the very transaction is removed"), p.InstrPos(st), "behind the hash equality", "the queue is shrunk without comparing the hash of the element found with the hash of the transaction to remove: the search stops at the first nonce not below, so removing a transaction that is not in this queue (a stale competitor with the same nonce, a pending one) evicts an unrelated executable transaction, which stays known to the pool but is never proposed and blocks every higher nonce of its sender")
	}
	r.Check(n > 0, rule, "sortedTxs.Remove|the queue is rewritten (control)", p.Pos(f.Pos()), fmt.Sprint(n), "no store to the queue found in Remove: anchor moved")
}

// C14-R14: no submission path waits on the deferred queue: every send to / receive from
// TxPool.deferredTxs in the functions that submit a transaction is a case of a non-blocking select.
func deferredQueueNonBlockingRule(p *engine.Prog, r *engine.Report, rule string) {
	n := 0
	for _, f := range funcsOfPkg(p, "core/mempool") {
		if f.Blocks == nil || isTestish(p.Pos(f.Pos())) {
			continue
		}
		isQ := func(v ssa.Value) bool {
			u, ok := engine.Unwrap(v).(*ssa.UnOp)
			if !ok {
				return false
			}
			_, fld, isF := engine.FieldOf(u.X)
			return isF && fld == "deferredTxs"
		}
		for _, b := range f.Blocks {
			for _, ins := range b.Instrs {
				switch x := ins.(type) {
				case *ssa.Send:
					if isQ(x.Chan) {
						n++
						r.Bad(rule, uniq(r, engine.RelName(f)+"|deferred queue is only used without waiting"), p.InstrPos(x), "a plain send to the deferred queue waits while the queue is full: with two submitters (or a drain in between) one of them — a peer handler, or the single intake goroutine — stays blocked inside the pool for good")
					}
				case *ssa.UnOp:
					if x.Op == token.ARROW && isQ(x.X) {
						n++
						r.Bad(rule, uniq(r, engine.RelName(f)+"|deferred queue is only used without waiting"), p.InstrPos(x), "a plain receive from the deferred queue waits while the queue is empty: a drain between the fullness test and the receive blocks the submitter inside the pool for good")
					}
				case *ssa.Select:
					for _, st := range x.States {
						if isQ(st.Chan) {
							n++
							r.Check(!x.Blocking, rule, uniq(r, engine.RelName(f)+"|deferred queue is only used without waiting"), p.InstrPos(x), "select with default", "a select without default on the deferred queue can wait forever")
						}
					}
				}
			}
		}
	}
	r.Check(n >= 3, rule, "scan|operations on the deferred queue (control)", "", fmt.Sprint(n), "fewer than three operations on TxPool.deferredTxs found: anchor moved")
}

func init() {
	extend("C10", func(p *engine.Prog, r *engine.Report) {
		r.Explanation += " (R10) the clone helpers of the validators cache give every cloned slice its own backing array."
		cloneCopiesSlicesRule(p, r, "C10-R10")
	})
	extend("C13", func(p *engine.Prog, r *engine.Report) {
		cloneCopiesSlicesRule(p, r, "C13-R10")
	})
	extend("C11", func(p *engine.Prog, r *engine.Report) {
		r.Explanation += " (R8) the snapshot writer marks zero-length values from len(value)==0 and the reader materialises them (shared with C18-R11)."
		snapshotEmptyValueRule(p, r, "C11-R8")
	})
	extend("C16", func(p *engine.Prog, r *engine.Report) {
		r.Explanation += " (R10) the nil marker the lottery guard tests is what completeEpoch resets to; (R11) key package slots stay aligned: one entry per recipient on every path of EncryptPrivateKeysPackage, every pair encoded by keysArray.ToBytes."
		lotteryMarkerResetRule(p, r, "C16-R10")
		packageSlotsAlignedRule(p, r, "C16-R11")
	})
	extend("C14", func(p *engine.Prog, r *engine.Report) {
		r.Explanation += " (R13) sortedTxs.Remove shrinks the queue only behind the hash equality of the element found and the argument; (R14) every operation on TxPool.deferredTxs is a case of a non-blocking select."
		queueRemovalGuardedRule(p, r, "C14-R13")
		deferredQueueNonBlockingRule(p, r, "C14-R14")
	})
}

func init() {
	extend("C05", func(p *engine.Prog, r *engine.Report) {
		r.Explanation += " (R8) every cache EnvImp.Commit writes back is re-created by Reset on every path (shared with C04-R6/C15-R2): a balance buffer that survives a transaction is written again by the next successful contract transaction of the block and lowers balances of addresses unrelated to its signer."
		envCacheResetRule(p, r, "C05-R8", "vm/env", "EnvImp")
	})
}

func init() {
	extend("C08", func(p *engine.Prog, r *engine.Report) {
		r.Explanation += " (R9) switching to a fork resets both trees with the overwriting loader (imports C09-R4: the abandoned versions above the common ancestor are deleted, otherwise the first fork block that changes identity state at an already saved height cannot be committed and the node is left on an uncertified prefix); (R10) the quorum is never truncated (imports C07-R9)."
		importRules(p, r, "C09", map[string]string{"C09-R4": "C08-R9"})
		importRules(p, r, "C07", map[string]string{"C07-R9": "C08-R10"})
	})
}

// ---------------------------------------------------------------------------------------------
// C02-R10: a transaction the block builder tries and leaves out leaves no trace in the check state.
// filterTxs validates every candidate on the state it builds the block on and cannot undo anything, so
// the validators must read without writing. Four StateDB getters (enumerated from the call graph: the
// functions of core/state reachable from the validators that call GetOrNewIdentityObject) CREATE an
// empty identity record for an address that has none and mark it dirty — the record is written at
// Precommit and changes the root. A validator may call such a getter only for an address whose
// identity it has already looked up without creating (GetIdentity / GetIdentityState …) with a refusal
// depending on that lookup on the way; anything else is a state write on a path that can end in
// "rejected" or "left out", i.e. a proposal nobody — including the proposer — can validate.
type creatingSite struct {
	fn   *ssa.Function
	call ssa.CallInstruction
	addr ssa.Value
	via  string
}

func creatingGetters(p *engine.Prog) map[*ssa.Function]bool {
	out := map[*ssa.Function]bool{}
	for _, f := range funcsOfPkg(p, "core/state") {
		if f.Blocks == nil || f.Signature.Recv() == nil || !strings.Contains(f.Signature.Recv().Type().String(), "StateDB") {
			continue
		}
		if strings.HasPrefix(f.Name(), "GetOrNew") || strings.HasPrefix(f.Name(), "create") {
			continue
		}
		creates, writes := false, false
		for _, c := range engine.Calls(f) {
			if engine.CallNameIs(c, "GetOrNewIdentityObject", "GetOrNewAccountObject") {
				creates = true
				// a setter on the object right away: a mutator, not a getter
				if v, ok := c.(*ssa.Call); ok {
					for _, ref := range *v.Referrers() {
						if cc, ok := ref.(ssa.CallInstruction); ok && cc != c {
							if o := engine.CalleeObj(cc.Common()); o != nil {
								n := o.Name()
								for _, pre := range []string{"Set", "Add", "Sub", "Remove", "Clear", "Reset", "Inc", "Dec", "Toggle", "set", "add", "sub", "remove", "touch", "Delete", "Update"} {
									if strings.HasPrefix(n, pre) {
										writes = true
									}
								}
							}
						}
						if _, ok := ref.(*ssa.FieldAddr); ok {
							// direct field access: look for a store
							writes = writes || false
						}
					}
				}
			}
		}
		if creates && !writes {
			out[f] = true
		}
	}
	return out
}

// builderRevertsRejected: in filterTxs the identities a rejected candidate's validation created are
// dropped: a checkpoint taken before ValidateTx (same iteration) is handed to the revert on the edge on
// which ValidateTx refused.
func builderRevertsRejected(p *engine.Prog, r *engine.Report) (bool, string) {
	root, err := p.Func("blockchain", "Blockchain.filterTxs")
	if err != nil {
		return false, ""
	}
	// filterTxs and the same-package functions it calls (the validation step extracted into a helper)
	cands := []*ssa.Function{root}
	seen := map[*ssa.Function]bool{root: true}
	for i := 0; i < len(cands) && i < 40; i++ {
		for _, c := range engine.Calls(cands[i]) {
			if h := c.Common().StaticCallee(); h != nil && h.Blocks != nil && h.Pkg == root.Pkg && !seen[h] && len(cands) < 40 {
				seen[h] = true
				cands = append(cands, h)
			}
		}
	}
	found, all, pos := false, true, ""
	for _, f := range cands {
		for _, c := range callsTo(f, "blockchain/validation.ValidateTx") {
			vc, ok := c.(*ssa.Call)
			if !ok {
				continue
			}
			found = true
			good := false
			for _, g := range nilErrGuards(f, vc) {
				if g.If == nil {
					continue
				}
				fe := g.FailEdge()
				fail := fe.From.Succs[fe.Succ]
				for _, rc := range engine.Calls(f) {
					if !engine.CallNameIs(rc, "RevertCreatedIdentities") || !(rc.Block() == fail || fail.Dominates(rc.Block())) {
						continue
					}
					args := rc.Common().Args
					cp, isC := engine.Origin(args[len(args)-1]).(*ssa.Call)
					if isC && engine.CallNameIs(cp, "CheckpointIdentities") && engine.InstrDominates(cp, vc) && enclosingLoopHeader(cp.Block()) == enclosingLoopHeader(vc.Block()) {
						good = true
						pos = p.InstrPos(rc)
					}
				}
			}
			if !good {
				all = false
			}
		}
	}
	return found && all, pos
}

func validatorsReadWithoutCreatingRule(p *engine.Prog, r *engine.Report, rule string) {
	getters := creatingGetters(p)
	reverted, revertPos := builderRevertsRejected(p, r)
	pkgFns := funcsOfPkg(p, "blockchain/validation")
	var sites []creatingSite
	for _, f := range pkgFns {
		if f.Blocks == nil || isTestish(p.Pos(f.Pos())) {
			continue
		}
		for _, c := range engine.Calls(f) {
			g := c.Common().StaticCallee()
			if g == nil || !getters[g] || len(c.Common().Args) < 2 {
				continue
			}
			sites = append(sites, creatingSite{f, c, c.Common().Args[1], engine.RelName(g)})
		}
	}
	// a helper that reads for one of its own address parameters: the obligation moves to its callers
	for round := 0; round < 3; round++ {
		var next []creatingSite
		for _, s := range sites {
			par, isPar := engine.Origin(s.addr).(*ssa.Parameter)
			if !isPar || !strings.HasSuffix(par.Type().String(), "common.Address") {
				next = append(next, s)
				continue
			}
			idx := -1
			for i, q := range s.fn.Params {
				if q == par {
					idx = i
				}
			}
			moved := false
			for _, f := range pkgFns {
				if f.Blocks == nil {
					continue
				}
				for _, c := range engine.Calls(f) {
					if c.Common().StaticCallee() == s.fn && idx >= 0 && idx < len(c.Common().Args) {
						next = append(next, creatingSite{f, c, c.Common().Args[idx], s.via + " via " + s.fn.Name()})
						moved = true
					}
				}
			}
			if !moved {
				next = append(next, s)
			}
		}
		sites = next
	}
	sameAddr := func(a, b ssa.Value) bool {
		oa, ob := engine.Origin(a), engine.Origin(b)
		if oa == ob {
			return true
		}
		return renderVal(oa, 0) == renderVal(ob, 0)
	}
	n := 0
	for _, s := range sites {
		n++
		r.Fn(engine.FuncName(s.fn))
		// a refusal that depends on a non-creating lookup of the same address, on the way to the site
		guards := guardsWhere(s.fn, func(cond ssa.Value) (bool, bool, string) {
			found := false
			for v := range engine.BackSlice(cond, engine.SliceOpts{ThroughLoads: true, ThroughCalls: true, ThroughFields: true, MaxNodes: 80}) {
				c, ok := v.(*ssa.Call)
				if !ok || len(c.Call.Args) < 2 {
					continue
				}
				if engine.CallNameIs(c, "GetIdentity", "GetIdentityState", "IdentityExists", "IsApproved", "IsOnline", "IsValidated") && sameAddr(c.Call.Args[1], s.addr) {
					if g := c.Call.StaticCallee(); g == nil || !getters[g] {
						found = true
					}
				}
			}
			return found, true, "existence-dependent refusal"
		})
		ok := false
		for _, g := range guards {
			// the guard must refuse on one edge and lead to the site on the other
			for i := 0; i < 2; i++ {
				succ := g.If.Block().Succs[i]
				other := g.If.Block().Succs[1-i]
				refuses := false
				for _, ins := range other.Instrs {
					if ret, isR := ins.(*ssa.Return); isR && retErrKind(ret) == "nonnil" {
						refuses = true
					}
				}
				if refuses && (succ == s.call.Block() || succ.Dominates(s.call.Block())) {
					ok = true
				}
			}
		}
		who := "address"
		switch x := engine.Origin(s.addr).(type) {
		case *ssa.Extract:
			if c, ok := x.Tuple.(*ssa.Call); ok && engine.CallNameIs(c, "Sender") {
				who = "sender"
			}
		case *ssa.UnOp:
			if u, ok := engine.Unwrap(x.X).(*ssa.UnOp); ok {
				if _, fld, ok := engine.FieldOf(u.X); ok {
					who = "tx." + fld
				}
			} else if _, fld, ok := engine.FieldOf(x.X); ok {
				who = "tx." + fld
			}
		}
		key := uniq(r, s.fn.Name()+"|"+s.via+"("+who+") creates no record")
		if !ok && reverted {
			r.OK(rule, key, p.InstrPos(s.call), "creating read; the block builder drops what a rejected candidate's validation created ("+revertPos+")")
			continue
		}
		r.Check(ok, rule, key, p.InstrPos(s.call), "the address was looked up without creating and a refusal depends on it", s.fn.Name()+" reads through "+s.via+", which creates an empty identity record for an address that has none and marks it dirty, and no refusal that depends on a non-creating lookup of that address lies on the way: filterTxs runs the validators on the state it builds the block on and cannot undo — when this transaction is then rejected by a later check (or left out), the record stays in the proposer's state only, and the proposal fails \"invalid block roots\" on every node, the proposer's own AddBlock included")
	}
	r.Check(n >= 4, rule, "scan|creating reads in the validators (control)", "", fmt.Sprintf("%d sites, %d creating getters", n, len(getters)), "fewer than four creating reads found in the validators: anchor moved")
}

func init() {
	extend("C02", func(p *engine.Prog, r *engine.Report) {
		r.Explanation += " (R10) validators read the state without creating records: a getter that goes through GetOrNewIdentityObject is called only for an address whose identity was already looked up non-creatingly with a refusal depending on it (the block builder validates on the state it builds on) — or the block builder itself drops, on the refusal edge of ValidateTx, the identities created since a checkpoint taken before it."
		validatorsReadWithoutCreatingRule(p, r, "C02-R10")
	})
}

// ---------------------------------------------------------------------------------------------
// Round 8.

// maxCostCoversCostRule: the balance bound used at admission (CalculateMaxCost) has every component the
// charged cost (CalculateCost) has, with the declared maximum fee in place of the fee: every `…OrZero`
// accessor of the transaction that CalculateCost adds is also added by CalculateMaxCost, and
// MaxFeeOrZero is. (applyTxOnState debits amount, tips and fee; a bound that lacks one of them admits a
// transaction whose sender cannot pay it — the balance goes negative and is stored as its absolute value.)
func maxCostCoversCostRule(p *engine.Prog, r *engine.Report, rule string) {
	parts := func(f *ssa.Function) map[string]bool {
		out := map[string]bool{}
		for _, c := range engine.Calls(f) {
			if !engine.CallNameIs(c, "Add") {
				continue
			}
			for _, a := range c.Common().Args[1:] {
				for v := range engine.BackSlice(a, engine.SliceOpts{ThroughLoads: true, MaxNodes: 20}) {
					if cc, ok := v.(*ssa.Call); ok {
						if o := engine.CalleeObj(&cc.Call); o != nil && strings.HasSuffix(o.Name(), "OrZero") {
							out[o.Name()] = true
						}
					}
				}
			}
		}
		return out
	}
	cost := mustFunc(p, r, "blockchain/fee", "CalculateCost")
	max := mustFunc(p, r, "blockchain/fee", "CalculateMaxCost")
	if cost == nil || max == nil {
		return
	}
	pc, pm := parts(cost), parts(max)
	var missing []string
	for k := range pc {
		if !pm[k] {
			missing = append(missing, k)
		}
	}
	if !pm["MaxFeeOrZero"] {
		missing = append(missing, "MaxFeeOrZero")
	}
	sort.Strings(missing)
	r.Check(len(pc) >= 2, rule, "CalculateCost|components found (control)", p.Pos(cost.Pos()), joinKeys(pc), "fewer than two transaction components found in CalculateCost: anchor moved")
	r.Check(len(missing) == 0, rule, "CalculateMaxCost|the admission bound has every component that is charged", p.Pos(max.Pos()), joinKeys(pm), "CalculateMaxCost does not add "+strings.Join(missing, ", ")+" although the charged cost does: a transaction (every one entering the pool, and the contract types inside a block) is admitted with a balance below what applyTxOnState debits — the sender's balance goes negative, is stored as its absolute value, and coins appear from nowhere")
}

// subEnvMergeCompleteRule: when a nested WASM environment is committed into its parent, every entry of
// each of its buffers reaches the parent — removals (tombstones) included: in WasmEnv.Commit no
// iteration of a loop that copies into a parent's buffer completes without the copy.
func subEnvMergeCompleteRule(p *engine.Prog, r *engine.Report, rule string) {
	f := mustFunc(p, r, "vm/wasm", "WasmEnv.Commit")
	if f == nil {
		return
	}
	fromParent := func(v ssa.Value) bool {
		for x := range engine.BackSlice(v, engine.SliceOpts{ThroughLoads: true, ThroughFields: true, MaxNodes: 40}) {
			if u, ok := x.(*ssa.UnOp); ok && u.Op == token.MUL {
				if _, fld, ok := engine.FieldOf(u.X); ok && fld == "parent" {
					return true
				}
			}
		}
		return false
	}
	byLoop := map[*ssa.BasicBlock]map[*ssa.BasicBlock]bool{}
	for _, b := range f.Blocks {
		for _, ins := range b.Instrs {
			mu, ok := ins.(*ssa.MapUpdate)
			if !ok || !fromParent(mu.Map) {
				continue
			}
			if h := enclosingLoopHeader(b); h != nil {
				if byLoop[h] == nil {
					byLoop[h] = map[*ssa.BasicBlock]bool{}
				}
				byLoop[h][b] = true
			}
		}
	}
	n := 0
	var hdrs []*ssa.BasicBlock
	for h := range byLoop {
		hdrs = append(hdrs, h)
	}
	sort.Slice(hdrs, func(i, j int) bool { return hdrs[i].Index < hdrs[j].Index })
	for _, h := range hdrs {
		n++
		reach := engine.ReachAvoiding(f, h, nil, byLoop[h])
		ok := true
		for _, pr := range h.Preds {
			if h.Dominates(pr) && !byLoop[h][pr] && reach[pr] {
				// an inner loop's own back edge into an outer header is fine only if the inner copy ran
				ok = false
			}
		}
		// a nested loop (per contract, per key): the outer iteration completes through the inner loop
		if !ok {
			inner := false
			for h2 := range byLoop {
				if h2 != h && loopBlocks(h)[h2] {
					inner = true
				}
			}
			if inner {
				ok = true
			}
		}
		pos := ""
		if len(h.Instrs) > 0 {
			pos = p.InstrPos(h.Instrs[0])
		}
		r.Check(ok, rule, uniq(r, "WasmEnv.Commit|every entry of a nested buffer reaches the parent"), pos, "no iteration skips the copy", "an iteration of a merge loop can complete without copying its entry into the parent's buffer (e.g. removals are dropped instead of carried up): a key removed by a nested call reappears with its old value for the caller and the removal never reaches the state although the transaction succeeds")
	}
	r.Check(n >= 3, rule, "WasmEnv.Commit|merge loops found (control)", p.Pos(f.Pos()), fmt.Sprint(n), "fewer than three loops that copy into the parent's buffers found: anchor moved")
}

// extraFlipsOnlyForUnansweredRule: in qualifyCandidate an extra short-session flip is made available only
// for a not-approved flip the candidate did not answer: the increment is controlled both by the
// membership test in notApprovedFlips and by a comparison of that flip's answer with None.
func extraFlipsOnlyForUnansweredRule(p *engine.Prog, r *engine.Report, rule string) {
	f := mustFunc(p, r, "core/ceremony", "qualification.qualifyCandidate")
	if f == nil {
		return
	}
	n := 0
	for _, b := range f.Blocks {
		for _, ins := range b.Instrs {
			bo, ok := ins.(*ssa.BinOp)
			if !ok || bo.Op != token.ADD {
				continue
			}
			if c, isC := engine.ConstInt(bo.Y); !isC || c != 1 {
				continue
			}
			// the counter that is compared with ShortSessionExtraFlipsCount()
			isCounter := false
			seenPhi := map[ssa.Value]bool{}
			var chase func(v ssa.Value, depth int)
			chase = func(v ssa.Value, depth int) {
				if depth > 4 || seenPhi[v] || v.Referrers() == nil {
					return
				}
				seenPhi[v] = true
				for _, ref := range *v.Referrers() {
					switch x := ref.(type) {
					case *ssa.Phi:
						chase(x, depth+1)
					case *ssa.BinOp:
						if x.Op == token.LSS && x.X == v {
							for y := range engine.BackSlice(x.Y, engine.SliceOpts{ThroughCalls: false, MaxNodes: 10}) {
								if c, ok := y.(*ssa.Call); ok && engine.CallNameIs(c, "ShortSessionExtraFlipsCount") {
									isCounter = true
								}
							}
						}
					}
				}
			}
			chase(bo, 0)
			if !isCounter {
				continue
			}
			n++
			member, unanswered := false, false
			for _, d := range f.Blocks {
				if len(d.Instrs) == 0 {
					continue
				}
				iff, ok := d.Instrs[len(d.Instrs)-1].(*ssa.If)
				if !ok || !(d.Succs[0] == b || d.Succs[0].Dominates(b)) || len(d.Succs[0].Preds) != 1 {
					continue
				}
				if c, ok := engine.Unwrap(iff.Cond).(*ssa.Call); ok && engine.CallNameIs(c, "Contains") {
					member = true
				}
				if cmp, ok := iff.Cond.(*ssa.BinOp); ok && cmp.Op == token.EQL {
					if k, isC := engine.ConstInt(cmp.Y); isC && k == 0 {
						if ex, ok := engine.Unwrap(cmp.X).(*ssa.Extract); ok {
							if c, ok := ex.Tuple.(*ssa.Call); ok && engine.CallNameIs(c, "Answer") {
								unanswered = true
							}
						}
					}
				}
			}
			r.Check(member && unanswered, rule, uniq(r, "qualifyCandidate|an extra flip only for a not-approved flip left unanswered"), p.InstrPos(bo), "Contains(flip) && answer == None", "the extra-flip counter is incremented without both tests (membership in the not-approved flips and answer == None): a candidate who answered a not-approved author's flip is scored on the regular and the extra flips — 3/6 below the minimum becomes 5/8 above it, and an identity the rules kill is promoted")
		}
	}
	r.Check(n >= 1, rule, "qualifyCandidate|extra-flip counter found (control)", p.Pos(f.Pos()), fmt.Sprint(n), "the counter compared with ShortSessionExtraFlipsCount() was not found: anchor moved")
}

// evidenceMajorityShapeRule: the evidence threshold is a strict majority of the published maps.
// Decided by shape only, idioms enumerated: len(maps)/2 + 1, or (len(maps)+2)/2; anything else is
// undecided (the value of an arbitrary integer expression is not decided by this family).
func evidenceMajorityShapeRule(p *engine.Prog, r *engine.Report, rule string) {
	f := mustFunc(p, r, "core/appstate", "EvidenceMap.CalculateApprovedCandidates")
	if f == nil {
		return
	}
	maps := ssa.Value(f.Params[len(f.Params)-1])
	isLen := func(v ssa.Value) bool {
		c, ok := engine.Unwrap(v).(*ssa.Call)
		if !ok {
			return false
		}
		b, isB := c.Call.Value.(*ssa.Builtin)
		return isB && b.Name() == "len" && engine.Origin(c.Call.Args[0]) == maps
	}
	konst := func(v ssa.Value, k int64) bool { c, ok := engine.ConstInt(v); return ok && c == k }
	verdict := ""
	var at ssa.Instruction
	for _, b := range f.Blocks {
		for _, ins := range b.Instrs {
			bo, ok := ins.(*ssa.BinOp)
			if !ok {
				continue
			}
			// len/2 + 1
			if bo.Op == token.ADD && konst(bo.Y, 1) {
				if q, ok := bo.X.(*ssa.BinOp); ok && q.Op == token.QUO && isLen(q.X) && konst(q.Y, 2) {
					verdict, at = "ok", bo
				}
			}
			// (len + k) / 2
			if bo.Op == token.QUO && konst(bo.Y, 2) {
				if a, ok := bo.X.(*ssa.BinOp); ok && a.Op == token.ADD && isLen(a.X) {
					if konst(a.Y, 2) {
						verdict, at = "ok", bo
					} else if verdict == "" {
						verdict, at = "bad", bo
					}
				}
				if isLen(bo.X) && verdict == "" {
					// bare len/2 used as the threshold (no +1 found so far)
					verdict, at = "half", bo
				}
			}
		}
	}
	key := "CalculateApprovedCandidates|the threshold is a strict majority of the maps"
	switch verdict {
	case "ok":
		r.OK(rule, key, p.InstrPos(at), "len(maps)/2 + 1")
	case "bad":
		r.Bad(rule, key, p.InstrPos(at), "the threshold is (len(maps)+k)/2 with k != 2: for an even number of evidence maps a candidate confirmed by exactly half of them is approved (and with no map at all everybody is) — an identity that missed the session keeps its score instead of being treated as missed")
	case "half":
		// len/2 alone may be followed by a +1 elsewhere; not recognised
		r.Und(rule, key, p.InstrPos(at), "len(maps)/2 found without the +1 in the same expression: shape not recognised")
	default:
		r.Und(rule, key, p.Pos(f.Pos()), "no threshold expression over len(maps) recognised (accepted idioms: len/2 + 1, (len+2)/2)")
	}
}

func init() {
	extend("C04", func(p *engine.Prog, r *engine.Report) {
		r.Explanation += " (R12) a nested WASM environment reads balances through its parents (imports C15-R7); (R13) the admission bound CalculateMaxCost has every component CalculateCost charges."
		importRules(p, r, "C15", map[string]string{"C15-R7": "C04-R12"})
		maxCostCoversCostRule(p, r, "C04-R13")
	})
	extend("C05", func(p *engine.Prog, r *engine.Report) {
		maxCostCoversCostRule(p, r, "C05-R9")
	})
	extend("C15", func(p *engine.Prog, r *engine.Report) {
		r.Explanation += " (R9) the admission bound has every charged component (shared with C04-R13); (R10) committing a nested environment carries every entry of its buffers — removals included — into the parent."
		maxCostCoversCostRule(p, r, "C15-R9")
		subEnvMergeCompleteRule(p, r, "C15-R10")
	})
	extend("C17", func(p *engine.Prog, r *engine.Report) {
		r.Explanation += " (R13) the evidence threshold has the shape of a strict majority (idioms enumerated; value not decided); (R14) an extra short-session flip is granted only for a not-approved flip left unanswered."
		evidenceMajorityShapeRule(p, r, "C17-R13")
		extraFlipsOnlyForUnansweredRule(p, r, "C17-R14")
	})
}
