package props

import (
	"go/token"
	"go/types"
	"sort"
	"strings"

	"golang.org/x/tools/go/ssa"

	"idenaverif/internal/engine"
)

func init() { register("C18", C18) }

var c18Pkgs = []string{"blockchain/types", "blockchain/attachments", "core/state", "core/state/snapshot", "protocol", "core/mempool", "core/flip"}

type codecType struct {
	named *types.Named
	pkg   string
	enc   []*ssa.Function // ToBytes / ToProto
	dec   []*ssa.Function // FromBytes / FromProto
	sig   *ssa.Function   // ToSignatureBytes
}

func methodsOf(p *engine.Prog, n *types.Named) map[string]*ssa.Function {
	out := map[string]*ssa.Function{}
	for _, t := range []types.Type{n, types.NewPointer(n)} {
		ms := p.SSA.MethodSets.MethodSet(t)
		for i := 0; i < ms.Len(); i++ {
			sel := ms.At(i)
			if len(sel.Index()) != 1 {
				continue
			}
			fo, ok := sel.Obj().(*types.Func)
			if !ok {
				continue
			}
			if f := p.SSA.FuncValue(fo); f != nil {
				out[fo.Name()] = f
			}
		}
	}
	return out
}

func codecTypes(p *engine.Prog) []*codecType {
	var out []*codecType
	for _, sp := range c18Pkgs {
		pk := p.ByPath[engine.RepoMod+"/"+sp]
		if pk == nil {
			continue
		}
		sc := pk.Types.Scope()
		for _, name := range sc.Names() {
			tn, ok := sc.Lookup(name).(*types.TypeName)
			if !ok || tn.IsAlias() {
				continue
			}
			n, ok := tn.Type().(*types.Named)
			if !ok {
				continue
			}
			ms := methodsOf(p, n)
			ct := &codecType{named: n, pkg: sp}
			for _, m := range []string{"ToBytes", "ToProto"} {
				if f := ms[m]; f != nil {
					ct.enc = append(ct.enc, f)
				}
			}
			for _, m := range []string{"FromBytes", "FromProto"} {
				if f := ms[m]; f != nil {
					ct.dec = append(ct.dec, f)
				}
			}
			ct.sig = ms["ToSignatureBytes"]
			if len(ct.enc) > 0 && len(ct.dec) > 0 {
				out = append(out, ct)
			}
		}
	}
	sort.Slice(out, func(i, j int) bool {
		return out[i].pkg+out[i].named.Obj().Name() < out[j].pkg+out[j].named.Obj().Name()
	})
	return out
}

// closureOf: fns plus their static repo callees (depth <= 3), stopping at codec methods of
// other types only insofar as sets are type-based (harmless to include them).
func closureOf(fns []*ssa.Function) []*ssa.Function {
	seen := map[*ssa.Function]bool{}
	var out []*ssa.Function
	var rec func(f *ssa.Function, d int)
	rec = func(f *ssa.Function, d int) {
		if f == nil || seen[f] || d > 3 {
			return
		}
		pk := engine.FuncPkg(f)
		if pk == nil || !engine.IsRepoPkg(pk) {
			return
		}
		seen[f] = true
		out = append(out, f)
		for _, a := range f.AnonFuncs {
			rec(a, d)
		}
		for _, c := range engine.Calls(f) {
			rec(c.Common().StaticCallee(), d+1)
		}
	}
	for _, f := range fns {
		rec(f, 0)
	}
	return out
}

func ownerNamed(v ssa.Value) (*types.Named, int, bool) {
	var base types.Type
	var idx int
	switch x := v.(type) {
	case *ssa.FieldAddr:
		base, idx = x.X.Type(), x.Field
	case *ssa.Field:
		base, idx = x.X.Type(), x.Field
	default:
		return nil, 0, false
	}
	if pt, ok := base.Underlying().(*types.Pointer); ok {
		base = pt.Elem()
	}
	n, ok := base.(*types.Named)
	return n, idx, ok
}

func isModelsType(n *types.Named) bool {
	return n != nil && n.Obj().Pkg() != nil && strings.HasSuffix(n.Obj().Pkg().Path(), "idena-go/protobuf")
}

// isContainerField: the proto field holds (a pointer to / slice of) another message.
func isContainerField(t types.Type) bool {
	for {
		switch x := t.(type) {
		case *types.Pointer:
			t = x.Elem()
			continue
		case *types.Slice:
			t = x.Elem()
			continue
		}
		break
	}
	n, ok := t.(*types.Named)
	return ok && isModelsType(n)
}

type fkey struct {
	owner *types.Named
	field string
}

func (k fkey) String() string { return k.owner.Obj().Name() + "." + k.field }

// fieldReads: all (owner, field) loaded in fns (FieldAddr that is not purely a store target,
// or Field).
func fieldReads(fns []*ssa.Function) map[fkey]bool {
	out := map[fkey]bool{}
	for _, f := range fns {
		for _, b := range f.Blocks {
			for _, in := range b.Instrs {
				v, ok := in.(ssa.Value)
				if !ok {
					continue
				}
				n, idx, ok := ownerNamed(v)
				if !ok {
					continue
				}
				st, _ := n.Underlying().(*types.Struct)
				if st == nil {
					continue
				}
				if fa, isFA := in.(*ssa.FieldAddr); isFA {
					// read if any referrer is not a Store to it
					read := false
					for _, ref := range *fa.Referrers() {
						if s, isS := ref.(*ssa.Store); isS && s.Addr == ssa.Value(fa) {
							continue
						}
						read = true
					}
					if !read {
						continue
					}
				}
				out[fkey{n, st.Field(idx).Name()}] = true
			}
		}
	}
	return out
}

// fieldWrites: (owner, field) written in fns: store to the field, the field address used
// as a method receiver / call argument, or a map update / append through it.
func fieldWrites(fns []*ssa.Function) map[fkey][]*ssa.Store {
	out := map[fkey][]*ssa.Store{}
	for _, f := range fns {
		for _, b := range f.Blocks {
			for _, in := range b.Instrs {
				fa, ok := in.(*ssa.FieldAddr)
				if !ok {
					continue
				}
				n, idx, ok := ownerNamed(fa)
				if !ok {
					continue
				}
				st, _ := n.Underlying().(*types.Struct)
				if st == nil {
					continue
				}
				k := fkey{n, st.Field(idx).Name()}
				for _, ref := range *fa.Referrers() {
					switch x := ref.(type) {
					case *ssa.Store:
						if x.Addr == ssa.Value(fa) {
							out[k] = append(out[k], x)
						}
					case ssa.CallInstruction:
						for _, a := range engine.CallArgs(x) {
							if a == ssa.Value(fa) {
								if _, has := out[k]; !has {
									out[k] = nil
								}
							}
						}
					case *ssa.UnOp:
						// loaded map / slice then updated in place
						for _, r2 := range *x.Referrers() {
							if _, isMU := r2.(*ssa.MapUpdate); isMU {
								if _, has := out[k]; !has {
									out[k] = nil
								}
							}
						}
					case *ssa.FieldAddr, *ssa.IndexAddr:
						// nested write x.f.g = / x.f[i] =
						if v, ok := ref.(ssa.Value); ok && v.Referrers() != nil {
							for _, r2 := range *v.Referrers() {
								if s, isS := r2.(*ssa.Store); isS && s.Addr == v {
									out[k] = append(out[k], s)
								}
							}
						}
					}
				}
			}
		}
	}
	return out
}

func isTransientField(owner *types.Named, f *types.Var) (bool, string) {
	ts := f.Type().String()
	switch {
	case ts == "sync/atomic.Value":
		return true, "atomic.Value cache"
	case strings.HasPrefix(ts, "sync."):
		return true, "lock"
	}
	on := owner.Obj().Name()
	if on == "Identity" && f.Name() == "metadata" {
		return true, "process-local metadata set by the identity-update hook, not part of the ledger"
	}
	return false, ""
}

// structFieldsRec lists the fields of n and, recursively, of repo-declared struct types used
// as field (element) types that have no codec of their own.
func structFieldsRec(n *types.Named, codec map[*types.Named]bool, seen map[*types.Named]bool, out *[]fkey, transient map[fkey]string) {
	if seen[n] {
		return
	}
	seen[n] = true
	st, ok := n.Underlying().(*types.Struct)
	if !ok {
		return
	}
	for i := 0; i < st.NumFields(); i++ {
		f := st.Field(i)
		k := fkey{n, f.Name()}
		if tr, why := isTransientField(n, f); tr {
			transient[k] = why
			continue
		}
		*out = append(*out, k)
		// nested
		t := f.Type()
		for {
			switch x := t.(type) {
			case *types.Pointer:
				t = x.Elem()
				continue
			case *types.Slice:
				t = x.Elem()
				continue
			case *types.Array:
				t = x.Elem()
				continue
			case *types.Map:
				t = x.Elem()
				continue
			}
			break
		}
		if nn, ok := t.(*types.Named); ok && nn.Obj().Pkg() != nil && engine.IsRepoPkg(nn.Obj().Pkg()) && !codec[nn] {
			if _, isStruct := nn.Underlying().(*types.Struct); isStruct {
				structFieldsRec(nn, codec, seen, out, transient)
			}
		}
	}
}

// protoFieldsIn: proto message fields (owner in protobuf/models) that v depends on: direct
// field loads or generated GetX() getters.
func protoFieldsIn(v ssa.Value) map[string]bool {
	out := map[string]bool{}
	for x := range engine.BackSlice(v, engine.DefaultSlice) {
		if n, idx, ok := ownerNamed(x); ok && isModelsType(n) {
			st := n.Underlying().(*types.Struct)
			if !isContainerField(st.Field(idx).Type()) {
				out[n.Obj().Name()+"."+st.Field(idx).Name()] = true
			}
		}
		if c, ok := x.(*ssa.Call); ok {
			if o := engine.CalleeObj(c.Common()); o != nil && strings.HasPrefix(o.Name(), "Get") {
				if sig := o.Type().(*types.Signature); sig.Recv() != nil {
					if n := engine.NamedOf(sig.Recv().Type()); isModelsType(n) && !isContainerField(sig.Results().At(0).Type()) {
						out[n.Obj().Name()+"."+strings.TrimPrefix(o.Name(), "Get")] = true
					}
				}
			}
		}
	}
	return out
}

// repoFieldsIn: fields of repo (non-models) struct types that v depends on, including the
// conditions that select the edges of integer phis (flag packing).
func repoFieldsIn(v ssa.Value) map[fkey]bool {
	out := map[fkey]bool{}
	sl := engine.BackSlice(v, engine.DefaultSlice)
	// control dependence of integer accumulators
	extra := map[ssa.Value]bool{}
	for x := range sl {
		ph, ok := x.(*ssa.Phi)
		if !ok {
			continue
		}
		if b, isB := ph.Type().Underlying().(*types.Basic); !isB || b.Info()&types.IsInteger == 0 {
			continue
		}
		for _, pred := range ph.Block().Preds {
			for d := pred; d != nil && d != ph.Block().Idom(); d = d.Idom() {
				if len(d.Instrs) == 0 {
					continue
				}
				if i, isIf := d.Instrs[len(d.Instrs)-1].(*ssa.If); isIf {
					for y := range engine.BackSlice(i.Cond, engine.DefaultSlice) {
						extra[y] = true
					}
				}
			}
			if id := ph.Block().Idom(); id != nil && len(id.Instrs) > 0 {
				if i, isIf := id.Instrs[len(id.Instrs)-1].(*ssa.If); isIf {
					for y := range engine.BackSlice(i.Cond, engine.DefaultSlice) {
						extra[y] = true
					}
				}
			}
		}
	}
	for x := range extra {
		sl[x] = true
	}
	for x := range sl {
		if n, idx, ok := ownerNamed(x); ok && !isModelsType(n) && n.Obj().Pkg() != nil && engine.IsRepoPkg(n.Obj().Pkg()) {
			if st, isSt := n.Underlying().(*types.Struct); isSt {
				out[fkey{n, st.Field(idx).Name()}] = true
			}
		}
	}
	return out
}

// C18 — encodings round-trip; signatures bind every signed field.
func C18(p *engine.Prog, r *engine.Report) {
	r.Explanation = "Writer/reader agreement over every type with a ToBytes|ToProto / FromBytes|FromProto pair in the consensus, storage and wire packages (enumerated by method-set scan): (R1) every non-transient field of the type — recursively through nested repo structs without a codec of their own — is read in the encoder closure and written in the decoder closure; (R2) the (field, proto field) pairs of the encoder equal the inverse pairs of the decoder (a dropped field fails R1, a swapped or mis-assigned pair fails R2; flag-packed booleans are paired through the condition that selects the bit and the constants are compared); (R3) ToSignatureBytes of every signed type reads every field except the signature and transients, builds the same (field, proto field) pairs as ToProto for the shared message type, and the legacy RLP signing hash reads the same field set with each field once; types.Sender branches on UseRlp; (R4) object hashes are computed from the object's own full encoding. Decides structure; byte-level canonical form is protobuf's."
	r.Assumptions = []string{"golang/protobuf Marshal/Unmarshal are deterministic inverses on the generated messages", "value-range conversions (e.g. uint16(uint32)) are not decided", "range-variable aliasing in encoders is checked only in the slice-of-range-variable form (R2b)"}
	cts := codecTypes(p)
	codec := map[*types.Named]bool{}
	for _, ct := range cts {
		codec[ct.named] = true
	}
	nTypes := 0
	for _, ct := range cts {
		nTypes++
		tname := ct.named.Obj().Name()
		encC := closureOf(ct.enc)
		decC := closureOf(ct.dec)
		for _, f := range ct.enc {
			r.Fn(engine.FuncName(f))
		}
		for _, f := range ct.dec {
			r.Fn(engine.FuncName(f))
		}
		reads := fieldReads(encC)
		writes := fieldWrites(decC)
		var fields []fkey
		transient := map[fkey]string{}
		structFieldsRec(ct.named, codec, map[*types.Named]bool{}, &fields, transient)
		pos := p.Pos(ct.named.Obj().Pos())
		for _, k := range fields {
			key := tname + "|" + k.String()
			_, w := writes[k]
			switch {
			case !reads[k] && !w && legacyUnused(p, k):
				r.Note("C18-R1", key, pos, "neither encoded nor decoded and never read anywhere in the repo (dead field)")
			case !reads[k]:
				r.Bad("C18-R1", key, pos, "field is not read by the encoder ("+encNames(ct.enc)+"): it is dropped from the encoding")
			case !w:
				r.Bad("C18-R1", key, pos, "field is not written by the decoder ("+encNames(ct.dec)+"): it is lost on decode")
			default:
				r.OK("C18-R1", key, pos, "read by the encoder and written by the decoder")
			}
		}
		for k, why := range transient {
			r.Note("C18-R1", tname+"|"+k.String(), pos, "transient: "+why)
		}
		// ---- R2 pairs
		encPairs := map[string]map[string]bool{} // T.f -> set of M.g
		for _, f := range encC {
			for _, b := range f.Blocks {
				for _, in := range b.Instrs {
					s, ok := in.(*ssa.Store)
					if !ok {
						continue
					}
					n, idx, ok := ownerNamed(s.Addr)
					if !ok || !isModelsType(n) {
						continue
					}
					g := n.Obj().Name() + "." + n.Underlying().(*types.Struct).Field(idx).Name()
					for k := range repoFieldsIn(s.Val) {
						if encPairs[k.String()] == nil {
							encPairs[k.String()] = map[string]bool{}
						}
						encPairs[k.String()][g] = true
					}
				}
			}
		}
		decPairs := map[string]map[string]bool{} // T.f -> set of M.g it is restored from
		for k, sts := range writes {
			for _, s := range sts {
				if s == nil {
					continue
				}
				for g := range protoFieldsIn(s.Val) {
					if decPairs[k.String()] == nil {
						decPairs[k.String()] = map[string]bool{}
					}
					decPairs[k.String()][g] = true
				}
			}
		}
		var mism []string
		nPairs := 0
		for _, k := range fields {
			ks := k.String()
			if isRepoContainer(k) {
				continue // holds nested structs: the pairs are those of the nested fields
			}
			for g := range decPairs[ks] {
				nPairs++
				if !encPairs[ks][g] {
					mism = append(mism, ks+" is decoded from "+g+" but the encoder never writes "+g+" from it (encoder writes it to "+joinKeys(encPairs[ks])+")")
				}
			}
		}
		sort.Strings(mism)
		if nPairs > 0 {
			r.Check(len(mism) == 0, "C18-R2", tname+"|encoder/decoder field pairs agree", pos, itoa(int64(nPairs))+" decoder pairs all present in the encoder", strings.Join(mism, "; "))
		}
	}
	r.Floor("C18-R1", 150, "fields of ~50 codec types")
	r.Floor("C18-R2", 35, "one per codec type with proto pairs")
	r.Extra["codec_types"] = nTypes

	c18Flags(p, r)
	c18R2b(p, r, cts)
	c18R3(p, r, cts)
	c18R4(p, r)
	// ---------------- R5: equal values encode to equal bytes — no iteration in unspecified order (maps,
	// sets) has order-relevant effects inside an encoder or a signing digest (analysis A over the codecs)
	{
		var ents []*ssa.Function
		for _, ct := range cts {
			ents = append(ents, ct.enc...)
			if ct.sig != nil {
				ents = append(ents, ct.sig)
			}
		}
		runDeterminism(p, r, "C18-R5", ents, 0)
	}
	// a compressed certificate keeps every individually signed field of every vote (shared with C07)
	importRules(p, r, "C07", map[string]string{"C07-R6": "C18-R6"})
	c18R7(p, r, cts)
}

func encNames(fs []*ssa.Function) string {
	var out []string
	for _, f := range fs {
		out = append(out, f.Name())
	}
	return strings.Join(out, "/")
}

// legacyUnused: the field is read nowhere in the repo (dead, e.g. a legacy manifest field).
func legacyUnused(p *engine.Prog, k fkey) bool {
	for _, f := range p.AllFuncs() {
		for _, b := range f.Blocks {
			for _, in := range b.Instrs {
				v, ok := in.(ssa.Value)
				if !ok {
					continue
				}
				if n, idx, ok := ownerNamed(v); ok && n == k.owner {
					if n.Underlying().(*types.Struct).Field(idx).Name() == k.field {
						return false
					}
				}
			}
		}
	}
	return true
}

// c18Flags: packed booleans — the constant OR-ed under condition F equals the constant
// tested to restore F.
func c18Flags(p *engine.Prog, r *engine.Report) {
	type tcase struct{ pkg, typ string }
	for _, tc := range []tcase{{"core/state", "ApprovedIdentity"}} {
		pk := p.ByPath[engine.RepoMod+"/"+tc.pkg]
		tn, _ := pk.Types.Scope().Lookup(tc.typ).(*types.TypeName)
		if tn == nil {
			r.Errorf("type %s.%s not found", tc.pkg, tc.typ)
			continue
		}
		n := tn.Type().(*types.Named)
		ms := methodsOf(p, n)
		enc, dec := ms["ToBytes"], ms["FromBytes"]
		if enc == nil || dec == nil {
			r.Errorf("%s codec not found", tc.typ)
			continue
		}
		// encoder: OR const under If(cond reads field F)
		encK := map[string]int64{}
		for _, b := range enc.Blocks {
			for _, in := range b.Instrs {
				bo, ok := in.(*ssa.BinOp)
				if !ok || bo.Op != token.OR {
					continue
				}
				k, isK := engine.ConstInt(bo.Y)
				if !isK {
					k, isK = engine.ConstInt(bo.X)
				}
				if !isK {
					continue
				}
				// controlling condition: the If of the unique predecessor
				for d := b; d != nil; d = d.Idom() {
					if d == b || len(d.Instrs) == 0 {
						continue
					}
					if i, isIf := d.Instrs[len(d.Instrs)-1].(*ssa.If); isIf && d.Succs[0] == b {
						for fk := range repoFieldsIn(i.Cond) {
							if fk.owner == n {
								encK[fk.field] = k
							}
						}
						break
					}
				}
			}
		}
		decK := map[string]int64{}
		for k, sts := range fieldWrites([]*ssa.Function{dec}) {
			if k.owner != n {
				continue
			}
			for _, s := range sts {
				if s == nil {
					continue
				}
				for x := range engine.BackSlice(s.Val, engine.DefaultSlice) {
					if c, ok := x.(*ssa.Call); ok && engine.CallNameIs(c, "HasFlag") {
						a := engine.CallArgs(c)
						if kk, isK := engine.ConstInt(a[len(a)-1]); isK {
							decK[k.field] = kk
						}
					}
					if bo, ok := x.(*ssa.BinOp); ok && bo.Op == token.AND {
						if c, isK := engine.ConstInt(bo.Y); isK {
							decK[k.field] = c
						} else if c, isK := engine.ConstInt(bo.X); isK {
							decK[k.field] = c
						}
					}
				}
			}
		}
		var fs []string
		for f := range encK {
			fs = append(fs, f)
		}
		sort.Strings(fs)
		for _, f := range fs {
			dk, has := decK[f]
			r.Check(has && dk == encK[f], "C18-R2f", tc.typ+"|flag bit of "+f, p.Pos(enc.Pos()), "encoder ORs "+itoa(encK[f])+", decoder tests the same bit", "encoder packs "+f+" as bit "+itoa(encK[f])+" but the decoder restores it from bit "+itoa(dk))
		}
		// distinct bits
		seen := map[int64]string{}
		for _, f := range fs {
			if o, dup := seen[encK[f]]; dup {
				r.Bad("C18-R2f", tc.typ+"|distinct bits", p.Pos(enc.Pos()), f+" and "+o+" share bit "+itoa(encK[f]))
			}
			seen[encK[f]] = f
		}
		r.Floor("C18-R2f", 3, "Validated, Online, Discriminated")
	}
}

// c18R2b: an encoder must not hand the proto message a slice of a per-iteration range
// VALUE variable (`for _, x := range xs { … x.F[:] }`): the module's language version gives
// one variable per loop, so all elements alias the last one when marshalling happens later.
func c18R2b(p *engine.Prog, r *engine.Report, cts []*codecType) {
	n := 0
	for _, ct := range cts {
		for _, f := range closureOf(ct.enc) {
			pk := engine.FuncPkg(f)
			if pk == nil {
				continue
			}
			for _, b := range f.Blocks {
				for _, in := range b.Instrs {
					sl, ok := in.(*ssa.Slice)
					if !ok {
						continue
					}
					// slice of (a field of) a local cell that is assigned inside a loop from a range element
					root := sl.X
					for {
						if fa, ok := root.(*ssa.FieldAddr); ok {
							root = fa.X
							continue
						}
						if ia, ok := root.(*ssa.IndexAddr); ok {
							root = ia.X
							continue
						}
						break
					}
					a, ok := root.(*ssa.Alloc)
					if !ok {
						continue
					}
					hdr := engine.LoopHeaderOf(b)
					if hdr == nil {
						continue
					}
					n++
					// the cell must be allocated inside the loop (fresh per iteration) — an Alloc in a
					// block outside the loop that is stored in the loop is the shared range variable
					inLoop := hdr.Dominates(a.Block()) && a.Block() != hdr.Idom()
					if hdr.Dominates(a.Block()) {
						inLoop = true
					} else {
						inLoop = false
					}
					// does the slice reach a proto message store?
					reaches := false
					var work []ssa.Value
					work = append(work, sl)
					seen := map[ssa.Value]bool{}
					for len(work) > 0 && !reaches {
						v := work[len(work)-1]
						work = work[:len(work)-1]
						if seen[v] || v.Referrers() == nil {
							continue
						}
						seen[v] = true
						for _, ref := range *v.Referrers() {
							if s, isS := ref.(*ssa.Store); isS && s.Val == v {
								if nn, _, ok := ownerNamed(s.Addr); ok && isModelsType(nn) {
									reaches = true
								}
								if ia, ok := s.Addr.(*ssa.IndexAddr); ok {
									work = append(work, ia.X)
								}
							}
							if rv, ok := ref.(ssa.Value); ok {
								switch ref.(type) {
								case *ssa.Call, *ssa.Slice, *ssa.Phi, *ssa.MakeInterface, *ssa.ChangeType:
									work = append(work, rv)
								}
							}
						}
					}
					if !reaches {
						continue
					}
					r.Check(inLoop, "C18-R2b", ct.named.Obj().Name()+"|"+engine.RelName(f)+" slices a per-iteration cell", p.InstrPos(sl), "cell allocated inside the loop body", "encoder stores a slice of the shared range variable into the proto message: every encoded element aliases the last one (go.mod language version < 1.22)")
				}
			}
		}
	}
	_ = n
}

// ---------------------------------------------------------------- R3 signatures
func c18R3(p *engine.Prog, r *engine.Report, cts []*codecType) {
	n := 0
	for _, ct := range cts {
		if ct.sig == nil {
			continue
		}
		n++
		tname := ct.named.Obj().Name()
		r.Fn(engine.FuncName(ct.sig))
		sigC := closureOf([]*ssa.Function{ct.sig})
		reads := fieldReads(sigC)
		var sfields []fkey
		str := map[fkey]string{}
		codecSet := map[*types.Named]bool{}
		for _, c2 := range cts {
			if c2.sig == nil || c2 == ct {
				codecSet[c2.named] = true // nested signed/codec objects (e.g. Block in BlockProposal) are covered by their own hash/encoding
			}
		}
		delete(codecSet, ct.named)
		structFieldsRec(ct.named, codecSet, map[*types.Named]bool{}, &sfields, str)
		for _, k := range sfields {
			fname := k.field
			key := tname + "|signed field " + k.String()
			posF := p.Pos(k.owner.Obj().Pos())
			if k.owner == ct.named && fname == "Signature" {
				continue
			}
			if tname == "Transaction" && k.owner == ct.named && fname == "UseRlp" {
				// selects the digest: bound by construction iff Sender branches on it
				ok := false
				if s, err := p.Func("blockchain/types", "Sender"); err == nil {
					// in Sender itself or in a same-package helper it calls (directly) with the transaction
					fns := []*ssa.Function{s}
					for _, c := range engine.Calls(s) {
						if cal := c.Common().StaticCallee(); cal != nil && cal.Pkg == s.Pkg && cal.Blocks != nil && len(c.Common().Args) > 0 && engine.Origin(c.Common().Args[0]) == ssa.Value(s.Params[0]) {
							fns = append(fns, cal)
						}
					}
					for _, f2 := range fns {
						for _, i := range engine.Ifs(f2) {
							if _, isU := loadOfField(i.Cond, "Transaction", "UseRlp"); isU {
								ok = true
							}
						}
					}
				}
				r.Check(ok, "C18-R3", key, posF, "types.Sender selects the digest by UseRlp (bound by construction)", "UseRlp neither signed nor used to select the digest")
				continue
			}
			r.Check(reads[k], "C18-R3", key, posF, "read by ToSignatureBytes", "field is not covered by the signature: it can be changed without changing the recovered signer")
		}
		for k, why := range str {
			r.Note("C18-R3", tname+"|signed field "+k.String(), p.Pos(k.owner.Obj().Pos()), "transient: "+why)
		}
		// sibling agreement with ToProto on the shared message type
		sigPairs := protoPairs(sigC)
		encPairs := protoPairs(closureOf(ct.enc))
		var mism []string
		np := 0
		for g, fs := range sigPairs {
			// only message types that the full encoder also fills
			if _, shared := encPairs[g]; !shared {
				continue
			}
			np++
			if joinKeys(fs) != joinKeys(encPairs[g]) {
				mism = append(mism, g+": signature bytes from {"+joinKeys(fs)+"}, wire encoding from {"+joinKeys(encPairs[g])+"}")
			}
		}
		sort.Strings(mism)
		if np > 0 {
			r.Check(len(mism) == 0, "C18-R3", tname+"|signature bytes and wire encoding fill shared proto fields from the same fields", p.Pos(ct.sig.Pos()), itoa(int64(np))+" shared proto fields agree", strings.Join(mism, "; "))
		}
		// ... and under the same presence conditions (an optional field that is signed only when
		// non-zero but encoded whenever non-nil makes two different objects share one signature)
		sigConds, sigVals := protoConds(sigC)
		encConds, encVals := protoConds(closureOf(ct.enc))
		var cm []string
		nc := 0
		for g, cs := range sigConds {
			ec, shared := encConds[g]
			if !shared {
				continue
			}
			nc++
			a, b := condsModuloDeref(cs, sigVals[g], ec, encVals[g])
			if a != b {
				cm = append(cm, g+": signed under {"+a+"}, encoded under {"+b+"}")
			}
		}
		sort.Strings(cm)
		if nc > 0 {
			r.Check(len(cm) == 0, "C18-R3", tname+"|signature bytes and wire encoding fill shared proto fields under the same conditions", p.Pos(ct.sig.Pos()), itoa(int64(nc))+" shared proto fields agree", strings.Join(cm, "; ")+": two objects with different wire bytes (and hashes) carry the same signature")
		}
	}
	// legacy RLP digest
	if sh, err := p.Func("blockchain/types", "signatureHash"); err == nil {
		r.Fn(engine.FuncName(sh))
		pk := p.ByPath[engine.RepoMod+"/blockchain/types"]
		tx := pk.Types.Scope().Lookup("Transaction").Type().(*types.Named)
		st := tx.Underlying().(*types.Struct)
		cnt := map[string]int{}
		for _, b := range sh.Blocks {
			for _, in := range b.Instrs {
				if v, ok := in.(ssa.Value); ok {
					if nn, idx, ok := ownerNamed(v); ok && nn == tx {
						cnt[st.Field(idx).Name()]++
					}
				}
			}
		}
		for i := 0; i < st.NumFields(); i++ {
			f := st.Field(i)
			if tr, _ := isTransientField(tx, f); tr || f.Name() == "Signature" || f.Name() == "UseRlp" {
				continue
			}
			r.Check(cnt[f.Name()] == 1, "C18-R3", "Transaction|legacy RLP digest covers "+f.Name()+" once", p.Pos(sh.Pos()), "listed exactly once", "the legacy (UseRlp) signing hash lists "+f.Name()+" "+itoa(int64(cnt[f.Name()]))+" times: the field is not bound (or another is bound twice) for RLP-signed transactions")
		}
	} else {
		r.Errorf("anchor signatureHash: %v", err)
	}
	r.Floor("C18-R3", 25, "6 signed types")
}

// protoPairs: proto field -> set of repo fields its stored value depends on.
func protoPairs(fns []*ssa.Function) map[string]map[string]bool {
	out := map[string]map[string]bool{}
	for _, f := range fns {
		for _, b := range f.Blocks {
			for _, in := range b.Instrs {
				s, ok := in.(*ssa.Store)
				if !ok {
					continue
				}
				n, idx, ok := ownerNamed(s.Addr)
				if !ok || !isModelsType(n) {
					continue
				}
				g := n.Obj().Name() + "." + n.Underlying().(*types.Struct).Field(idx).Name()
				if out[g] == nil {
					out[g] = map[string]bool{}
				}
				for k := range repoFieldsIn(s.Val) {
					out[g][k.String()] = true
				}
			}
		}
	}
	return out
}

// protoConds maps each generated-message field stored by fns to the sets of branch conditions
// that control its stores, and to the renderings of the stored values.
func protoConds(fns []*ssa.Function) (map[string][][]string, map[string][]string) {
	out := map[string][][]string{}
	vals := map[string][]string{}
	for _, f := range fns {
		for _, b := range f.Blocks {
			for _, in := range b.Instrs {
				s, ok := in.(*ssa.Store)
				if !ok {
					continue
				}
				n, idx, ok := ownerNamed(s.Addr)
				if !ok || !isModelsType(n) {
					continue
				}
				g := n.Obj().Name() + "." + n.Underlying().(*types.Struct).Field(idx).Name()
				out[g] = append(out[g], controlSig(b))
				vals[g] = append(vals[g], renderVal(s.Val, 0))
			}
		}
	}
	return out, vals
}

// condsModuloDeref compares the condition sets of two siblings. A nil test `(P != nil)` that only
// one side makes is dropped when the other side dereferences P in every value it stores for that
// field (it cannot get there with P == nil either: the test is implicit).
func condsModuloDeref(a [][]string, aVals []string, b [][]string, bVals []string) (string, string) {
	derefsAll := func(vals []string, path string) bool {
		if len(vals) == 0 {
			return false
		}
		for _, v := range vals {
			if !strings.Contains(v, path+".") && !strings.Contains(v, path+"[") {
				return false
			}
		}
		return true
	}
	norm := func(sets [][]string, otherSets [][]string, otherVals []string) string {
		inOther := map[string]bool{}
		for _, os := range otherSets {
			for _, c := range os {
				inOther[c] = true
			}
		}
		var rendered []string
		for _, cs := range sets {
			var keep []string
			for _, c := range cs {
				if !inOther[c] && strings.HasPrefix(c, "(") && strings.HasSuffix(c, " != nil)") {
					path := strings.TrimSuffix(strings.TrimPrefix(c, "("), " != nil)")
					if derefsAll(otherVals, path) {
						continue
					}
				}
				keep = append(keep, c)
			}
			rendered = append(rendered, "["+strings.Join(keep, " && ")+"]")
		}
		sort.Strings(rendered)
		return strings.Join(dedup(rendered), ",")
	}
	return norm(a, b, bVals), norm(b, a, aVals)
}

// ---------------------------------------------------------------- R4 hashes
func c18R4(p *engine.Prog, r *engine.Report) {
	type hc struct {
		pkg, fn string
		enc     []string
	}
	cases := []hc{
		{"blockchain/types", "Transaction.Hash", []string{"blockchain/types.Transaction.ToBytes"}},
		{"blockchain/types", "Transaction.Hash128", []string{"blockchain/types.Transaction.ToBytes"}},
		{"blockchain/types", "ProposedHeader.Hash", []string{"blockchain/types.ProposedHeader.ToProto", "blockchain/types.ProposedHeader.ToBytes"}},
		{"blockchain/types", "EmptyBlockHeader.Hash", []string{"blockchain/types.EmptyBlockHeader.ToProto", "blockchain/types.EmptyBlockHeader.ToBytes"}},
		{"blockchain/types", "Vote.Hash", []string{"crypto.SignatureHash"}},
		{"blockchain/types", "Vote.Hash128", []string{"blockchain/types.Vote.ToBytes"}},
		{"blockchain/types", "Flip.Hash128", []string{"blockchain/types.Flip.ToBytes"}},
		{"blockchain/types", "Header.Hash", []string{"blockchain/types.ProposedHeader.Hash", "blockchain/types.EmptyBlockHeader.Hash"}},
		{"blockchain/types", "Block.Hash", []string{"blockchain/types.Header.Hash"}},
		{"blockchain/types", "Block.Hash128", []string{"blockchain/types.Block.ToBytes"}},
		{"blockchain/types", "PublicFlipKey.Hash", []string{"blockchain/types.PublicFlipKey.ToBytes"}},
		{"blockchain/types", "ProofProposal.Hash128", []string{"blockchain/types.ProofProposal.ToBytes"}},
		{"blockchain/types", "PrivateFlipKeysPackage.Hash128", []string{"blockchain/types.PrivateFlipKeysPackage.ToBytes"}},
	}
	for _, c := range cases {
		f := mustFunc(p, r, c.pkg, c.fn)
		if f == nil {
			continue
		}
		ok := false
		var encOn func(g *ssa.Function, depth int) bool
		encOn = func(g *ssa.Function, depth int) bool {
			for _, call := range engine.Calls(g) {
				args := engine.CallArgs(call)
				if len(args) == 0 || engine.Origin(rootOf(args[0])) != ssa.Value(g.Params[0]) {
					continue
				}
				if engine.CallIs(call, c.enc...) {
					return true
				}
				// a helper method of the same receiver type, handed the receiver itself
				if h := call.Common().StaticCallee(); h != nil && depth < 2 && h.Blocks != nil && h.Signature.Recv() != nil && len(h.Params) > 0 &&
					types.Identical(h.Signature.Recv().Type(), g.Signature.Recv().Type()) && engine.Unwrap(args[0]) == ssa.Value(g.Params[0]) {
					if encOn(h, depth+1) {
						return true
					}
				}
			}
			return false
		}
		ok = encOn(f, 0)
		r.Check(ok, "C18-R4", c.fn+"|hash over the object's own full encoding", p.Pos(f.Pos()), "calls "+strings.Join(c.enc, "|")+" on the receiver", "hash is not computed from the receiver's full encoding")
	}
	r.Floor("C18-R4", 13, "13 hash functions")
}

// isRepoContainer: the field's type is (a pointer to / slice / map of) a repo struct type.
func isRepoContainer(k fkey) bool {
	st := k.owner.Underlying().(*types.Struct)
	for i := 0; i < st.NumFields(); i++ {
		if st.Field(i).Name() != k.field {
			continue
		}
		t := st.Field(i).Type()
		for {
			switch x := t.(type) {
			case *types.Pointer:
				t = x.Elem()
				continue
			case *types.Slice:
				t = x.Elem()
				continue
			case *types.Map:
				t = x.Elem()
				continue
			}
			break
		}
		if n, ok := t.(*types.Named); ok && n.Obj().Pkg() != nil && engine.IsRepoPkg(n.Obj().Pkg()) {
			_, isStruct := n.Underlying().(*types.Struct)
			return isStruct
		}
	}
	return false
}

// ---------------------------------------------------------------- R7
// (a) decoders: a slice stored into the decoded object inside a loop does not share its backing
// array with the slice stored by another iteration (its ancestry through append / re-slicing does
// not pass a value carried around the loop in which it is stored); (b) hashing: a pooled hasher is
// not used after, and does not escape past, its Put — crypto.Hash is a function of its input only.
func c18R7(p *engine.Prog, r *engine.Report, cts []*codecType) {
	n := 0
	for _, ct := range cts {
		for _, f := range closureOf(ct.dec) {
			if f.Blocks == nil {
				continue
			}
			for _, b := range f.Blocks {
				hdr := enclosingLoopHeader(b)
				if hdr == nil {
					continue
				}
				for _, ins := range b.Instrs {
					var val ssa.Value
					switch x := ins.(type) {
					case *ssa.MapUpdate:
						val = x.Value
					case *ssa.Store:
						// only destinations that differ per iteration: an element, or a field of an
						// object created in this iteration (accumulating into one field is not aliasing)
						switch a := x.Addr.(type) {
						case *ssa.IndexAddr:
							val = x.Val
						case *ssa.FieldAddr:
							if al, isAl := engine.Unwrap(a.X).(*ssa.Alloc); isAl && loopBlocks(hdr)[al.Block()] {
								val = x.Val
							}
						}
					}
					if val == nil {
						continue
					}
					if _, isSl := val.Type().Underlying().(*types.Slice); !isSl {
						continue
					}
					n++
					carried := false
					seen := map[ssa.Value]bool{}
					var walk func(v ssa.Value)
					walk = func(v ssa.Value) {
						v = engine.Unwrap(v)
						if seen[v] || len(seen) > 200 {
							return
						}
						seen[v] = true
						switch x := v.(type) {
						case *ssa.Phi:
							if x.Block() == hdr {
								carried = true
								return
							}
							for _, e := range x.Edges {
								walk(e)
							}
						case *ssa.Slice:
							walk(x.X)
						case *ssa.Call:
							if bi, isB := x.Call.Value.(*ssa.Builtin); isB && bi.Name() == "append" {
								walk(x.Call.Args[0])
							}
						case *ssa.UnOp:
							if a, isA := x.X.(*ssa.Alloc); isA && x.Op == token.MUL {
								// a local slice variable kept in a cell: allocated outside the loop and assigned inside it
								if !loopBlocks(hdr)[a.Block()] {
									for _, st := range engine.StoresTo(a) {
										if loopBlocks(hdr)[st.Block()] {
											carried = true
										}
									}
								}
							}
						}
					}
					walk(val)
					if carried {
						r.Bad("C18-R7", uniq(r, ct.named.Obj().Name()+"|"+engine.RelName(f)+" stores a slice whose backing array is carried across iterations"), p.InstrPos(ins), "the slice stored here is built on a value the enclosing loop carries from one iteration to the next (re-sliced to [:0] / appended to): every element stored by the loop shares one backing array, later iterations overwrite what earlier ones decoded — the object does not decode to what was encoded")
					}
				}
			}
		}
	}
	r.OK("C18-R7", "decoders|slices stored inside loops are per iteration", "", itoa(int64(n))+" slice stores inside decoder loops scanned")
	if n < 5 {
		r.Und("C18-R7", "decoders|scan size", "", "only "+itoa(int64(n))+" slice stores inside loops found")
	}
	// (b) pools
	puts := 0
	for _, f := range p.AllFuncs() {
		if pk := engine.FuncPkg(f); pk == nil || !engine.IsRepoPkg(pk) || f.Synthetic != "" || f.Blocks == nil || isTestish(p.Pos(f.Pos())) {
			continue
		}
		for _, c := range engine.Calls(f) {
			if o := engine.CalleeObj(c.Common()); o != nil && o.Name() == "Put" && o.Pkg() != nil && o.Pkg().Path() == "sync" {
				puts++
			}
		}
		for _, bad := range poolUseAfterPut(f) {
			r.Bad("C18-R7", uniq(r, engine.RelName(f)+"|pooled object used after (or returned past) its Put"), p.InstrPos(bad), "the object is back in the sync.Pool while this function (or its caller) still uses it: a concurrent Get hands the same hasher/buffer to another goroutine, digests and encodings stop being functions of their input")
		}
	}
	r.Check(puts >= 3, "C18-R7", "repo|sync.Pool objects are not used after Put", "", itoa(int64(puts))+" Put sites scanned", "fewer Put sites than confirmed by reading (keccak, shake, rlp encbuf, log buffer)")
}
