package props

import (
	"golang.org/x/tools/go/ssa"

	"idenaverif/internal/engine"
)

func detAnalyse(p *engine.Prog, r *engine.Report, rule string, entries []*ssa.Function, floor int) {
	r.Note(rule, "determinism analysis", "-", "not built yet")
}
