package props

import (
	"go/token"
	"go/types"

	"golang.org/x/tools/go/ssa"

	"idenaverif/internal/engine"
)

func init() { register("C06", C06) }

// C06 — no transaction applied twice; nonces advance strictly per epoch.
func C06(p *engine.Prog, r *engine.Report) {
	r.Explanation = "All-paths rules on blockchain.applyTxOnState and its feeders: (R1) every call that can mutate consensus state is reachable only through the pass edges of the exact epoch gate (tx.Epoch == global epoch) and the exact next-nonce gate (currentNonce+1 == tx.AccountNonce, currentNonce = phi(account nonce, 0 iff account epoch < global epoch)); (R2) every non-error return passes SetNonce(sender, tx.AccountNonce) and SetEpoch(sender, tx.Epoch) (or the equal-epoch edge); (R3) who-may-write Account.Nonce / Account.Epoch / Global.Epoch, derived from core/state's own field effects: nonce reset only via ClearAccount<-clearDustAccounts<-applyNewEpoch together with IncEpoch; (R5) both signing digests selectable by types.Sender read AccountNonce and Epoch; (R4) processTxs/filterTxs complete a loop iteration / include a tx only through ValidateTx==nil and applyTxOnState==nil; ValidateTx rejects the zero sender. Uniqueness of a tx on a chain then follows (strictly increasing (epoch, nonce) per sender) by a pen-and-paper argument, not by the tool."
	r.Assumptions = []string{"integer comparison/addition semantics of Go", "signature recovery (types.Sender) is injective on distinct signers (cryptographic)", "uint32 nonce overflow not considered"}
	sm := getStateModel(p)
	mm := mayMutate(p)
	apply := mustFunc(p, r, "blockchain", "Blockchain.applyTxOnState")
	if apply == nil {
		return
	}
	tx := ssa.Value(apply.Params[1])
	// sender := types.Sender(tx)
	var sender ssa.Value
	for _, c := range callsTo(apply, "blockchain/types.Sender") {
		if engine.Origin(c.Common().Args[0]) == tx {
			for _, ref := range *c.(*ssa.Call).Referrers() {
				if ex, ok := ref.(*ssa.Extract); ok && ex.Index == 0 {
					sender = ex
				}
			}
		}
	}
	if sender == nil {
		r.Errorf("applyTxOnState: sender := types.Sender(tx) not found")
		return
	}
	isSender := func(v ssa.Value) bool { return engine.Origin(v) == sender }
	// account object of the sender, global object
	isSenderAcc := func(v ssa.Value) bool {
		c, ok := engine.Origin(v).(*ssa.Call)
		return ok && engine.CallIs(c, "core/state.StateDB.GetOrNewAccountObject") && isSender(c.Call.Args[1])
	}
	isGlobalEpoch := func(v ssa.Value) bool {
		c, ok := engine.Unwrap(v).(*ssa.Call)
		if !ok {
			return false
		}
		return engine.CallIs(c, "core/state.stateGlobal.Epoch", "core/state.StateDB.Epoch")
	}
	isAccEpoch := func(v ssa.Value) bool {
		c, ok := engine.Unwrap(v).(*ssa.Call)
		return ok && engine.CallIs(c, "core/state.stateAccount.Epoch") && isSenderAcc(c.Call.Args[0])
	}
	isAccNonce := func(v ssa.Value) bool {
		c, ok := engine.Unwrap(v).(*ssa.Call)
		return ok && engine.CallIs(c, "core/state.stateAccount.Nonce") && isSenderAcc(c.Call.Args[0])
	}

	// ---- gates
	var epochG, nonceG []engine.Guard
	for _, i := range engine.Ifs(apply) {
		x, y, isEq, ok := eqCond(i.Cond)
		if !ok {
			continue
		}
		for _, pr := range [][2]ssa.Value{{x, y}, {y, x}} {
			if txFieldLoad(pr[0], tx, "Epoch") && isGlobalEpoch(pr[1]) {
				epochG = append(epochG, engine.Guard{If: i, PassTrue: isEq, Note: "tx.Epoch == globalEpoch"})
			}
			if txFieldLoad(pr[0], tx, "AccountNonce") {
				// other side: V + 1
				b, ok := engine.Unwrap(pr[1]).(*ssa.BinOp)
				if !ok || b.Op != token.ADD {
					continue
				}
				var v ssa.Value
				if k, isC := engine.ConstInt(b.Y); isC && k == 1 {
					v = b.X
				} else if k, isC := engine.ConstInt(b.X); isC && k == 1 {
					v = b.Y
				} else {
					continue
				}
				if okNonceSource(v, isAccNonce, isAccEpoch, isGlobalEpoch) {
					nonceG = append(nonceG, engine.Guard{If: i, PassTrue: isEq, Note: "currentNonce+1 == tx.AccountNonce"})
				}
			}
		}
	}
	r.Check(len(epochG) > 0, "C06-R1", "applyTxOnState|gate tx.Epoch == global epoch", p.Pos(apply.Pos()), "exact comparison found", "no exact ==/!= comparison of tx.Epoch with the global epoch")
	r.Check(len(nonceG) > 0, "C06-R1", "applyTxOnState|gate currentNonce+1 == tx.AccountNonce", p.Pos(apply.Pos()), "exact comparison; currentNonce = phi(sender nonce, 0 iff sender epoch < global epoch)", "no exact next-nonce comparison with the required currentNonce derivation")

	// ---- every mutating call is behind both gates
	nMut := 0
	for _, f := range append([]*ssa.Function{apply}, engine.Anon(apply)...) {
		for _, c := range engine.Calls(f) {
			what := ""
			if name, _, ok := sm.mutatorCall(c); ok {
				what = name
			} else {
				for _, cal := range p.SiteCallees(c) {
					if mm[cal] && !isNonConsensusSink(cal) {
						what = engine.RelName(cal)
						break
					}
				}
			}
			if what == "" {
				continue
			}
			nMut++
			blk := c.Block()
			if f != apply {
				// closure: judged at its creation site
				blk = nil
				for _, b := range apply.Blocks {
					for _, in := range b.Instrs {
						if mc, ok := in.(*ssa.MakeClosure); ok && (mc.Fn == f || isAncestor(mc.Fn.(*ssa.Function), f)) {
							blk = b
						}
					}
				}
				if blk == nil {
					r.Und("C06-R1", engine.RelName(f)+"|"+what, p.InstrPos(c), "closure creation site not found")
					continue
				}
			}
			ok := len(epochG) > 0 && len(nonceG) > 0 && engine.OnlyThroughPass(apply, blk, epochG) && engine.OnlyThroughPass(apply, blk, nonceG)
			r.Check(ok, "C06-R1", engine.RelName(f)+"|"+what, p.InstrPos(c), "behind epoch and nonce gates", "state-mutating call reachable without passing the epoch/nonce gates")
		}
	}
	r.Floor("C06-R1", 60, "measured: 75 mutating call sites in applyTxOnState (2 gates + 73 sites)")

	// ---- R2: success returns pass SetNonce / SetEpoch
	var setNonce, setEpoch []ssa.Instruction
	for _, c := range callsTo(apply, "core/state.StateDB.SetNonce") {
		a := c.Common().Args
		if isSender(a[1]) && txFieldLoad(a[2], tx, "AccountNonce") {
			setNonce = append(setNonce, c)
		} else if isSender(a[1]) && len(nonceG) > 0 {
			// equivalent form behind the gate: SetNonce(sender, currentNonce+1)
			if b, ok := engine.Unwrap(a[2]).(*ssa.BinOp); ok && b.Op == token.ADD {
				nb, _ := nonceG[0].If.Cond.(*ssa.BinOp)
				if nb != nil {
					for _, side := range []ssa.Value{nb.X, nb.Y} {
						if sb, ok := engine.Unwrap(side).(*ssa.BinOp); ok && sb.Op == token.ADD && sb.X == b.X && engine.PathOf(sb.Y) == engine.PathOf(b.Y) {
							setNonce = append(setNonce, c)
						}
					}
				}
			}
		}
	}
	for _, c := range callsTo(apply, "core/state.StateDB.SetEpoch") {
		a := c.Common().Args
		if isSender(a[1]) && txFieldLoad(a[2], tx, "Epoch") {
			setEpoch = append(setEpoch, c)
		}
	}
	// equal-epoch edge: If(acc.Epoch() ==/!= tx.Epoch)
	var sameEpoch []engine.Guard
	for _, i := range engine.Ifs(apply) {
		x, y, isEq, ok := eqCond(i.Cond)
		if !ok {
			continue
		}
		for _, pr := range [][2]ssa.Value{{x, y}, {y, x}} {
			if isAccEpoch(pr[0]) && txFieldLoad(pr[1], tx, "Epoch") {
				sameEpoch = append(sameEpoch, engine.Guard{If: i, PassTrue: isEq})
			}
		}
	}
	nRet := 0
	for _, ret := range engine.Returns(apply) {
		if isRecoverBlock(ret.Block()) {
			continue
		}
		k := retErrKind(ret)
		if k == "nonnil" {
			continue
		}
		nRet++
		ok1 := engine.MustPassInstr(apply, ret, setNonce)
		r.Check(ok1, "C06-R2", "applyTxOnState|success return passes SetNonce(sender, tx.AccountNonce)", p.InstrPos(ret), "on every path", "a non-error return does not pass SetNonce(sender, tx.AccountNonce)")
		// SetEpoch or equal edge
		cutB := map[*ssa.BasicBlock]bool{}
		for _, c := range setEpoch {
			cutB[c.Block()] = true
		}
		cutE := map[engine.Edge]bool{}
		for _, g := range sameEpoch {
			cutE[g.PassEdge()] = true
		}
		ok2 := len(setEpoch) > 0 && !engine.ReachAvoiding(apply, nil, cutE, cutB)[ret.Block()]
		r.Check(ok2, "C06-R2", "applyTxOnState|success return passes SetEpoch(sender, tx.Epoch) unless equal", p.InstrPos(ret), "on every path", "a non-error return can skip SetEpoch(sender, tx.Epoch) while the account epoch differs")
	}
	r.Floor("C06-R2", 2, "one success return, two obligations")

	// ---- R3: who may write nonce / epoch
	expectWriters := map[string]map[string]bool{
		"Account.Nonce": {"StateDB.SetNonce": true, "StateDB.ClearAccount": true, "StateDB.SetPredefinedAccounts": true},
		"Account.Epoch": {"StateDB.SetEpoch": true, "StateDB.SetPredefinedAccounts": true},
		"Global.Epoch":  {"StateDB.IncEpoch": true, "StateDB.SetGlobalEpoch": true, "StateDB.SetPredefinedGlobal": true},
	}
	for field, allowed := range expectWriters {
		got := map[string]bool{}
		for f, ws := range sm.mutators {
			for _, w := range ws {
				if w == field {
					got[engine.RelName(f)] = true
				}
			}
		}
		ok := len(got) > 0
		for g := range got {
			if !allowed[g] {
				ok = false
			}
		}
		r.Check(ok, "C06-R3", "writers("+field+")", "core/state", joinKeys(got), "unexpected writer of "+field+": "+joinKeys(got))
	}
	allowedCallers := map[string][]string{
		"core/state.StateDB.SetNonce":       {"blockchain.Blockchain.applyTxOnState"},
		"core/state.StateDB.SetEpoch":       {"blockchain.Blockchain.applyTxOnState"},
		"core/state.StateDB.ClearAccount":   {"blockchain.clearDustAccounts", "blockchain.clearDustAccounts$1"},
		"core/state.StateDB.IncEpoch":       {"blockchain.Blockchain.applyNewEpoch"},
		"core/state.StateDB.SetGlobalEpoch": {},
	}
	for id, allowed := range allowedCallers {
		f := sm.byID[id]
		if f == nil {
			r.Errorf("anchor %s not found", id)
			continue
		}
		cs := callerNames(p, f)
		ok := true
		for c := range cs {
			found := false
			for _, a := range allowed {
				if a == c {
					found = true
				}
			}
			// tests / genesis helpers are not loaded (Tests:false); predefined-state loaders:
			if !found && id == "core/state.StateDB.SetGlobalEpoch" {
				ok = false
			}
			if !found && id != "core/state.StateDB.SetGlobalEpoch" {
				ok = false
			}
		}
		r.Check(ok, "C06-R3", "callers("+id+")", p.Pos(f.Pos()), joinKeys(cs), "unexpected caller: "+joinKeys(cs))
	}
	// clearDustAccounts only from applyNewEpoch, together with IncEpoch on every path
	if cd, err := p.Func("blockchain", "clearDustAccounts"); err == nil {
		cs := callerNames(p, cd)
		r.Check(len(cs) == 1 && cs["blockchain.Blockchain.applyNewEpoch"], "C06-R3", "callers(clearDustAccounts)", p.Pos(cd.Pos()), joinKeys(cs), "unexpected caller: "+joinKeys(cs))
		if ane := mustFunc(p, r, "blockchain", "Blockchain.applyNewEpoch"); ane != nil {
			inc := callsTo(ane, "core/state.StateDB.IncEpoch")
			for _, c := range callsTo(ane, "blockchain.clearDustAccounts") {
				// IncEpoch dominates the clear, or every path from the clear to an exit passes IncEpoch
				ok := false
				var incI []ssa.Instruction
				for _, i := range inc {
					incI = append(incI, i)
				}
				if engine.MustPassInstr(ane, c, incI) {
					ok = true
				} else {
					cut := map[*ssa.BasicBlock]bool{}
					sameBlockAfter := false
					for _, i := range inc {
						if i.Block() == c.Block() && engine.InstrIndex(i) > engine.InstrIndex(c) {
							sameBlockAfter = true
						}
						cut[i.Block()] = true
					}
					if sameBlockAfter {
						ok = true
					} else {
						reach := engine.ReachAvoiding(ane, c.Block(), nil, cut)
						ok = len(inc) > 0
						for b := range reach {
							if len(b.Instrs) > 0 {
								if _, isRet := b.Instrs[len(b.Instrs)-1].(*ssa.Return); isRet {
									ok = false
								}
							}
						}
					}
				}
				r.Check(ok, "C06-R3", "applyNewEpoch|clearDustAccounts with IncEpoch", p.InstrPos(c), "nonce reset happens only together with an epoch increment", "dust clearing (nonce reset) can happen without IncEpoch on some path")
			}
		}
	} else {
		r.Errorf("anchor clearDustAccounts: %v", err)
	}
	r.Floor("C06-R3", 9, "3 field writer sets + 5 caller sets + pairing")

	// ---- R4: feeders
	for _, name := range []string{"Blockchain.processTxs", "Blockchain.filterTxs"} {
		f := mustFunc(p, r, "blockchain", name)
		if f == nil {
			continue
		}
		var vg, ag []engine.Guard
		var applyCalls []*ssa.Call
		for _, c := range engine.Calls(f) {
			cc, ok := c.(*ssa.Call)
			if !ok {
				continue
			}
			if engine.CallIs(c, "blockchain/validation.ValidateTx") {
				vg = append(vg, nilErrGuards(f, cc)...)
			}
			if engine.CallIs(c, "blockchain.Blockchain.applyTxOnState") {
				ag = append(ag, nilErrGuards(f, cc)...)
				applyCalls = append(applyCalls, cc)
			}
		}
		// the validation step extracted into a same-package helper: its success (true / nil error) is
		// reached only behind ValidateTx==nil inside it; a test of its result then guards like the call
		var helperTx []ssa.Value
		for _, c := range engine.Calls(f) {
			cc, ok := c.(*ssa.Call)
			if !ok {
				continue
			}
			h := cc.Call.StaticCallee()
			if h == nil || h.Blocks == nil || h.Pkg != f.Pkg {
				continue
			}
			hv := callsTo(h, "blockchain/validation.ValidateTx")
			if len(hv) != 1 {
				continue
			}
			hvc, isCall := hv[0].(*ssa.Call)
			if !isCall || h.Signature.Results().Len() != 1 {
				continue
			}
			hg := nilErrGuards(h, hvc)
			good := len(hg) > 0
			isBool := types.Identical(h.Signature.Results().At(0).Type(), types.Typ[types.Bool])
			for _, ret := range engine.Returns(h) {
				if isBool {
					if b, isC := engine.ConstBool(ret.Results[0]); isC && !b {
						continue
					}
				} else if retErrKind(ret) == "nonnil" {
					continue
				}
				if !engine.OnlyThroughPassRet(h, ret, hg) {
					good = false
				}
			}
			if !good {
				continue
			}
			if isBool {
				vg = append(vg, guardsWhere(f, func(cond ssa.Value) (bool, bool, string) {
					x, neg := stripNot(cond)
					if x == ssa.Value(cc) {
						return true, !neg, "validating helper returned true"
					}
					return false, false, ""
				})...)
			} else {
				vg = append(vg, nilErrGuards(f, cc)...)
			}
			if par, ok := engine.Origin(hvc.Call.Args[1]).(*ssa.Parameter); ok {
				for j, q := range h.Params {
					if q == par && j < len(cc.Call.Args) {
						helperTx = append(helperTx, cc.Call.Args[j])
					}
				}
			}
		}
		// the tx passed to both must be the same loop element
		for _, ac := range applyCalls {
			okV := engine.OnlyThroughPass(f, ac.Block(), vg)
			r.Check(okV, "C06-R4", engine.RelName(f)+"|applyTxOnState behind ValidateTx==nil", p.InstrPos(ac), "dominated by the nil-error edge", "applyTxOnState reachable without a successful ValidateTx")
			same := false
			for _, c := range callsTo(f, "blockchain/validation.ValidateTx") {
				if engine.Origin(c.Common().Args[1]) == engine.Origin(ac.Call.Args[1]) {
					same = true
				}
			}
			for _, ht := range helperTx {
				if engine.Origin(ht) == engine.Origin(ac.Call.Args[1]) {
					same = true
				}
			}
			r.Check(same, "C06-R4", engine.RelName(f)+"|same tx validated and applied", p.InstrPos(ac), "same value", "ValidateTx and applyTxOnState receive different transactions")
		}
		if name == "Blockchain.processTxs" {
			// no loop iteration completes, and no success return is reached, without both pass edges:
			// check the success return: cut pass edges => success return reachable only with zero iterations;
			// so instead require: every back edge source into the loop header is behind both.
			for _, ac := range applyCalls {
				hdr := engine.LoopHeaderOf(ac.Block())
				if hdr == nil {
					r.Und("C06-R4", "processTxs|loop", p.InstrPos(ac), "tx loop not found")
					continue
				}
				ok := backEdgesGuarded(f, hdr, vg) && backEdgesGuarded(f, hdr, ag)
				r.Check(ok, "C06-R4", "processTxs|iteration completes only via ValidateTx==nil && applyTxOnState==nil", p.InstrPos(ac), "all back edges guarded", "a loop iteration can complete without both checks passing")
			}
		} else {
			// filterTxs: append to the result slice only behind both
			n := 0
			for _, c := range engine.Calls(f) {
				if b, ok := c.Common().Value.(*ssa.Builtin); ok && b.Name() == "append" {
					if engine.TypeID(sliceElem(c.Common().Args[0].Type())) == "blockchain/types.Transaction" {
						n++
						ok := engine.OnlyThroughPass(f, c.Block(), vg) && engine.OnlyThroughPass(f, c.Block(), ag)
						r.Check(ok, "C06-R4", "filterTxs|tx included only via ValidateTx==nil && applyTxOnState==nil", p.InstrPos(c), "append guarded", "a transaction can be included without both checks passing")
					}
				}
			}
			if n == 0 {
				r.Und("C06-R4", "filterTxs|append(result, tx)", p.Pos(f.Pos()), "inclusion site not found")
			}
		}
	}
	// ValidateTx rejects an unrecoverable signer (zero address)
	if vt := mustFunc(p, r, "blockchain/validation", "ValidateTx"); vt != nil {
		var g []engine.Guard
		for _, i := range engine.Ifs(vt) {
			x, y, isEq, ok := eqCond(i.Cond)
			if !ok {
				continue
			}
			for _, pr := range [][2]ssa.Value{{x, y}, {y, x}} {
				o := engine.Origin(pr[0])
				if ex, ok := o.(*ssa.Extract); ok && ex.Index == 0 {
					if c, ok := ex.Tuple.(*ssa.Call); ok && engine.CallIs(c, "blockchain/types.Sender") && isZeroAddr(pr[1]) {
						g = append(g, engine.Guard{If: i, PassTrue: !isEq})
					}
				}
			}
		}
		okAll := len(g) > 0
		for _, ret := range engine.Returns(vt) {
			if retErrKind(ret) == "nonnil" {
				continue
			}
			if !engine.OnlyThroughPassRet(vt, ret, g) {
				okAll = false
			}
		}
		r.Check(okAll, "C06-R4", "ValidateTx|zero sender rejected", p.Pos(vt.Pos()), "every non-error return is behind sender != Address{}", "ValidateTx can succeed for a transaction whose signer could not be recovered")
	}
	r.Floor("C06-R4", 7, "2x(guarded apply + same tx) + loop/append + zero sender")

	// ---- R5: both digests that types.Sender can use bind nonce and epoch to the signer
	pkT := p.ByPath[engine.RepoMod+"/blockchain/types"]
	if pkT != nil {
		if txT, ok := pkT.Types.Scope().Lookup("Transaction").Type().(*types.Named); ok {
			ms := methodsOf(p, txT)
			sigReads := map[fkey]bool{}
			if f := ms["ToSignatureBytes"]; f != nil {
				sigReads = fieldReads(closureOf([]*ssa.Function{f}))
			}
			sh, _ := p.Func("blockchain/types", "signatureHash")
			rlpReads := map[fkey]bool{}
			if sh != nil {
				rlpReads = fieldReads([]*ssa.Function{sh})
			}
			for _, fld := range []string{"AccountNonce", "Epoch"} {
				k := fkey{txT, fld}
				r.Check(sigReads[k], "C06-R5", "Transaction.ToSignatureBytes|binds "+fld, "blockchain/types", "read by the signed encoding", fld+" is not covered by the signature: an included tx can be re-injected with another "+fld)
				r.Check(rlpReads[k], "C06-R5", "signatureHash (legacy RLP digest)|binds "+fld, "blockchain/types", "listed in the legacy digest", fld+" is not covered by the legacy RLP digest: an included UseRlp tx can be re-injected with another "+fld)
			}
		}
	}
	r.Floor("C06-R5", 4, "2 digests x (nonce, epoch)")
	// ---------------- R6: no transaction enters the chain unapplied
	processTxsExhaustiveRule(p, r, "C06-R6")
	r.Floor("C06-R6", 1, "processTxs")
	// ---------------- R7: a chain restarted from a predefined state keeps (nonce, epoch) of every account
	predefinedImportRule(p, r, "C06-R7", map[string]bool{"ProtoPredefinedState_Account": true})
	// ---------------- R8: the signature is what ties nonce and epoch to the account; the writes of both are unconditional
	c05R6(p, r, "C06-R8")
	unconditionalSetterRule(p, r, "C06-R8", "SetNonce", "stateAccount", "setNonce", "Nonce")
	unconditionalSetterRule(p, r, "C06-R8", "SetEpoch", "stateAccount", "setEpoch", "Epoch")
	// ---------------- R9: nothing enters the pool unvalidated, whatever its origin (re-injected after a reorg,
	// restored by the keeper, parked during sync): TxPool.add reaches put only behind validate(...) == nil
	if add := mustFunc(p, r, "core/mempool", "TxPool.add"); add != nil {
		r.Fn(engine.FuncName(add))
		var g []engine.Guard
		for _, c := range callsTo(add, "core/mempool.TxPool.validate") {
			if cv, ok := c.(*ssa.Call); ok {
				g = append(g, nilErrGuards(add, cv)...)
			}
		}
		n := 0
		for _, c := range callsTo(add, "core/mempool.TxPool.put") {
			n++
			r.Check(len(g) > 0 && engine.OnlyThroughPass(add, c.Block(), g), "C06-R9", "TxPool.add|a transaction is stored only after validate(...) == nil", p.InstrPos(c), "behind the nil-error edge of pool.validate", "some kind of submission reaches put without validation (e.g. transactions re-injected after a reorg): an already included transaction sits in the pool again, is announced to peers and offered to the builder until the next pruning pass")
		}
		if n == 0 {
			r.Und("C06-R9", "TxPool.add|store", p.Pos(add.Pos()), "put not called")
		}
	}
	r.Floor("C06-R7", 4, "Address, Balance, Nonce, Epoch, ContractData")
}

func okNonceSource(v ssa.Value, isAccNonce, isAccEpoch, isGlobalEpoch func(ssa.Value) bool) bool {
	v = engine.Unwrap(v)
	if isAccNonce(v) {
		return true // no reset at all is stricter (would reject the first tx of an epoch) but safe
	}
	ph, ok := v.(*ssa.Phi)
	if !ok || len(ph.Edges) != 2 {
		return false
	}
	for i, e := range ph.Edges {
		other := ph.Edges[1-i]
		k, isC := engine.ConstInt(e)
		if !isC || k != 0 || !isAccNonce(other) {
			continue
		}
		// the zero edge must be selected by `acc.Epoch() < global.Epoch()` (true edge)
		pred := ph.Block().Preds[i]
		// find the If that decides between pred and the other pred
		for d := pred; d != nil; d = d.Idom() {
			if len(d.Instrs) == 0 {
				continue
			}
			ifi, isIf := d.Instrs[len(d.Instrs)-1].(*ssa.If)
			if !isIf {
				continue
			}
			b, isB := ifi.Cond.(*ssa.BinOp)
			if !isB {
				return false
			}
			lt := b.Op == token.LSS && isAccEpoch(b.X) && isGlobalEpoch(b.Y)
			gt := b.Op == token.GTR && isGlobalEpoch(b.X) && isAccEpoch(b.Y)
			if !(lt || gt) {
				return false
			}
			// zero edge must be reached only via the true successor
			cut := map[engine.Edge]bool{{From: d, Succ: 0}: true}
			reach := engine.ReachAvoiding(d.Parent(), d, cut, nil)
			// pred reachable from d without the true edge? then zero not exclusively on true edge
			if pred == d {
				// zero edge comes directly from the If block: it must be the true successor
				return d.Succs[0] == ph.Block() && d.Succs[1] != ph.Block()
			}
			return !reach[pred]
		}
	}
	return false
}

func isAncestor(anc, f *ssa.Function) bool {
	for g := f; g != nil; g = g.Parent() {
		if g == anc {
			return true
		}
	}
	return false
}

func isZeroAddr(v ssa.Value) bool {
	v = engine.Unwrap(v)
	if c, ok := v.(*ssa.Const); ok {
		return c.Value == nil // zero value of an array type renders as nil-valued Const
	}
	// load of a fresh zero-initialised local (complit Address{})
	if u, ok := v.(*ssa.UnOp); ok && u.Op == token.MUL {
		if a, ok := u.X.(*ssa.Alloc); ok {
			return len(engine.StoresTo(a)) == 0 && (a.Referrers() == nil || len(*a.Referrers()) == 1)
		}
	}
	return false
}
