package props

import (
	"fmt"
	"golang.org/x/tools/go/ssa"
	"os"
	"sort"
	"strings"

	"idenaverif/internal/engine"
)

func init() { register("C01", C01) }

// e01 is the entry set of the state transition (DESIGN §3 C01).
func e01(p *engine.Prog, r *engine.Report) []*ssa.Function {
	type e struct{ pkg, fn string }
	list := []e{
		{"blockchain", "Blockchain.applyBlockOnState"}, {"blockchain", "Blockchain.applyEmptyBlockOnState"},
		{"blockchain", "Blockchain.processTxs"}, {"blockchain", "Blockchain.applyTxOnState"},
		{"blockchain", "Blockchain.calculateFlags"}, {"blockchain", "calculateTxBloom"},
		{"blockchain", "Blockchain.prepareBlockRewardCtx"}, {"blockchain", "Blockchain.generateEmptyBlock"},
		{"blockchain", "Blockchain.validateBlock"}, {"blockchain", "Blockchain.filterTxs"},
		{"core/ceremony", "ValidationCeremony.ApplyNewEpoch"},
		{"core/state", "StateDB.Precommit"}, {"core/state", "IdentityStateDB.Precommit"},
		{"core/validators", "ValidatorsCache.GetOnlineValidators"}, {"core/validators", "ValidatorsCache.UpdateFromIdentityStateDiff"},
		{"core/validators", "ValidatorsCache.loadValidNodes"},
		{"config", "ValidationConfig.GetNextValidationTime"},
		{"vm", "VmImpl.Run"}, {"vm/wasm", "WasmVM.Run"},
	}
	var out []*ssa.Function
	for _, x := range list {
		if f := mustFunc(p, r, x.pkg, x.fn); f != nil {
			out = append(out, f)
		}
	}
	return out
}

// C01 — the state transition is a pure function of (prior state, block).
func C01(p *engine.Prog, r *engine.Report) {
	r.Explanation = "Effect analysis over the reach set of the state-transition entry points (validateBlock, processTxs, applyTxOnState, applyBlockOnState, ApplyNewEpoch, Precommit, committee draw, validators cache rebuild/update, VM): (A1) every call into the wall clock, process-global or crypto randomness, host environment, goroutine start or multi-way select is either discharged by a checked reason (explicitly seeded PRNG; clock value flowing only into log/stats sinks) or a confirmed instance; (A2) zone-sensitive time.Time methods are applied only to values normalised to UTC (time.Unix yields host-local time), following parameters to their callers; (A3) every iteration in unspecified order (range over a map, mapset ToSlice/Each, sync.Map.Range, loops over collections returned unsorted by such loops) has only order-insensitive effects by a recognised idiom (no effect / pure search / keyed or idempotent or exact-integer writes / collect-then-sort) or is an instance confirmed by reading whose effect fingerprint (outer stores, map updates, state mutators by written field, loop-carried values, big.Float accumulation, early exits, callbacks) is unchanged; (R4) Precommit commits every dirty set in sorted key order; (R5) the validator view used by the transition is rebuilt from an empty state on Load (a node that rolled back computes from the same view as a fresh one). Decides absence of the named node-local dependences in the transition code; does not decide cache freshness across restart/reorg (except the memo rules of C17/C10/C08), float rounding inside a fixed order, the Rust WASM runtime."
	r.Assumptions = []string{"sort comparators are total on distinct keys", "log/ and stats/ do not feed back into consensus state (cut from the reach set)", "cgo WASM runtime and IAVL are deterministic (trusted base)", "func-value calls are resolved lexically (closures defined in reachable functions)"}
	entries := e01(p, r)
	if len(entries) == 0 {
		return
	}
	runDeterminism(p, r, "C01", entries, 40)
	c01R4(p, r)
	// node history (rolled back / reused cache): the validator view is rebuilt from scratch
	cacheRebuildRule(p, r, "C01-R5", validatorsCacheContainers(p))
	r.Floor("C01-R5", 6, "container fields of ValidatorsCache")
	c01R6(p, r, "C01-R6", entries)
	// R7: the same block applied on any kind of derived view gives the same result
	viewConstructorsAgreeRule(p, r, "C01-R7")
	// ---------------- R8/R9: nodes with different histories (restarted, fast-synced, reorged) hold the same
	// derived data: shared with the properties that own the mechanisms
	c07R5(p, r, "C01-R8")
	importRules(p, r, "C10", map[string]string{"C10-R4": "C01-R8", "C10-R5": "C01-R8", "C10-R6": "C01-R8", "C10-R7": "C01-R8"})
	importRules(p, r, "C17", map[string]string{"C17-R3": "C01-R9", "C17-R5": "C01-R9", "C17-R7": "C01-R9", "C17-R9": "C01-R9"})
	r.Floor("C01-R7", 3, "view constructors")
}

// c01R6: node-local chain position. The transition is a function of (prior state, block, parent
// header): inside its reach set no field of the node object that records where THIS node stands
// (Blockchain.Head, PreliminaryHead, isSyncing, genesisInfo is chain data and allowed) is read. The
// builder's own use of the head happens in ProposeBlock, outside the reach set; filterTxs/validateBlock
// get the header and the parent as parameters.
func c01R6(p *engine.Prog, r *engine.Report, rule string, entries []*ssa.Function) {
	local := map[string]bool{"Head": true, "PreliminaryHead": true, "isSyncing": true}
	own := map[string]bool{"appState": true}
	var badOwn []string
	// frozen by reading: one line of reason per exception
	exempt := map[string]string{
		"ValidationCeremony.shouldInteractWithNetwork": "gates only this node's own logging, broadcasts, key-sync stop and flip preloading (it also reads the wall clock, an A1 instance); no state write depends on it",
	}
	reach := detReach(p, entries)
	n := 0
	var bad []string
	seenF := map[string]bool{}
	for _, f := range engine.SortedFuncs(reach) {
		if f.Blocks == nil || isTestish(p.Pos(f.Pos())) {
			continue
		}
		n++
		for _, b := range f.Blocks {
			for _, ins := range b.Instrs {
				fa, ok := ins.(*ssa.FieldAddr)
				if !ok {
					continue
				}
				if o, fld, ok := engine.FieldOf(fa); ok && o == "Blockchain" && own[fld] {
					k := engine.RelName(f) + " reads chain." + fld
					if !seenF[k] {
						seenF[k] = true
						badOwn = append(badOwn, k+" at "+p.InstrPos(fa))
					}
				}
				if o, fld, ok := engine.FieldOf(fa); ok && o == "Blockchain" && local[fld] {
					if why, isEx := exempt[engine.RelName(f)]; isEx {
						r.Note(rule, engine.RelName(f)+"|exempt", p.InstrPos(fa), why)
						continue
					}
					k := engine.RelName(f) + " reads chain." + fld
					if !seenF[k] {
						seenF[k] = true
						bad = append(bad, k+" at "+p.InstrPos(fa))
					}
				}
			}
		}
	}
	if os.Getenv("VERIF_DEBUG_C01R6") != "" {
		for _, b := range bad {
			fmt.Fprintln(os.Stderr, "C01R6", b)
		}
	}
	r.Check(len(bad) == 0, rule, "transition reach set|no read of the node's own chain position", "", fmt.Sprintf("%d functions scanned for Blockchain.{Head,PreliminaryHead,isSyncing}", n), "the result of validating/applying a block depends on where this node's own head is: "+strings.Join(bad, "; "))
	// the node's own state object: every function of the reach set is handed the state it transforms;
	// reading chain.appState instead mixes in the view at this node's own head
	{
		sort.Strings(badOwn)
		for _, b := range badOwn {
			r.Bad(rule, "transition reach set|"+strings.SplitN(b, " at ", 2)[0], strings.SplitN(b, " at ", 2)[1], "the transition reads the node's own canonical state object instead of the state it was given: the result of applying a block to a given prior state depends on where this node's own head is")
		}
		if len(badOwn) == 0 {
			r.OK(rule, "transition reach set|no read of the node's own state object", "", fmt.Sprintf("%d functions scanned for Blockchain.appState", n))
		}
	}
	r.Floor(rule, 1, "reach set scan")
}

// c01R4: ordered commit — every tree write in Precommit happens inside a loop over a
// sorted key slice, for every dirty-set field of the state DBs.
func c01R4(p *engine.Prog, r *engine.Report) {
	for _, x := range []struct{ pkg, fn string }{{"core/state", "StateDB.Precommit"}, {"core/state", "IdentityStateDB.Precommit"}} {
		f := mustFunc(p, r, x.pkg, x.fn)
		if f == nil {
			continue
		}
		for _, c := range engine.Calls(f) {
			cal := c.Common().StaticCallee()
			if cal == nil {
				continue
			}
			name := cal.Name()
			isTreeWrite := false
			if len(name) > 6 && (name[:6] == "update" || name[:6] == "delete") && engine.FuncPkg(cal) != nil && engine.ShortPkg(engine.FuncPkg(cal).Path()) == "core/state" {
				isTreeWrite = true
			}
			if engine.CallNameIs(c, "Set", "Remove") {
				if o := engine.CalleeObj(c.Common()); o != nil && o.Pkg() != nil && engine.ShortPkg(o.Pkg().Path()) == "core/state" {
					isTreeWrite = true
				}
			}
			if !isTreeWrite {
				continue
			}
			hdr := engine.LoopHeaderOf(c.Block())
			key := engine.RelName(f) + "|" + name
			if hdr == nil {
				r.OK("C01-R4", key+" (single object)", p.InstrPos(c), "not in a loop")
				continue
			}
			// the loop must range over a slice produced by a sorting helper or sorted in this function
			ok := false
			why := ""
			for _, ins := range hdr.Instrs {
				_ = ins
			}
			// find the ranged slice: IndexAddr in the loop whose index is the header phi
			lb := loopBlocks(hdr)
			for b := range lb {
				for _, ins := range b.Instrs {
					ia, isIA := ins.(*ssa.IndexAddr)
					if !isIA {
						continue
					}
					src := engine.Origin(ia.X)
					if call, isC := src.(*ssa.Call); isC {
						if cal2 := call.Call.StaticCallee(); cal2 != nil && sortsItsResult(cal2) {
							ok, why = true, "ranges over "+cal2.Name()+"(…), which sorts its result"
						}
					}
					if sortedAfter(f, src) || sortedAfter(f, ia.X) {
						ok, why = true, "ranges over a slice sorted in this function"
					}
				}
			}
			// nested loop (per-contract keys): the outer header may carry the sorted slice
			if !ok {
				if outer := engine.LoopHeaderOf(hdr); outer != nil && outer != hdr {
					for b := range loopBlocks(outer) {
						for _, ins := range b.Instrs {
							if ia, isIA := ins.(*ssa.IndexAddr); isIA {
								if sortedAfter(f, engine.Origin(ia.X)) || sortedAfter(f, ia.X) {
									ok, why = true, "nested in a loop over a sorted slice"
								}
							}
						}
					}
				}
			}
			r.Check(ok, "C01-R4", key, p.InstrPos(c), why, "tree write inside a loop that does not range over a sorted key slice (commit order = iteration order = node-local)")
		}
	}
	r.Floor("C01-R4", 8, "update/delete calls of both Precommit functions")
}

// sortsItsResult: the function calls sort.* on a slice that it returns.
func sortsItsResult(f *ssa.Function) bool {
	for _, ret := range engine.Returns(f) {
		if len(ret.Results) == 0 {
			return false
		}
		if !sortedAfter(f, ret.Results[0]) && !sortedAfter(f, engine.Origin(ret.Results[0])) {
			// the returned value may be the local that was sorted in place
			sl := engine.BackSlice(ret.Results[0], engine.DefaultSlice)
			found := false
			for _, c := range engine.Calls(f) {
				o := engine.CalleeObj(c.Common())
				if o == nil || o.Pkg() == nil || o.Pkg().Path() != "sort" {
					continue
				}
				for v := range engine.BackSlice(c.Common().Args[0], engine.DefaultSlice) {
					if sl[v] {
						if _, isAlloc := v.(*ssa.Alloc); isAlloc {
							found = true
						}
						if _, isPhi := v.(*ssa.Phi); isPhi {
							found = true
						}
					}
				}
			}
			if !found {
				return false
			}
		}
	}
	return true
}
