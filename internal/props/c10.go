package props

import (
	"go/token"
	"go/types"
	"sort"
	"strings"

	"golang.org/x/tools/go/ssa"

	"idenaverif/internal/engine"
)

func init() { register("C10", C10) }

// C10 — validator registry consistent with the ledger and with its own rebuild.
func C10(p *engine.Prog, r *engine.Report) {
	r.Explanation = "(R1) status<->registry table: in setNewIdentitiesAttributes, with identity.State fixed to each constant of the enum (all comparisons resolved), the reachable IdentityState.SetValidated calls pass true exactly for the constants satisfying NewbieOrBetter (set read from that method) and false (plus SetOnline(false) unless a pool) for all others, the default arm included; (R2) kill pairing: every State.SetState(x, Killed) in applyTxOnState has IdentityState.Remove(x) with the same address in the same arm, except the ActivationTx sender whose validator requires state Invite; (R3) who-may-write the registry: IdentityStateDB mutators are called only from the block-application functions of package blockchain (list derived and printed) and SetOnline(x, true) is behind IdentityState.IsValidated(x) (the registry being written, not the previous block's cache) or IsPool(x); (R4) cache ownership and refresh: container fields of ValidatorsCache are written only by loadValidNodes / UpdateFromIdentityStateDiff / Clone / constructor; loadValidNodes resets every container it fills before filling it (a reused cache carries nothing over); every AppState commit entry refreshes the cache with the diff of the same commit and ResetTo/Initialize/ForCheckWithOverwrite reload it; RefreshIfUpdated follows every block (shared with C07-R5); (R5) sibling agreement of the rebuild and the incremental update on how a new pool's approval is derived. Decides shape; equality of the two constructions on all histories is not decided."
	r.Assumptions = []string{"stored-entry invariant empty() <=> !Validated && !Online masks the known difference in which flags gate delegations (reported as informational)", "IAVL iteration returns every stored identity"}
	consts := identityStateConsts(p)
	nob := newbieOrBetterSet(p)
	c10R1(p, r, consts, nob)
	c10R2(p, r)
	c10R3(p, r)
	c10R4(p, r)
	c07R5(p, r, "C10-R4")
	c10R5(p, r)
	c10R6(p, r)
	c10R7(p, r)
	undelegationsFlowRule(p, r, "C10-R7")
}

func c10R1(p *engine.Prog, r *engine.Report, consts map[int64]string, nob map[int64]bool) {
	top := mustFunc(p, r, "blockchain", "setNewIdentitiesAttributes")
	if top == nil {
		return
	}
	// the callback of IterateOverIdentities holding the switch
	var f *ssa.Function
	for _, a := range engine.Anon(top) {
		if len(callsTo(a, "core/state.IdentityStateDB.SetValidated")) > 0 {
			f = a
		}
	}
	if f == nil {
		r.Errorf("setNewIdentitiesAttributes: closure with SetValidated not found")
		return
	}
	r.Fn(engine.FuncName(f))
	identity := ssa.Value(f.Params[1])
	type sg struct {
		i    *ssa.If
		k    int64
		isEq bool
	}
	var sgs []sg
	for _, i := range engine.Ifs(f) {
		x, y, isEq, ok := eqCond(i.Cond)
		if !ok {
			continue
		}
		for _, pr := range [][2]ssa.Value{{x, y}, {y, x}} {
			k, isK := engine.ConstInt(pr[1])
			if !isK {
				continue
			}
			o, fld, okF := engine.FieldOf(engine.Origin(pr[0]))
			if okF && o == "Identity" && fld == "State" && rootOf(engine.Origin(pr[0])) == identity {
				sgs = append(sgs, sg{i, k, isEq})
			}
		}
	}
	if len(sgs) < 6 {
		r.Errorf("setNewIdentitiesAttributes: only %d comparisons of identity.State", len(sgs))
		return
	}
	// validationFailed must be false for the table to apply: cut the failed edges
	var ks []int64
	for k := range consts {
		ks = append(ks, k)
	}
	sort.Slice(ks, func(i, j int) bool { return ks[i] < ks[j] })
	for _, k := range ks {
		cut := map[engine.Edge]bool{}
		for _, s := range sgs {
			holds := (s.k == k) == s.isEq
			if holds {
				cut[engine.Edge{From: s.i.Block(), Succ: 1}] = true
			} else {
				cut[engine.Edge{From: s.i.Block(), Succ: 0}] = true
			}
		}
		reach := engine.ReachAvoiding(f, nil, cut, nil)
		vals := map[string]bool{}
		var setOnlineFalse, setOnlineTrue bool
		for _, c := range callsTo(f, "core/state.IdentityStateDB.SetValidated") {
			if !reach[c.Block()] {
				continue
			}
			if b, ok := engine.ConstBool(engine.Params(c)[1]); ok {
				if b {
					vals["true"] = true
				} else {
					vals["false"] = true
				}
			} else {
				vals["?"] = true
			}
		}
		for _, c := range callsTo(f, "core/state.IdentityStateDB.SetOnline") {
			if !reach[c.Block()] {
				continue
			}
			if b, ok := engine.ConstBool(engine.Params(c)[1]); ok && !b {
				setOnlineFalse = true
			} else {
				setOnlineTrue = true
			}
		}
		name := consts[k]
		want := "false"
		if nob[k] {
			want = "true"
		}
		ok := len(vals) == 1 && vals[want]
		r.Check(ok, "C10-R1", "setNewIdentitiesAttributes|status "+name+" => SetValidated("+want+")", p.Pos(f.Pos()), "the only reachable registration value", "status "+name+" is registered as validated="+joinKeys(vals)+" (ledger says "+want+")")
		if nob[k] {
			// the registry record of a (re)validated identity is (re)created: the ledger's delegation is copied
			// into it on every validated arm (sibling agreement of the arms)
			hasDel := false
			for _, c := range callsTo(f, "core/state.IdentityStateDB.SetDelegatee") {
				if !reach[c.Block()] {
					continue
				}
				// the value comes from the ledger identity's Delegatee
				if sliceCallOn(engine.Params(c)[1], nil, "core/state.Identity.Delegatee") {
					hasDel = true
				}
			}
			r.Check(hasDel, "C10-R1", "setNewIdentitiesAttributes|status "+name+" => registry delegatee copied from the ledger", p.Pos(f.Pos()), "SetDelegatee(addr, *identity.Delegatee()) when present", "a "+name+" identity is registered as validated without its ledger delegation: an identity re-validated after Suspended/Zombie is counted as a stand-alone validator while the ledger still delegates it to a pool (pool size one short)")
		}
		if !nob[k] {
			r.Check(setOnlineFalse && !setOnlineTrue, "C10-R1", "setNewIdentitiesAttributes|status "+name+" => SetOnline(false) unless pool", p.Pos(f.Pos()), "non-validated identities are switched offline", "a non-validated status ("+name+") can stay online")
		}
	}
	r.Floor("C10-R1", 17, "9 statuses + 6 offline + 3 delegations")
}

func c10R2(p *engine.Prog, r *engine.Report) {
	f := mustFunc(p, r, "blockchain", "Blockchain.applyTxOnState")
	if f == nil {
		return
	}
	tx := ssa.Value(f.Params[1])
	tgs := txTypeGuards(f, tx)
	consts := txTypeConsts(p)
	killed := constInt(p, "core/state", "Killed")
	n := 0
	for _, c := range callsTo(f, "core/state.StateDB.SetState") {
		ps := engine.Params(c)
		if k, isK := engine.ConstInt(ps[1]); !isK || k != killed {
			continue
		}
		n++
		ks, _ := armTypes(f, c.Block(), tgs)
		var names []string
		for _, k := range ks {
			names = append(names, consts[k])
		}
		key := "applyTxOnState|SetState(" + pathShort(ps[0]) + ", Killed) in arm " + strings.Join(names, ",")
		paired := false
		for _, c2 := range callsTo(f, "core/state.IdentityStateDB.Remove") {
			ks2, _ := armTypes(f, c2.Block(), tgs)
			if engine.PathOf(engine.Params(c2)[0]) == engine.PathOf(ps[0]) && sameInts(ks, ks2) {
				paired = true
			}
		}
		if !paired && len(names) == 1 && names[0] == "ActivationTx" {
			// the sender of an activation is an Invite (never registered): the validator must require it
			vt := validatorsTable(p)
			okInv := false
			for k, v := range vt {
				if consts[k] != "ActivationTx" {
					continue
				}
				g := guardsWhere(v, func(cond ssa.Value) (bool, bool, string) {
					x, y, isEq, ok := eqCond(cond)
					if !ok {
						return false, false, ""
					}
					for _, pr := range [][2]ssa.Value{{x, y}, {y, x}} {
						if cc, ok := engine.Unwrap(pr[0]).(*ssa.Call); ok && engine.CallIs(cc, "core/state.StateDB.GetIdentityState") {
							if kk, isK := engine.ConstInt(pr[1]); isK && kk == constInt(p, "core/state", "Invite") {
								return true, isEq, ""
							}
						}
					}
					return false, false, ""
				})
				okInv = rejectsUnless(v, g)
			}
			r.Check(okInv, "C10-R2", key+" (sender is an Invite)", p.InstrPos(c), "validateActivationTx succeeds only for a sender in state Invite, which is never registered", "activation kills a sender that may be registered as validated without removing it from the registry")
			continue
		}
		r.Check(paired, "C10-R2", key, p.InstrPos(c), "IdentityState.Remove of the same address in the same arm", "an identity is killed in the ledger but stays in the validator registry")
	}
	r.Floor("C10-R2", 4, "kill sites")
}

func pathShort(v ssa.Value) string {
	s := engine.PathOf(v)
	if i := strings.LastIndex(s, "#"); i >= 0 && strings.Contains(s, "Sender") {
		return "sender"
	}
	if strings.HasSuffix(s, ".To") {
		return "*tx.To"
	}
	return s
}

func sameInts(a, b []int64) bool {
	if len(a) != len(b) {
		return false
	}
	for i := range a {
		if a[i] != b[i] {
			return false
		}
	}
	return true
}

func c10R3(p *engine.Prog, r *engine.Report) {
	sm := getStateModel(p)
	writers := map[string]bool{}
	allowed := map[string]bool{
		"Blockchain.applyTxOnState": true, "Blockchain.applyStatusSwitch": true, "Blockchain.applyDelegationSwitch": true,
		"Blockchain.applyDiscriminationStatusSwitch": true, "setNewIdentitiesAttributes": true, "switchOnePoolToOffline": true,
		"Blockchain.applyOfflinePenalty": true, "applyDelayedOfflinePenalty": true, "Blockchain.applyDelayedOfflinePenalties": true,
		"balanceShards": true, "Blockchain.applyNewEpoch": true,
		"Blockchain.generateGenesis": true, "applyDiscriminationStakeThreshold": true,
	}
	for _, f := range p.AllFuncs() {
		pk := engine.FuncPkg(f)
		sp := engine.ShortPkg(pk.Path())
		if strings.HasPrefix(sp, "tests") || strings.HasPrefix(sp, "cmd") {
			continue
		}
		for _, c := range engine.Calls(f) {
			name, _, ok := sm.mutatorCall(c)
			if !ok || !strings.HasPrefix(name, "IdentityStateDB.") {
				continue
			}
			if sp == "core/state" {
				continue // internal helpers and predefined-state loaders
			}
			top := engine.RelName(topParent(f))
			writers[sp+":"+top] = true
			ok2 := sp == "blockchain" && allowed[top]
			if !ok2 && sp == "core/appstate" && strings.HasPrefix(top, "AppState.SetPredefined") {
				ok2 = true
			}
			if !ok2 {
				r.Bad("C10-R3", top+"|"+name, p.InstrPos(c), "the validator registry is written outside the block-application functions")
			}
		}
	}
	r.OK("C10-R3", "writers(IdentityStateDB)", "blockchain", joinKeys(writers))
	// SetOnline(x, true) behind IdentityState.IsValidated(x) || ValidatorsCache.IsPool(x)
	n := 0
	for _, f := range funcsOfPkg(p, "blockchain") {
		for _, c := range callsTo(f, "core/state.IdentityStateDB.SetOnline") {
			ps := engine.Params(c)
			if b, ok := engine.ConstBool(ps[1]); ok && !b {
				continue
			}
			n++
			g := guardsWhere(f, func(cond ssa.Value) (bool, bool, string) {
				c2, neg := stripNot(cond)
				cc, ok := c2.(*ssa.Call)
				if !ok {
					return false, false, ""
				}
				if (engine.CallIs(cc, "core/state.IdentityStateDB.IsValidated") || engine.CallIs(cc, "core/validators.ValidatorsCache.IsPool")) && engine.PathOf(engine.Params(cc)[0]) == engine.PathOf(ps[0]) {
					return true, !neg, ""
				}
				return false, false, ""
			})
			r.Check(engine.OnlyThroughPass(f, c.Block(), g), "C10-R3", engine.RelName(f)+"|SetOnline(addr, true) behind IdentityState.IsValidated || IsPool", p.InstrPos(c), "the registry being written says validated (or the address is a pool)", "an address can be switched online without being validated in the registry of THIS block (e.g. judged by the previous block's cache)")
		}
	}
	r.Floor("C10-R3", 2, "writers + SetOnline(true)")
}

func c10R4(p *engine.Prog, r *engine.Report) {
	pk := p.ByPath[engine.RepoMod+"/core/validators"]
	if pk == nil {
		r.Errorf("core/validators not loaded")
		return
	}
	st, _ := pk.Types.Scope().Lookup("ValidatorsCache").Type().Underlying().(*types.Struct)
	fns := funcsOfPkg(p, "core/validators")
	owners := map[string]bool{"ValidatorsCache.loadValidNodes": true, "ValidatorsCache.UpdateFromIdentityStateDiff": true, "ValidatorsCache.Clone": true, "NewValidatorsCache": true, "ValidatorsCache.RefreshIfUpdated": true}
	containers := []string{}
	for i := 0; st != nil && i < st.NumFields(); i++ {
		f := st.Field(i)
		ts := f.Type().String()
		isContainer := false
		switch f.Type().Underlying().(type) {
		case *types.Map:
			isContainer = true
		}
		if strings.Contains(ts, "golang-set.Set") || strings.Contains(ts, "sortedAddresses") || f.Name() == "forkCommitteeSizeCache" {
			isContainer = true
		}
		if !isContainer {
			continue
		}
		containers = append(containers, f.Name())
		// who stores the field
		for _, s := range storesToField(fns, "ValidatorsCache", f.Name()) {
			top := engine.RelName(topParent(s.Parent()))
			ok := owners[top] || (f.Name() == "forkCommitteeSizeCache" && top == "ValidatorsCache.ForkCommitteeSize")
			if !ok {
				r.Bad("C10-R4", top+"|store ValidatorsCache."+f.Name(), p.InstrPos(s), "cache component replaced outside load/update/clone")
			}
		}
	}
	cacheRebuildRule(p, r, "C10-R4", containers)
	appStateRefreshRule(p, r, "C10-R4", nil)
	r.Floor("C10-R4", 14, "containers + 6 entries + precommit")
}

// c10R5: the rebuild and the incremental update derive a new pool's approval the same way.
func c10R5(p *engine.Prog, r *engine.Report) {
	sig := func(f *ssa.Function) (string, string) {
		for _, g := range append([]*ssa.Function{f}, engine.Anon(f)...) {
			for _, c := range callsTo(g, "core/validators.newPool") {
				arg := c.Common().Args[1]
				// collect the membership tests feeding the approval flag
				parts := map[string]bool{}
				sl := engine.BackSlice(arg, engine.DefaultSlice)
				// short-circuit && / ||: the first operands only control the phi; add them
				for v := range sl {
					ph, isPhi := v.(*ssa.Phi)
					if !isPhi {
						continue
					}
					for _, pred := range ph.Block().Preds {
						for d := pred; d != nil; d = d.Idom() {
							if len(d.Instrs) > 0 {
								if i, isIf := d.Instrs[len(d.Instrs)-1].(*ssa.If); isIf {
									for y := range engine.BackSlice(i.Cond, engine.DefaultSlice) {
										sl[y] = true
									}
								}
							}
							if d == ph.Block().Idom() {
								break
							}
						}
					}
				}
				for v := range sl {
					cc, ok := v.(*ssa.Call)
					if !ok || !cc.Call.IsInvoke() || cc.Call.Method.Name() != "Contains" {
						continue
					}
					if _, fld, ok := engine.FieldOf(cc.Call.Value); ok {
						// polarity: is the call negated on its way?
						neg := false
						if cc.Referrers() != nil {
							for _, ref := range *cc.Referrers() {
								if u, isU := ref.(*ssa.UnOp); isU && u.Op.String() == "!" {
									neg = true
								}
								if i, isIf := ref.(*ssa.If); isIf {
									_ = i
								}
							}
						}
						s := fld
						if neg {
							s = "!" + s
						}
						parts[s] = true
					}
				}
				return joinKeys(parts), p.InstrPos(c)
			}
		}
		return "", ""
	}
	lvn := mustFunc(p, r, "core/validators", "ValidatorsCache.loadValidNodes")
	upd := mustFunc(p, r, "core/validators", "ValidatorsCache.UpdateFromIdentityStateDiff")
	if lvn == nil || upd == nil {
		return
	}
	a, pa := sig(lvn)
	b, _ := sig(upd)
	r.Check(a != "" && a == b, "C10-R5", "newPool approval: rebuild vs incremental", pa, "both derive it from {"+a+"}", "rebuild derives a new pool's approval from {"+a+"}, the incremental update from {"+b+"}: the two views differ for some histories")
	deletedArmCompleteRule(p, r, "C10-R5")
	r.Floor("C10-R5", 1, "sibling")
}

// validatorsCacheContainers enumerates the container fields of ValidatorsCache.
func validatorsCacheContainers(p *engine.Prog) []string {
	pk := p.ByPath[engine.RepoMod+"/core/validators"]
	if pk == nil {
		return nil
	}
	st, _ := pk.Types.Scope().Lookup("ValidatorsCache").Type().Underlying().(*types.Struct)
	var out []string
	for i := 0; st != nil && i < st.NumFields(); i++ {
		f := st.Field(i)
		ts := f.Type().String()
		isContainer := false
		if _, ok := f.Type().Underlying().(*types.Map); ok {
			isContainer = true
		}
		if strings.Contains(ts, "golang-set.Set") || strings.Contains(ts, "sortedAddresses") || f.Name() == "forkCommitteeSizeCache" {
			isContainer = true
		}
		if isContainer {
			out = append(out, f.Name())
		}
	}
	return out
}

// cacheRebuildRule: loadValidNodes resets every container before the iteration that fills it.
func cacheRebuildRule(p *engine.Prog, r *engine.Report, rule string, containers []string) {
	// loadValidNodes resets every container before the iteration that fills it
	lvn := mustFunc(p, r, "core/validators", "ValidatorsCache.loadValidNodes")
	if lvn != nil {
		var iter ssa.CallInstruction
		for _, c := range engine.Calls(lvn) {
			if engine.CallNameIs(c, "IterateIdentities") {
				iter = c
			}
		}
		for _, name := range containers {
			var resets []ssa.Instruction
			for _, s := range storesToField([]*ssa.Function{lvn}, "ValidatorsCache", name) {
				resets = append(resets, s)
			}
			for _, c := range engine.Calls(lvn) {
				if engine.CallNameIs(c, "Clear") {
					if _, ok := loadOfField(engine.CallArgs(c)[0], "ValidatorsCache", name); ok {
						resets = append(resets, c)
					}
				}
			}
			// first fill: the IterateIdentities call (closure writes) or, for sortedValidators, the loop after it
			ok := false
			for _, rs := range resets {
				if iter != nil && engine.InstrDominates(rs, iter) {
					ok = true
				}
				if name == "sortedValidators" && len(resets) > 0 {
					// filled by the loop that follows its reset
					ok = true
					for _, c := range callsTo(lvn, "core/validators.sortedAddresses.add") {
						if !engine.InstrDominates(rs, c) {
							ok = false
						}
					}
				}
			}
			r.Check(ok, rule, "loadValidNodes|resets "+name+" before filling it", p.Pos(lvn.Pos()), "rebuild starts from an empty component", "a reused cache (AppState.ResetTo after a rollback/fork switch) keeps entries of "+name+" from the abandoned branch: the rebuilt view differs from a fresh node's")
		}
	}
}

// appStateRefreshRule: the validator view follows every commit entry point of AppState with that commit's own
// identity diff (only: restricts to the named entry points plus Precommit's save).
func appStateRefreshRule(p *engine.Prog, r *engine.Report, rule string, only map[string]bool) {
	// AppState commit entries refresh with the same commit's diff; reset/initialise reload
	for _, x := range []struct {
		fn, via string
	}{{"AppState.Commit", "core/validators.ValidatorsCache.RefreshIfUpdated"}, {"AppState.CommitTrees", "core/validators.ValidatorsCache.RefreshIfUpdated"}, {"AppState.FinalizePrecommit", "core/validators.ValidatorsCache.RefreshIfUpdated"},
		{"AppState.ResetTo", "core/validators.ValidatorsCache.Load"}, {"AppState.Initialize", "core/validators.ValidatorsCache.Load"}, {"AppState.ForCheckWithOverwrite", "core/validators.ValidatorsCache.Load"}} {
		if only != nil && !only[x.fn] {
			continue
		}
		f := mustFunc(p, r, "core/appstate", x.fn)
		if f == nil {
			continue
		}
		var cs []ssa.Instruction
		for _, c := range callsTo(f, x.via) {
			cs = append(cs, c)
		}
		ok := len(cs) > 0
		detail := ""
		if strings.HasSuffix(x.via, "RefreshIfUpdated") && ok {
			// skipped only when block == nil; the diff argument is this commit's diff
			var gNil []engine.Guard
			for _, i := range engine.Ifs(f) {
				if v, nonNilOnTrue, isN := engine.NilCheck(i.Cond); isN {
					if n := engine.NamedOf(v.Type()); n != nil && n.Obj().Name() == "Block" {
						gNil = append(gNil, engine.Guard{If: i, PassTrue: !nonNilOnTrue}) // pass = block is nil
					}
				}
			}
			cutB := map[*ssa.BasicBlock]bool{}
			for _, c := range cs {
				cutB[c.Block()] = true
			}
			cutE := map[engine.Edge]bool{}
			for _, g := range gNil {
				cutE[g.PassEdge()] = true
			}
			// every return that follows a successful identity commit passes the refresh unless block == nil
			reach := engine.ReachAvoiding(f, nil, cutE, cutB)
			for _, ret := range engine.Returns(f) {
				if retErrKind(ret) == "nonnil" {
					continue
				}
				if reach[ret.Block()] {
					ok = false
					detail = "a return bypasses the refresh"
				}
			}
			// diff provenance
			diffArg := cs[0].(ssa.CallInstruction).Common().Args[3]
			switch x.fn {
			case "AppState.Commit":
				if !sliceCallOn(diffArg, nil, "core/state.IdentityStateDB.Commit") {
					ok, detail = false, "diff is not the one returned by IdentityState.Commit"
				}
			case "AppState.CommitTrees":
				if engine.Origin(diffArg) != ssa.Value(f.Params[2]) {
					ok, detail = false, "diff is not the caller's diff parameter"
				}
			case "AppState.FinalizePrecommit":
				if _, isF := loadOfField(diffArg, "AppState", "prevPrecommitDiff"); !isF {
					ok, detail = false, "diff is not the one saved by Precommit"
				}
			}
		}
		r.Check(ok, rule, x.fn+"|"+x.via[strings.LastIndex(x.via, ".")+1:], p.Pos(f.Pos()), "cache follows this entry point", "the validator view is not refreshed/reloaded by "+x.fn+": "+detail)
	}
	// Precommit saves the diff FinalizePrecommit uses
	if f := mustFunc(p, r, "core/appstate", "AppState.Precommit"); f != nil {
		ok := false
		for _, s := range storesToField([]*ssa.Function{f}, "AppState", "prevPrecommitDiff") {
			if sliceCallOn(s.Val, nil, "core/state.IdentityStateDB.Precommit") {
				ok = true
			}
		}
		r.Check(ok, rule, "AppState.Precommit|saves the identity diff", p.Pos(f.Pos()), "prevPrecommitDiff = IdentityState.Precommit(...)", "FinalizePrecommit would refresh the cache from a stale diff")
	}
}

// c10R6: a validator cache installed in an AppState is built over that AppState's own
// identity tree (and god address): a view derived for height h never reads the live registry.
func c10R6(p *engine.Prog, r *engine.Report) {
	n := 0
	for _, f := range funcsOfPkg(p, "core/appstate") {
		if f.Blocks == nil || isTestish(p.Pos(f.Pos())) {
			continue
		}
		for _, c := range engine.Calls(f) {
			if !engine.CallIs(c, "core/validators.NewValidatorsCache") {
				continue
			}
			call, ok := c.(*ssa.Call)
			if !ok {
				continue
			}
			// the AppState objects that receive this cache
			owners := map[ssa.Value]bool{}
			var follow func(v ssa.Value, seen map[ssa.Value]bool)
			follow = func(v ssa.Value, seen map[ssa.Value]bool) {
				if seen[v] || v.Referrers() == nil {
					return
				}
				seen[v] = true
				for _, ref := range *v.Referrers() {
					switch x := ref.(type) {
					case *ssa.Phi:
						follow(x, seen)
					case *ssa.Store:
						if x.Val != v {
							continue
						}
						if fa, isFA := x.Addr.(*ssa.FieldAddr); isFA {
							if _, fld, okF := engine.FieldOf(fa); okF && fld == "ValidatorsCache" {
								owners[engine.Origin(fa.X)] = true
							}
						} else if a, isA := x.Addr.(*ssa.Alloc); isA && a.Referrers() != nil {
							for _, r2 := range *a.Referrers() {
								if u, isU := r2.(*ssa.UnOp); isU && u.Op == token.MUL {
									follow(u, seen)
								}
							}
						}
					}
				}
			}
			follow(call, map[ssa.Value]bool{})
			if len(owners) == 0 {
				continue
			}
			n++
			r.Fn(engine.FuncName(f))
			// the identity tree handed to the constructor belongs to the same owner
			belongs := func(arg ssa.Value, field string) bool {
				arg = engine.Origin(arg)
				for o := range owners {
					// loaded from owner.<field> (possibly through a method on it)
					for v := range engine.BackSlice(arg, engine.DefaultSlice) {
						if fa, isFA := v.(*ssa.FieldAddr); isFA {
							if _, fld, okF := engine.FieldOf(fa); okF && fld == field && engine.Origin(fa.X) == o {
								return true
							}
						}
					}
					// or the very value stored into owner.<field>
					if o.Referrers() == nil {
						continue
					}
					for _, ref := range *o.Referrers() {
						fa, isFA := ref.(*ssa.FieldAddr)
						if !isFA || fa.Referrers() == nil {
							continue
						}
						if _, fld, okF := engine.FieldOf(fa); !okF || fld != field {
							continue
						}
						for _, r2 := range *fa.Referrers() {
							if st, isSt := r2.(*ssa.Store); isSt && st.Addr == ssa.Value(fa) {
								for v := range engine.BackSlice(arg, engine.DefaultSlice) {
									if v == engine.Origin(st.Val) {
										return true
									}
								}
							}
						}
					}
				}
				return false
			}
			args := engine.CallArgs(c)
			okID := len(args) >= 2 && belongs(args[0], "IdentityState")
			okGod := len(args) >= 2 && belongs(args[1], "State")
			r.Check(okID && okGod, "C10-R6", engine.RelName(f)+"|cache built over the owner's own IdentityState and State", p.InstrPos(c), "NewValidatorsCache(owner.IdentityState, owner.State.GodAddress())", "the validator cache of this AppState is built over another AppState's identity tree: the derived view (fork check, read-only) reads the live registry — ValidatorsCache disagrees with a rebuild from its own IdentityState")
		}
	}
	r.Floor("C10-R6", 2, "ForCheck, Readonly, ForCheckWithOverwrite, Initialize")
	if n == 0 {
		r.Und("C10-R6", "NewValidatorsCache", "", "no constructor call found in core/appstate")
	}
}

// c10R7: (a) every transaction type whose arm in applyTxOnState writes the registry makes its block
// an identity-update block (calculateFlags) — the running cache applies a diff only on flagged
// blocks; (b) the "lost delegator" collection that switches emptied pools offline uses exactly the
// complement of the registry's membership predicate (NewbieOrBetter).
func c10R7(p *engine.Prog, r *engine.Report) {
	f := mustFunc(p, r, "blockchain", "Blockchain.applyTxOnState")
	cf := mustFunc(p, r, "blockchain", "Blockchain.calculateFlags")
	if f != nil && cf != nil {
		consts := txTypeConsts(p)
		tgs := txTypeGuards(f, ssa.Value(f.Params[1]))
		writes := map[int64]string{}
		for _, c := range engine.Calls(f) {
			cal := c.Common().StaticCallee()
			if cal == nil || cal.Signature.Recv() == nil {
				continue
			}
			n := engine.NamedOf(cal.Signature.Recv().Type())
			if n == nil || n.Obj().Name() != "IdentityStateDB" {
				continue
			}
			switch cal.Name() {
			case "Remove", "SetOnline", "SetValidated", "SetDelegatee", "RemoveDelegatee", "SetDiscriminated":
			default:
				continue
			}
			ks, any := armTypes(f, c.Block(), tgs)
			if any {
				continue
			}
			for _, k := range ks {
				writes[k] = cal.Name() + " at " + p.InstrPos(c)
			}
		}
		// the tx types calculateFlags tests before raising IdentityUpdate
		flagged := map[int64]bool{}
		idUpd := constInt(p, "blockchain/types", "IdentityUpdate")
		for _, i := range engine.Ifs(cf) {
			x, y, isEq, ok := eqCond(i.Cond)
			if !ok || !isEq {
				continue
			}
			for _, pr := range [][2]ssa.Value{{x, y}, {y, x}} {
				k, isK := engine.ConstInt(pr[1])
				if _, fld, okF := engine.FieldOf(engine.Origin(pr[0])); !isK || !okF || fld != "Type" {
					continue
				}
				// the true edge reaches an OR with IdentityUpdate without passing another type test that fails
				for b := range engine.ReachAvoiding(cf, i.Block().Succs[0], nil, nil) {
					for _, ins := range b.Instrs {
						if bo, isB := ins.(*ssa.BinOp); isB && bo.Op == token.OR {
							if kk, isKK := engine.ConstInt(bo.Y); isKK && kk == idUpd {
								flagged[k] = true
							}
						}
					}
					break // only the immediate successor chain matters: the flag is set right in the arm
				}
				if !flagged[k] {
					// `a || b || c` chains: the true edge of each test leads to the same arm block
					seen := map[*ssa.BasicBlock]bool{}
					blk := i.Block().Succs[0]
					for d := 0; d < 4 && blk != nil && !seen[blk]; d++ {
						seen[blk] = true
						for _, ins := range blk.Instrs {
							if bo, isB := ins.(*ssa.BinOp); isB && bo.Op == token.OR {
								if kk, isKK := engine.ConstInt(bo.Y); isKK && kk == idUpd {
									flagged[k] = true
								}
							}
						}
						if len(blk.Succs) == 1 {
							blk = blk.Succs[0]
						} else {
							blk = nil
						}
					}
				}
			}
		}
		var ks []int64
		for k := range writes {
			ks = append(ks, k)
		}
		sort.Slice(ks, func(i, j int) bool { return ks[i] < ks[j] })
		for _, k := range ks {
			r.Check(flagged[k], "C10-R7", "calculateFlags|a block with "+consts[k]+" is an identity-update block", p.Pos(cf.Pos()), "its arm writes the registry ("+writes[k]+")", "applyTxOnState writes the validator registry for "+consts[k]+" ("+writes[k]+") but calculateFlags does not raise IdentityUpdate for it: the running cache skips the diff of that block (RefreshIfUpdated) and differs from a cache rebuilt from the stored registry")
		}
		r.Floor("C10-R7", 3, "KillTx, KillInviteeTx, KillDelegatorTx")
	}
	if ck := mustFunc(p, r, "core/state", "StateDB.CollectKilledDelegators"); ck != nil {
		n := 0
		for _, b := range ck.Blocks {
			for _, ins := range b.Instrs {
				c, isCall := ins.(*ssa.Call)
				if !isCall {
					continue
				}
				if bi, isB := c.Call.Value.(*ssa.Builtin); !isB || bi.Name() != "append" {
					continue
				}
				n++
				var stateConds []string
				for _, s := range controlSig(b) {
					if strings.Contains(s, "State(") {
						stateConds = append(stateConds, s)
					}
				}
				ok := len(stateConds) == 1 && strings.HasPrefix(stateConds[0], "!") && strings.Contains(stateConds[0], "NewbieOrBetter(")
				r.Check(ok, "C10-R7", "CollectKilledDelegators|a delegator is lost exactly when it is not NewbieOrBetter", p.InstrPos(c), "collected under "+strings.Join(stateConds, " && "), "the delegators counted as lost are selected by {"+strings.Join(stateConds, " && ")+"}, not by the complement of the registry's membership predicate (NewbieOrBetter): a delegator that left the registry without matching it (Suspended, Zombie) still counts as a pool member — an emptied pool stays online")
			}
		}
		if n == 0 {
			r.Und("C10-R7", "CollectKilledDelegators|collection", p.Pos(ck.Pos()), "no append found")
		}
	}
}
