package props

import (
	"fmt"
	"go/ast"
	"go/constant"
	"go/parser"
	"go/token"
	"go/types"
	"sort"
	"strings"

	"golang.org/x/tools/go/packages"
	"golang.org/x/tools/go/ssa"

	"idenaverif/internal/engine"
)

// loadOfField: v is (a conversion of) a load `*(&x.f)` or `x.f` with x of named type
// owner (or pointer to it). Returns the base x.
func loadOfField(v ssa.Value, owner, field string) (base ssa.Value, ok bool) {
	v = engine.Unwrap(v)
	if u, isU := v.(*ssa.UnOp); isU && u.Op == token.MUL {
		if fa, isFA := u.X.(*ssa.FieldAddr); isFA {
			o, f, _ := engine.FieldOf(fa)
			if o == owner && f == field {
				return fa.X, true
			}
		}
		return nil, false
	}
	if fl, isF := v.(*ssa.Field); isF {
		o, f, _ := engine.FieldOf(fl)
		if o == owner && f == field {
			return fl.X, true
		}
	}
	return nil, false
}

// fieldAddrOf: v is &x.f of owner.field
func fieldAddrOf(v ssa.Value, owner, field string) (base ssa.Value, ok bool) {
	if fa, isFA := v.(*ssa.FieldAddr); isFA {
		o, f, _ := engine.FieldOf(fa)
		if o == owner && (field == "" || f == field) {
			return fa.X, true
		}
	}
	return nil, false
}

// guardsWhere builds guards from every If of fn whose condition satisfies match.
func guardsWhere(fn *ssa.Function, match func(cond ssa.Value) (ok, passTrue bool, note string)) []engine.Guard {
	var out []engine.Guard
	for _, i := range engine.Ifs(fn) {
		if ok, pt, note := match(i.Cond); ok {
			out = append(out, engine.Guard{If: i, PassTrue: pt, Note: note})
		}
	}
	return out
}

// eqCond decomposes `a == b` / `a != b`.
func eqCond(cond ssa.Value) (x, y ssa.Value, isEq bool, ok bool) {
	b, isB := cond.(*ssa.BinOp)
	if !isB || (b.Op != token.EQL && b.Op != token.NEQ) {
		return nil, nil, false, false
	}
	return b.X, b.Y, b.Op == token.EQL, true
}

// negations: `!c` appears as UnOp NOT in SSA; strip and report parity.
func stripNot(v ssa.Value) (ssa.Value, bool) {
	neg := false
	for {
		u, ok := v.(*ssa.UnOp)
		if !ok || u.Op != token.NOT {
			return v, neg
		}
		v = u.X
		neg = !neg
	}
}

func isConstString(v ssa.Value, s string) bool {
	c, ok := v.(*ssa.Const)
	if !ok || c.Value == nil {
		return false
	}
	return c.Value.ExactString() == fmt.Sprintf("%q", s)
}

// repoPkg returns the loaded package by short path.
func repoPkg(p *engine.Prog, r *engine.Report, short string) *packages.Package {
	path := engine.RepoMod
	if short != "" {
		path += "/" + short
	}
	pk := p.ByPath[path]
	if pk == nil {
		r.Errorf("anchor package %s not loaded", short)
	}
	return pk
}

// funcsOfPkg returns all SSA functions (incl. closures, methods) declared in a package.
func funcsOfPkg(p *engine.Prog, short string) []*ssa.Function {
	path := engine.RepoMod
	if short != "" {
		path += "/" + short
	}
	var out []*ssa.Function
	for _, f := range p.AllFuncs() {
		if pk := engine.FuncPkg(f); pk != nil && pk.Path() == path && f.Synthetic == "" {
			out = append(out, f)
		}
	}
	return out
}

// withStack walks an AST keeping the ancestor stack.
func withStack(root ast.Node, fn func(n ast.Node, stack []ast.Node) bool) {
	var stack []ast.Node
	ast.Inspect(root, func(n ast.Node) bool {
		if n == nil {
			stack = stack[:len(stack)-1]
			return true
		}
		ok := fn(n, stack)
		stack = append(stack, n)
		if !ok {
			// still need the pop: ast.Inspect will not call with nil when we return false
			stack = stack[:len(stack)-1]
		}
		return ok
	})
}

func enclosingFuncName(stack []ast.Node) string {
	for i := len(stack) - 1; i >= 0; i-- {
		if fd, ok := stack[i].(*ast.FuncDecl); ok {
			if fd.Recv != nil && len(fd.Recv.List) > 0 {
				return types.ExprString(fd.Recv.List[0].Type) + "." + fd.Name.Name
			}
			return fd.Name.Name
		}
	}
	return "?"
}

func sortedKeys(m map[string]bool) []string {
	var out []string
	for k := range m {
		out = append(out, k)
	}
	sort.Strings(out)
	return out
}

func joinKeys(m map[string]bool) string { return strings.Join(sortedKeys(m), ",") }

// storesToField lists every Store whose address is &x.field of the owner type, in fns.
func storesToField(fns []*ssa.Function, owner, field string) []*ssa.Store {
	var out []*ssa.Store
	for _, f := range fns {
		for _, b := range f.Blocks {
			for _, in := range b.Instrs {
				if s, ok := in.(*ssa.Store); ok {
					if _, ok := fieldAddrOf(s.Addr, owner, field); ok {
						out = append(out, s)
					}
				}
			}
		}
	}
	return out
}

// allocsOf lists Alloc instructions of fn allocating the named type (short name).
func allocsOf(fn *ssa.Function, typeName string) []*ssa.Alloc {
	var out []*ssa.Alloc
	for _, b := range fn.Blocks {
		for _, in := range b.Instrs {
			if a, ok := in.(*ssa.Alloc); ok {
				if n := engine.NamedOf(a.Type()); n != nil && n.Obj().Name() == typeName {
					if _, isPtr := a.Type().(*types.Pointer); isPtr {
						if pn, ok := a.Type().(*types.Pointer).Elem().(*types.Named); ok && pn == n {
							out = append(out, a)
						}
					}
				}
			}
		}
	}
	return out
}

// fieldStoresOn lists stores to fields of the object addressed by base (same SSA value).
func fieldStoresOn(base ssa.Value) map[string]*ssa.Store {
	out := map[string]*ssa.Store{}
	refs := base.Referrers()
	if refs == nil {
		return out
	}
	for _, ref := range *refs {
		fa, ok := ref.(*ssa.FieldAddr)
		if !ok || fa.X != base {
			continue
		}
		_, fname, _ := engine.FieldOf(fa)
		for _, s := range engine.StoresTo(fa) {
			if _, dup := out[fname]; !dup {
				out[fname] = s
			}
		}
	}
	return out
}

// relFile strips the repo dir.
func relFile(p *engine.Prog, pos token.Pos) string { return p.Pos(pos) }

// callsTo finds call instructions to any of ids within fn (not closures).
func callsTo(fn *ssa.Function, ids ...string) []ssa.CallInstruction {
	var out []ssa.CallInstruction
	for _, c := range engine.Calls(fn) {
		if engine.CallIs(c, ids...) {
			out = append(out, c)
		}
	}
	return out
}

// callsToDeep is callsTo including nested closures.
func callsToDeep(fn *ssa.Function, ids ...string) []ssa.CallInstruction {
	var out []ssa.CallInstruction
	for _, c := range engine.CallsDeep(fn) {
		if engine.CallIs(c, ids...) {
			out = append(out, c)
		}
	}
	return out
}

// callersIn: names of functions (top-level parents) containing a call that may reach f.
func callerNames(p *engine.Prog, f *ssa.Function) map[string]bool {
	out := map[string]bool{}
	for _, e := range p.Callers(f) {
		out[engine.FuncName(e.Caller.Func)] = true
	}
	return out
}

func topParent(f *ssa.Function) *ssa.Function {
	for f.Parent() != nil {
		f = f.Parent()
	}
	return f
}

func parseFile(fset *token.FileSet, path string) (*ast.File, error) {
	return parser.ParseFile(fset, path, nil, parser.SkipObjectResolution)
}

// errResultOf returns the SSA values denoting the error result of a call (the call itself
// for a single error result, else the Extract of the last result when it is `error`).
func errResultsOf(c *ssa.Call) []ssa.Value {
	var out []ssa.Value
	sig := c.Call.Signature()
	n := sig.Results().Len()
	if n == 0 {
		return nil
	}
	last := sig.Results().At(n - 1).Type()
	if !isErrorType(last) {
		return nil
	}
	if n == 1 {
		return []ssa.Value{c}
	}
	for _, ref := range *c.Referrers() {
		if ex, ok := ref.(*ssa.Extract); ok && ex.Index == n-1 {
			out = append(out, ex)
		}
	}
	return out
}

func isErrorType(t types.Type) bool {
	return types.Identical(t, types.Universe.Lookup("error").Type())
}

// nilErrGuards: Ifs testing the error result of call c against nil; pass edge = err == nil.
// A value stored to a local and re-loaded (err variable) is followed through its cell.
func nilErrGuards(fn *ssa.Function, c *ssa.Call) []engine.Guard {
	errs := map[ssa.Value]bool{}
	for _, e := range errResultsOf(c) {
		errs[e] = true
	}
	if len(errs) == 0 {
		return nil
	}
	gs := guardsWhere(fn, func(cond ssa.Value) (bool, bool, string) {
		x, nonNilOnTrue, ok := engine.NilCheck(cond)
		if !ok {
			return false, false, ""
		}
		x = engine.Unwrap(x)
		if errs[x] || errs[engine.CellValue(x)] {
			return true, !nonNilOnTrue, "err == nil"
		}
		// phi / cell carrying exactly this error
		if u, isU := x.(*ssa.UnOp); isU && u.Op == token.MUL {
			if a, isA := u.X.(*ssa.Alloc); isA {
				st := engine.StoresTo(a)
				all := len(st) > 0
				for _, s := range st {
					if !errs[engine.Unwrap(s.Val)] {
						all = false
					}
				}
				if all {
					return true, !nonNilOnTrue, "err == nil"
				}
			}
		}
		return false, false, ""
	})
	// `return f(x)`: the return hands back the call's own error — success there implies f returned nil
	for _, ret := range engine.Returns(fn) {
		if len(ret.Results) == 0 {
			continue
		}
		last := ret.Results[len(ret.Results)-1]
		if !isErrorType(last.Type()) {
			continue
		}
		direct := errs[engine.Unwrap(last)]
		if u, isU := engine.Unwrap(last).(*ssa.UnOp); isU && u.Op == token.MUL && !direct {
			// named result: `*err = f(x); rundefers; t = *err; return t` in one block
			for _, in := range ret.Block().Instrs {
				if st, ok := in.(*ssa.Store); ok && st.Addr == u.X {
					direct = errs[engine.Unwrap(st.Val)]
				}
			}
		}
		if direct {
			gs = append(gs, engine.Guard{TailRet: ret, Note: "returns the call's error"})
		}
	}
	return gs
}

// retErrKind classifies the error result of a return, looking through results spilled to
// named-result cells (functions with defer): "nil", "nonnil", "maybe", "none".
func retErrKind(ret *ssa.Return) string {
	if len(ret.Results) == 0 {
		return "none"
	}
	last := ret.Results[len(ret.Results)-1]
	if !isErrorType(last.Type()) {
		return "none"
	}
	if u, ok := last.(*ssa.UnOp); ok && u.Op == token.MUL {
		if a, isA := u.X.(*ssa.Alloc); isA {
			// last store to the cell in this block before the return
			blk := ret.Block()
			var lastStore *ssa.Store
			for _, in := range blk.Instrs {
				if s, ok := in.(*ssa.Store); ok && s.Addr == ssa.Value(a) {
					lastStore = s
				}
			}
			if lastStore != nil {
				last = engine.CellValue(lastStore.Val)
			} else {
				return "maybe"
			}
		}
	}
	k := valueErrKind(last)
	if k == "maybe" {
		// `if err != nil { return err }`: the returned value is known non-nil on this edge
		fn := ret.Parent()
		g := guardsWhere(fn, func(cond ssa.Value) (bool, bool, string) {
			x, nonNilOnTrue, ok := engine.NilCheck(cond)
			if ok && (engine.Unwrap(x) == engine.Unwrap(last) || engine.CellValue(x) == engine.CellValue(last)) {
				return true, nonNilOnTrue, ""
			}
			return false, false, ""
		})
		if len(g) > 0 && engine.OnlyThroughPassRet(fn, ret, g) {
			return "nonnil"
		}
	}
	return k
}

func valueErrKind(v ssa.Value) string {
	switch x := v.(type) {
	case *ssa.Const:
		if x.Value == nil {
			return "nil"
		}
	case *ssa.MakeInterface:
		return "nonnil"
	case *ssa.Call:
		switch engine.CallID(x) {
		case "errors.New", "fmt.Errorf", "github.com/pkg/errors.New", "github.com/pkg/errors.Errorf", "github.com/pkg/errors.Wrap", "github.com/pkg/errors.Wrapf", "github.com/pkg/errors.WithMessage":
			return "nonnil"
		}
	case *ssa.UnOp:
		if x.Op == token.MUL {
			if _, ok := x.X.(*ssa.Global); ok {
				return "nonnil" // sentinel error variable
			}
		}
	case *ssa.Phi:
		k := ""
		for _, e := range x.Edges {
			ek := valueErrKind(e)
			if k == "" {
				k = ek
			} else if k != ek {
				return "maybe"
			}
		}
		return k
	}
	return "maybe"
}

// isRecoverBlock: the synthetic recover block of functions with defers.
func isRecoverBlock(b *ssa.BasicBlock) bool {
	return b.Parent().Recover == b
}

// txFieldLoad: v is a load of Transaction.<field> from the given tx variable.
func txFieldLoad(v ssa.Value, tx ssa.Value, field string) bool {
	base, ok := loadOfField(v, "Transaction", field)
	return ok && engine.Origin(base) == tx
}

// callOn: v is a call to id whose receiver/first arg Origin is recv (nil = any).
func callOn(v ssa.Value, recv ssa.Value, ids ...string) (*ssa.Call, bool) {
	c, ok := engine.Unwrap(v).(*ssa.Call)
	if !ok || !engine.CallIs(c, ids...) {
		return nil, false
	}
	if recv != nil {
		a := engine.CallArgs(c)
		if len(a) == 0 || engine.Origin(a[0]) != recv {
			return nil, false
		}
	}
	return c, true
}

func sliceElem(t types.Type) types.Type {
	if s, ok := t.Underlying().(*types.Slice); ok {
		return s.Elem()
	}
	return t
}

// ---------------------------------------------------------------- boolean implication

// atomFn classifies a boolean SSA value: ok => it is an atom of interest, and the atom
// holds when the value equals `whenTrue`.
type atomFn func(v ssa.Value) (ok bool, whenTrue bool)

// atomGuards lists Ifs whose condition is an atom; pass edge = atom holds.
func atomGuards(fn *ssa.Function, atom atomFn) []engine.Guard {
	var out []engine.Guard
	for _, i := range engine.Ifs(fn) {
		c, neg := stripNot(i.Cond)
		if ok, wt := atom(c); ok {
			out = append(out, engine.Guard{If: i, PassTrue: wt != neg})
		}
	}
	return out
}

// truthImplies: whenever v evaluates to `want`, the atom holds. Sound for the shapes the Go
// SSA builder emits for &&/||/! (phi of constants and sub-conditions); anything else is
// "cannot show" (false).
func truthImplies(fn *ssa.Function, v ssa.Value, want bool, atom atomFn, guards []engine.Guard, depth int) bool {
	if depth > 8 {
		return false
	}
	if ok, wt := atom(v); ok && wt == want {
		return true
	}
	switch x := v.(type) {
	case *ssa.UnOp:
		if x.Op == token.NOT {
			return truthImplies(fn, x.X, !want, atom, guards, depth+1)
		}
	case *ssa.Const:
		if b, ok := engine.ConstBool(x); ok && b != want {
			return true // this value never equals want
		}
	case *ssa.Phi:
		for i, e := range x.Edges {
			pred := x.Block().Preds[i]
			if truthImplies(fn, e, want, atom, guards, depth+1) {
				continue
			}
			if engine.OnlyThroughPass(fn, pred, guards) {
				continue
			}
			// edge-level: pred ends with a guard whose pass edge is exactly pred -> phi block
			okEdge := false
			for _, g := range guards {
				if g.If.Block() == pred {
					pe := g.PassEdge()
					fe := g.FailEdge()
					if pred.Succs[pe.Succ] == x.Block() && pred.Succs[fe.Succ] != x.Block() {
						okEdge = true
					}
				}
			}
			if !okEdge {
				return false
			}
		}
		return true
	}
	return false
}

// returnsImply: every return of fn whose (first) bool result can be `want` implies the atom.
func returnsImply(fn *ssa.Function, want bool, atom atomFn) bool {
	guards := atomGuards(fn, atom)
	for _, ret := range engine.Returns(fn) {
		if len(ret.Results) == 0 {
			return false
		}
		if engine.OnlyThroughPassRet(fn, ret, guards) {
			continue
		}
		if !truthImplies(fn, ret.Results[0], want, atom, guards, 0) {
			return false
		}
	}
	return true
}

// nonNilAtom builds an atom "value with access key K is non-nil".
func nonNilAtom(match func(x ssa.Value) bool) atomFn {
	return func(v ssa.Value) (bool, bool) {
		x, nonNilOnTrue, ok := engine.NilCheck(v)
		if !ok || !match(x) {
			return false, false
		}
		return true, nonNilOnTrue
	}
}

// backEdgesGuarded: every back edge into hdr is itself a pass edge of a guard or leaves a
// block reachable only through a pass edge (no iteration completes without the guard).
func backEdgesGuarded(fn *ssa.Function, hdr *ssa.BasicBlock, guards []engine.Guard) bool {
	pass := map[engine.Edge]bool{}
	for _, g := range guards {
		pass[g.PassEdge()] = true
	}
	found := false
	for _, pr := range hdr.Preds {
		if !hdr.Dominates(pr) {
			continue
		}
		found = true
		for i, s := range pr.Succs {
			if s != hdr {
				continue
			}
			if pass[engine.Edge{From: pr, Succ: i}] {
				continue
			}
			if !engine.OnlyThroughPass(fn, pr, guards) {
				return false
			}
		}
	}
	return found
}

// constInt resolves an integer constant of a repo package by name (-1 if absent).
func constInt(p *engine.Prog, pkgShort, name string) int64 {
	pk := p.ByPath[engine.RepoMod+"/"+pkgShort]
	if pk == nil {
		return -1
	}
	c, ok := pk.Types.Scope().Lookup(name).(*types.Const)
	if !ok {
		return -1
	}
	v, ok := constant.Int64Val(c.Val())
	if !ok {
		return -1
	}
	return v
}

// constFloat resolves a numeric constant of a repo package by name (NaN-free: ok=false if absent).
func constFloat(p *engine.Prog, pkgShort, name string) (float64, bool) {
	pk := p.ByPath[engine.RepoMod+"/"+pkgShort]
	if pk == nil {
		return 0, false
	}
	c, ok := pk.Types.Scope().Lookup(name).(*types.Const)
	if !ok {
		return 0, false
	}
	v, _ := constant.Float64Val(constant.ToFloat(c.Val()))
	return v, true
}

// ssaConstFloat: v is a numeric constant; returns its value.
func ssaConstFloat(v ssa.Value) (float64, bool) {
	c, ok := v.(*ssa.Const)
	if !ok || c.Value == nil {
		return 0, false
	}
	f := constant.ToFloat(c.Value)
	if f.Kind() != constant.Float {
		return 0, false
	}
	x, _ := constant.Float64Val(f)
	return x, true
}

// isLoopIndexPhi: ph is the position variable of a loop — the hidden index of a range loop or a classic
// induction variable (i := k; …; i++ / i += 1).
func isLoopIndexPhi(ph *ssa.Phi) bool {
	if strings.Contains(ph.Comment, "rangeindex") {
		return true
	}
	hasConst, hasStep := false, false
	for _, e := range ph.Edges {
		if _, ok := e.(*ssa.Const); ok {
			hasConst = true
			continue
		}
		if b, ok := e.(*ssa.BinOp); ok && b.Op == token.ADD {
			if k, isK := engine.ConstInt(b.Y); isK && k == 1 && b.X == ssa.Value(ph) {
				hasStep = true
			}
		}
	}
	return hasConst && hasStep
}

// sliceThroughHelpers is BackSlice that also looks into what small same-package helpers return: for a
// call of a static callee of pkg in the slice, the slices of the callee's results are added (depth 2).
func sliceThroughHelpers(v ssa.Value, pkg *ssa.Package, depth int) map[ssa.Value]bool {
	out := engine.BackSlice(v, engine.DefaultSlice)
	if depth <= 0 {
		return out
	}
	for x := range out {
		c, ok := x.(*ssa.Call)
		if !ok {
			continue
		}
		cal := c.Call.StaticCallee()
		if cal == nil || cal.Pkg != pkg || cal.Blocks == nil {
			continue
		}
		for _, ret := range engine.Returns(cal) {
			for _, rv := range ret.Results {
				for y := range sliceThroughHelpers(rv, pkg, depth-1) {
					out[y] = true
				}
			}
		}
	}
	return out
}

// renderVal prints an SSA value as an access-path expression over parameters, fields, constants
// and calls (no register names), for comparing conditions of sibling functions.
func renderVal(v ssa.Value, depth int) string {
	if depth > 8 {
		return "…"
	}
	v = engine.Unwrap(v)
	switch x := v.(type) {
	case *ssa.Const:
		if x.Value == nil {
			return "nil"
		}
		return x.Value.ExactString()
	case *ssa.Parameter:
		if x.Parent() != nil && len(x.Parent().Params) > 0 && x.Parent().Params[0] == x && x.Parent().Signature.Recv() != nil {
			return "recv"
		}
		return "param:" + x.Type().String()
	case *ssa.FreeVar:
		return "free:" + x.Name()
	case *ssa.UnOp:
		if x.Op == token.MUL {
			return renderVal(x.X, depth+1)
		}
		return x.Op.String() + renderVal(x.X, depth+1)
	case *ssa.FieldAddr:
		_, fld, _ := engine.FieldOf(x)
		return renderVal(x.X, depth+1) + "." + fld
	case *ssa.Field:
		st, _ := x.X.Type().Underlying().(*types.Struct)
		name := "?"
		if st != nil {
			name = st.Field(x.Field).Name()
		}
		return renderVal(x.X, depth+1) + "." + name
	case *ssa.BinOp:
		return "(" + renderVal(x.X, depth+1) + " " + x.Op.String() + " " + renderVal(x.Y, depth+1) + ")"
	case *ssa.Call:
		var as []string
		for _, a := range engine.CallArgs(x) {
			as = append(as, renderVal(a, depth+1))
		}
		return engine.CallID(x) + "(" + strings.Join(as, ",") + ")"
	case *ssa.Alloc:
		// a spilled parameter / local: its single stored value
		if sts := engine.StoresTo(x); len(sts) == 1 {
			return renderVal(sts[0].Val, depth+1)
		}
		return "local:" + x.Type().String()
	case *ssa.Convert:
		return renderVal(x.X, depth+1)
	case *ssa.ChangeType:
		return renderVal(x.X, depth+1)
	case *ssa.Slice:
		return renderVal(x.X, depth+1) + "[:]"
	case *ssa.IndexAddr:
		return renderVal(x.X, depth+1) + "[" + renderVal(x.Index, depth+1) + "]"
	case *ssa.Index:
		return renderVal(x.X, depth+1) + "[" + renderVal(x.Index, depth+1) + "]"
	case *ssa.Lookup:
		return renderVal(x.X, depth+1) + "[" + renderVal(x.Index, depth+1) + "]"
	case *ssa.MakeInterface:
		return renderVal(x.X, depth+1)
	case *ssa.Phi:
		var es []string
		for _, e := range x.Edges {
			if e == ssa.Value(x) {
				continue
			}
			es = append(es, renderVal(e, depth+2))
		}
		sort.Strings(es)
		return "phi{" + strings.Join(dedup(es), "|") + "}"
	case *ssa.Extract:
		return renderVal(x.Tuple, depth+1) + "#" + fmt.Sprint(x.Index)
	}
	return "?" + v.Type().String()
}

// controlSig renders every branch condition that controls block b (a branch successor with a
// single predecessor that dominates b), sorted.
func controlSig(b *ssa.BasicBlock) []string {
	var out []string
	for _, d := range b.Parent().Blocks {
		if len(d.Instrs) == 0 || d == b {
			continue
		}
		iff, ok := d.Instrs[len(d.Instrs)-1].(*ssa.If)
		if !ok {
			continue
		}
		branch := -1
		for i, s := range d.Succs {
			if len(s.Preds) == 1 && s.Dominates(b) {
				branch = i
			}
		}
		if branch < 0 {
			continue
		}
		cond, neg := stripNot(iff.Cond)
		s := renderVal(cond, 0)
		if (branch == 0) == neg {
			s = "!" + s
		}
		out = append(out, s)
	}
	sort.Strings(out)
	return out
}

// enclosingLoopHeader returns the header of the innermost natural loop whose body contains b (nil if
// none). Unlike a nearest-dominating-header search it does not attribute a loop's exit block to it.
func enclosingLoopHeader(b *ssa.BasicBlock) *ssa.BasicBlock {
	var best *ssa.BasicBlock
	bestSize := 0
	for _, h := range b.Parent().Blocks {
		isHdr := false
		for _, pr := range h.Preds {
			if h.Dominates(pr) {
				isHdr = true
			}
		}
		if !isHdr {
			continue
		}
		body := loopBlocks(h)
		if !body[b] {
			continue
		}
		if best == nil || len(body) < bestSize {
			best, bestSize = h, len(body)
		}
	}
	return best
}
