package props

import (
	"fmt"
	"go/ast"
	"go/parser"
	"go/token"
	"go/types"
	"sort"
	"strings"

	"golang.org/x/tools/go/packages"
	"golang.org/x/tools/go/ssa"

	"idenaverif/internal/engine"
)

// loadOfField: v is (a conversion of) a load `*(&x.f)` or `x.f` with x of named type
// owner (or pointer to it). Returns the base x.
func loadOfField(v ssa.Value, owner, field string) (base ssa.Value, ok bool) {
	v = engine.Unwrap(v)
	if u, isU := v.(*ssa.UnOp); isU && u.Op == token.MUL {
		if fa, isFA := u.X.(*ssa.FieldAddr); isFA {
			o, f, _ := engine.FieldOf(fa)
			if o == owner && f == field {
				return fa.X, true
			}
		}
		return nil, false
	}
	if fl, isF := v.(*ssa.Field); isF {
		o, f, _ := engine.FieldOf(fl)
		if o == owner && f == field {
			return fl.X, true
		}
	}
	return nil, false
}

// fieldAddrOf: v is &x.f of owner.field
func fieldAddrOf(v ssa.Value, owner, field string) (base ssa.Value, ok bool) {
	if fa, isFA := v.(*ssa.FieldAddr); isFA {
		o, f, _ := engine.FieldOf(fa)
		if o == owner && (field == "" || f == field) {
			return fa.X, true
		}
	}
	return nil, false
}

// guardsWhere builds guards from every If of fn whose condition satisfies match.
func guardsWhere(fn *ssa.Function, match func(cond ssa.Value) (ok, passTrue bool, note string)) []engine.Guard {
	var out []engine.Guard
	for _, i := range engine.Ifs(fn) {
		if ok, pt, note := match(i.Cond); ok {
			out = append(out, engine.Guard{If: i, PassTrue: pt, Note: note})
		}
	}
	return out
}

// eqCond decomposes `a == b` / `a != b`.
func eqCond(cond ssa.Value) (x, y ssa.Value, isEq bool, ok bool) {
	b, isB := cond.(*ssa.BinOp)
	if !isB || (b.Op != token.EQL && b.Op != token.NEQ) {
		return nil, nil, false, false
	}
	return b.X, b.Y, b.Op == token.EQL, true
}

// negations: `!c` appears as UnOp NOT in SSA; strip and report parity.
func stripNot(v ssa.Value) (ssa.Value, bool) {
	neg := false
	for {
		u, ok := v.(*ssa.UnOp)
		if !ok || u.Op != token.NOT {
			return v, neg
		}
		v = u.X
		neg = !neg
	}
}

func isConstString(v ssa.Value, s string) bool {
	c, ok := v.(*ssa.Const)
	if !ok || c.Value == nil {
		return false
	}
	return c.Value.ExactString() == fmt.Sprintf("%q", s)
}

// repoPkg returns the loaded package by short path.
func repoPkg(p *engine.Prog, r *engine.Report, short string) *packages.Package {
	path := engine.RepoMod
	if short != "" {
		path += "/" + short
	}
	pk := p.ByPath[path]
	if pk == nil {
		r.Errorf("anchor package %s not loaded", short)
	}
	return pk
}

// funcsOfPkg returns all SSA functions (incl. closures, methods) declared in a package.
func funcsOfPkg(p *engine.Prog, short string) []*ssa.Function {
	path := engine.RepoMod
	if short != "" {
		path += "/" + short
	}
	var out []*ssa.Function
	for _, f := range p.AllFuncs() {
		if pk := engine.FuncPkg(f); pk != nil && pk.Path() == path && f.Synthetic == "" {
			out = append(out, f)
		}
	}
	return out
}

// withStack walks an AST keeping the ancestor stack.
func withStack(root ast.Node, fn func(n ast.Node, stack []ast.Node) bool) {
	var stack []ast.Node
	ast.Inspect(root, func(n ast.Node) bool {
		if n == nil {
			stack = stack[:len(stack)-1]
			return true
		}
		ok := fn(n, stack)
		stack = append(stack, n)
		if !ok {
			// still need the pop: ast.Inspect will not call with nil when we return false
			stack = stack[:len(stack)-1]
		}
		return ok
	})
}

func enclosingFuncName(stack []ast.Node) string {
	for i := len(stack) - 1; i >= 0; i-- {
		if fd, ok := stack[i].(*ast.FuncDecl); ok {
			if fd.Recv != nil && len(fd.Recv.List) > 0 {
				return types.ExprString(fd.Recv.List[0].Type) + "." + fd.Name.Name
			}
			return fd.Name.Name
		}
	}
	return "?"
}

func sortedKeys(m map[string]bool) []string {
	var out []string
	for k := range m {
		out = append(out, k)
	}
	sort.Strings(out)
	return out
}

func joinKeys(m map[string]bool) string { return strings.Join(sortedKeys(m), ",") }

// storesToField lists every Store whose address is &x.field of the owner type, in fns.
func storesToField(fns []*ssa.Function, owner, field string) []*ssa.Store {
	var out []*ssa.Store
	for _, f := range fns {
		for _, b := range f.Blocks {
			for _, in := range b.Instrs {
				if s, ok := in.(*ssa.Store); ok {
					if _, ok := fieldAddrOf(s.Addr, owner, field); ok {
						out = append(out, s)
					}
				}
			}
		}
	}
	return out
}

// allocsOf lists Alloc instructions of fn allocating the named type (short name).
func allocsOf(fn *ssa.Function, typeName string) []*ssa.Alloc {
	var out []*ssa.Alloc
	for _, b := range fn.Blocks {
		for _, in := range b.Instrs {
			if a, ok := in.(*ssa.Alloc); ok {
				if n := engine.NamedOf(a.Type()); n != nil && n.Obj().Name() == typeName {
					if _, isPtr := a.Type().(*types.Pointer); isPtr {
						if pn, ok := a.Type().(*types.Pointer).Elem().(*types.Named); ok && pn == n {
							out = append(out, a)
						}
					}
				}
			}
		}
	}
	return out
}

// fieldStoresOn lists stores to fields of the object addressed by base (same SSA value).
func fieldStoresOn(base ssa.Value) map[string]*ssa.Store {
	out := map[string]*ssa.Store{}
	refs := base.Referrers()
	if refs == nil {
		return out
	}
	for _, ref := range *refs {
		fa, ok := ref.(*ssa.FieldAddr)
		if !ok || fa.X != base {
			continue
		}
		_, fname, _ := engine.FieldOf(fa)
		for _, s := range engine.StoresTo(fa) {
			if _, dup := out[fname]; !dup {
				out[fname] = s
			}
		}
	}
	return out
}

// relFile strips the repo dir.
func relFile(p *engine.Prog, pos token.Pos) string { return p.Pos(pos) }

// callsTo finds call instructions to any of ids within fn (not closures).
func callsTo(fn *ssa.Function, ids ...string) []ssa.CallInstruction {
	var out []ssa.CallInstruction
	for _, c := range engine.Calls(fn) {
		if engine.CallIs(c, ids...) {
			out = append(out, c)
		}
	}
	return out
}

// callsToDeep is callsTo including nested closures.
func callsToDeep(fn *ssa.Function, ids ...string) []ssa.CallInstruction {
	var out []ssa.CallInstruction
	for _, c := range engine.CallsDeep(fn) {
		if engine.CallIs(c, ids...) {
			out = append(out, c)
		}
	}
	return out
}

// callersIn: names of functions (top-level parents) containing a call that may reach f.
func callerNames(p *engine.Prog, f *ssa.Function) map[string]bool {
	out := map[string]bool{}
	for _, e := range p.Callers(f) {
		out[engine.FuncName(e.Caller.Func)] = true
	}
	return out
}

func topParent(f *ssa.Function) *ssa.Function {
	for f.Parent() != nil {
		f = f.Parent()
	}
	return f
}

func parseFile(fset *token.FileSet, path string) (*ast.File, error) {
	return parser.ParseFile(fset, path, nil, parser.SkipObjectResolution)
}
