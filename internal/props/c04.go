package props

import (
	"fmt"
	"go/token"
	"go/types"
	"sort"
	"strings"

	"golang.org/x/tools/go/ssa"

	"idenaverif/internal/engine"
)

func init() { register("C04", C04) }

var creditFields = map[string]bool{"Account.Balance": true, "Identity.Stake": true, "Identity.lockedStake": true, "Identity.replenishedStake": true, "Account.Contract": true}

func isCreditMutator(sm *stateModel, c ssa.CallInstruction) (string, bool) {
	name, ws, ok := sm.mutatorCall(c)
	if !ok {
		return "", false
	}
	short := name[strings.Index(name, ".")+1:]
	touches := false
	for _, w := range ws {
		if creditFields[w] {
			touches = true
		}
	}
	if !touches {
		return "", false
	}
	switch {
	case strings.HasPrefix(short, "Add"), short == "SetBalance", short == "SetContractStake", short == "DeployContract":
		return name, true
	}
	return "", false
}

func isDebitMutator(sm *stateModel, c ssa.CallInstruction) (string, bool) {
	name, ws, ok := sm.mutatorCall(c)
	if !ok {
		return "", false
	}
	short := name[strings.Index(name, ".")+1:]
	for _, w := range ws {
		if creditFields[w] && strings.HasPrefix(short, "Sub") {
			return name, true
		}
	}
	return "", false
}

// amountOperand: the *big.Int amount argument of a credit/debit call (last *big.Int param).
func amountOperand(c ssa.CallInstruction) ssa.Value {
	ps := engine.Params(c)
	for i := len(ps) - 1; i >= 0; i-- {
		if strings.Contains(ps[i].Type().String(), "big.Int") {
			return ps[i]
		}
	}
	return nil
}

// derivedFrom: amount a is the same value as b, the same pure expression, or derived from b
// through big.Int Set/Sub/Quo/Div/Mul-with-share operations and decimal share arithmetic
// (a <= b for non-negative operands is NOT decided; only provenance is).
func derivedFrom(a, b ssa.Value) bool {
	if a == nil || b == nil {
		return false
	}
	if engine.PathOf(a) == engine.PathOf(b) {
		return true
	}
	bp := engine.PathOf(b)
	for v := range engine.BackSlice(a, engine.DefaultSlice) {
		if v == b || engine.PathOf(v) == bp {
			return true
		}
	}
	return false
}

// C04 — no coins from nowhere.
func C04(p *engine.Prog, r *engine.Report) {
	r.Explanation = "Three structural necessary conditions of conservation, on every path: (R1) who-may-credit — every call of a crediting mutator (Add*/SetBalance/SetContractStake/DeployContract on balance, stake, locked/replenished stake, contract stake; enumerated from core/state's derived field effects) reachable from the state transition is classified by a checked rule: transfer (the same function debits an amount the credit is derived from), mint (the enclosing function is reachable only from the block/epoch reward functions), restore (contract env Commit writing back a per-transaction cache, itself fed only by guarded env operations) or predefined state; anything else is a violation; (R2) admission gate — ValidateTx succeeds only through checkIfNonNegative of every *big.Int field of Transaction (enumerated from the struct), ValidateFee, validateTotalCost (balance compared with a cost built by fee.CalculateCost/CalculateMaxCost) and the per-type validator; (R3) contract debits are behind balance >= amount and amount >= 0 of the same address, sub-call pay amounts are non-negative; (R4) the final-committee reward is capped by the remainder; (R5) the whole-balance transfer of ActivationTx subtracts the total cost (fee and tips), not only the fee; (R6) every cache the contract env writes back in Commit (the 'restore' credits of R1: absolute balances and contract stakes) is re-created by Reset before each transaction, so a value buffered by one transaction is not re-applied by a later one of the block. The numeric bounds themselves (non-negativity of every balance, issuance <= reward) quantify over big-int values and are NOT decided."
	r.Assumptions = []string{"big.Int arithmetic is exact", "a credit derived from a debited amount by share arithmetic does not exceed it (value-level, not decided)", "genesis/predefined state loaders are outside block processing"}
	sm := getStateModel(p)
	entries := e01(p, r)
	reach := detReach(p, entries)
	r.ReachSize = len(reach)
	// reward roots
	mintRoots := map[string]bool{"Blockchain.applyBlockRewards": true, "Blockchain.rewardFinalCommittee": true, "rewardValidIdentities": true}
	isMintOnly := func(f *ssa.Function) (bool, string) {
		// every caller chain (within the reach set) passes a mint root
		seen := map[*ssa.Function]bool{}
		var up func(g *ssa.Function, d int) bool
		up = func(g *ssa.Function, d int) bool {
			if mintRoots[engine.RelName(topParent(g))] {
				return true
			}
			if d > 6 || seen[g] {
				return seen[g]
			}
			seen[g] = true
			if g.Parent() != nil {
				return up(g.Parent(), d+1)
			}
			n := 0
			for _, e := range p.Callers(g) {
				if !reach[e.Caller.Func] {
					continue
				}
				n++
				if !up(e.Caller.Func, d+1) {
					return false
				}
			}
			return n > 0
		}
		return up(f, 0), ""
	}
	nSites := 0
	for _, f := range engine.SortedFuncs(reach) {
		for _, c := range engine.Calls(f) {
			name, ok := isCreditMutator(sm, c)
			if !ok {
				continue
			}
			nSites++
			r.Fn(engine.FuncName(f))
			key := engine.RelName(f) + "|" + name
			pos := p.InstrPos(c)
			amt := amountOperand(c)
			top := topParent(f)
			// restore: env Commit
			if f.Name() == "Commit" && (engine.RelName(f) == "EnvImp.Commit" || engine.RelName(f) == "WasmEnv.Commit") {
				r.OK("C04-R1", key+" (restore)", pos, "writes back the per-transaction env cache (fed by guarded env operations, R3)")
				continue
			}
			if strings.HasPrefix(top.Name(), "SetPredefined") || strings.HasPrefix(top.Name(), "setPredefined") {
				r.OK("C04-R1", key+" (predefined state)", pos, "genesis / predefined state loader")
				continue
			}
			// transfer: a debit in the same function (or its top-level parent) the credit derives from
			transfer := ""
			// arm sensitivity: in a function that dispatches on tx.Type the debit must live in the
			// same arm as the credit (or in code common to all arms)
			var tgs []typeGuard
			var creditArm []int64
			creditAny := true
			if len(top.Params) > 1 && f == top {
				for _, par := range txParamsOf(top) {
					tgs = txTypeGuards(top, par)
				}
				if len(tgs) > 0 {
					creditArm, creditAny = armTypes(top, c.Block(), tgs)
				}
			}
			for _, g := range append([]*ssa.Function{top}, engine.Anon(top)...) {
				for _, c2 := range engine.Calls(g) {
					dn, isD := isDebitMutator(sm, c2)
					if !isD {
						continue
					}
					if len(tgs) > 0 && g == top && !creditAny {
						dArm, dAny := armTypes(top, c2.Block(), tgs)
						if !dAny {
							common := false
							for _, a := range dArm {
								for _, b := range creditArm {
									if a == b {
										common = true
									}
								}
							}
							if !common {
								continue
							}
						}
					}
					if derivedFrom(amt, amountOperand(c2)) || derivedFromGetter(amt, c2) {
						transfer = dn
					}
				}
			}
			if transfer != "" {
				r.OK("C04-R1", key+" (transfer)", pos, "amount derives from the amount debited by "+transfer+" in the same function")
				continue
			}
			if ok, _ := isMintOnly(f); ok {
				r.OK("C04-R1", key+" (mint)", pos, "reachable only through the block/epoch reward functions")
				continue
			}
			r.Bad("C04-R1", key, pos, "credit that is neither a transfer (no debit of a related amount in the same function), nor inside the reward functions, nor an env write-back: coins can appear from nowhere")
		}
	}
	r.Floor("C04-R1", 30, "credit sites in the transition reach set")

	c04R2(p, r)
	c04R3(p, r)
	c04R4(p, r)
	c04R5(p, r, sm)
}

// derivedFromGetter: the credited amount is computed from the current stake/balance of the
// address that the debit call empties (e.g. KillTx: stake := GetStakeBalance(x); SubStake(x, stake)).
func derivedFromGetter(amt ssa.Value, debit ssa.CallInstruction) bool {
	if amt == nil {
		return false
	}
	dps := engine.Params(debit)
	if len(dps) < 2 {
		return false
	}
	da := engine.PathOf(dps[0])
	for v := range engine.BackSlice(amt, engine.DefaultSlice) {
		c, ok := v.(*ssa.Call)
		if !ok {
			continue
		}
		id := engine.CallID(c)
		if strings.HasPrefix(id, "core/state.StateDB.Get") && (strings.Contains(id, "Stake") || strings.Contains(id, "Balance")) {
			if ps := engine.Params(c); len(ps) > 0 && engine.PathOf(ps[0]) == da {
				return true
			}
		}
	}
	return false
}

func c04R2(p *engine.Prog, r *engine.Report) {
	vt := mustFunc(p, r, "blockchain/validation", "ValidateTx")
	if vt == nil {
		return
	}
	tx := ssa.Value(vt.Params[1])
	succ := successReturns(vt)
	// every *big.Int field of Transaction
	pk := p.ByPath[engine.RepoMod+"/blockchain/types"]
	st := structOf(pk.Types.Scope().Lookup("Transaction").Type())
	for i := 0; st != nil && i < st.NumFields(); i++ {
		f := st.Field(i)
		if f.Type().String() != "*math/big.Int" {
			continue
		}
		var gs []engine.Guard
		for _, c := range callsTo(vt, "blockchain/validation.checkIfNonNegative") {
			cc := c.(*ssa.Call)
			if txFieldLoad(cc.Call.Args[0], tx, f.Name()) {
				gs = append(gs, nilErrGuards(vt, cc)...)
			}
		}
		ok := len(gs) > 0
		for _, ret := range succ {
			if !engine.OnlyThroughPassRet(vt, ret, gs) {
				ok = false
			}
		}
		r.Check(ok, "C04-R2", "ValidateTx|checkIfNonNegative(tx."+f.Name()+")", p.Pos(vt.Pos()), "every success path passes it", "a transaction with a negative "+f.Name()+" can be admitted (sign-dropping encoding turns it into a credit)")
	}
	for _, id := range []string{"blockchain/validation.ValidateFee", "blockchain/validation.validateTotalCost"} {
		var gs []engine.Guard
		for _, c := range callsTo(vt, id) {
			gs = append(gs, nilErrGuards(vt, c.(*ssa.Call))...)
		}
		ok := len(gs) > 0
		for _, ret := range succ {
			if !engine.OnlyThroughPassRet(vt, ret, gs) {
				ok = false
			}
		}
		r.Check(ok, "C04-R2", "ValidateTx|"+id[strings.LastIndex(id, ".")+1:]+"==nil", p.Pos(vt.Pos()), "every success path passes it", "a transaction can be admitted without "+id)
	}
	// per-type validator invoked and checked
	okV := false
	for _, c := range engine.Calls(vt) {
		cc, isC := c.(*ssa.Call)
		if !isC || cc.Call.IsInvoke() || cc.Call.StaticCallee() != nil {
			continue
		}
		// call of the func value returned by getValidator
		if sliceCallOn(cc.Call.Value, nil, "blockchain/validation.getValidator") {
			gs := nilErrGuards(vt, cc)
			okV = len(gs) > 0
			for _, ret := range succ {
				if !engine.OnlyThroughPassRet(vt, ret, gs) {
					okV = false
				}
			}
		}
	}
	r.Check(okV, "C04-R2", "ValidateTx|per-type validator==nil", p.Pos(vt.Pos()), "every success path passes the registered validator", "a transaction can be admitted without its type validator")
	// validateTotalCost: balance of the sender compared with a computed cost
	if tc := mustFunc(p, r, "blockchain/validation", "validateTotalCost"); tc != nil {
		ok := false
		for _, g := range checksOf(tc) {
			sl := engine.BackSlice(g.If.Cond, engine.DefaultSlice)
			hasBal := false
			for v := range sl {
				if c, isC := v.(*ssa.Call); isC && engine.CallIs(c, "core/state.StateDB.GetBalance") && engine.Origin(engine.Params(c)[0]) == ssa.Value(tc.Params[0]) {
					hasBal = true
				}
			}
			hasCost := engine.SliceHasCall(sl, "blockchain/fee.CalculateCost", "blockchain/fee.CalculateMaxCost") != nil
			if hasBal && hasCost {
				ok = true
			}
		}
		r.Check(ok, "C04-R2", "validateTotalCost|GetBalance(sender) vs CalculateCost/CalculateMaxCost", p.Pos(tc.Pos()), "a check comparing the sender's balance with the computed cost rejects", "no check compares the sender's balance with the transaction cost")
		// every value the compared cost can take is a full cost (amount + tips + fee) of this transaction
		for _, c := range engine.Calls(tc) {
			cc, isC := c.(*ssa.Call)
			if !isC || !engine.CallIs(cc, "math/big.Int.Cmp") || len(cc.Call.Args) != 2 {
				continue
			}
			if bc, isB := engine.Unwrap(cc.Call.Args[0]).(*ssa.Call); !isB || !engine.CallIs(bc, "core/state.StateDB.GetBalance") {
				continue
			}
			var leaves []ssa.Value
			seen := map[ssa.Value]bool{}
			var walk func(v ssa.Value)
			walk = func(v ssa.Value) {
				v = engine.Unwrap(v)
				if seen[v] {
					return
				}
				seen[v] = true
				if ph, isPhi := v.(*ssa.Phi); isPhi {
					for _, e := range ph.Edges {
						walk(e)
					}
					return
				}
				leaves = append(leaves, v)
			}
			walk(cc.Call.Args[1])
			var bad []string
			for _, l := range leaves {
				lc, isCall := l.(*ssa.Call)
				full := isCall && (engine.CallIs(lc, "blockchain/fee.CalculateCost") || engine.CallIs(lc, "blockchain/fee.CalculateMaxCost"))
				if full {
					// on this transaction
					onTx := false
					for _, a := range lc.Call.Args {
						if engine.Origin(a) == ssa.Value(tc.Params[2]) {
							onTx = true
						}
					}
					full = onTx
				}
				if !full {
					bad = append(bad, engine.PathOf(l))
				}
			}
			sort.Strings(bad)
			r.Check(len(bad) == 0 && len(leaves) > 0, "C04-R2", "validateTotalCost|every compared cost is the full cost of the transaction", p.InstrPos(cc), fmt.Sprintf("%d definitions, all fee.CalculateCost/CalculateMaxCost(tx)", len(leaves)), "on some path the balance is compared with "+strings.Join(bad, ", ")+" instead of the full cost (amount + tips + fee): the amount is debited without having been covered, the balance goes negative and its sign is dropped on encoding")
		}
	}
	r.Floor("C04-R2", 8, "3 fields + fee + total cost + validator + balance check + cost definitions")
}

func structOf(t types.Type) *types.Struct {
	st, _ := t.Underlying().(*types.Struct)
	return st
}

func c04R3(p *engine.Prog, r *engine.Report) {
	n := 0
	for _, x := range []struct{ pkg, fn, getter string }{{"vm/env", "EnvImp.Send", "getBalance"}, {"vm/env", "EnvImp.MoveToStake", "getBalance"}, {"vm/wasm", "WasmEnv.SubBalance", "getBalance"}} {
		f := mustFunc(p, r, x.pkg, x.fn)
		if f == nil {
			continue
		}
		for _, c := range engine.Calls(f) {
			cal := c.Common().StaticCallee()
			if cal == nil || cal.Name() != "subBalance" {
				continue
			}
			n++
			ps := engine.Params(c)
			addr, amt := ps[0], ps[1]
			suff := guardsWhere(f, func(cond ssa.Value) (bool, bool, string) {
				b, ok := cond.(*ssa.BinOp)
				if !ok {
					return false, false, ""
				}
				// balance.Cmp(amount) < 0  => error
				cmp, isC := engine.Unwrap(b.X).(*ssa.Call)
				k, isK := engine.ConstInt(b.Y)
				if !isC || !isK || k != 0 || !engine.CallIs(cmp, "math/big.Int.Cmp") {
					return false, false, ""
				}
				bal, isB := engine.Origin(cmp.Call.Args[0]).(*ssa.Call)
				if !isB || bal.Call.StaticCallee() == nil || bal.Call.StaticCallee().Name() != x.getter {
					return false, false, ""
				}
				if engine.PathOf(engine.Params(bal)[0]) != engine.PathOf(addr) || engine.PathOf(cmp.Call.Args[1]) != engine.PathOf(amt) {
					return false, false, ""
				}
				switch b.Op.String() {
				case "<":
					return true, false, "balance >= amount"
				case ">=":
					return true, true, "balance >= amount"
				}
				return false, false, ""
			})
			nonneg := guardsWhere(f, func(cond ssa.Value) (bool, bool, string) {
				b, ok := cond.(*ssa.BinOp)
				if !ok {
					return false, false, ""
				}
				sg, isC := engine.Unwrap(b.X).(*ssa.Call)
				k, isK := engine.ConstInt(b.Y)
				if !isC || !isK || k != 0 || !engine.CallIs(sg, "math/big.Int.Sign") || engine.PathOf(sg.Call.Args[0]) != engine.PathOf(amt) {
					return false, false, ""
				}
				switch b.Op.String() {
				case "<":
					return true, false, "amount >= 0"
				case ">=":
					return true, true, "amount >= 0"
				}
				return false, false, ""
			})
			key := engine.RelName(f) + "|subBalance"
			r.Check(engine.OnlyThroughPass(f, c.Block(), suff), "C04-R3", key+" behind balance >= amount", p.InstrPos(c), "same address, same amount", "a contract can send more than it holds (balance check missing, on another address or amount)")
			r.Check(engine.OnlyThroughPass(f, c.Block(), nonneg), "C04-R3", key+" behind amount >= 0", p.InstrPos(c), "same amount", "a contract can send a negative amount (credits itself, debits the recipient)")
		}
	}
	// callers of subBalance
	for _, pkg := range []string{"vm/env", "vm/wasm"} {
		for _, f := range funcsOfPkg(p, pkg) {
			for _, c := range engine.Calls(f) {
				if cal := c.Common().StaticCallee(); cal != nil && cal.Name() == "subBalance" {
					nm := engine.RelName(f)
					ok := nm == "EnvImp.Send" || nm == "EnvImp.MoveToStake" || nm == "WasmEnv.SubBalance"
					if !ok {
						r.Bad("C04-R3", nm+"|unguarded subBalance caller", p.InstrPos(c), "env debit outside the guarded entry points")
					}
				}
			}
		}
	}
	// sub-call pay amounts
	if f, err := p.Func("vm/wasm", "WasmEnv.CreateSubEnv"); err == nil {
		r.Fn(engine.FuncName(f))
		var amt ssa.Value
		for _, par := range f.Params {
			if strings.Contains(par.Type().String(), "big.Int") {
				amt = par
			}
		}
		g := guardsWhere(f, func(cond ssa.Value) (bool, bool, string) {
			b, ok := cond.(*ssa.BinOp)
			if !ok || amt == nil {
				return false, false, ""
			}
			sg, isC := engine.Unwrap(b.X).(*ssa.Call)
			k, isK := engine.ConstInt(b.Y)
			if !isC || !isK || k != 0 || !engine.CallIs(sg, "math/big.Int.Sign") || engine.Origin(sg.Call.Args[0]) != amt {
				return false, false, ""
			}
			if b.Op.String() == "<" {
				return true, false, ""
			}
			return false, false, ""
		})
		ok := len(g) > 0
		for _, ret := range successReturns(f) {
			if !engine.OnlyThroughPassRet(f, ret, g) {
				ok = false
			}
		}
		r.Check(ok, "C04-R3", "WasmEnv.CreateSubEnv|pay amount >= 0", p.Pos(f.Pos()), "every success path passes payAmount.Sign() >= 0", "a cross-contract call can carry a negative pay amount")
	}
	r.Floor("C04-R3", 6, "3 guarded debits x2 + sub env")
}

func c04R4(p *engine.Prog, r *engine.Report) {
	f := mustFunc(p, r, "blockchain", "Blockchain.rewardFinalCommittee")
	if f == nil {
		return
	}
	fs := append([]*ssa.Function{f}, engine.Anon(f)...)
	isRemaining := func(v ssa.Value) bool {
		for i := 0; i < 6; i++ {
			switch x := v.(type) {
			case *ssa.UnOp:
				if fv, ok := x.X.(*ssa.FreeVar); ok {
					return fv.Name() == "remainingReward"
				}
				if a, ok := x.X.(*ssa.Alloc); ok {
					return a.Comment == "remainingReward"
				}
				v = x.X
			case *ssa.ChangeType:
				v = x.X
			default:
				return false
			}
		}
		return false
	}
	capFound, subFound := false, false
	var capped ssa.Value
	for _, g := range fs {
		for _, i := range engine.Ifs(g) {
			b, isB := i.Cond.(*ssa.BinOp)
			if !isB {
				continue
			}
			cmp, isC := engine.Unwrap(b.X).(*ssa.Call)
			if !isC || !engine.CallIs(cmp, "math/big.Int.Cmp") || !isRemaining(cmp.Call.Args[1]) {
				continue
			}
			k, isK := engine.ConstInt(b.Y)
			if (b.Op.String() == "==" && isK && k == 1) || (b.Op.String() == ">" && isK && k == 0) {
				capFound = true
				capped = cmp.Call.Args[0]
			}
		}
		for _, c := range engine.Calls(g) {
			if engine.CallIs(c, "math/big.Int.Sub") {
				a := c.Common().Args
				if isRemaining(a[0]) && isRemaining(a[1]) {
					subFound = true
				}
			}
		}
	}
	_ = capped
	r.Check(capFound, "C04-R4", "rewardFinalCommittee|member reward capped by the remaining reward", p.Pos(f.Pos()), "total.Cmp(remainingReward) == 1 selects the remainder", "per-member reward is not capped by what is left of the committee reward")
	r.Check(subFound, "C04-R4", "rewardFinalCommittee|remaining reward decreases by what was paid", p.Pos(f.Pos()), "remainingReward.Sub(remainingReward, paid)", "the remainder is not reduced by the paid amount: the cap never binds")
	// proposer part = block reward - committee part, clamped at zero
	if ab := mustFunc(p, r, "blockchain", "Blockchain.applyBlockRewards"); ab != nil {
		var rfc *ssa.Call
		for _, c := range callsTo(ab, "blockchain.Blockchain.rewardFinalCommittee") {
			rfc, _ = c.(*ssa.Call)
		}
		okSub, okClamp := false, false
		var prop ssa.Value
		for _, c := range callsTo(ab, "math/big.Int.Sub") {
			a := c.Common().Args
			if rfc != nil && engine.Origin(a[2]) == ssa.Value(rfc) {
				okSub = true
				prop, _ = c.(ssa.Value)
			}
		}
		for _, i := range engine.Ifs(ab) {
			b, isB := i.Cond.(*ssa.BinOp)
			if !isB {
				continue
			}
			sg, isC := engine.Unwrap(b.X).(*ssa.Call)
			if isC && engine.CallIs(sg, "math/big.Int.Sign") && prop != nil && engine.Origin(sg.Call.Args[0]) == prop {
				okClamp = true
			}
		}
		r.Check(okSub, "C04-R4", "applyBlockRewards|proposer part = block reward - paid committee part", p.Pos(ab.Pos()), "Sub(blockReward, rewardFinalCommittee(...))", "the proposer's share is not reduced by what the committee was paid")
		r.Check(okClamp, "C04-R4", "applyBlockRewards|proposer part clamped at zero", p.Pos(ab.Pos()), "Sign() test on the difference", "a negative proposer share is not clamped")
	}
	r.Floor("C04-R4", 4, "cap, remainder, proposer part, clamp")
}

// c04R5: ActivationTx moves the sender's whole balance minus the TOTAL cost.
func c04R5(p *engine.Prog, r *engine.Report, sm *stateModel) {
	f := mustFunc(p, r, "blockchain", "Blockchain.applyTxOnState")
	if f == nil {
		return
	}
	tx := ssa.Value(f.Params[1])
	sender := senderOf(f, tx)
	tgs := txTypeGuards(f, tx)
	consts := txTypeConsts(p)
	n := 0
	for _, c := range engine.Calls(f) {
		name, ok := isDebitMutator(sm, c)
		if !ok || name != "StateDB.SubBalance" {
			continue
		}
		ps := engine.Params(c)
		if sender == nil || engine.Origin(ps[0]) != sender {
			continue
		}
		sl := engine.BackSlice(ps[1], engine.DefaultSlice)
		fromBalance := false
		for v := range sl {
			if cc, isC := v.(*ssa.Call); isC && engine.CallIs(cc, "core/state.StateDB.GetBalance") {
				fromBalance = true
			}
		}
		if !fromBalance {
			continue
		}
		n++
		ks, _ := armTypes(f, c.Block(), tgs)
		var names []string
		for _, k := range ks {
			names = append(names, consts[k])
		}
		sort.Strings(names)
		hasCost := engine.SliceHasCall(sl, "blockchain.Blockchain.getTxCost") != nil
		r.Check(hasCost, "C04-R5", "applyTxOnState|balance-derived debit in arm "+strings.Join(names, ",")+" subtracts the total cost", p.InstrPos(c), "amount = balance - getTxCost(...) (fee and tips are debited afterwards)", "the sender's whole balance minus only part of the cost is moved: the later fee/tips debits drive the balance negative, and the sign-dropping encoding turns that into new coins")
	}
	r.Floor("C04-R5", 1, "ActivationTx")
	// ---------------- R6: "restore" credits (R1) replay a per-transaction cache: the cache must be per transaction
	envCacheResetRule(p, r, "C04-R6", "vm/env", "EnvImp")
	r.Floor("C04-R6", 5, "EnvImp caches written back by Commit")
	totalCostNoBypassRule(p, r, "C04-R2")
	importRules(p, r, "C15", map[string]string{"C15-R6": "C04-R8", "C15-R4": "C04-R8"})
	gasLimitFeeRateRule(p, r, "C04-R8")
	chargedCostRule(p, r, "C04-R2")
	// ---------------- R9: stake parts stay nested
	stakePartsRule(p, r, "C04-R9")
	c04R10(p, r)
	c04R11(p, r)
	r.Floor("C04-R9", 3, "invitee reward (locked, replenished) + ReplenishStakeTx")
	// ---------------- R7: buffered balances are read through the buffer
	c04R7(p, r)
}

// c04R7: the contract environments buffer balances per transaction (balancesCache, written back by
// Commit). A read of the committed balance inside those packages is sound only as the miss path of the
// cache-through accessor: the same function looks the address up in balancesCache (and, for nested
// environments, asks the parent) first. Any other direct read sees a balance that ignores debits made
// earlier in the same transaction — Commit then writes the stale sum back (coins minted).
func c04R7(p *engine.Prog, r *engine.Report) { c04R7rule(p, r, "C04-R7") }

func c04R7rule(p *engine.Prog, r *engine.Report, rule string) {
	n := 0
	for _, pkg := range []string{"vm/env", "vm/wasm"} {
		for _, f := range funcsOfPkg(p, pkg) {
			if f.Blocks == nil || isTestish(p.Pos(f.Pos())) {
				continue
			}
			for _, c := range callsTo(f, "core/state.StateDB.GetBalance") {
				n++
				// a lookup in a balancesCache field whose miss edge dominates the read
				var guards []engine.Guard
				for _, b := range f.Blocks {
					for _, ins := range b.Instrs {
						lk, ok := ins.(*ssa.Lookup)
						if !ok || !lk.CommaOk {
							continue
						}
						if _, fld, okF := engine.FieldOf(engine.Origin(lk.X)); !okF || fld != "balancesCache" {
							continue
						}
						if engine.Origin(lk.Index) != engine.Origin(c.Common().Args[1]) {
							continue
						}
						for _, ref := range *lk.Referrers() {
							ex, isEx := ref.(*ssa.Extract)
							if !isEx || ex.Index != 1 {
								continue
							}
							guards = append(guards, guardsWhere(f, func(cond ssa.Value) (bool, bool, string) {
								cc, neg := stripNot(cond)
								if cc == ssa.Value(ex) {
									return true, neg, "cache miss"
								}
								return false, false, ""
							})...)
						}
					}
				}
				ok := len(guards) > 0 && engine.OnlyThroughPass(f, c.Block(), guards)
				r.Check(ok, rule, engine.RelName(f)+"|committed balance read only on a balancesCache miss", p.InstrPos(c), "cache-through accessor", "reads the committed balance of an address without consulting the per-transaction balance buffer first: a debit made earlier in the same transaction is ignored and Commit writes the stale sum back")
			}
		}
	}
	if rule == "C04-R7" {
		r.Floor(rule, 2, "EnvImp.getBalance, WasmEnv.getBalance")
	}
	_ = n
}

// c04R10: a fund is paid out by the weights it was divided by. In addFlipReward a reward share is
// fund / total, where `total` accumulates the very weights that are appended to one per-author slice;
// a payout call that combines that share with the weights of another slice pays shares that do not
// add up to the fund (more than the epoch issues, or less).
func c04R10(p *engine.Prog, r *engine.Report) {
	f := mustFunc(p, r, "blockchain", "addFlipReward")
	if f == nil {
		return
	}
	r.Fn(engine.FuncName(f))
	// which accumulator grows together with which slice field: `total += w` and `x.F = append(x.F, w)` in one block
	together := map[string]map[ssa.Value]bool{} // field -> the ADD values of its accumulator
	all := append([]*ssa.Function{f}, f.AnonFuncs...)
	for _, g := range all {
		for _, b := range g.Blocks {
			var appended []struct {
				field string
				w     ssa.Value
			}
			for _, ins := range b.Instrs {
				st, ok := ins.(*ssa.Store)
				if !ok {
					continue
				}
				_, fld, okF := engine.FieldOf(st.Addr)
				if !okF {
					continue
				}
				c, isC := engine.Unwrap(st.Val).(*ssa.Call)
				if !isC {
					continue
				}
				if bi, isB := c.Call.Value.(*ssa.Builtin); !isB || bi.Name() != "append" || len(c.Call.Args) < 2 {
					continue
				}
				// the appended element(s)
				for v := range engine.BackSlice(c.Call.Args[1], engine.SliceOpts{ThroughLoads: true, MaxNodes: 60}) {
					if bt, isBasic := v.Type().Underlying().(*types.Basic); isBasic && bt.Kind() == types.Float32 {
						appended = append(appended, struct {
							field string
							w     ssa.Value
						}{fld, v})
					}
				}
			}
			for _, ins := range b.Instrs {
				add, ok := ins.(*ssa.BinOp)
				if !ok || add.Op != token.ADD {
					continue
				}
				for _, a := range appended {
					if add.Y == a.w || add.X == a.w {
						if together[a.field] == nil {
							together[a.field] = map[ssa.Value]bool{}
						}
						together[a.field][add] = true
					}
				}
			}
		}
	}
	n := 0
	for _, g := range all {
		for _, c := range engine.Calls(g) {
			cc := c.Common()
			if cc.IsInvoke() {
				continue
			}
			if sc := cc.StaticCallee(); sc != nil && sc.Parent() == nil {
				continue // only the local payout closure
			}
			var weights, share ssa.Value
			for _, a := range cc.Args {
				if a.Type().String() == "[]float32" {
					weights = a
				}
				if n2 := engine.NamedOf(a.Type()); n2 != nil && n2.Obj().Name() == "Decimal" {
					share = a
				}
			}
			if weights == nil || share == nil {
				continue
			}
			_, wf, okW := engine.FieldOf(engine.Origin(weights))
			if !okW {
				continue
			}
			n++
			// the share's divisor is the accumulator that grew with exactly this field
			ok := false
			for v := range engine.BackSlice(share, engine.DefaultSlice) {
				if together[wf][v] {
					ok = true
				}
				if ph, isPhi := v.(*ssa.Phi); isPhi {
					for _, e := range ph.Edges {
						if together[wf][e] {
							ok = true
						}
					}
				}
			}
			r.Check(ok, "C04-R10", uniq(r, "addFlipReward|the share paid by "+wf+" was divided by the total of "+wf), p.InstrPos(c), "share = fund / Σ "+wf, "the payout combines the weights in "+wf+" with a share whose divisor did not accumulate those weights: the shares paid do not add up to the fund — an epoch can mint more than its issuance (or less)")
		}
	}
	if n == 0 {
		r.Und("C04-R10", "addFlipReward|payout calls", p.Pos(f.Pos()), "no payout call with a weight slice and a share found")
	}
	r.Floor("C04-R10", 2, "basic and extra payouts")
}

// fieldCondTokens: for the branch conditions that control block b, the (field, operator, polarity)
// of comparisons on fields of the named struct type, sorted — a shape that survives renaming of
// locals and the difference between a callback parameter and a cached copy.
func fieldCondTokens(b *ssa.BasicBlock, typ string) []string {
	var out []string
	for _, d := range b.Parent().Blocks {
		if len(d.Instrs) == 0 || d == b {
			continue
		}
		iff, ok := d.Instrs[len(d.Instrs)-1].(*ssa.If)
		if !ok {
			continue
		}
		branch := -1
		for i, s := range d.Succs {
			if len(s.Preds) == 1 && s.Dominates(b) {
				branch = i
			}
		}
		if branch < 0 {
			continue
		}
		cond, neg := stripNot(iff.Cond)
		pol := (branch == 0) != neg
		var flds []string
		for v := range engine.BackSlice(cond, engine.SliceOpts{ThroughLoads: true, ThroughFields: true, ThroughCalls: true, MaxNodes: 60}) {
			if o, f, okF := engine.FieldOf(v); okF && o == typ {
				flds = append(flds, f)
			}
			if fv, isF := v.(*ssa.Field); isF {
				if n := engine.NamedOf(fv.X.Type()); n != nil && n.Obj().Name() == typ {
					if st, okS := n.Underlying().(*types.Struct); okS {
						flds = append(flds, st.Field(fv.Field).Name())
					}
				}
			}
		}
		if len(flds) == 0 {
			continue
		}
		sort.Strings(flds)
		op := "?"
		switch x := cond.(type) {
		case *ssa.BinOp:
			op = x.Op.String()
		case *ssa.Call:
			if o := engine.CalleeObj(&x.Call); o != nil {
				op = o.Name() + "()"
			}
		}
		t := strings.Join(dedup(flds), "+") + " " + op
		if !pol {
			t = "!(" + t + ")"
		}
		out = append(out, t)
	}
	sort.Strings(out)
	return dedup(out)
}

// c04R11: a fund divided by a count is paid to exactly those that were counted: in
// addSuccessfulValidationReward the conditions on the identity under which the candidate counter is
// incremented equal the conditions under which the candidate share is paid.
func c04R11(p *engine.Prog, r *engine.Report) {
	f := mustFunc(p, r, "blockchain", "addSuccessfulValidationReward")
	if f == nil {
		return
	}
	r.Fn(engine.FuncName(f))
	all := append([]*ssa.Function{f}, f.AnonFuncs...)
	// the share and its divisor
	var share *ssa.Call
	for _, c := range engine.Calls(f) {
		cc, ok := c.(*ssa.Call)
		if !ok {
			continue
		}
		if o := engine.CalleeObj(&cc.Call); o != nil && o.Name() == "Div" && strings.HasSuffix(o.Pkg().Path(), "shopspring/decimal") {
			// divisor built from a uint64 counter
			for v := range engine.BackSlice(engine.CallArgs(cc)[1], engine.DefaultSlice) {
				if bt, isB := v.Type().Underlying().(*types.Basic); isB && bt.Kind() == types.Uint64 {
					share = cc
				}
			}
		}
	}
	if share == nil {
		r.Und("C04-R11", "addSuccessfulValidationReward|candidate share", p.Pos(f.Pos()), "no share divided by a counter found")
		return
	}
	// counting sites: stores / adds to the counter cell (captured by the scan closure)
	var countConds, payConds [][]string
	counter := map[ssa.Value]bool{}
	for v := range engine.BackSlice(engine.CallArgs(share)[1], engine.DefaultSlice) {
		if bt, isB := v.Type().Underlying().(*types.Basic); isB && bt.Kind() == types.Uint64 {
			counter[v] = true
			if u, isU := v.(*ssa.UnOp); isU {
				counter[u.X] = true
			}
		}
	}
	for _, g := range all {
		for _, b := range g.Blocks {
			for _, ins := range b.Instrs {
				st, ok := ins.(*ssa.Store)
				if !ok {
					continue
				}
				bo, isB := engine.Unwrap(st.Val).(*ssa.BinOp)
				if !isB || bo.Op != token.ADD {
					continue
				}
				// the cell of the counter: an Alloc in f or its FreeVar image in a closure
				isCounter := counter[st.Addr]
				if fv, isFV := st.Addr.(*ssa.FreeVar); isFV {
					for i, x := range g.FreeVars {
						if x == fv && g.Parent() == f {
							// binding i of the MakeClosure
							for _, c2 := range engine.Calls(f) {
								_ = c2
							}
							for _, bb := range f.Blocks {
								for _, i2 := range bb.Instrs {
									if mc, isMC := i2.(*ssa.MakeClosure); isMC && mc.Fn == ssa.Value(g) && i < len(mc.Bindings) && counter[mc.Bindings[i]] {
										isCounter = true
									}
								}
							}
						}
					}
				}
				if isCounter {
					countConds = append(countConds, fieldCondTokens(b, "Identity"))
				}
			}
		}
	}
	// paying sites: calls that receive a value derived from the share
	for _, g := range all {
		for _, c := range engine.Calls(g) {
			cc := c.Common()
			if cc.IsInvoke() {
				continue
			}
			if sc := cc.StaticCallee(); sc != nil && sc.Parent() == nil && !strings.HasPrefix(sc.Name(), "add") {
				continue
			}
			uses := false
			for _, a := range cc.Args {
				if bi, isBig := a.Type().(*types.Pointer); isBig && bi.Elem().String() == "math/big.Int" {
					if engine.BackSlice(a, engine.DefaultSlice)[share] {
						uses = true
					}
				}
			}
			if uses {
				payConds = append(payConds, fieldCondTokens(c.Block(), "Identity"))
			}
		}
	}
	// the paying loop runs over the list the scan collected: conditions that already control the
	// collection (append to a captured slice of records) define the common population, not the count
	population := map[string]bool{}
	for _, g := range f.AnonFuncs {
		for _, b := range g.Blocks {
			for _, ins := range b.Instrs {
				st, ok := ins.(*ssa.Store)
				if !ok {
					continue
				}
				if _, isFV := st.Addr.(*ssa.FreeVar); !isFV {
					continue
				}
				if c, isC := engine.Unwrap(st.Val).(*ssa.Call); isC {
					if bi, isB := c.Call.Value.(*ssa.Builtin); isB && bi.Name() == "append" {
						for _, t := range fieldCondTokens(b, "Identity") {
							population[t] = true
						}
					}
				}
			}
		}
	}
	for i, c := range countConds {
		var keep []string
		for _, t := range c {
			if !population[t] {
				keep = append(keep, t)
			}
		}
		countConds[i] = keep
	}
	render := func(x [][]string) string {
		var ss []string
		for _, c := range x {
			ss = append(ss, "["+strings.Join(c, " && ")+"]")
		}
		sort.Strings(ss)
		return strings.Join(dedup(ss), ",")
	}
	a, b := render(countConds), render(payConds)
	r.Check(len(countConds) > 0 && len(payConds) > 0 && a == b, "C04-R11", "addSuccessfulValidationReward|the candidate fund is paid to exactly those that were counted", p.InstrPos(share), "counted under "+a+", paid under "+b, "the divisor counts identities under "+a+" but the share is paid under "+b+": when the two sets differ the shares paid do not add up to the fund — a validation-finishing block mints more (or less) than the epoch's pool")
}
