package props

import (
	"fmt"
	"go/token"
	"go/types"
	"sort"
	"strings"

	"golang.org/x/tools/go/ssa"

	"idenaverif/internal/engine"
)

func init() { register("C03", C03) }

// ---------------------------------------------------------------- header field reads

type hdrModel struct {
	p        *engine.Prog
	accessor map[*ssa.Function]map[string]bool // Block/Header accessor -> ProposedHeader fields read
}

func newHdrModel(p *engine.Prog) *hdrModel {
	m := &hdrModel{p: p, accessor: map[*ssa.Function]map[string]bool{}}
	var fns []*ssa.Function
	for _, f := range funcsOfPkg(p, "blockchain/types") {
		if f.Parent() != nil || f.Signature.Recv() == nil || f.Signature.Params().Len() != 0 {
			continue
		}
		rn := engine.NamedOf(f.Signature.Recv().Type())
		if rn == nil || (rn.Obj().Name() != "Header" && rn.Obj().Name() != "Block") {
			continue
		}
		fns = append(fns, f)
	}
	direct := map[*ssa.Function]map[string]bool{}
	for _, f := range fns {
		d := map[string]bool{}
		for _, b := range f.Blocks {
			for _, in := range b.Instrs {
				if fa, ok := in.(*ssa.FieldAddr); ok {
					if o, fld, _ := engine.FieldOf(fa); o == "ProposedHeader" {
						d[fld] = true
					}
				}
				if fl, ok := in.(*ssa.Field); ok {
					if o, fld, _ := engine.FieldOf(fl); o == "ProposedHeader" {
						d[fld] = true
					}
				}
			}
		}
		direct[f] = d
	}
	isAcc := map[*ssa.Function]bool{}
	for _, f := range fns {
		isAcc[f] = true
	}
	var rec func(f *ssa.Function, seen map[*ssa.Function]bool) map[string]bool
	rec = func(f *ssa.Function, seen map[*ssa.Function]bool) map[string]bool {
		out := map[string]bool{}
		if seen[f] {
			return out
		}
		seen[f] = true
		for k := range direct[f] {
			out[k] = true
		}
		for _, c := range engine.Calls(f) {
			if cal := c.Common().StaticCallee(); cal != nil && isAcc[cal] {
				for k := range rec(cal, seen) {
					out[k] = true
				}
			} else if cal != nil {
				// opaque callee (ToProto, Hash of sub header): reads everything
				if cal.Signature.Recv() != nil {
					if rn := engine.NamedOf(cal.Signature.Recv().Type()); rn != nil && (rn.Obj().Name() == "ProposedHeader" || rn.Obj().Name() == "EmptyBlockHeader") {
						out["*"] = true
					}
				}
			}
		}
		return out
	}
	for _, f := range fns {
		m.accessor[f] = rec(f, map[*ssa.Function]bool{})
	}
	return m
}

// rootOf strips loads / field / index steps and accessor calls and returns the Origin.
func rootOf(v ssa.Value) ssa.Value {
	for i := 0; i < 30; i++ {
		v = engine.Origin(v)
		switch x := v.(type) {
		case *ssa.UnOp:
			if x.Op == token.MUL {
				v = x.X
				continue
			}
			return v
		case *ssa.FieldAddr:
			v = x.X
		case *ssa.Field:
			v = x.X
		case *ssa.IndexAddr:
			v = x.X
		case *ssa.Alloc:
			// a by-value parameter spilled to a cell because its address is taken
			if st := engine.StoresTo(x); len(st) == 1 {
				if par, ok := st[0].Val.(*ssa.Parameter); ok {
					return par
				}
			}
			return v
		default:
			return v
		}
	}
	return v
}

var transparentHelpers = map[string]bool{
	"bytes.Compare": true, "bytes.Equal": true, "math/big.Int.Cmp": true, "common.ZeroOrNil": true,
	"blockchain/types.BlockFlag.UnsetFlag": true, "blockchain/types.BlockFlag.HasFlag": true,
	"blockchain/types.Seed.Bytes": true, "common.Hash.Bytes": true, "common.Address.Bytes": true,
	"time.Unix": true, "time.Time.Sub": true, "time.Time.Unix": true, "time.Time.UTC": true,
}

// fieldsRead returns the ProposedHeader fields of the candidate (rooted at cand) that v
// depends on through a transparent chain, allowing `calls` opaque call levels.
func (m *hdrModel) fieldsRead(v ssa.Value, cand ssa.Value, calls int, out map[string]bool, seen map[ssa.Value]bool) {
	if v == nil || seen[v] || len(seen) > 600 {
		return
	}
	seen[v] = true
	v2 := engine.Origin(v)
	if v2 != v {
		m.fieldsRead(v2, cand, calls, out, seen)
		return
	}
	switch x := v.(type) {
	case *ssa.UnOp:
		if x.Op == token.MUL {
			if o, fld, ok := engine.FieldOf(x.X); ok && o == "ProposedHeader" {
				if rootOf(x.X) == cand {
					out[fld] = true
				}
				return
			}
			// load of a cell with several stores
			if a, ok := x.X.(*ssa.Alloc); ok {
				for _, s := range engine.StoresTo(a) {
					m.fieldsRead(s.Val, cand, calls, out, seen)
				}
				return
			}
		}
		m.fieldsRead(x.X, cand, calls, out, seen)
	case *ssa.Field:
		if o, fld, ok := engine.FieldOf(x); ok && o == "ProposedHeader" && rootOf(x.X) == cand {
			out[fld] = true
			return
		}
		m.fieldsRead(x.X, cand, calls, out, seen)
	case *ssa.BinOp:
		m.fieldsRead(x.X, cand, calls, out, seen)
		m.fieldsRead(x.Y, cand, calls, out, seen)
	case *ssa.Phi:
		for _, e := range x.Edges {
			m.fieldsRead(e, cand, calls, out, seen)
		}
	case *ssa.Extract:
		m.fieldsRead(x.Tuple, cand, calls, out, seen)
	case *ssa.Convert:
		m.fieldsRead(x.X, cand, calls, out, seen)
	case *ssa.ChangeType:
		m.fieldsRead(x.X, cand, calls, out, seen)
	case *ssa.MakeInterface:
		m.fieldsRead(x.X, cand, calls, out, seen)
	case *ssa.Slice:
		m.fieldsRead(x.X, cand, calls, out, seen)
	case *ssa.Call:
		cal := x.Call.StaticCallee()
		if cal != nil {
			if af, ok := m.accessor[cal]; ok {
				if rootOf(x.Call.Args[0]) == cand && !af["*"] {
					for k := range af {
						out[k] = true
					}
				}
				return
			}
		}
		id := engine.CallID(x)
		if transparentHelpers[id] {
			for _, a := range engine.CallArgs(x) {
				m.fieldsRead(a, cand, calls, out, seen)
			}
			return
		}
		if calls > 0 {
			for _, a := range engine.CallArgs(x) {
				m.fieldsRead(a, cand, calls-1, out, seen)
			}
		}
	}
}

// errorOnly reports whether every return reachable from b is a definite error.
func errorOnly(fn *ssa.Function, b *ssa.BasicBlock) bool {
	found := false
	for blk := range engine.ReachAvoiding(fn, b, nil, nil) {
		if len(blk.Instrs) == 0 {
			continue
		}
		switch t := blk.Instrs[len(blk.Instrs)-1].(type) {
		case *ssa.Return:
			found = true
			if retErrKind(t) != "nonnil" {
				return false
			}
		case *ssa.Panic:
			found = true
		}
	}
	return found
}

// checksOf lists the Ifs of fn with exactly one error-only successor; pass = the other.
func checksOf(fn *ssa.Function) []engine.Guard {
	var out []engine.Guard
	for _, i := range engine.Ifs(fn) {
		b := i.Block()
		e0, e1 := errorOnly(fn, b.Succs[0]), errorOnly(fn, b.Succs[1])
		if e0 == e1 {
			continue
		}
		out = append(out, engine.Guard{If: i, PassTrue: e1})
	}
	return out
}

type c03ctx struct {
	p    *engine.Prog
	r    *engine.Report
	m    *hdrModel
	memo map[*ssa.Function]map[string][]engine.Guard
}

// candParam: the parameter of fn holding the candidate header/block (first *Header/*Block).
func candParam(fn *ssa.Function) ssa.Value {
	start := 0
	if fn.Signature.Recv() != nil {
		start = 1
	}
	for _, par := range fn.Params[start:] {
		if n := engine.NamedOf(par.Type()); n != nil && (n.Obj().Name() == "Header" || n.Obj().Name() == "Block") {
			return par
		}
	}
	return nil
}

// armCuts: edges that belong to the empty-block arm (assumed away when analysing a proposed
// candidate; the oneof is guaranteed by Header.IsValid, C12-R5a).
func armCuts(fn *ssa.Function, cand ssa.Value) map[engine.Edge]bool {
	cut := map[engine.Edge]bool{}
	for _, i := range engine.Ifs(fn) {
		c, neg := stripNot(i.Cond)
		if x, nonNilOnTrue, ok := engine.NilCheck(c); ok {
			if _, isE := loadOfField(x, "Header", "EmptyBlockHeader"); isE && rootOf(x) == cand {
				// edge on which EmptyBlockHeader != nil
				if nonNilOnTrue != neg {
					cut[engine.Edge{From: i.Block(), Succ: 0}] = true
				} else {
					cut[engine.Edge{From: i.Block(), Succ: 1}] = true
				}
			}
			if _, isP := loadOfField(x, "Header", "ProposedHeader"); isP && rootOf(x) == cand {
				// edge on which ProposedHeader == nil
				if nonNilOnTrue != neg {
					cut[engine.Edge{From: i.Block(), Succ: 1}] = true
				} else {
					cut[engine.Edge{From: i.Block(), Succ: 0}] = true
				}
			}
		}
		if cc, ok := c.(*ssa.Call); ok && engine.CallIs(cc, "blockchain/types.Block.IsEmpty") && rootOf(cc.Call.Args[0]) == cand {
			if !neg {
				cut[engine.Edge{From: i.Block(), Succ: 0}] = true
			} else {
				cut[engine.Edge{From: i.Block(), Succ: 1}] = true
			}
		}
	}
	return cut
}

// guardsByField computes, for fn and its candidate, the guards that check each field.
func (c *c03ctx) guardsByField(fn *ssa.Function) map[string][]engine.Guard {
	if g, ok := c.memo[fn]; ok {
		return g
	}
	out := map[string][]engine.Guard{}
	c.memo[fn] = out
	cand := candParam(fn)
	if cand == nil {
		return out
	}
	c.r.Fn(engine.FuncName(fn))
	checks := checksOf(fn)
	for _, g := range checks {
		fields := map[string]bool{}
		c.m.fieldsRead(g.If.Cond, cand, 1, fields, map[ssa.Value]bool{})
		exact := true
		if cv, _ := stripNot(g.If.Cond); cv != nil {
			if b, isB := cv.(*ssa.BinOp); isB && b.Op != token.EQL && b.Op != token.NEQ {
				exact = false // ordering comparison: only a window check (Time), never an equality with a recomputed value
			}
		}
		for f := range fields {
			if !exact && f != "Time" {
				continue
			}
			out[f] = append(out[f], g)
		}
		// a check on the error / bool result of a validating callee that receives the candidate
		for v := range engine.BackSlice(g.If.Cond, engine.SliceOpts{ThroughCalls: false, ThroughLoads: true, ThroughFields: false, MaxNodes: 50}) {
			call, ok := v.(*ssa.Call)
			if !ok {
				continue
			}
			cal := call.Call.StaticCallee()
			if cal == nil || !engine.IsRepoPkg(engine.FuncPkg(cal)) || engine.ShortPkg(engine.FuncPkg(cal).Path()) != "blockchain" {
				continue
			}
			cc := candParam(cal)
			if cc == nil {
				continue
			}
			// the callee's candidate argument must be rooted at our candidate
			idx := -1
			for i, q := range cal.Params {
				if ssa.Value(q) == cc {
					idx = i
				}
			}
			if idx < 0 || idx >= len(call.Call.Args) || rootOf(call.Call.Args[idx]) != cand {
				continue
			}
			sub := c.guardsByField(cal)
			for f := range c.covered(cal, sub) {
				out[f] = append(out[f], g)
			}
		}
	}
	return out
}

// covered: fields f such that every success return of fn (proposed arm) is reachable only
// through a pass edge of a guard on f.
func (c *c03ctx) covered(fn *ssa.Function, gbf map[string][]engine.Guard) map[string]bool {
	out := map[string]bool{}
	cand := candParam(fn)
	arm := armCuts(fn, cand)
	for f, gs := range gbf {
		cut := map[engine.Edge]bool{}
		for e := range arm {
			cut[e] = true
		}
		for _, g := range gs {
			cut[g.PassEdge()] = true
		}
		reach := engine.ReachAvoiding(fn, nil, cut, nil)
		ok := true
		n := 0
		for _, ret := range successReturns(fn) {
			// success returns of the empty arm are not reachable once arm edges are cut
			armReach := engine.ReachAvoiding(fn, nil, arm, nil)
			if !armReach[ret.Block()] {
				continue
			}
			n++
			if reach[ret.Block()] {
				ok = false
			}
		}
		if ok && n > 0 {
			out[f] = true
		}
	}
	return out
}

// C03 — a block with any inconsistent derived field is rejected, side-effect free.
func C03(p *engine.Prog, r *engine.Report) {
	r.Explanation = "Field-coverage by must-pass-through: a 'check' is a branch with exactly one successor from which only error returns are reachable. (R1) for every field of types.ProposedHeader (enumerated from the struct) except the proposer's free choices, every success return of validateBlock's proposed arm is unreachable once the pass edges of the checks that read that field of the CANDIDATE (through accessors/transparent helpers, or as the argument of one verification call, or inside ValidateHeader/validateBlockParentHash/validateBlockTimestamp, judged recursively) are cut; the Flags comparison masks exactly OfflinePropose|OfflineCommit; FeePerGas may be skipped only on the ZeroOrNil edge; the empty arm succeeds only behind emptyBlock.Hash()==block.Hash() with all 7 EmptyBlockHeader fields regenerated. (R2) the timestamp window has both comparisons with the right direction, and checkIfProposer returns true only for an online identity or for the god address while nobody is online. (R3) validation touches only the check state (chain.appState is used only to derive a private view), AddBlock's error returns between AddDiff and a successful CommitTrees pass appState.Reset(), CommitTrees is behind both root comparisons, and no repository write is reachable from validateBlock."
	r.Assumptions = []string{"each comparison compares with the right recomputed value (C02-R1 checks builder/validator derivation agreement)", "the candidate passed Header.IsValid (oneof), C12-R5a", "ForCheck views are isolated (C13)"}
	m := newHdrModel(p)
	ctx := &c03ctx{p: p, r: r, m: m, memo: map[*ssa.Function]map[string][]engine.Guard{}}
	vb := mustFunc(p, r, "blockchain", "Blockchain.validateBlock")
	if vb == nil {
		return
	}
	// ---------------- R1
	gbf := ctx.guardsByField(vb)
	cov := ctx.covered(vb, gbf)
	// FeePerGas: the stated "absent fee rate" escape
	block := candParam(vb)
	var feeEscape []engine.Guard
	for _, i := range engine.Ifs(vb) {
		c, neg := stripNot(i.Cond)
		if cc, ok := c.(*ssa.Call); ok && engine.CallIs(cc, "common.ZeroOrNil") {
			fs := map[string]bool{}
			m.fieldsRead(cc.Call.Args[0], block, 0, fs, map[ssa.Value]bool{})
			if fs["FeePerGas"] && len(fs) == 1 {
				feeEscape = append(feeEscape, engine.Guard{If: i, PassTrue: !neg})
			}
		}
	}
	if !cov["FeePerGas"] && len(gbf["FeePerGas"]) > 0 {
		g2 := map[string][]engine.Guard{"FeePerGas": append(append([]engine.Guard{}, gbf["FeePerGas"]...), feeEscape...)}
		if ctx.covered(vb, g2)["FeePerGas"] {
			cov["FeePerGas"] = true
		}
	}
	pk := p.ByPath[engine.RepoMod+"/blockchain/types"]
	ph, _ := pk.Types.Scope().Lookup("ProposedHeader").Type().Underlying().(*types.Struct)
	if ph == nil {
		r.Errorf("ProposedHeader struct not found")
		return
	}
	free := map[string]string{
		"OfflineAddr": "offline-vote target: the proposer's free choice (property text); its flag bits are masked from the flags comparison",
		"Upgrade":     "upgrade bits: the proposer's free choice (property text); only unknown non-zero values are rejected (checked as C03-R1u)",
	}
	nUpg := 0
	if vh, err := p.Func("blockchain", "Blockchain.ValidateHeader"); err == nil {
		nUpg = len(ctx.guardsByField(vh)["Upgrade"])
	}
	r.Check(nUpg > 0, "C03-R1u", "validateBlock|unknown upgrade value rejected", p.Pos(vb.Pos()), "a check reading the candidate's Upgrade exists in ValidateHeader", "no check reads the candidate's Upgrade bits")
	for i := 0; i < ph.NumFields(); i++ {
		f := ph.Field(i).Name()
		key := "validateBlock|ProposedHeader." + f
		if why, isFree := free[f]; isFree {
			r.Note("C03-R1", key, p.Pos(ph.Field(i).Pos()), "free: "+why)
			continue
		}
		var where []string
		for _, g := range gbf[f] {
			where = append(where, p.InstrPos(g.If))
		}
		sort.Strings(where)
		r.Check(cov[f], "C03-R1", key, p.Pos(ph.Field(i).Pos()), "every success return is behind a check of this field ("+strings.Join(dedup(where), ", ")+")", "a proposed block can be accepted on a path that never checks this field of the candidate (checks found: "+strings.Join(dedup(where), ", ")+")")
	}
	r.Floor("C03-R1", 14, "14 checked proposed-header fields (16 minus OfflineAddr, Upgrade)")

	// flags mask: only OfflinePropose / OfflineCommit are removed before the comparison
	okMask, nMask := true, 0
	allowed := map[int64]bool{constInt(p, "blockchain/types", "OfflinePropose"): true, constInt(p, "blockchain/types", "OfflineCommit"): true}
	for _, c := range callsTo(vb, "blockchain/types.BlockFlag.UnsetFlag") {
		nMask++
		k, isK := engine.ConstInt(c.Common().Args[1])
		if !isK || !allowed[k] {
			okMask = false
		}
	}
	r.Check(okMask && nMask == 2, "C03-R1m", "validateBlock|flags mask = OfflinePropose|OfflineCommit", p.Pos(vb.Pos()), "exactly the two proposer-chosen bits are unset", "the flags comparison masks other bits than OfflinePropose|OfflineCommit")
	// flags are compared with calculateFlags on the check state
	okCF := false
	for _, g := range gbf["Flags"] {
		if sliceCallOn(g.If.Cond, nil, "blockchain.Blockchain.calculateFlags") {
			okCF = true
		}
	}
	r.Check(okCF, "C03-R1m", "validateBlock|flags compared with calculateFlags", p.Pos(vb.Pos()), "recomputed", "flags are not compared with the recomputed value")

	// empty arm
	var genCall *ssa.Call
	for _, c := range callsTo(vb, "blockchain.Blockchain.generateEmptyBlock") {
		genCall = c.(*ssa.Call)
	}
	okEmpty := false
	if genCall != nil {
		var gs []engine.Guard
		for _, i := range engine.Ifs(vb) {
			x, y, isEq, ok := eqCond(i.Cond)
			if !ok {
				continue
			}
			for _, pr := range [][2]ssa.Value{{x, y}, {y, x}} {
				h1, ok1 := engine.Unwrap(pr[0]).(*ssa.Call)
				h2, ok2 := engine.Unwrap(pr[1]).(*ssa.Call)
				if ok1 && ok2 && engine.CallIs(h1, "blockchain/types.Block.Hash") && engine.CallIs(h2, "blockchain/types.Block.Hash") {
					s1 := engine.BackSlice(h1.Call.Args[0], engine.DefaultSlice)
					if s1[genCall] && rootOf(h2.Call.Args[0]) == block {
						gs = append(gs, engine.Guard{If: i, PassTrue: isEq})
					}
				}
			}
		}
		// success returns inside the empty arm: those NOT reachable when the arm is cut
		arm := armCuts(vb, block)
		armReach := engine.ReachAvoiding(vb, nil, arm, nil)
		n := 0
		okEmpty = len(gs) > 0
		for _, ret := range successReturns(vb) {
			if armReach[ret.Block()] {
				continue
			}
			n++
			if !engine.OnlyThroughPassRet(vb, ret, gs) {
				okEmpty = false
			}
		}
		okEmpty = okEmpty && n > 0
	}
	r.Check(okEmpty, "C03-R1e", "validateBlock|empty block accepted only if regenerated hash equals", p.Pos(vb.Pos()), "generateEmptyBlock(checkState, prev).Hash() == block.Hash()", "an empty block can be accepted without comparing its hash with the regenerated one")
	if ge := mustFunc(p, r, "blockchain", "Blockchain.generateEmptyBlock"); ge != nil {
		eh, _ := pk.Types.Scope().Lookup("EmptyBlockHeader").Type().Underlying().(*types.Struct)
		written := map[string]bool{}
		for _, s := range storesToField([]*ssa.Function{ge}, "EmptyBlockHeader", "") {
			_, fld, _ := engine.FieldOf(s.Addr)
			written[fld] = true
		}
		for i := 0; eh != nil && i < eh.NumFields(); i++ {
			f := eh.Field(i).Name()
			r.Check(written[f], "C03-R1e", "generateEmptyBlock|EmptyBlockHeader."+f, p.Pos(ge.Pos()), "regenerated", "regenerated empty block leaves "+f+" unset (the hash comparison would not bind it)")
		}
	}
	r.Floor("C03-R1e", 8, "hash gate + 7 fields")

	c03R2(p, r, ctx)
	c03R3(p, r, vb)
	c03R6(p, r, vb)
	c03R7(p, r)
	// R8: proposer eligibility is judged on a validator view that follows every reset of the trees
	importRules(p, r, "C08", map[string]string{"C08-R4": "C03-R8"})
	// proposer eligibility is judged on the validators cache: it must equal a rebuild (shared with C10)
	importRules(p, r, "C10", map[string]string{"C10-R4": "C03-R8", "C10-R5": "C03-R8", "C10-R6": "C03-R8", "C10-R7": "C03-R8"})
	c03R9(p, r)
	processTxsExhaustiveRule(p, r, "C03-R9")
	totalCostNoBypassRule(p, r, "C03-R9")
	// no result of a fallible call is consumed before that call's error test (belief contradiction:
	// the code tests the error, so it believes the call can fail — and uses the value first)
	{
		scanned := 0
		for _, pkg := range []string{"blockchain", "blockchain/validation", "blockchain/types", "core/state", "core/appstate", "core/validators", "consensus", "database"} {
			for _, f := range funcsOfPkg(p, pkg) {
				if f.Blocks == nil || isTestish(p.Pos(f.Pos())) || strings.Contains(p.Pos(f.Pos()), ".pb.go") {
					continue
				}
				scanned++
				for _, c := range useBeforeErrCheck(f) {
					r.Bad("C03-R9", uniq(r, engine.RelName(f)+"|result of "+calleeShort(c.Call)+" used before its error test"), p.InstrPos(c.Use), "the value is consumed here, the error of the call that produced it is tested only at "+p.InstrPos(c.Test)+": on the failing input the validator works with a zero / partial value before it refuses (or compares it and accepts)")
				}
			}
		}
		// the commitment trees: a key handed to tree.Set inside a loop is not a buffer shared by all
		// iterations (IAVL keeps the key slice: every leaf would carry the last key — the commitment
		// then covers only the count and the last element)
		sets := 0
		for _, f := range p.AllFuncs() {
			if pk := engine.FuncPkg(f); pk == nil || !engine.IsRepoPkg(pk) || f.Synthetic != "" || f.Blocks == nil || isTestish(p.Pos(f.Pos())) {
				continue
			}
			for _, c := range engine.Calls(f) {
				if len(treeSetRetains(c)) > 0 {
					sets++
				}
			}
			for _, sb := range sharedBufferRetained(f, treeSetRetains) {
				r.Bad("C03-R10", uniq(r, engine.RelName(f)+"|key handed to tree.Set is a buffer shared by all iterations"), p.InstrPos(sb.At), "the key slice is allocated once outside the loop and rewritten per iteration, but the tree keeps it by reference: all entries end up under the last key — for the transaction commitment, TxHash no longer binds any transaction but the last")
			}
		}
		r.Check(sets >= 5, "C03-R10", "repo|tree.Set keys inside loops are per iteration", "", itoa(int64(sets))+" tree.Set sites scanned", "fewer tree writes found than confirmed by reading")
		r.Check(scanned > 800, "C03-R9", "validating packages|no result consumed before its error test", "", itoa(int64(scanned))+" functions scanned, no contradiction", "scan too small: "+itoa(int64(scanned))+" functions")
	}
}

func c03R2(p *engine.Prog, r *engine.Report, ctx *c03ctx) {
	ts := mustFunc(p, r, "blockchain", "validateBlockTimestamp")
	if ts != nil {
		var fut, delay bool
		for _, g := range checksOf(ts) {
			b, ok := g.If.Cond.(*ssa.BinOp)
			if !ok {
				continue
			}
			sl := engine.BackSlice(g.If.Cond, engine.DefaultSlice)
			hasNow := engine.SliceHasCall(sl, "time.Now") != nil
			hasPrev := false
			for v := range sl {
				if c, ok := v.(*ssa.Call); ok && engine.CallIs(c, "blockchain/types.Header.Time") && rootOf(c.Call.Args[0]) == ssa.Value(ts.Params[1]) {
					hasPrev = true
				}
			}
			hasCand := false
			for v := range sl {
				if c, ok := v.(*ssa.Call); ok && engine.CallIs(c, "blockchain/types.Header.Time") && rootOf(c.Call.Args[0]) == ssa.Value(ts.Params[0]) {
					hasCand = true
				}
			}
			konst := func(name string) bool {
				want := constInt(p, "blockchain", name)
				for _, side := range []ssa.Value{b.X, b.Y} {
					if k, isK := engine.ConstInt(side); isK && k == want {
						return true
					}
				}
				return false
			}
			// `cand.Sub(other) > Max` / `cand.Sub(other) < Min`: receiver from the candidate's time
			sub, isSub := engine.Unwrap(b.X).(*ssa.Call)
			if !isSub || !engine.CallIs(sub, "time.Time.Sub") {
				continue
			}
			recvSl := engine.BackSlice(sub.Call.Args[0], engine.DefaultSlice)
			argSl := engine.BackSlice(sub.Call.Args[1], engine.DefaultSlice)
			hasTime := func(sl map[ssa.Value]bool, hdr ssa.Value) bool {
				for v := range sl {
					if c, ok := v.(*ssa.Call); ok && engine.CallIs(c, "blockchain/types.Header.Time") && rootOf(c.Call.Args[0]) == hdr {
						return true
					}
				}
				return false
			}
			candRecv := hasTime(recvSl, ts.Params[0]) && !hasTime(recvSl, ts.Params[1]) && engine.SliceHasCall(recvSl, "time.Now") == nil
			_, _, _ = hasNow, hasPrev, hasCand
			if candRecv && engine.SliceHasCall(argSl, "time.Now") != nil && konst("MaxFutureBlockOffset") && b.Op == token.GTR && !g.PassTrue {
				fut = true
			}
			if candRecv && hasTime(argSl, ts.Params[1]) && konst("MinBlockDelay") && b.Op == token.LSS && !g.PassTrue {
				delay = true
			}
		}
		r.Check(fut, "C03-R2", "validateBlockTimestamp|blockTime - now > MaxFutureBlockOffset rejected", p.Pos(ts.Pos()), "check present with this direction", "the future-offset bound is missing or has another direction")
		r.Check(delay, "C03-R2", "validateBlockTimestamp|blockTime - prevTime < MinBlockDelay rejected", p.Pos(ts.Pos()), "check present with this direction", "the minimum-delay bound is missing or has another direction")
	}
	cp := mustFunc(p, r, "blockchain", "checkIfProposer")
	if cp != nil {
		addr, st := ssa.Value(cp.Params[0]), ssa.Value(cp.Params[1])
		onCache := func(c *ssa.Call) bool {
			base, ok := loadOfField(c.Call.Args[0], "AppState", "ValidatorsCache")
			return ok && engine.Origin(base) == st
		}
		online := func(v ssa.Value) (bool, bool) {
			c, ok := v.(*ssa.Call)
			if ok && engine.CallIs(c, "core/validators.ValidatorsCache.IsOnlineIdentity") && onCache(c) && engine.Origin(c.Call.Args[1]) == addr {
				return true, true
			}
			return false, false
		}
		nobody := func(v ssa.Value) (bool, bool) {
			x, y, isEq, ok := eqCond(v)
			if !ok {
				return false, false
			}
			for _, pr := range [][2]ssa.Value{{x, y}, {y, x}} {
				if c, ok := engine.Unwrap(pr[0]).(*ssa.Call); ok && engine.CallIs(c, "core/validators.ValidatorsCache.OnlineSize") && onCache(c) {
					if k, isK := engine.ConstInt(pr[1]); isK && k == 0 {
						return true, isEq
					}
				}
			}
			return false, false
		}
		isGod := func(v ssa.Value) (bool, bool) {
			x, y, isEq, ok := eqCond(v)
			if !ok {
				return false, false
			}
			for _, pr := range [][2]ssa.Value{{x, y}, {y, x}} {
				if c, ok := engine.Unwrap(pr[0]).(*ssa.Call); ok && engine.CallIs(c, "core/state.StateDB.GodAddress") && engine.Origin(pr[1]) == addr {
					return true, isEq
				}
			}
			return false, false
		}
		or := func(a, b atomFn) atomFn {
			return func(v ssa.Value) (bool, bool) {
				if ok, wt := a(v); ok {
					return ok, wt
				}
				return b(v)
			}
		}
		r.Check(returnsImply(cp, true, or(online, nobody)), "C03-R2", "checkIfProposer|true implies online identity or nobody online", p.Pos(cp.Pos()), "holds", "a proposer that is not an online identity is eligible although someone is online (god fallback must require OnlineSize()==0)")
		r.Check(returnsImply(cp, true, or(online, isGod)), "C03-R2", "checkIfProposer|true implies online identity or god address", p.Pos(cp.Pos()), "holds", "an address that is neither online nor the god address is eligible")
	}
	r.Floor("C03-R2", 4, "2 window bounds + 2 eligibility implications")
}

func c03R3(p *engine.Prog, r *engine.Report, vb *ssa.Function) {
	c03R3a(p, r, "C03-R3a")

	// (b) AddBlock rollback discipline
	ab := mustFunc(p, r, "blockchain", "Blockchain.AddBlock")
	if ab != nil {
		var addDiff, reset []ssa.Instruction
		var commit *ssa.Call
		for _, c := range engine.Calls(ab) {
			switch engine.CallID(c) {
			case "core/state.StateDB.AddDiff", "core/state.IdentityStateDB.AddDiff":
				addDiff = append(addDiff, c)
			case "core/appstate.AppState.Reset":
				reset = append(reset, c)
			case "core/appstate.AppState.CommitTrees":
				commit, _ = c.(*ssa.Call)
			}
		}
		if len(addDiff) == 0 || commit == nil {
			r.Bad("C03-R3b", "AddBlock|AddDiff/CommitTrees", p.Pos(ab.Pos()), "anchors not found")
		} else {
			gCommit := nilErrGuards(ab, commit)
			resetBlocks := map[*ssa.BasicBlock]bool{}
			for _, x := range reset {
				resetBlocks[x.Block()] = true
			}
			first := addDiff[0]
			from := engine.ReachAvoiding(ab, first.Block(), nil, nil)
			noReset := engine.ReachAvoiding(ab, first.Block(), nil, resetBlocks)
			n := 0
			for _, ret := range engine.Returns(ab) {
				if isRecoverBlock(ret.Block()) || !from[ret.Block()] {
					continue
				}
				if retErrKind(ret) == "nil" {
					continue
				}
				if engine.OnlyThroughPassRet(ab, ret, gCommit) {
					continue // after a successful commit the block is in; not a rejection
				}
				n++
				ok := !noReset[ret.Block()] || resetBlocks[ret.Block()]
				r.Check(ok, "C03-R3b", "AddBlock|rejection after AddDiff passes appState.Reset()", p.InstrPos(ret), "rolled back", "a block rejected after its diffs were applied to the canonical state leaves them applied (no Reset on this path)")
			}
			// CommitTrees only behind both root comparisons
			root := func(stateCallee, blockCallee string) []engine.Guard {
				var gs []engine.Guard
				for _, i := range engine.Ifs(ab) {
					x, y, isEq, ok := eqCond(i.Cond)
					if !ok {
						continue
					}
					for _, pr := range [][2]ssa.Value{{x, y}, {y, x}} {
						c1, ok1 := engine.Unwrap(pr[0]).(*ssa.Call)
						c2, ok2 := engine.Unwrap(pr[1]).(*ssa.Call)
						if ok1 && ok2 && engine.CallIs(c1, stateCallee) && engine.CallIs(c2, blockCallee) && rootOf(c2.Call.Args[0]) == ssa.Value(ab.Params[1]) {
							if _, isCanon := loadOfField(rootOfRecv(c1), "Blockchain", "appState"); isCanon {
								gs = append(gs, engine.Guard{If: i, PassTrue: isEq})
							}
						}
					}
				}
				return gs
			}
			g1 := root("core/state.StateDB.Root", "blockchain/types.Block.Root")
			g2 := root("core/state.IdentityStateDB.Root", "blockchain/types.Block.IdentityRoot")
			r.Check(engine.OnlyThroughPass(ab, commit.Block(), g1), "C03-R3b", "AddBlock|CommitTrees behind state root == block.Root()", p.InstrPos(commit), "dominated", "trees can be committed without the state root matching the header")
			r.Check(engine.OnlyThroughPass(ab, commit.Block(), g2), "C03-R3b", "AddBlock|CommitTrees behind identity root == block.IdentityRoot()", p.InstrPos(commit), "dominated", "trees can be committed without the identity root matching the header")
			// diffs applied are the validation result's
			var vcall *ssa.Call
			for _, c := range callsTo(ab, "blockchain.Blockchain.ValidateBlock") {
				vcall, _ = c.(*ssa.Call)
			}
			okV := vcall != nil
			if vcall != nil {
				g := nilErrGuards(ab, vcall)
				for _, d := range addDiff {
					if !engine.OnlyThroughPass(ab, d.Block(), g) {
						okV = false
					}
				}
			}
			r.Check(okV, "C03-R3b", "AddBlock|diffs applied only after ValidateBlock==nil", p.Pos(ab.Pos()), "dominated", "canonical state is touched although validation failed")
		}
	}
	r.Floor("C03-R3b", 6, "3 rejections + 2 root gates + validation gate")

	// (c) no repository write reachable from validateBlock
	writers := repoWriters(p)
	reach := p.Reach([]*ssa.Function{vb}, engine.ReachOpts{RepoOnly: true, NoFuncValueCHA: true, Cut: isNonConsensusSink})
	var hit []string
	for f := range reach {
		if writers[f] {
			hit = append(hit, engine.RelName(f))
		}
	}
	sort.Strings(hit)
	r.ReachSize = len(reach)
	r.Check(len(hit) == 0, "C03-R3c", "validateBlock|no database.Repo writer reachable", p.Pos(vb.Pos()), "none of the "+itoa(int64(len(writers)))+" writers in a reach set of "+itoa(int64(len(reach)))+" functions", "stored indexes can be written during validation: "+strings.Join(hit, ","))
	r.Check(len(writers) >= 20, "C03-R3c", "control|database.Repo writers enumerated", "database", "positive control", "writer enumeration collapsed")
}

// rootOfRecv returns the value whose field the receiver of call c was loaded from (the
// owner of chain.appState.State etc.), stripped one level.
func rootOfRecv(c *ssa.Call) ssa.Value {
	v := c.Call.Args[0]
	// recv = *(&X.State) where X = *(&chain.appState)
	if u, ok := engine.Unwrap(v).(*ssa.UnOp); ok && u.Op == token.MUL {
		if fa, ok := u.X.(*ssa.FieldAddr); ok {
			return fa.X
		}
	}
	return v
}

// repoWriters: methods of database.Repo that (directly) call a mutating tm-db method.
func repoWriters(p *engine.Prog) map[*ssa.Function]bool {
	out := map[*ssa.Function]bool{}
	for _, f := range funcsOfPkg(p, "database") {
		if f.Signature.Recv() == nil || f.Parent() != nil {
			continue
		}
		rn := engine.NamedOf(f.Signature.Recv().Type())
		if rn == nil || rn.Obj().Name() != "Repo" {
			continue
		}
		for _, c := range engine.CallsDeep(f) {
			o := engine.CalleeObj(c.Common())
			if o == nil || o.Pkg() == nil || o.Pkg().Path() != "github.com/tendermint/tm-db" {
				continue
			}
			switch o.Name() {
			case "Set", "SetSync", "Delete", "DeleteSync", "Write", "WriteSync":
				out[f] = true
			}
		}
	}
	// helper methods calling other writers
	changed := true
	for changed {
		changed = false
		for _, f := range funcsOfPkg(p, "database") {
			if out[f] {
				continue
			}
			for _, c := range engine.CallsDeep(f) {
				if cal := c.Common().StaticCallee(); cal != nil && out[cal] {
					out[f] = true
					changed = true
				}
			}
		}
	}
	return out
}

// c03R3a: speculative paths use the canonical state only to derive a private view.
func c03R3a(p *engine.Prog, r *engine.Report, rule string) {
	// (a) the canonical state is used only to derive a private view
	for _, name := range []string{"Blockchain.validateBlock", "Blockchain.ValidateBlock", "Blockchain.generateEmptyBlock", "Blockchain.GenerateEmptyBlock", "Blockchain.ValidateSubChain", "Blockchain.ProposeBlock", "Blockchain.processTxs", "Blockchain.filterTxs"} {
		f := mustFunc(p, r, "blockchain", name)
		if f == nil {
			continue
		}
		for _, b := range f.Blocks {
			for _, in := range b.Instrs {
				u, ok := in.(*ssa.UnOp)
				if !ok || u.Op != token.MUL {
					continue
				}
				if _, isAS := loadOfField(u, "Blockchain", "appState"); !isAS {
					continue
				}
				bad := ""
				for _, ref := range *u.Referrers() {
					switch x := ref.(type) {
					case ssa.CallInstruction:
						id := engine.CallID(x)
						if id == "core/appstate.AppState.ForCheck" || id == "core/appstate.AppState.ForCheckWithOverwrite" || id == "core/appstate.AppState.Readonly" {
							continue
						}
						bad = "passed to " + id
					case *ssa.FieldAddr:
						// reading a sub-object: allowed only for read-only getters
						_, fld, _ := engine.FieldOf(x)
						okRead := true
						for _, r2 := range *x.Referrers() {
							ld, isLd := r2.(*ssa.UnOp)
							if !isLd {
								okRead = false
								continue
							}
							for _, r3 := range *ld.Referrers() {
								if c3, isC := r3.(ssa.CallInstruction); isC {
									if _, _, mut := getStateModel(p).mutatorCall(c3); mut {
										okRead = false
									}
									if cal := c3.Common().StaticCallee(); cal != nil && mayMutate(p)[cal] {
										okRead = false
									}
								}
							}
						}
						if !okRead {
							bad = "mutating use of appState." + fld
						}
					case *ssa.DebugRef:
					default:
						bad = "escapes"
					}
				}
				r.Check(bad == "", rule, engine.RelName(f)+"|chain.appState", p.InstrPos(u), "canonical state only read or used to derive a private view", "canonical state "+bad+" on a speculative path")
			}
		}
	}
	r.Floor(rule, 4, "ValidateBlock/GenerateEmptyBlock/ValidateSubChain/ProposeBlock derive views")

}

// c03R6: insertBlock persists the body (content store, transaction index, mempool reset), so every
// accepting path of validateBlock must pass a check whose condition depends on block.Body — the
// transaction commitment on the proposed arm, emptiness on the empty arm.
func c03R6(p *engine.Prog, r *engine.Report, vb *ssa.Function) {
	block := candParam(vb)
	if block == nil {
		r.Und("C03-R6", "validateBlock|body constrained on every accepting path", p.Pos(vb.Pos()), "candidate parameter not found")
		return
	}
	var bodyGuards []engine.Guard
	for _, g := range checksOf(vb) {
		sl := engine.BackSlice(g.If.Cond, engine.DefaultSlice)
		for v := range sl {
			if o, f, ok := engine.FieldOf(v); ok && o == "Block" && f == "Body" && rootOf(v) == block {
				bodyGuards = append(bodyGuards, g)
				break
			}
		}
	}
	// a nil body carries nothing: the nil edge of a test of block.Body constrains it as well
	for _, g := range guardsWhere(vb, func(cond ssa.Value) (bool, bool, string) {
		x, nonNilOnTrue, ok := engine.NilCheck(cond)
		if !ok {
			return false, false, ""
		}
		if o, f, okF := engine.FieldOf(engine.Origin(x)); okF && o == "Block" && f == "Body" && rootOf(x) == block {
			return true, !nonNilOnTrue, "body == nil"
		}
		return false, false, ""
	}) {
		if len(bodyGuards) > 0 {
			bodyGuards = append(bodyGuards, g)
		}
	}
	ok := len(bodyGuards) > 0
	var bad []string
	for _, ret := range successReturns(vb) {
		if !engine.OnlyThroughPassRet(vb, ret, bodyGuards) {
			ok = false
			bad = append(bad, p.InstrPos(ret))
		}
	}
	r.Check(ok, "C03-R6", "validateBlock|body constrained on every accepting path", p.Pos(vb.Pos()), fmt.Sprintf("%d checks on block.Body; every success return behind one", len(bodyGuards)), "a block is accepted at "+strings.Join(bad, ", ")+" on a path that never looks at its body: insertBlock then stores and indexes whatever transactions it carries (an empty header with a foreign body passes the hash comparison)")
	r.Floor("C03-R6", 1, "validateBlock")
}

// c03R7: the block hash covers the proposed part whenever it is present. The empty arm of validateBlock
// accepts on hash equality with the regenerated empty block and IsEmpty() only looks at the empty part,
// so a header carrying both parts is refused only because Header.Hash() hashes the proposed part: every
// path of Header.Hash that hashes the empty part lies behind ProposedHeader == nil.
func c03R7(p *engine.Prog, r *engine.Report) {
	f := mustFunc(p, r, "blockchain/types", "Header.Hash")
	if f == nil {
		return
	}
	recv := ssa.Value(f.Params[0])
	g := guardsWhere(f, func(cond ssa.Value) (bool, bool, string) {
		x, nonNilOnTrue, ok := engine.NilCheck(cond)
		if !ok {
			return false, false, ""
		}
		if base, isP := loadOfField(x, "Header", "ProposedHeader"); isP && engine.Origin(base) == recv {
			return true, !nonNilOnTrue, "ProposedHeader == nil"
		}
		return false, false, ""
	})
	n, ok := 0, len(g) > 0
	for _, c := range engine.Calls(f) {
		if len(c.Common().Args) == 0 {
			continue
		}
		if _, isE := loadOfField(c.Common().Args[0], "Header", "EmptyBlockHeader"); !isE {
			continue
		}
		n++
		if !engine.OnlyThroughPass(f, c.Block(), g) {
			ok = false
		}
	}
	r.Check(ok && n > 0, "C03-R7", "Header.Hash|the empty part is hashed only when no proposed part is present", p.Pos(f.Pos()), "behind ProposedHeader == nil", "a header carrying both parts hashes to its empty part: combined with IsEmpty() (empty part first) a forged proposed part rides along an honest empty header through validateBlock's hash comparison and is persisted")
	r.Floor("C03-R7", 1, "Header.Hash")
}

// c03R9: no verdict of a cryptographic or structural check inside ValidateHeader is dropped: every call that
// returns an error has that error tested, and success is reported only behind its nil edge.
func c03R9(p *engine.Prog, r *engine.Report) {
	vh := mustFunc(p, r, "blockchain", "Blockchain.ValidateHeader")
	if vh == nil {
		return
	}
	n := 0
	for _, c := range engine.Calls(vh) {
		cc, ok := c.(*ssa.Call)
		if !ok || len(errResultsOf(cc)) == 0 {
			continue
		}
		if o := engine.CalleeObj(&cc.Call); o != nil && o.Pkg() != nil {
			switch o.Pkg().Path() {
			case "errors", "fmt", "github.com/pkg/errors":
				continue // builds the error that is returned
			}
		}
		// constructors of parsed inputs whose failure is subsumed by a later comparison are still required to be tested
		n++
		g := nilErrGuards(vh, cc)
		okc := len(g) > 0
		for _, ret := range successReturns(vh) {
			// only returns this call can reach
			if !reachesInstr(cc, ret) {
				continue
			}
			if !engine.OnlyThroughPassRet(vh, ret, g) {
				okc = false
			}
		}
		r.Check(okc, "C03-R9", uniq(r, "ValidateHeader|error of "+calleeShort(cc)+" decides"), p.InstrPos(cc), "tested; success only behind nil", "the error of "+calleeShort(cc)+" is dropped or does not stop validation: a header for which this check fails can still be accepted (e.g. a non-verifying seed proof whose zero output equals a zero seed)")
	}
	r.Floor("C03-R9", 3, "error-returning checks in ValidateHeader")
	_ = n
}
