package props

import (
	"go/types"
	"sort"
	"strings"
	"sync"

	"golang.org/x/tools/go/ssa"

	"idenaverif/internal/engine"
)

// stateModel derives, from package core/state itself, which exported methods of StateDB
// and IdentityStateDB mutate consensus state and which `Type.field`s they write. Nothing is
// classified by name except the object-materialisation helpers that are cut (they create
// empty cache objects only).
type stateModel struct {
	// mutators: method -> sorted list of written fields ("Account.Balance", "StateDB.contractStoreCache[]")
	mutators map[*ssa.Function][]string
	byID     map[string]*ssa.Function // "core/state.StateDB.SubBalance" -> fn
}

var (
	smOnce sync.Once
	smVal  *stateModel
)

func isMaterialiser(f *ssa.Function) bool {
	n := f.Name()
	return strings.HasPrefix(n, "getState") || strings.HasPrefix(n, "GetOrNew") || strings.HasPrefix(n, "getOrNew") ||
		strings.HasPrefix(n, "create") || strings.HasPrefix(n, "getDiscrimination") || n == "GetOrNewIdentityObject"
}

func getStateModel(p *engine.Prog) *stateModel {
	smOnce.Do(func() {
		sm := &stateModel{mutators: map[*ssa.Function][]string{}, byID: map[string]*ssa.Function{}}
		fns := funcsOfPkg(p, "core/state")
		// direct writes of each function
		direct := map[*ssa.Function]map[string]bool{}
		for _, f := range fns {
			w := map[string]bool{}
			for _, b := range f.Blocks {
				for _, in := range b.Instrs {
					switch x := in.(type) {
					case *ssa.Store:
						if d := dataFieldWritten(x.Addr); d != "" {
							w[d] = true
						}
					case *ssa.MapUpdate:
						if d := ownerFieldOfMap(x.Map); d != "" {
							w[d+"[]"] = true
						}
					case *ssa.Call:
						// delete(m, k) on an owner field; append into data slice handled via Store
						if bi, ok := x.Call.Value.(*ssa.Builtin); ok && bi.Name() == "delete" {
							if d := ownerFieldOfMap(x.Call.Args[0]); d != "" {
								w[d+"[]"] = true
							}
						}
					}
				}
			}
			if len(w) > 0 {
				direct[f] = w
			}
		}
		// transitive closure over static callees inside the package, cutting materialisers
		memo := map[*ssa.Function]map[string]bool{}
		var eff func(f *ssa.Function, depth int, stack map[*ssa.Function]bool) map[string]bool
		eff = func(f *ssa.Function, depth int, stack map[*ssa.Function]bool) map[string]bool {
			if m, ok := memo[f]; ok {
				return m
			}
			if stack[f] || depth > 8 {
				return nil
			}
			stack[f] = true
			out := map[string]bool{}
			for k := range direct[f] {
				out[k] = true
			}
			for _, c := range engine.CallsDeep(f) {
				cal := c.Common().StaticCallee()
				if cal == nil {
					continue
				}
				pk := engine.FuncPkg(cal)
				if pk == nil || engine.ShortPkg(pk.Path()) != "core/state" || !engine.IsRepoPkg(pk) {
					continue
				}
				if isMaterialiser(cal) {
					continue
				}
				for k := range eff(cal, depth+1, stack) {
					out[k] = true
				}
			}
			delete(stack, f)
			memo[f] = out
			return out
		}
		for _, f := range fns {
			if f.Parent() != nil || f.Signature.Recv() == nil {
				continue
			}
			rn := engine.NamedOf(f.Signature.Recv().Type())
			if rn == nil {
				continue
			}
			owner := rn.Obj().Name()
			if owner != "StateDB" && owner != "IdentityStateDB" {
				continue
			}
			id := "core/state." + owner + "." + f.Name()
			sm.byID[id] = f
			if isMaterialiser(f) {
				continue
			}
			e := eff(f, 0, map[*ssa.Function]bool{})
			// only consensus data: state-object `data` fields and contract caches
			var ws []string
			for k := range e {
				if isConsensusField(k) {
					ws = append(ws, k)
				}
			}
			if len(ws) > 0 {
				sort.Strings(ws)
				sm.mutators[f] = ws
			}
		}
		smVal = sm
	})
	return smVal
}

// dataFieldWritten: addr is &obj.data.F… (or &obj.data) of a state object => "DataType.F".
func dataFieldWritten(addr ssa.Value) string {
	// walk FieldAddr/IndexAddr chain to the root, remembering the field just below `data`
	var chain []string
	var dataType string
	v := addr
	for i := 0; i < 10; i++ {
		switch x := v.(type) {
		case *ssa.FieldAddr:
			owner, fname, _ := engine.FieldOf(x)
			if fname == "data" && strings.HasPrefix(owner, "state") || fname == "data" && owner == "discriminationStatusSwitch" {
				// type of the data field
				if st, ok := derefStruct(x.X.Type()); ok {
					dataType = engine.TypeID(st.Field(x.Field).Type())
					if i := strings.LastIndex(dataType, "."); i >= 0 {
						dataType = dataType[i+1:]
					}
				}
				if len(chain) == 0 {
					return dataType + ".*"
				}
				return dataType + "." + chain[len(chain)-1]
			}
			chain = append(chain, fname)
			v = x.X
		case *ssa.IndexAddr:
			v = x.X
		case *ssa.UnOp:
			v = x.X
		default:
			return ""
		}
	}
	return ""
}

func derefStruct(t types.Type) (*types.Struct, bool) {
	if pt, ok := t.Underlying().(*types.Pointer); ok {
		t = pt.Elem()
	}
	st, ok := t.Underlying().(*types.Struct)
	return st, ok
}

// ownerFieldOfMap: m is a load of a field of StateDB/IdentityStateDB or of a state object's
// data => "Owner.field".
func ownerFieldOfMap(m ssa.Value) string {
	owner, field, ok := engine.FieldOf(m)
	if !ok {
		return ""
	}
	if owner == "StateDB" || owner == "IdentityStateDB" {
		return owner + "." + field
	}
	// map inside data (e.g. Global.EmptyBlocksByShards)
	if u, isU := m.(*ssa.UnOp); isU {
		if d := dataFieldWritten(u.X); d != "" {
			return d
		}
	}
	return ""
}

func isConsensusField(k string) bool {
	if strings.HasPrefix(k, "StateDB.") {
		return strings.Contains(k, "contractStoreCache") || strings.Contains(k, "contractCodeCache")
	}
	if strings.HasPrefix(k, "IdentityStateDB.") {
		return false
	}
	return true
}

// isStateMutatorCall reports whether the call's static callee is a StateDB/IdentityStateDB
// mutator; returns the written fields.
func (sm *stateModel) mutatorCall(c ssa.CallInstruction) (string, []string, bool) {
	f := c.Common().StaticCallee()
	if f == nil {
		return "", nil, false
	}
	if w, ok := sm.mutators[f]; ok {
		return engine.RelName(f), w, true
	}
	return "", nil, false
}

// mutatorNames lists "Recv.Method" of all derived mutators (sorted) — printed in evidence.
func (sm *stateModel) mutatorNames() []string {
	var out []string
	for f := range sm.mutators {
		out = append(out, engine.RelName(f))
	}
	sort.Strings(out)
	return out
}

// DumpStateModel prints the derived mutator table (debug).
func DumpStateModel(p *engine.Prog) {
	sm := getStateModel(p)
	for _, n := range sm.mutatorNames() {
		for f, w := range sm.mutators {
			if engine.RelName(f) == n {
				println(n, "->", strings.Join(w, ","))
			}
		}
	}
}

var (
	mmOnce sync.Once
	mmVal  map[*ssa.Function]bool
)

func isNonConsensusSink(f *ssa.Function) bool {
	pk := engine.FuncPkg(f)
	if pk == nil {
		return true
	}
	sp := engine.ShortPkg(pk.Path())
	return sp == "log" || strings.HasPrefix(sp, "stats") || !engine.IsRepoPkg(pk)
}

// mayMutate: repo functions from which a state mutator is reachable (static calls, interface
// invokes by CHA, closures lexically); log/ and stats/ are cut, materialisers are not mutators.
func mayMutate(p *engine.Prog) map[*ssa.Function]bool {
	mmOnce.Do(func() {
		sm := getStateModel(p)
		g := p.CHA()
		set := map[*ssa.Function]bool{}
		var work []*ssa.Function
		for f := range sm.mutators {
			set[f] = true
			work = append(work, f)
		}
		for len(work) > 0 {
			f := work[len(work)-1]
			work = work[:len(work)-1]
			add := func(c *ssa.Function) {
				if c == nil || set[c] || isNonConsensusSink(c) || isMaterialiser(c) && engine.ShortPkg(engine.FuncPkg(c).Path()) == "core/state" {
					return
				}
				set[c] = true
				work = append(work, c)
			}
			if f.Parent() != nil {
				add(f.Parent())
			}
			if n := g.Nodes[f]; n != nil {
				for _, e := range n.In {
					if e.Site != nil {
						cc := e.Site.Common()
						if !cc.IsInvoke() && cc.StaticCallee() == nil {
							continue // func-value call resolved by signature only
						}
					}
					add(e.Caller.Func)
				}
			}
		}
		mmVal = set
	})
	return mmVal
}
