package engine

import (
	"encoding/json"
	"fmt"
	"os"
	"path/filepath"
	"sort"
	"strings"
	"time"
)

type Status string

const (
	Discharged Status = "discharged"
	Violated   Status = "violated"
	Undecided  Status = "undecided" // counts as violated
	Info       Status = "info"      // informational, never part of the verdict
	Control    Status = "control"   // positive control that matched
)

type Obligation struct {
	Rule   string `json:"rule"`
	Key    string `json:"key"` // rule|func|construct — never a line number
	Pos    string `json:"pos"`
	Status Status `json:"status"`
	Detail string `json:"detail,omitempty"`
}

type Report struct {
	Prop        string
	Tier        string
	Seed        int64
	Start       time.Time
	Obls        []Obligation
	floors      map[string]int
	floorsNote  map[string]string
	Errors      []string // checker could not run a rule (anchor missing, panic) => exit 2
	Assumptions []string
	Explanation string
	Funcs       map[string]bool // functions analysed
	ReachSize   int
	Extra       map[string]interface{}
	Notes       []string
	Witnesses   []Witness
}

type Witness struct {
	Name     string `json:"name"`
	Expect   string `json:"expect_key_contains"`
	Killed   bool   `json:"killed"`
	Skipped  string `json:"skipped,omitempty"`
	Reported string `json:"reported,omitempty"`
}

func NewReport(prop, tier string, seed int64) *Report {
	return &Report{Prop: prop, Tier: tier, Seed: seed, Start: time.Now(), floors: map[string]int{}, floorsNote: map[string]string{}, Funcs: map[string]bool{}, Extra: map[string]interface{}{}}
}

func (r *Report) add(rule, key, pos string, st Status, detail string) {
	r.Obls = append(r.Obls, Obligation{Rule: rule, Key: rule + "|" + key, Pos: pos, Status: st, Detail: detail})
}
func (r *Report) OK(rule, key, pos, detail string)   { r.add(rule, key, pos, Discharged, detail) }
func (r *Report) Bad(rule, key, pos, detail string)  { r.add(rule, key, pos, Violated, detail) }
func (r *Report) Und(rule, key, pos, detail string)  { r.add(rule, key, pos, Undecided, detail) }
func (r *Report) Note(rule, key, pos, detail string) { r.add(rule, key, pos, Info, detail) }
func (r *Report) Ctl(rule, key, pos, detail string)  { r.add(rule, key, pos, Control, detail) }

// Check adds a discharged or violated obligation depending on ok.
func (r *Report) Check(ok bool, rule, key, pos, okDetail, badDetail string) bool {
	if ok {
		r.OK(rule, key, pos, okDetail)
	} else {
		r.Bad(rule, key, pos, badDetail)
	}
	return ok
}

// Floor: the rule must have produced at least n obligations (discharged+violated+control),
// else the check is broken (vacuity guard).
// Floor guards against a rule that matches nothing (or far less than what was confirmed by reading).
// Counts of sites legitimately shrink under refactoring (a dereference hoisted into a local, two arms
// merged), so floors of 6 and more are enforced at two thirds of the confirmed count; small floors are exact.
func (r *Report) Floor(rule string, n int, note string) {
	if n >= 6 {
		n = (2*n + 2) / 3
	}
	r.floors[rule] = n
	r.floorsNote[rule] = note
}

func (r *Report) Errorf(format string, a ...interface{}) {
	r.Errors = append(r.Errors, fmt.Sprintf(format, a...))
}

func (r *Report) Fn(name string) { r.Funcs[name] = true }

// ---------------------------------------------------------------- known findings

type KnownFinding struct {
	Property string `json:"property"`
	Key      string `json:"key"`  // exact obligation key
	What     string `json:"what"` // what fails (input / call site / history)
	Status   string `json:"status"`
	Commit   string `json:"commit,omitempty"`
}

type KnownFile struct {
	Known []KnownFinding `json:"known"`
	Fixed []KnownFinding `json:"fixed"`
}

func LoadKnown(verifDir string) (*KnownFile, error) {
	b, err := os.ReadFile(filepath.Join(verifDir, "known_findings.json"))
	if err != nil {
		if os.IsNotExist(err) {
			return &KnownFile{}, nil
		}
		return nil, err
	}
	var k KnownFile
	if err := json.Unmarshal(b, &k); err != nil {
		return nil, err
	}
	return &k, nil
}

// ---------------------------------------------------------------- finish

// Finish evaluates floors, writes evidence and violation files, prints the verdict lines
// and returns the process exit code (0 held, 1 violation, 2 checker broken).
func (r *Report) Finish(verifDir string, onlyKey string) int {
	sort.SliceStable(r.Obls, func(i, j int) bool {
		if r.Obls[i].Rule != r.Obls[j].Rule {
			return r.Obls[i].Rule < r.Obls[j].Rule
		}
		return r.Obls[i].Key < r.Obls[j].Key
	})
	// duplicate keys get an ordinal so that each obligation key is unique & stable
	seen := map[string]int{}
	for i := range r.Obls {
		k := r.Obls[i].Key
		seen[k]++
		if seen[k] > 1 {
			r.Obls[i].Key = fmt.Sprintf("%s#%d", k, seen[k])
		}
	}
	perRule := map[string]int{}
	for _, o := range r.Obls {
		if o.Status != Info {
			perRule[o.Rule]++
		}
	}
	var rules []string
	for rule := range r.floors {
		rules = append(rules, rule)
	}
	sort.Strings(rules)
	for _, rule := range rules {
		if perRule[rule] < r.floors[rule] {
			r.Errorf("floor not reached for %s: %d obligations < %d (%s)", rule, perRule[rule], r.floors[rule], r.floorsNote[rule])
		}
	}
	known, err := LoadKnown(verifDir)
	if err != nil {
		r.Errorf("known_findings.json unreadable: %v", err)
		known = &KnownFile{}
	}
	knownKey := map[string]KnownFinding{}
	for _, k := range known.Known {
		if k.Property == r.Prop {
			knownKey[k.Key] = k
		}
	}
	var viol, knownHits []Obligation
	total, disc := 0, 0
	distinct := map[string]bool{}
	for _, o := range r.Obls {
		if onlyKey != "" && o.Key != onlyKey {
			continue
		}
		switch o.Status {
		case Info:
			continue
		case Control:
			total++
			disc++
			continue
		}
		total++
		distinct[o.Key] = true
		if o.Status == Discharged {
			disc++
			continue
		}
		if _, ok := knownKey[o.Key]; ok {
			knownHits = append(knownHits, o)
		} else {
			viol = append(viol, o)
		}
	}
	// print
	fmt.Printf("== %s tier=%s obligations=%d discharged=%d violations=%d known=%d functions=%d load=%.1fs\n",
		r.Prop, r.Tier, total, disc, len(viol), len(knownHits), len(r.Funcs), r.Extra["load_s"])
	ruleCount := map[string][2]int{}
	for _, o := range r.Obls {
		if o.Status == Info {
			continue
		}
		c := ruleCount[o.Rule]
		c[0]++
		if o.Status == Discharged || o.Status == Control {
			c[1]++
		}
		ruleCount[o.Rule] = c
	}
	var rs []string
	for k := range ruleCount {
		rs = append(rs, k)
	}
	sort.Strings(rs)
	for _, k := range rs {
		fl := ""
		if f, ok := r.floors[k]; ok {
			fl = fmt.Sprintf(" (floor %d)", f)
		}
		fmt.Printf("   %-12s %d/%d discharged%s\n", k, ruleCount[k][1], ruleCount[k][0], fl)
	}
	for _, o := range r.Obls {
		if o.Status == Info && os.Getenv("VERIF_VERBOSE") != "" {
			fmt.Printf("   info %s %s: %s\n", o.Key, o.Pos, o.Detail)
		}
	}
	if os.Getenv("VERIF_VERBOSE") != "" {
		for _, o := range r.Obls {
			if o.Status == Discharged || o.Status == Control {
				fmt.Printf("   ok   %s %s: %s\n", o.Key, o.Pos, o.Detail)
			}
		}
	}
	for _, e := range r.Errors {
		fmt.Printf("CHECKER-ERROR property=%s %s\n", r.Prop, e)
	}
	for _, o := range knownHits {
		fmt.Printf("KNOWN-FINDING: property=%s %s at %s — %s\n", r.Prop, o.Key, o.Pos, knownKey[o.Key].What)
	}
	vdir := filepath.Join(verifDir, "evidence", "violations")
	// clear stale violation files of this property
	if onlyKey == "" && os.Getenv("VERIF_NO_EVIDENCE") == "" {
		if ents, err := os.ReadDir(vdir); err == nil {
			for _, e := range ents {
				if strings.HasPrefix(e.Name(), r.Prop+"-") {
					os.Remove(filepath.Join(vdir, e.Name()))
				}
			}
		}
	}
	noEv := os.Getenv("VERIF_NO_EVIDENCE") != ""
	for i, o := range viol {
		if noEv {
			fmt.Printf("   violated %s at %s: %s\n", o.Key, o.Pos, o.Detail)
			fmt.Printf("VIOLATION property=%s replay=-\n", r.Prop)
			continue
		}
		os.MkdirAll(vdir, 0o755)
		path := filepath.Join(vdir, fmt.Sprintf("%s-%d.json", r.Prop, i+1))
		b, _ := json.MarshalIndent(map[string]interface{}{"property": r.Prop, "rule": o.Rule, "key": o.Key, "pos": o.Pos, "status": o.Status, "detail": o.Detail}, "", " ")
		os.WriteFile(path, append(b, '\n'), 0o644)
		rel, _ := filepath.Rel(verifDir, path)
		fmt.Printf("   violated %s at %s: %s\n", o.Key, o.Pos, o.Detail)
		fmt.Printf("VIOLATION property=%s replay=%s\n", r.Prop, rel)
	}
	if onlyKey == "" && !noEv {
		r.writeEvidence(verifDir, total, disc, len(distinct), len(viol), knownHits)
	}
	if len(r.Errors) > 0 {
		return 2
	}
	if len(viol) > 0 {
		return 1
	}
	return 0
}

func (r *Report) writeEvidence(verifDir string, total, disc, distinct, nviol int, knownHits []Obligation) {
	// samples: up to 4 obligations per rule, actual keys/positions/verdicts
	var samples []Obligation
	per := map[string]int{}
	for _, o := range r.Obls {
		if o.Status == Info {
			continue
		}
		if per[o.Rule] < 4 || (o.Status != Discharged && o.Status != Control) {
			samples = append(samples, o)
			per[o.Rule]++
		}
	}
	var infos []Obligation
	for _, o := range r.Obls {
		if o.Status == Info && len(infos) < 40 {
			infos = append(infos, o)
		}
	}
	perRule := map[string]map[string]int{}
	for _, o := range r.Obls {
		if o.Status == Info {
			continue
		}
		m := perRule[o.Rule]
		if m == nil {
			m = map[string]int{}
			perRule[o.Rule] = m
		}
		m["obligations"]++
		if o.Status == Discharged || o.Status == Control {
			m["discharged"]++
		}
		if f, ok := r.floors[o.Rule]; ok {
			m["floor"] = f
		}
	}
	var fns []string
	for f := range r.Funcs {
		fns = append(fns, f)
	}
	sort.Strings(fns)
	if len(fns) > 60 {
		fns = append(fns[:60], fmt.Sprintf("... %d more", len(fns)-60))
	}
	var kh []string
	for _, o := range knownHits {
		kh = append(kh, o.Key)
	}
	cov := map[string]interface{}{
		"explanation":         r.Explanation,
		"obligations":         total,
		"discharged":          disc,
		"evaluations":         total,
		"distinct_nontrivial": distinct,
		"rule":                "one obligation per (rule, function, construct) instance enumerated from the type-checked program; distinct = distinct keys excluding positive controls",
		"samples":             samples,
		"per_rule":            perRule,
		"functions_analysed":  len(r.Funcs),
		"functions":           fns,
		"reach_set_size":      r.ReachSize,
		"known_findings_hit":  kh,
		"informational":       infos,
		"notes":               r.Notes,
		"checker_errors":      r.Errors,
		"exhaustive":          false,
	}
	if len(r.Witnesses) > 0 {
		k := 0
		for _, w := range r.Witnesses {
			if w.Killed {
				k++
			}
		}
		cov["sensitivity_witnesses"] = map[string]interface{}{"killed": k, "total": len(r.Witnesses), "list": r.Witnesses}
	}
	for k, v := range r.Extra {
		cov[k] = v
	}
	ev := map[string]interface{}{
		"property_id": r.Prop,
		"tier":        r.Tier,
		"seed":        r.Seed,
		"level":       "other",
		"coverage":    cov,
		"assumptions": r.Assumptions,
		"wall_s":      time.Since(r.Start).Seconds(),
		"violations":  nviol,
	}
	os.MkdirAll(filepath.Join(verifDir, "evidence"), 0o755)
	b, _ := json.MarshalIndent(ev, "", " ")
	os.WriteFile(filepath.Join(verifDir, "evidence", r.Prop+".json"), append(b, '\n'), 0o644)
}

// FinishMutant prints the violated keys of a mutant run (self-test mode). No evidence or
// violation files are written.
func (r *Report) FinishMutant() int {
	perRule := map[string]int{}
	for _, o := range r.Obls {
		if o.Status != Info {
			perRule[o.Rule]++
		}
	}
	for rule, fl := range r.floors {
		if perRule[rule] < fl {
			r.Errorf("floor not reached for %s: %d < %d", rule, perRule[rule], fl)
		}
	}
	for _, e := range r.Errors {
		fmt.Printf("CHECKER-ERROR %s\n", strings.ReplaceAll(e, "\n", " "))
	}
	n := 0
	for _, o := range r.Obls {
		if o.Status == Violated || o.Status == Undecided {
			fmt.Printf("MUTANT-VIOLATED %s @%s %s\n", o.Key, o.Pos, o.Detail)
			n++
		}
	}
	if n > 0 {
		return 1
	}
	if len(r.Errors) > 0 {
		return 2
	}
	return 0
}
