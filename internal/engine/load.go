// Package engine loads /repo's current working tree from source, type-checks it,
// builds SSA for the repository's own packages and offers the small set of static
// queries (dominance, cut-edge reachability, slices, call graph) the property rules use.
package engine

import (
	"fmt"
	"go/ast"
	"go/token"
	"go/types"
	"os"
	"sort"
	"strings"
	"time"

	"golang.org/x/tools/go/callgraph"
	"golang.org/x/tools/go/callgraph/cha"
	"golang.org/x/tools/go/callgraph/vta"
	"golang.org/x/tools/go/packages"
	"golang.org/x/tools/go/ssa"
	"golang.org/x/tools/go/ssa/ssautil"
)

const RepoMod = "github.com/idena-network/idena-go"

// the single tolerated type error of the whole closure (see DESIGN §0)
const toleratedBrokenPkg = "github.com/lucas-clemente/quic-go/internal/qtls"

type Prog struct {
	Dir      string
	Fset     *token.FileSet
	Repo     []*packages.Package          // repo packages, sorted by path
	ByPath   map[string]*packages.Package // every package of the closure
	SSA      *ssa.Program
	SSAPkg   map[string]*ssa.Package
	AllPkgs  int
	LoadSecs float64
	Full     bool // SSA bodies built for dependencies too (thorough)

	cha     *callgraph.Graph
	vta     *callgraph.Graph
	fnCache map[string]*ssa.Function
	allFns  []*ssa.Function
}

func RepoDir() string {
	if d := os.Getenv("VERIF_REPO"); d != "" {
		return d
	}
	return "/repo"
}

type LoadOpts struct {
	Overlay map[string][]byte
	Full    bool // build SSA bodies for every package (needed for VTA across deps)
}

// Load type-checks ./... of the repository from source. It fails closed: any error in a
// repo package, any error outside the single tolerated dependency, or a package count
// below the floor is a load failure (the check is then broken, not passed).
func Load(opts LoadOpts) (*Prog, error) {
	t0 := time.Now()
	dir := RepoDir()
	env := []string{}
	for _, e := range os.Environ() {
		if strings.HasPrefix(e, "GOWORK=") || strings.HasPrefix(e, "GOFLAGS=") ||
			strings.HasPrefix(e, "GOPROXY=") || strings.HasPrefix(e, "GOSUMDB=") ||
			strings.HasPrefix(e, "GOTOOLCHAIN=") {
			continue
		}
		env = append(env, e)
	}
	env = append(env, "GOWORK=off", "GOFLAGS=-mod=mod", "GOPROXY=off", "GOSUMDB=off", "GOTOOLCHAIN=local")
	fset := token.NewFileSet()
	cfg := &packages.Config{
		Mode:    packages.LoadAllSyntax,
		Dir:     dir,
		Fset:    fset,
		Env:     env,
		Tests:   false,
		Overlay: opts.Overlay,
	}
	roots, err := packages.Load(cfg, "./...")
	if err != nil {
		return nil, fmt.Errorf("packages.Load: %v", err)
	}
	p := &Prog{Dir: dir, Fset: fset, ByPath: map[string]*packages.Package{}, SSAPkg: map[string]*ssa.Package{}, fnCache: map[string]*ssa.Function{}, Full: opts.Full}
	var order []*packages.Package
	var loadErr []string
	packages.Visit(roots, nil, func(pk *packages.Package) {
		order = append(order, pk) // post-order: dependencies first
		p.ByPath[pk.PkgPath] = pk
		isRepo := strings.HasPrefix(pk.PkgPath, RepoMod)
		if len(pk.Errors) > 0 {
			if isRepo {
				for _, e := range pk.Errors {
					loadErr = append(loadErr, fmt.Sprintf("repo package %s: %v", pk.PkgPath, e))
				}
			} else if pk.PkgPath != toleratedBrokenPkg || len(pk.Errors) != 1 {
				for _, e := range pk.Errors {
					loadErr = append(loadErr, fmt.Sprintf("dependency %s: %v", pk.PkgPath, e))
				}
			}
		}
		if isRepo {
			if pk.Types == nil || pk.TypesInfo == nil || len(pk.Syntax) == 0 {
				loadErr = append(loadErr, fmt.Sprintf("repo package %s: no types/syntax", pk.PkgPath))
			}
			p.Repo = append(p.Repo, pk)
		}
	})
	if len(loadErr) > 0 {
		sort.Strings(loadErr)
		if len(loadErr) > 12 {
			loadErr = append(loadErr[:12], fmt.Sprintf("... %d more", len(loadErr)-12))
		}
		return nil, fmt.Errorf("load errors:\n  %s", strings.Join(loadErr, "\n  "))
	}
	sort.Slice(p.Repo, func(i, j int) bool { return p.Repo[i].PkgPath < p.Repo[j].PkgPath })
	p.AllPkgs = len(order)
	if len(p.Repo) < 60 {
		return nil, fmt.Errorf("only %d repo packages loaded (floor 60): wrong directory or build broken", len(p.Repo))
	}
	// SSA by hand: ssautil.AllPackages would skip every package that transitively imports
	// the tolerated broken dependency.
	prog := ssa.NewProgram(fset, ssa.InstantiateGenerics)
	for _, pk := range order {
		if pk.Types == nil {
			continue
		}
		var files []*ast.File
		info := pk.TypesInfo
		if len(pk.Errors) == 0 && info != nil {
			files = pk.Syntax
		}
		if files == nil {
			info = nil
		}
		sp := prog.CreatePackage(pk.Types, files, info, true)
		p.SSAPkg[pk.PkgPath] = sp
	}
	if opts.Full {
		for _, pk := range order {
			if sp := p.SSAPkg[pk.PkgPath]; sp != nil && len(pk.Errors) == 0 {
				sp.Build()
			}
		}
	} else {
		for _, pk := range p.Repo {
			p.SSAPkg[pk.PkgPath].Build()
		}
	}
	p.SSA = prog
	p.LoadSecs = time.Since(t0).Seconds()
	return p, nil
}

func IsRepoPkg(pk *types.Package) bool {
	return pk != nil && strings.HasPrefix(pk.Path(), RepoMod)
}

func ShortPkg(path string) string {
	s := strings.TrimPrefix(path, RepoMod)
	s = strings.TrimPrefix(s, "/")
	if s == "" {
		return "main"
	}
	return s
}

// AllFuncs returns every SSA function (incl. anonymous and instantiations) whose package
// is a repo package, in deterministic order.
func (p *Prog) AllFuncs() []*ssa.Function {
	if p.allFns != nil {
		return p.allFns
	}
	all := ssautil.AllFunctions(p.SSA)
	var out []*ssa.Function
	for f := range all {
		if pk := FuncPkg(f); pk != nil && IsRepoPkg(pk) {
			out = append(out, f)
		}
	}
	sort.Slice(out, func(i, j int) bool {
		a, b := out[i], out[j]
		if a.Pos() != b.Pos() {
			return a.Pos() < b.Pos()
		}
		return a.String() < b.String()
	})
	p.allFns = out
	return out
}

func FuncPkg(f *ssa.Function) *types.Package {
	for f.Parent() != nil {
		f = f.Parent()
	}
	if f.Origin() != nil {
		f = f.Origin()
	}
	if f.Pkg != nil {
		return f.Pkg.Pkg
	}
	if o := f.Object(); o != nil {
		return o.Pkg()
	}
	return nil
}

// FuncName is "pkg.Recv.method" / "pkg.func" / "pkg.func$1" with the short package path.
func FuncName(f *ssa.Function) string {
	if f == nil {
		return "<nil>"
	}
	pk := FuncPkg(f)
	pp := "?"
	if pk != nil {
		pp = ShortPkg(pk.Path())
		if !IsRepoPkg(pk) {
			pp = pk.Path()
		}
	}
	return pp + "." + RelName(f)
}

// RelName is "Recv.method", "func", with "$n" suffixes for closures.
func RelName(f *ssa.Function) string {
	if f.Parent() != nil {
		// anonymous: name is parent$N
		return RelName(f.Parent()) + strings.TrimPrefix(f.Name(), f.Parent().Name())
	}
	if recv := f.Signature.Recv(); recv != nil {
		t := recv.Type()
		if pt, ok := t.(*types.Pointer); ok {
			t = pt.Elem()
		}
		if n, ok := t.(*types.Named); ok {
			return n.Obj().Name() + "." + f.Name()
		}
	}
	return f.Name()
}

// Func resolves "pkgShortPath", "Recv.method" | "func" through the type-checker's scope.
// An unresolved anchor is an error for the caller (anchor moved), never a pass.
func (p *Prog) Func(pkgShort, name string) (*ssa.Function, error) {
	key := pkgShort + "." + name
	if f, ok := p.fnCache[key]; ok {
		return f, nil
	}
	path := RepoMod
	if pkgShort != "" && pkgShort != "main" {
		path = RepoMod + "/" + pkgShort
	}
	sp := p.SSAPkg[path]
	if sp == nil {
		return nil, fmt.Errorf("anchor package %q not loaded", pkgShort)
	}
	var fn *ssa.Function
	if i := strings.Index(name, "."); i >= 0 {
		recv, m := name[:i], name[i+1:]
		obj := sp.Pkg.Scope().Lookup(recv)
		tn, ok := obj.(*types.TypeName)
		if !ok {
			return nil, fmt.Errorf("anchor type %s.%s not found", pkgShort, recv)
		}
		for _, t := range []types.Type{tn.Type(), types.NewPointer(tn.Type())} {
			ms := p.SSA.MethodSets.MethodSet(t)
			for i := 0; i < ms.Len(); i++ {
				sel := ms.At(i)
				if sel.Obj().Name() == m && len(sel.Index()) == 1 {
					fn = p.SSA.MethodValue(sel)
				}
			}
			if fn != nil {
				break
			}
		}
		if fn != nil && fn.Synthetic != "" {
			// wrapper; prefer the declared function
			if o, ok := fn.Object().(*types.Func); ok {
				if d := p.SSA.FuncValue(o); d != nil {
					fn = d
				}
			}
		}
	} else {
		fn = sp.Func(name)
	}
	if fn == nil {
		return nil, fmt.Errorf("anchor function %s.%s not found", pkgShort, name)
	}
	p.fnCache[key] = fn
	return fn, nil
}

// Anon returns the anonymous functions nested (transitively) in f.
func Anon(f *ssa.Function) []*ssa.Function {
	var out []*ssa.Function
	var rec func(*ssa.Function)
	rec = func(g *ssa.Function) {
		for _, a := range g.AnonFuncs {
			out = append(out, a)
			rec(a)
		}
	}
	rec(f)
	return out
}

func (p *Prog) Pos(pos token.Pos) string {
	if !pos.IsValid() {
		return "-"
	}
	ps := p.Fset.Position(pos)
	fn := strings.TrimPrefix(ps.Filename, p.Dir+"/")
	return fmt.Sprintf("%s:%d", fn, ps.Line)
}

// InstrPos finds a usable position for an instruction (some SSA instrs carry NoPos).
func (p *Prog) InstrPos(in ssa.Instruction) string {
	if in == nil {
		return "-"
	}
	if in.Pos().IsValid() {
		return p.Pos(in.Pos())
	}
	// look at operands
	var ops []*ssa.Value
	for _, op := range in.Operands(ops) {
		if *op != nil && (*op).Pos().IsValid() {
			return p.Pos((*op).Pos())
		}
	}
	if b := in.Block(); b != nil {
		for _, i2 := range b.Instrs {
			if i2.Pos().IsValid() {
				return p.Pos(i2.Pos())
			}
		}
		return p.Pos(b.Parent().Pos())
	}
	return "-"
}

// CHA returns the class-hierarchy call graph over the built program (sound for dynamic
// dispatch among analysed functions).
func (p *Prog) CHA() *callgraph.Graph {
	if p.cha == nil {
		p.cha = cha.CallGraph(p.SSA)
	}
	return p.cha
}

// VTA refines CHA by variable-type analysis.
func (p *Prog) VTA() *callgraph.Graph {
	if p.vta == nil {
		p.vta = vta.CallGraph(ssautil.AllFunctions(p.SSA), p.CHA())
	}
	return p.vta
}
