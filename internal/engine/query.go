package engine

import (
	"fmt"
	"go/constant"
	"go/token"
	"go/types"
	"sort"
	"strings"

	"golang.org/x/tools/go/callgraph"
	"golang.org/x/tools/go/ssa"
)

// ---------------------------------------------------------------- callee identity

// CalleeObj returns the *types.Func a call resolves to statically: the concrete function
// for a static call, the interface method for an invoke. nil for calls of func values
// and builtins.
func CalleeObj(c *ssa.CallCommon) *types.Func {
	if c.IsInvoke() {
		return c.Method
	}
	if f := c.StaticCallee(); f != nil {
		if f.Origin() != nil {
			f = f.Origin()
		}
		if o, ok := f.Object().(*types.Func); ok {
			return o
		}
	}
	return nil
}

// ObjID renders a function object as "pkgshort.Recv.Name" (repo) or "full/path.Recv.Name".
func ObjID(o *types.Func) string {
	if o == nil {
		return ""
	}
	pp := ""
	if o.Pkg() != nil {
		pp = o.Pkg().Path()
		if IsRepoPkg(o.Pkg()) {
			pp = ShortPkg(pp)
		}
	}
	sig := o.Type().(*types.Signature)
	if r := sig.Recv(); r != nil {
		t := r.Type()
		if pt, ok := t.(*types.Pointer); ok {
			t = pt.Elem()
		}
		switch n := t.(type) {
		case *types.Named:
			return pp + "." + n.Obj().Name() + "." + o.Name()
		case *types.Interface:
			// method of an anonymous/embedded interface: find a named owner is not
			// possible here; use the bare form
			return pp + ".(interface)." + o.Name()
		}
	}
	return pp + "." + o.Name()
}

// CallID is ObjID of the callee of a call instruction, "" if dynamic.
func CallID(c ssa.CallInstruction) string {
	return ObjID(CalleeObj(c.Common()))
}

// CallIs reports whether the call's callee id equals one of ids.
func CallIs(c ssa.CallInstruction, ids ...string) bool {
	id := CallID(c)
	if id == "" {
		return false
	}
	for _, x := range ids {
		if id == x {
			return true
		}
	}
	return false
}

// CallNameIs matches only the method/function name and (optionally) receiver type name,
// for callee families spread over several receivers ("*.SubBalance").
func CallNameIs(c ssa.CallInstruction, names ...string) bool {
	o := CalleeObj(c.Common())
	if o == nil {
		return false
	}
	for _, n := range names {
		if o.Name() == n {
			return true
		}
	}
	return false
}

// CallArgs returns the call's arguments with the receiver first for method calls
// (both invoke and static method calls), so that index 0 is always the receiver.
func CallArgs(c ssa.CallInstruction) []ssa.Value {
	cc := c.Common()
	if cc.IsInvoke() {
		return append([]ssa.Value{cc.Value}, cc.Args...)
	}
	return cc.Args
}

// HasRecv tells whether the resolved callee is a method.
func HasRecv(c ssa.CallInstruction) bool {
	o := CalleeObj(c.Common())
	if o == nil {
		return false
	}
	return o.Type().(*types.Signature).Recv() != nil
}

// Params returns explicit (non-receiver) arguments.
func Params(c ssa.CallInstruction) []ssa.Value {
	cc := c.Common()
	if cc.IsInvoke() {
		return cc.Args
	}
	if HasRecv(c) && len(cc.Args) > 0 {
		return cc.Args[1:]
	}
	return cc.Args
}

// Calls lists every call instruction (call, go, defer) of f in block order.
func Calls(f *ssa.Function) []ssa.CallInstruction {
	var out []ssa.CallInstruction
	for _, b := range f.Blocks {
		for _, in := range b.Instrs {
			if c, ok := in.(ssa.CallInstruction); ok {
				out = append(out, c)
			}
		}
	}
	return out
}

// CallsDeep lists calls of f and of all closures nested in f.
func CallsDeep(f *ssa.Function) []ssa.CallInstruction {
	out := Calls(f)
	for _, a := range Anon(f) {
		out = append(out, Calls(a)...)
	}
	return out
}

// ---------------------------------------------------------------- call graph queries

// SiteCallees resolves a call site to repo functions: static callee, closure, or the CHA
// targets of an interface invoke / func value call.
func (p *Prog) SiteCallees(c ssa.CallInstruction) []*ssa.Function {
	cc := c.Common()
	if f := cc.StaticCallee(); f != nil {
		return []*ssa.Function{f}
	}
	n := p.CHA().Nodes[c.Parent()]
	if n == nil {
		return nil
	}
	var out []*ssa.Function
	for _, e := range n.Out {
		if e.Site == c {
			out = append(out, e.Callee.Func)
		}
	}
	return out
}

type ReachOpts struct {
	Cut      func(*ssa.Function) bool // do not enter these
	Graph    *callgraph.Graph         // default CHA
	RepoOnly bool
	// NoFuncValueCHA: resolve calls of plain func values only lexically (closures defined
	// in reachable functions are reachable) instead of CHA's signature matching.
	NoFuncValueCHA bool
}

// Reach computes the set of functions reachable from the entries. Closures defined inside
// a reachable function are reachable (they may be invoked through a func value).
func (p *Prog) Reach(entries []*ssa.Function, o ReachOpts) map[*ssa.Function]bool {
	g := o.Graph
	if g == nil {
		g = p.CHA()
	}
	seen := map[*ssa.Function]bool{}
	var work []*ssa.Function
	push := func(f *ssa.Function) {
		if f == nil || seen[f] {
			return
		}
		if o.RepoOnly && !IsRepoPkg(FuncPkg(f)) {
			return
		}
		if o.Cut != nil && o.Cut(f) {
			return
		}
		seen[f] = true
		work = append(work, f)
	}
	for _, e := range entries {
		push(e)
	}
	for len(work) > 0 {
		f := work[len(work)-1]
		work = work[:len(work)-1]
		for _, a := range f.AnonFuncs {
			push(a)
		}
		// functions referenced as values (method values, func values) are reachable too
		for _, b := range f.Blocks {
			for _, in := range b.Instrs {
				var ops []*ssa.Value
				for _, op := range in.Operands(ops) {
					if fn, ok := (*op).(*ssa.Function); ok {
						push(fn)
					}
				}
			}
		}
		n := g.Nodes[f]
		if n == nil {
			continue
		}
		for _, e := range n.Out {
			if o.NoFuncValueCHA && e.Site != nil {
				cc := e.Site.Common()
				if !cc.IsInvoke() && cc.StaticCallee() == nil {
					continue
				}
			}
			push(e.Callee.Func)
		}
	}
	return seen
}

// Callers returns the functions containing a call site that may call f (CHA).
func (p *Prog) Callers(f *ssa.Function) []*callgraph.Edge {
	n := p.CHA().Nodes[f]
	if n == nil {
		return nil
	}
	out := append([]*callgraph.Edge(nil), n.In...)
	sort.Slice(out, func(i, j int) bool {
		if out[i].Site == nil || out[j].Site == nil {
			return out[j].Site != nil
		}
		return out[i].Site.Pos() < out[j].Site.Pos()
	})
	return out
}

// SortedFuncs turns a set into a deterministic slice.
func SortedFuncs(m map[*ssa.Function]bool) []*ssa.Function {
	var out []*ssa.Function
	for f := range m {
		out = append(out, f)
	}
	sort.Slice(out, func(i, j int) bool {
		if out[i].Pos() != out[j].Pos() {
			return out[i].Pos() < out[j].Pos()
		}
		return out[i].String() < out[j].String()
	})
	return out
}

// ---------------------------------------------------------------- CFG reachability

type Edge struct {
	From *ssa.BasicBlock
	Succ int // index into From.Succs
}

// ReachAvoiding computes the blocks reachable from entry when the given edges and blocks
// are removed. If from is nil, the function entry is used.
func ReachAvoiding(fn *ssa.Function, from *ssa.BasicBlock, cutEdges map[Edge]bool, cutBlocks map[*ssa.BasicBlock]bool) map[*ssa.BasicBlock]bool {
	seen := map[*ssa.BasicBlock]bool{}
	if len(fn.Blocks) == 0 {
		return seen
	}
	if from == nil {
		from = fn.Blocks[0]
	}
	if cutBlocks[from] {
		return seen
	}
	work := []*ssa.BasicBlock{from}
	seen[from] = true
	for len(work) > 0 {
		b := work[len(work)-1]
		work = work[:len(work)-1]
		for i, s := range b.Succs {
			if cutEdges[Edge{b, i}] || cutBlocks[s] || seen[s] {
				continue
			}
			seen[s] = true
			work = append(work, s)
		}
	}
	return seen
}

// InstrIndex returns the index of in within its block.
func InstrIndex(in ssa.Instruction) int {
	for i, x := range in.Block().Instrs {
		if x == in {
			return i
		}
	}
	return -1
}

// InstrDominates: a executes before b on every path reaching b.
func InstrDominates(a, b ssa.Instruction) bool {
	if a.Block() == b.Block() {
		return InstrIndex(a) < InstrIndex(b)
	}
	return a.Block().Dominates(b.Block())
}

// Guard describes a conditional branch whose one outgoing edge is the "pass" edge.
type Guard struct {
	If       *ssa.If
	PassTrue bool // pass edge is Succs[0] (cond true) when set, else Succs[1]
	Note     string
	// TailRet: instead of a branch, the guard is a return that hands the checked call's error straight
	// back (`return f(x)`): at that return, success implies f returned nil. Honoured only by
	// OnlyThroughPassRet for that very return.
	TailRet *ssa.Return
}

func (g Guard) PassEdge() Edge {
	if g.If == nil {
		return Edge{}
	}
	if g.PassTrue {
		return Edge{g.If.Block(), 0}
	}
	return Edge{g.If.Block(), 1}
}
func (g Guard) FailEdge() Edge {
	if g.If == nil {
		return Edge{}
	}
	if g.PassTrue {
		return Edge{g.If.Block(), 1}
	}
	return Edge{g.If.Block(), 0}
}

// OnlyThroughPass reports whether target can be reached from entry only by crossing the
// pass edge of at least one of the guards: with all pass edges cut, target is unreachable.
// (The general must-pass-through form: handles &&/|| chains, switch, early return.)
func OnlyThroughPass(fn *ssa.Function, target *ssa.BasicBlock, guards []Guard) bool {
	if len(guards) == 0 {
		return false
	}
	cut := map[Edge]bool{}
	for _, g := range guards {
		cut[g.PassEdge()] = true
	}
	return !ReachAvoiding(fn, nil, cut, nil)[target]
}

// NotThroughFail: target is unreachable when only fail edges may be... i.e. every path to
// target avoids... (unused helper kept minimal)

// GuardedByEach: for every guard group (alternatives), target must be reachable only through
// a pass edge of that group. Returns index of the first group that fails, or -1.
func GuardedByEach(fn *ssa.Function, target *ssa.BasicBlock, groups [][]Guard) int {
	for i, g := range groups {
		if !OnlyThroughPass(fn, target, g) {
			return i
		}
	}
	return -1
}

// MustPassBlocks: every path entry -> target crosses one of the blocks (strictly before
// target, or target itself if it is in the set and self=true).
func MustPassBlocks(fn *ssa.Function, target *ssa.BasicBlock, blocks map[*ssa.BasicBlock]bool) bool {
	if blocks[target] {
		return true
	}
	return !ReachAvoiding(fn, nil, nil, blocks)[target]
}

// MustPassInstr: every path from entry to instruction `at` executes one of `through`
// before it.
func MustPassInstr(fn *ssa.Function, at ssa.Instruction, through []ssa.Instruction) bool {
	blocks := map[*ssa.BasicBlock]bool{}
	for _, t := range through {
		if t.Block() == at.Block() {
			if InstrIndex(t) < InstrIndex(at) {
				return true
			}
			continue // same block, after: only counts via a loop; handled by cut below
		}
		blocks[t.Block()] = true
	}
	if len(blocks) == 0 {
		return false
	}
	return !ReachAvoiding(fn, nil, nil, blocks)[at.Block()]
}

// Ifs lists the If instructions of fn.
func Ifs(fn *ssa.Function) []*ssa.If {
	var out []*ssa.If
	for _, b := range fn.Blocks {
		if len(b.Instrs) == 0 {
			continue
		}
		if i, ok := b.Instrs[len(b.Instrs)-1].(*ssa.If); ok {
			out = append(out, i)
		}
	}
	return out
}

// Returns lists the Return instructions of fn.
func Returns(fn *ssa.Function) []*ssa.Return {
	var out []*ssa.Return
	for _, b := range fn.Blocks {
		if len(b.Instrs) == 0 {
			continue
		}
		if r, ok := b.Instrs[len(b.Instrs)-1].(*ssa.Return); ok {
			out = append(out, r)
		}
	}
	return out
}

// IsNilConst reports whether v is the nil constant.
func IsNilConst(v ssa.Value) bool {
	c, ok := v.(*ssa.Const)
	return ok && c.Value == nil && !isBasic(c.Type())
}

func isBasic(t types.Type) bool {
	_, ok := t.Underlying().(*types.Basic)
	return ok
}

// Unwrap strips conversions that do not change the identity of a value.
func Unwrap(v ssa.Value) ssa.Value {
	for {
		switch x := v.(type) {
		case *ssa.ChangeType:
			v = x.X
		case *ssa.Convert:
			v = x.X
		case *ssa.MakeInterface:
			v = x.X
		case *ssa.ChangeInterface:
			v = x.X
		default:
			return v
		}
	}
}

// NilCheck decomposes cond as `x == nil` / `x != nil`; returns x and whether the TRUE edge
// means x is non-nil.
func NilCheck(cond ssa.Value) (x ssa.Value, trueMeansNonNil bool, ok bool) {
	b, isb := cond.(*ssa.BinOp)
	if !isb || (b.Op != token.EQL && b.Op != token.NEQ) {
		return nil, false, false
	}
	switch {
	case IsNilConst(b.Y):
		x = b.X
	case IsNilConst(b.X):
		x = b.Y
	default:
		return nil, false, false
	}
	return x, b.Op == token.NEQ, true
}

// ErrReturnKind classifies a return instruction's error result (last result of error
// type): "nil", "nonnil" (constructed / known non-nil), "maybe" (a variable), "none".
func ErrReturnKind(r *ssa.Return) string {
	if len(r.Results) == 0 {
		return "none"
	}
	last := r.Results[len(r.Results)-1]
	if !types.Identical(last.Type(), types.Universe.Lookup("error").Type()) {
		return "none"
	}
	return errValueKind(last, map[ssa.Value]bool{})
}

func errValueKind(v ssa.Value, seen map[ssa.Value]bool) string {
	if seen[v] {
		return "nil" // neutral in a phi cycle
	}
	seen[v] = true
	switch x := v.(type) {
	case *ssa.Const:
		if x.Value == nil {
			return "nil"
		}
	case *ssa.MakeInterface:
		return "nonnil"
	case *ssa.Phi:
		k := ""
		for _, e := range x.Edges {
			ek := errValueKind(e, seen)
			if k == "" {
				k = ek
			} else if k != ek {
				return "maybe"
			}
		}
		return k
	case *ssa.Call:
		id := CallID(x)
		if id == "errors.New" || id == "fmt.Errorf" || id == "github.com/pkg/errors.New" || id == "github.com/pkg/errors.Errorf" || id == "github.com/pkg/errors.Wrap" || id == "github.com/pkg/errors.WithMessage" {
			return "nonnil"
		}
	case *ssa.UnOp:
		// load of a package-level error variable (sentinel errors)
		if x.Op == token.MUL {
			if g, ok := x.X.(*ssa.Global); ok {
				_ = g
				return "nonnil"
			}
		}
	}
	return "maybe"
}

// ---------------------------------------------------------------- slices

type SliceOpts struct {
	ThroughCalls  bool // include arguments of calls whose result is in the slice
	ThroughLoads  bool // a load of a local (Alloc) continues at every store to it
	MaxNodes      int
	StopAt        func(ssa.Value) bool // do not expand below these
	ThroughFields bool                 // FieldAddr/Field/Index continue to the base
	// ParamArgs, when set, continues a slice that reaches a parameter at the arguments the
	// callers pass for it (inter-procedural step; see Prog.ParamArgs).
	ParamArgs func(*ssa.Parameter) []ssa.Value
}

var DefaultSlice = SliceOpts{ThroughCalls: true, ThroughLoads: true, ThroughFields: true, MaxNodes: 4000}

// BackSlice returns the values v depends on (data dependence, intra-procedural).
func BackSlice(v ssa.Value, o SliceOpts) map[ssa.Value]bool {
	if o.MaxNodes == 0 {
		o.MaxNodes = 4000
	}
	seen := map[ssa.Value]bool{}
	var work []ssa.Value
	push := func(x ssa.Value) {
		if x == nil || seen[x] || len(seen) >= o.MaxNodes {
			return
		}
		seen[x] = true
		if o.StopAt != nil && o.StopAt(x) {
			return
		}
		work = append(work, x)
	}
	push(v)
	for len(work) > 0 {
		x := work[len(work)-1]
		work = work[:len(work)-1]
		switch t := x.(type) {
		case *ssa.Phi:
			for _, e := range t.Edges {
				push(e)
			}
		case *ssa.Parameter:
			if o.ParamArgs != nil {
				for _, a := range o.ParamArgs(t) {
					push(a)
				}
			}
		case *ssa.UnOp:
			push(t.X)
			if t.Op == token.MUL && o.ThroughLoads {
				for _, s := range StoresTo(t.X) {
					push(s.Val)
				}
			}
		case *ssa.BinOp:
			push(t.X)
			push(t.Y)
		case *ssa.ChangeType:
			push(t.X)
		case *ssa.Convert:
			push(t.X)
		case *ssa.ChangeInterface:
			push(t.X)
		case *ssa.MakeInterface:
			push(t.X)
		case *ssa.TypeAssert:
			push(t.X)
		case *ssa.Extract:
			push(t.Tuple)
		case *ssa.FieldAddr:
			if o.ThroughFields {
				push(t.X)
			}
		case *ssa.Field:
			if o.ThroughFields {
				push(t.X)
			}
		case *ssa.IndexAddr:
			if o.ThroughFields {
				push(t.X)
				push(t.Index)
			}
		case *ssa.Index:
			if o.ThroughFields {
				push(t.X)
				push(t.Index)
			}
		case *ssa.Lookup:
			push(t.X)
			push(t.Index)
		case *ssa.Slice:
			push(t.X)
		case *ssa.SliceToArrayPointer:
			push(t.X)
		case *ssa.Next:
			push(t.Iter)
		case *ssa.Range:
			push(t.X)
		case *ssa.MakeMap, *ssa.MakeSlice:
			// contents arrive through MapUpdate / element stores: follow the referrers that write
			if refs := x.Referrers(); refs != nil {
				for _, ref := range *refs {
					if mu, ok := ref.(*ssa.MapUpdate); ok && mu.Map == x {
						push(mu.Key)
						push(mu.Value)
					}
				}
			}
		case *ssa.MakeClosure:
			for _, b := range t.Bindings {
				push(b)
			}
		case *ssa.Call:
			if o.ThroughCalls {
				if t.Call.IsInvoke() {
					push(t.Call.Value)
				} else if _, ok := t.Call.Value.(*ssa.Function); !ok {
					push(t.Call.Value)
				}
				for _, a := range t.Call.Args {
					push(a)
				}
			}
		case *ssa.Alloc:
			if o.ThroughLoads {
				for _, s := range StoresTo(t) {
					push(s.Val)
				}
				// element / field initialisers of a literal: stores through &alloc[i], &alloc.f
				if refs := t.Referrers(); refs != nil {
					for _, ref := range *refs {
						switch a := ref.(type) {
						case *ssa.IndexAddr:
							if a.X == ssa.Value(t) {
								for _, s := range StoresTo(a) {
									push(s.Val)
								}
							}
						case *ssa.FieldAddr:
							if a.X == ssa.Value(t) {
								for _, s := range StoresTo(a) {
									push(s.Val)
								}
							}
						}
					}
				}
			}
		}
	}
	return seen
}

// StoresTo returns the Store instructions whose address is exactly addr (an Alloc,
// FreeVar or other address value), found through addr's referrers.
func StoresTo(addr ssa.Value) []*ssa.Store {
	refs := addr.Referrers()
	if refs == nil {
		return nil
	}
	var out []*ssa.Store
	for _, r := range *refs {
		if s, ok := r.(*ssa.Store); ok && s.Addr == addr {
			out = append(out, s)
		}
	}
	return out
}

// SliceHasCall reports whether the slice contains a call to one of ids; returns the call.
func SliceHasCall(sl map[ssa.Value]bool, ids ...string) *ssa.Call {
	var best *ssa.Call
	for v := range sl {
		if c, ok := v.(*ssa.Call); ok && CallIs(c, ids...) {
			if best == nil || c.Pos() < best.Pos() {
				best = c
			}
		}
	}
	return best
}

// SliceCallIDs lists the ids of all resolved calls in a slice (sorted, distinct).
func SliceCallIDs(sl map[ssa.Value]bool) []string {
	set := map[string]bool{}
	for v := range sl {
		if c, ok := v.(*ssa.Call); ok {
			if id := CallID(c); id != "" {
				set[id] = true
			}
		}
	}
	var out []string
	for k := range set {
		out = append(out, k)
	}
	sort.Strings(out)
	return out
}

// ---------------------------------------------------------------- access paths

// PathOf renders a value as a canonical access path rooted at parameters, free variables,
// globals, constants or call results, so that two SSA values denoting the same memory or
// the same pure expression compare equal without CSE. Unknown shapes render with the
// instruction name, which makes them unique (no accidental equality).
func PathOf(v ssa.Value) string {
	return pathOf(v, 0)
}

func pathOf(v ssa.Value, depth int) string {
	if depth > 12 {
		return "…"
	}
	if v == nil {
		return "<nil>"
	}
	if o := Origin(v); o != v {
		return pathOf(o, depth+1)
	}
	switch x := v.(type) {
	case nil:
		return "<nil>"
	case *ssa.Parameter:
		return x.Name()
	case *ssa.FreeVar:
		return x.Name()
	case *ssa.Global:
		return "&" + x.Pkg.Pkg.Name() + "." + x.Name()
	case *ssa.Const:
		if x.Value == nil {
			return "nil"
		}
		if x.Value.Kind() == constant.String {
			return x.Value.ExactString()
		}
		return x.Value.String()
	case *ssa.Function:
		return "func:" + x.String()
	case *ssa.Alloc:
		// a local variable: if it has exactly one store, use the stored value's path
		st := StoresTo(x)
		if len(st) == 1 && !x.Heap {
			return "&(" + pathOf(st[0].Val, depth+1) + ")"
		}
		if x.Comment != "" {
			return "&" + x.Comment
		}
		return "&" + x.Name()
	case *ssa.FieldAddr:
		return pathOf(x.X, depth+1) + "." + fieldName(x.X.Type(), x.Field) + "&"
	case *ssa.Field:
		return pathOf(x.X, depth+1) + "." + fieldName(x.X.Type(), x.Field)
	case *ssa.IndexAddr:
		return pathOf(x.X, depth+1) + "[" + pathOf(x.Index, depth+1) + "]&"
	case *ssa.Index:
		return pathOf(x.X, depth+1) + "[" + pathOf(x.Index, depth+1) + "]"
	case *ssa.Lookup:
		return pathOf(x.X, depth+1) + "[" + pathOf(x.Index, depth+1) + "]"
	case *ssa.UnOp:
		if x.Op == token.MUL {
			s := pathOf(x.X, depth+1)
			if strings.HasSuffix(s, "&") {
				return strings.TrimSuffix(s, "&")
			}
			if strings.HasPrefix(s, "&(") && strings.HasSuffix(s, ")") {
				return s[2 : len(s)-1]
			}
			if strings.HasPrefix(s, "&") {
				return s[1:]
			}
			return "*" + s
		}
		return x.Op.String() + pathOf(x.X, depth+1)
	case *ssa.BinOp:
		return "(" + pathOf(x.X, depth+1) + x.Op.String() + pathOf(x.Y, depth+1) + ")"
	case *ssa.ChangeType:
		return pathOf(x.X, depth+1)
	case *ssa.Convert:
		return pathOf(x.X, depth+1)
	case *ssa.MakeInterface:
		return pathOf(x.X, depth+1)
	case *ssa.ChangeInterface:
		return pathOf(x.X, depth+1)
	case *ssa.Extract:
		return pathOf(x.Tuple, depth+1) + "#" + fmt.Sprint(x.Index)
	case *ssa.Slice:
		return pathOf(x.X, depth+1) + "[:]"
	case *ssa.Call:
		id := CallID(x)
		if id == "" {
			if b, ok := x.Call.Value.(*ssa.Builtin); ok {
				id = b.Name()
			} else {
				return x.Name() + "@" + fmt.Sprint(int(x.Pos()))
			}
		}
		var as []string
		for _, a := range CallArgs(x) {
			as = append(as, pathOf(a, depth+1))
		}
		return id + "(" + strings.Join(as, ",") + ")"
	case *ssa.Phi:
		return "phi:" + x.Name() + "@" + fmt.Sprint(x.Block().Index)
	}
	return v.Name() + "@" + fmt.Sprintf("%T", v)
}

func fieldName(t types.Type, i int) string {
	if pt, ok := t.Underlying().(*types.Pointer); ok {
		t = pt.Elem()
	}
	if st, ok := t.Underlying().(*types.Struct); ok && i < st.NumFields() {
		return st.Field(i).Name()
	}
	return fmt.Sprintf("f%d", i)
}

// FieldOf: if v is FieldAddr/Field (possibly under a load), returns owner named type name
// and field name.
func FieldOf(v ssa.Value) (owner, field string, ok bool) {
	for {
		if u, isU := v.(*ssa.UnOp); isU && u.Op == token.MUL {
			v = u.X
			continue
		}
		break
	}
	var base types.Type
	var idx int
	switch x := v.(type) {
	case *ssa.FieldAddr:
		base, idx = x.X.Type(), x.Field
	case *ssa.Field:
		base, idx = x.X.Type(), x.Field
	default:
		return "", "", false
	}
	if pt, isP := base.Underlying().(*types.Pointer); isP {
		base = pt.Elem()
	}
	name := ""
	if n, isN := base.(*types.Named); isN {
		name = n.Obj().Name()
	}
	return name, fieldName(base, idx), true
}

// NamedOf returns the named type (through pointers) of t, or nil.
func NamedOf(t types.Type) *types.Named {
	for {
		switch x := t.(type) {
		case *types.Pointer:
			t = x.Elem()
			continue
		case *types.Named:
			return x
		}
		return nil
	}
}

// TypeID renders a named type as pkgshort.Name.
func TypeID(t types.Type) string {
	n := NamedOf(t)
	if n == nil {
		return t.String()
	}
	if n.Obj().Pkg() == nil {
		return n.Obj().Name()
	}
	pp := n.Obj().Pkg().Path()
	if IsRepoPkg(n.Obj().Pkg()) {
		pp = ShortPkg(pp)
	}
	return pp + "." + n.Obj().Name()
}

// ConstInt returns the integer value of a constant.
func ConstInt(v ssa.Value) (int64, bool) {
	c, ok := Unwrap(v).(*ssa.Const)
	if !ok || c.Value == nil || c.Value.Kind() != constant.Int {
		return 0, false
	}
	i, exact := constant.Int64Val(c.Value)
	return i, exact
}

// ConstBool returns the boolean value of a constant.
func ConstBool(v ssa.Value) (bool, bool) {
	c, ok := v.(*ssa.Const)
	if !ok || c.Value == nil || c.Value.Kind() != constant.Bool {
		return false, false
	}
	return constant.BoolVal(c.Value), true
}

// ParamArgs returns, for a parameter of f, the values passed for it at every static call
// site of f in the repo (for closures: at the calls of the closure value in the parent).
func (p *Prog) ParamArgs(par *ssa.Parameter) []ssa.Value {
	f := par.Parent()
	idx := -1
	for i, q := range f.Params {
		if q == par {
			idx = i
		}
	}
	if idx < 0 {
		return nil
	}
	var out []ssa.Value
	if f.Parent() != nil {
		for _, b := range f.Parent().Blocks {
			for _, in := range b.Instrs {
				mc, ok := in.(*ssa.MakeClosure)
				if !ok || mc.Fn != f {
					continue
				}
				for _, r := range *mc.Referrers() {
					if c, ok := r.(ssa.CallInstruction); ok && c.Common().Value == mc && idx < len(c.Common().Args) {
						out = append(out, c.Common().Args[idx])
					}
				}
			}
		}
		// a closure without free variables is referenced as a plain function value
		for _, b := range f.Parent().Blocks {
			for _, in := range b.Instrs {
				if c, ok := in.(ssa.CallInstruction); ok && c.Common().Value == ssa.Value(f) && idx < len(c.Common().Args) {
					out = append(out, c.Common().Args[idx])
				}
			}
		}
		return out
	}
	for _, e := range p.Callers(f) {
		if e.Site == nil {
			continue
		}
		cc := e.Site.Common()
		if cc.StaticCallee() != f {
			continue
		}
		if idx < len(cc.Args) {
			out = append(out, cc.Args[idx])
		}
	}
	return out
}

// LoopHeaderOf returns the innermost natural-loop header enclosing b: the nearest
// dominator d (b included) with a back edge pr->d (d dominates pr) from a block that b
// can reach.
func LoopHeaderOf(b *ssa.BasicBlock) *ssa.BasicBlock {
	fn := b.Parent()
	reach := ReachAvoiding(fn, b, nil, nil)
	for d := b; d != nil; d = d.Idom() {
		for _, pr := range d.Preds {
			if d.Dominates(pr) && reach[pr] {
				return d
			}
		}
	}
	return nil
}

// Origin strips loads of single-assignment locals (parameters spilled to a cell because a
// closure captures them, `x := v` cells) and identity conversions, so that two uses of the
// same source variable compare equal.
func Origin(v ssa.Value) ssa.Value {
	for i := 0; i < 20; i++ {
		v = Unwrap(v)
		u, ok := v.(*ssa.UnOp)
		if !ok || u.Op != token.MUL {
			return v
		}
		switch a := u.X.(type) {
		case *ssa.Alloc:
			st := StoresTo(a)
			if len(st) != 1 {
				return v
			}
			v = st[0].Val
		case *ssa.FreeVar:
			// captured variable: find the binding in the parent's MakeClosure
			fn := a.Parent()
			idx := -1
			for i, fv := range fn.FreeVars {
				if fv == a {
					idx = i
				}
			}
			if fn.Parent() == nil || idx < 0 {
				return v
			}
			var bound ssa.Value
			n := 0
			for _, b := range fn.Parent().Blocks {
				for _, in := range b.Instrs {
					if mc, ok := in.(*ssa.MakeClosure); ok && mc.Fn == fn {
						bound = mc.Bindings[idx]
						n++
					}
				}
			}
			al, isAlloc := bound.(*ssa.Alloc)
			if n != 1 || !isAlloc {
				return v
			}
			st := StoresTo(al)
			if len(st) != 1 {
				return v
			}
			v = st[0].Val
		default:
			return v
		}
	}
	return v
}

// OnlyThroughPassFlag is OnlyThroughPass made sensitive to one boolean loop flag: flag is a phi of
// bools; a branch on flag (or !flag) takes its "flag is true" edge only if the block holding the phi
// was last entered through an edge whose incoming value is not the constant false. (Handles
// `for !done { …; if cap exceeded {break}; done = x }; if !done {return}; charge`.)
func OnlyThroughPassFlag(fn *ssa.Function, target *ssa.BasicBlock, guards []Guard, flag *ssa.Phi) bool {
	cut := map[Edge]bool{}
	for _, g := range guards {
		cut[g.PassEdge()] = true
	}
	type st struct {
		b *ssa.BasicBlock
		s int // 1: flag known false, 2: maybe true
	}
	if len(fn.Blocks) == 0 {
		return false
	}
	seen := map[st]bool{}
	work := []st{{fn.Blocks[0], 2}}
	for len(work) > 0 {
		x := work[len(work)-1]
		work = work[:len(work)-1]
		if seen[x] {
			continue
		}
		seen[x] = true
		if x.b == target {
			return false
		}
		trueEdge := -1
		if len(x.b.Instrs) > 0 {
			if iff, ok := x.b.Instrs[len(x.b.Instrs)-1].(*ssa.If); ok {
				if iff.Cond == Value(flag) {
					trueEdge = 0
				} else if u, isU := iff.Cond.(*ssa.UnOp); isU && u.Op == token.NOT && u.X == Value(flag) {
					trueEdge = 1
				}
			}
		}
		for i, s := range x.b.Succs {
			if cut[Edge{x.b, i}] {
				continue
			}
			if i == trueEdge && x.s == 1 {
				continue
			}
			ns := x.s
			if s == flag.Block() {
				ns = 2
				for pi, pr := range s.Preds {
					if pr == x.b && pi < len(flag.Edges) {
						if c, ok := flag.Edges[pi].(*ssa.Const); ok && c.Value != nil && c.Value.String() == "false" {
							ns = 1
						} else {
							ns = 2
						}
						break
					}
				}
			}
			work = append(work, st{s, ns})
		}
	}
	return true
}

// Value is a helper to compare an ssa.Value-implementing pointer with interface values.
func Value(v ssa.Value) ssa.Value { return v }

// OnlyThroughPassRet is OnlyThroughPass for a return: a success at ret implies one of the guards held.
// A TailRet guard for this very return discharges it (the return yields the checked call's own error).
func OnlyThroughPassRet(fn *ssa.Function, ret *ssa.Return, guards []Guard) bool {
	for _, g := range guards {
		if g.TailRet != nil && g.TailRet == ret {
			return true
		}
	}
	return OnlyThroughPass(fn, ret.Block(), guards)
}

// CellValue looks through a load of a local cell (a named result or a variable spilled to the heap
// because a closure captures it — what `defer func(){ recover() … }()` does to every `err`) to the
// value the reaching store put there: the last store before the load in its own block, else the
// nearest store in a dominating block, provided no other store to the cell lies on a path between
// the two. Anything else is returned unchanged.
func CellValue(v ssa.Value) ssa.Value {
	for depth := 0; depth < 6; depth++ {
		v = Unwrap(v)
		u, ok := v.(*ssa.UnOp)
		if !ok || u.Op != token.MUL {
			return v
		}
		a, ok := u.X.(*ssa.Alloc)
		if !ok {
			return v
		}
		st := reachingStore(a, u)
		if st == nil {
			return v
		}
		v = st.Val
	}
	return v
}

func reachingStore(a *ssa.Alloc, load *ssa.UnOp) *ssa.Store {
	lb := load.Block()
	li := InstrIndex(load)
	// same block, before the load
	for i := li - 1; i >= 0; i-- {
		if s, ok := lb.Instrs[i].(*ssa.Store); ok && s.Addr == ssa.Value(a) {
			return s
		}
		if c, ok := lb.Instrs[i].(ssa.CallInstruction); ok && cellEscapesTo(a, c) {
			return nil
		}
	}
	stores := StoresTo(a)
	var best *ssa.Store
	for d := lb.Idom(); d != nil && best == nil; d = d.Idom() {
		for i := len(d.Instrs) - 1; i >= 0; i-- {
			if s, ok := d.Instrs[i].(*ssa.Store); ok && s.Addr == ssa.Value(a) {
				best = s
				break
			}
		}
	}
	if best == nil {
		return nil
	}
	fromBest := ReachAvoiding(lb.Parent(), best.Block(), nil, nil)
	loadInLoop := false
	for _, s := range lb.Succs {
		if ReachAvoiding(lb.Parent(), s, nil, nil)[lb] {
			loadInLoop = true
		}
	}
	for _, s := range stores {
		if s == best {
			continue
		}
		sb := s.Block()
		if sb == best.Block() {
			if InstrIndex(s) > InstrIndex(best) {
				return nil
			}
			continue
		}
		if sb == lb {
			if InstrIndex(s) < li || loadInLoop {
				return nil
			}
			continue
		}
		if fromBest[sb] && ReachAvoiding(lb.Parent(), sb, nil, nil)[lb] {
			return nil
		}
	}
	return best
}

// cellEscapesTo: the call may write the cell (it receives its address, or is a closure that binds it).
func cellEscapesTo(a *ssa.Alloc, c ssa.CallInstruction) bool {
	for _, arg := range c.Common().Args {
		if arg == ssa.Value(a) {
			return true
		}
	}
	if mc, ok := c.Common().Value.(*ssa.MakeClosure); ok {
		for _, b := range mc.Bindings {
			if b == ssa.Value(a) {
				return true
			}
		}
	}
	return false
}
